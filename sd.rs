#![allow(non_snake_case, unused_imports, unused_variables, dead_code, unused_mut, unreachable_code, unused_parens, non_camel_case_types, unused_assignments)]
use vstd::prelude::*;
use vstd::std_specs::convert::*;
verus! {
pub mod pre {
use vstd::prelude::*;
// ---- include prelude/base.rs
// ===========================================================================
// prelude/base.rs — assumed contracts on std / helper stand-ins (trusted base)
// Every `external_body`, `assume_specification`, `axiom` in the prelude is an
// ASSUMPTION and is enumerated in the evidence files.
// ===========================================================================

/// R4: every panic!/unreachable!/todo!/unimplemented! site becomes a call of
/// this function; its precondition `false` turns the site into a named
/// reachability obligation.
#[verifier::external_body]
pub fn vpanic() -> !
    requires false,
{
    panic!()
}

/// R4b: a panic site that the unit file declares as accepted behaviour (with
/// the reason); control does not continue, nothing is assumed about inputs.
#[verifier::external_body]
pub fn vabort() -> !
{
    panic!()
}

/// R3: `format!(..)` — message text only; no postcondition, so no proof can
/// depend on it.
#[verifier::external_body]
pub fn opaque_string() -> String {
    String::new()
}

// ---- io::Error --------------------------------------------------------
// std::io::Error is an opaque value; constructing one has no observable
// effect on the state contracts talk about.
#[verifier::external_body]
#[derive(Debug)]
pub struct Error { _p: () }

pub type Result<T> = core::result::Result<T, Error>;

impl Error {
    #[verifier::external_body]
    pub fn other<E>(_e: E) -> Error { Error { _p: () } }
}

/// `sos_core::encoding::encoding_error` (wraps any error into io::Error)
#[verifier::external_body]
pub fn encoding_error<E>(_e: E) -> Error { Error { _p: () } }

/// error payload of `<[u8] as TryInto<[u8;N]>>`
#[derive(Debug)]
pub struct TryFromSliceError { pub _p: () }

/// R12: `$s.as_slice().try_into()` with target `[u8; N]` — std meaning:
/// Ok iff the slice has exactly N elements, and then the array holds them.
#[verifier::external_body]
pub fn slice_to_array<const N: usize>(s: &[u8]) -> (r: core::result::Result<[u8; N], TryFromSliceError>)
    ensures
        r.is_ok() <==> s@.len() == N,
        r.is_ok() ==> r.unwrap()@ == s@,
{
    match <[u8; N]>::try_from(s) { Ok(a) => Ok(a), Err(_) => Err(TryFromSliceError { _p: () }) }
}

/// R12c: `Vec::with_capacity(n)`.  Same result as std; the precondition is the
/// C15 obligation [alloc_proportional]: a capacity taken from input must be
/// bounded (16 MiB, the codec's max_buffer_size).
pub fn vec_with_capacity_checked<T>(n: usize) -> (v: Vec<T>)
    requires n <= 16777216,
    ensures v@.len() == 0,
{
    Vec::with_capacity(n)
}

// ---- utf-8 --------------------------------------------------------------
pub uninterp spec fn utf8(s: Seq<char>) -> Seq<u8>;
pub uninterp spec fn utf8_dec(b: Seq<u8>) -> Option<Seq<char>>;

/// Assumption UTF8: String::from_utf8 / str::as_bytes are mutually inverse.
pub broadcast axiom fn axiom_utf8_roundtrip(s: Seq<char>)
    ensures #[trigger] utf8_dec(utf8(s)) == Some(s);

pub broadcast axiom fn axiom_utf8_dec_sound(b: Seq<u8>)
    ensures (#[trigger] utf8_dec(b)) matches Some(s) ==> utf8(s) == b;

// ---- little endian ------------------------------------------------------
pub open spec fn le16(x: u16) -> Seq<u8> {
    seq![(x & 0xff) as u8, ((x >> 8) & 0xff) as u8]
}
pub open spec fn le32(x: u32) -> Seq<u8> {
    seq![(x & 0xff) as u8, ((x >> 8) & 0xff) as u8, ((x >> 16) & 0xff) as u8, ((x >> 24) & 0xff) as u8]
}
pub open spec fn le64(x: u64) -> Seq<u8> {
    seq![(x & 0xff) as u8, ((x >> 8) & 0xff) as u8, ((x >> 16) & 0xff) as u8, ((x >> 24) & 0xff) as u8,
         ((x >> 32) & 0xff) as u8, ((x >> 40) & 0xff) as u8, ((x >> 48) & 0xff) as u8, ((x >> 56) & 0xff) as u8]
}
pub open spec fn de16(s: Seq<u8>) -> u16 {
    (s[0] as u16) | ((s[1] as u16) << 8)
}
pub open spec fn de32(s: Seq<u8>) -> u32 {
    (s[0] as u32) | ((s[1] as u32) << 8) | ((s[2] as u32) << 16) | ((s[3] as u32) << 24)
}
pub open spec fn de64(s: Seq<u8>) -> u64 {
    (s[0] as u64) | ((s[1] as u64) << 8) | ((s[2] as u64) << 16) | ((s[3] as u64) << 24)
    | ((s[4] as u64) << 32) | ((s[5] as u64) << 40) | ((s[6] as u64) << 48) | ((s[7] as u64) << 56)
}

pub proof fn lemma_le16(x: u16)
    ensures le16(x).len() == 2, de16(le16(x)) == x,
{
    assert((((x & 0xff) as u8) as u16) | ((((x >> 8) & 0xff) as u8 as u16) << 8) == x) by(bit_vector);
}
pub proof fn lemma_le32(x: u32)
    ensures le32(x).len() == 4, de32(le32(x)) == x,
{
    assert((((x & 0xff) as u8) as u32) | ((((x >> 8) & 0xff) as u8 as u32) << 8)
        | ((((x >> 16) & 0xff) as u8 as u32) << 16) | ((((x >> 24) & 0xff) as u8 as u32) << 24) == x) by(bit_vector);
}
pub proof fn lemma_le64(x: u64)
    ensures le64(x).len() == 8, de64(le64(x)) == x,
{
    assert((((x & 0xff) as u8) as u64) | ((((x >> 8) & 0xff) as u8 as u64) << 8)
        | ((((x >> 16) & 0xff) as u8 as u64) << 16) | ((((x >> 24) & 0xff) as u8 as u64) << 24)
        | ((((x >> 32) & 0xff) as u8 as u64) << 32) | ((((x >> 40) & 0xff) as u8 as u64) << 40)
        | ((((x >> 48) & 0xff) as u8 as u64) << 48) | ((((x >> 56) & 0xff) as u8 as u64) << 56) == x) by(bit_vector);
}

// ---- include prelude/binary_stream.rs
// ===========================================================================
// prelude/binary_stream.rs — stand-in for binary_stream::futures (v10.0.0,
// src/futures/mod.rs) with Options { endian: Little, max_buffer_size: 16 MiB }
// (sos_core::encoding::encoding_options).  Model: a byte sequence and a cursor.
// Unchecked: I/O failures of the underlying stream other than end-of-data;
// short writes of AsyncWriteExt::write (none for BufWriter<Cursor<Vec<u8>>>).
// ===========================================================================

pub trait AsyncRead {}
pub trait AsyncWrite {}
pub trait AsyncSeek {}

pub spec const MAX_BUFFER_SIZE: nat = 16777216;

pub enum SeekFrom { Start(u64), End(i64), Current(i64) }

pub ghost struct Stream { pub bytes: Seq<u8>, pub pos: nat }

/// overwrite-at-cursor, extending at the end (std::io::Cursor<Vec<u8>> write)
#[verifier::opaque]
pub open spec fn splice(b: Seq<u8>, pos: nat, d: Seq<u8>) -> Seq<u8> {
    if pos + d.len() >= b.len() {
        b.subrange(0, pos as int) + d
    } else {
        b.subrange(0, pos as int) + d + b.subrange((pos + d.len()) as int, b.len() as int)
    }
}

pub open spec fn wr(s: Stream, d: Seq<u8>) -> Stream {
    Stream { bytes: splice(s.bytes, s.pos, d), pos: s.pos + d.len() }
}

impl Stream {
    pub open spec fn wf(self) -> bool { self.pos <= self.bytes.len() }
    pub open spec fn rest(self) -> Seq<u8> { self.bytes.subrange(self.pos as int, self.bytes.len() as int) }
    pub open spec fn has(self, n: nat) -> bool { self.pos + n <= self.bytes.len() }
    pub open spec fn take(self, n: nat) -> Seq<u8> { self.bytes.subrange(self.pos as int, (self.pos + n) as int) }
    pub open spec fn adv(self, n: nat) -> Stream { Stream { bytes: self.bytes, pos: self.pos + n } }
}

#[verifier::external_body]
#[verifier::reject_recursive_types(W)]
pub struct BinaryWriter<W> { _w: core::marker::PhantomData<W> }

impl<W> View for BinaryWriter<W> {
    type V = Stream;
    uninterp spec fn view(&self) -> Stream;
}

impl<W> BinaryWriter<W> {
    #[verifier::external_body]
    pub fn stream_position(&mut self) -> (r: Result<u64>)
        requires old(self)@.wf(),
        ensures final(self)@ == old(self)@, r.is_ok() ==> r.unwrap() == old(self)@.pos,
    { unimplemented!() }

    #[verifier::external_body]
    pub fn seek(&mut self, to: SeekFrom) -> (r: Result<u64>)
        requires old(self)@.wf(), to is Start, to->Start_0 <= old(self)@.bytes.len(),
        ensures r.is_ok() ==> final(self)@.wf(), r.is_ok() ==> final(self)@ == (Stream { bytes: old(self)@.bytes, pos: to->Start_0 as nat }),
    { unimplemented!() }

    #[verifier::external_body]
    pub fn write_u8(&mut self, v: u8) -> (r: Result<usize>)
        requires old(self)@.wf(),
        ensures r.is_ok() ==> final(self)@.wf(), r.is_ok() ==> final(self)@ == wr(old(self)@, seq![v]),
    { unimplemented!() }

    #[verifier::external_body]
    pub fn write_bool(&mut self, v: bool) -> (r: Result<usize>)
        requires old(self)@.wf(),
        ensures r.is_ok() ==> final(self)@.wf(), r.is_ok() ==> final(self)@ == wr(old(self)@, seq![if v { 1u8 } else { 0u8 }]),
    { unimplemented!() }

    #[verifier::external_body]
    pub fn write_u16(&mut self, v: u16) -> (r: Result<usize>)
        requires old(self)@.wf(),
        ensures r.is_ok() ==> final(self)@.wf(), r.is_ok() ==> final(self)@ == wr(old(self)@, le16(v)),
    { unimplemented!() }

    #[verifier::external_body]
    pub fn write_u32(&mut self, v: u32) -> (r: Result<usize>)
        requires old(self)@.wf(),
        ensures r.is_ok() ==> final(self)@.wf(), r.is_ok() ==> final(self)@ == wr(old(self)@, le32(v)),
    { unimplemented!() }

    #[verifier::external_body]
    pub fn write_u64(&mut self, v: u64) -> (r: Result<usize>)
        requires old(self)@.wf(),
        ensures r.is_ok() ==> final(self)@.wf(), r.is_ok() ==> final(self)@ == wr(old(self)@, le64(v)),
    { unimplemented!() }

    #[verifier::external_body]
    pub fn write_i64(&mut self, v: i64) -> (r: Result<usize>)
        requires old(self)@.wf(),
        ensures r.is_ok() ==> final(self)@.wf(), r.is_ok() ==> final(self)@ == wr(old(self)@, le64(v as u64)),
    { unimplemented!() }

    /// guard_size!: refuses more than 16 MiB
    #[verifier::external_body]
    pub fn write_bytes<B: BytesLike>(&mut self, data: B) -> (r: Result<usize>)
        requires old(self)@.wf(),
        ensures
            r.is_ok() ==> final(self)@.wf(),
            r.is_ok() ==> final(self)@ == wr(old(self)@, data.bytes()) && data.bytes().len() <= MAX_BUFFER_SIZE,
    { unimplemented!() }

    #[verifier::external_body]
    pub fn write_string<S: StrLike>(&mut self, value: S) -> (r: Result<usize>)
        requires old(self)@.wf(),
        ensures
            r.is_ok() ==> final(self)@.wf(),
            r.is_ok() ==> final(self)@ == wr(old(self)@, le32(utf8(value.chars()).len() as u32) + utf8(value.chars()))
                && utf8(value.chars()).len() <= MAX_BUFFER_SIZE,
    { unimplemented!() }
}

/// `B: AsRef<[u8]>` arguments of write_bytes
pub trait BytesLike {
    spec fn bytes(&self) -> Seq<u8>;
}
impl BytesLike for &Vec<u8> { open spec fn bytes(&self) -> Seq<u8> { (*self)@ } }
impl BytesLike for &[u8] { open spec fn bytes(&self) -> Seq<u8> { (*self)@ } }
impl<const N: usize> BytesLike for &[u8; N] { open spec fn bytes(&self) -> Seq<u8> { (*self)@ } }
impl<const N: usize> BytesLike for [u8; N] { open spec fn bytes(&self) -> Seq<u8> { self@ } }

/// `S: AsRef<str>` arguments of write_string
pub trait StrLike {
    spec fn chars(&self) -> Seq<char>;
}
impl StrLike for &String { open spec fn chars(&self) -> Seq<char> { (*self)@ } }
impl StrLike for &str { open spec fn chars(&self) -> Seq<char> { (*self)@ } }

// ---- functional reading primitives over the unread input -------------------
pub open spec fn take_n(s: Seq<u8>, n: nat) -> Option<(Seq<u8>, Seq<u8>)> {
    if s.len() >= n { Some((s.subrange(0, n as int), s.subrange(n as int, s.len() as int))) } else { None }
}
pub open spec fn r_u8(s: Seq<u8>) -> Option<(u8, Seq<u8>)> {
    match take_n(s, 1) { Some((b, t)) => Some((b[0], t)), None => None }
}
pub open spec fn r_bool(s: Seq<u8>) -> Option<(bool, Seq<u8>)> {
    match take_n(s, 1) { Some((b, t)) => Some((b[0] > 0, t)), None => None }
}
pub open spec fn r_u16(s: Seq<u8>) -> Option<(u16, Seq<u8>)> {
    match take_n(s, 2) { Some((b, t)) => Some((de16(b), t)), None => None }
}
pub open spec fn r_u32(s: Seq<u8>) -> Option<(u32, Seq<u8>)> {
    match take_n(s, 4) { Some((b, t)) => Some((de32(b), t)), None => None }
}
pub open spec fn r_u64(s: Seq<u8>) -> Option<(u64, Seq<u8>)> {
    match take_n(s, 8) { Some((b, t)) => Some((de64(b), t)), None => None }
}
pub open spec fn r_i64(s: Seq<u8>) -> Option<(i64, Seq<u8>)> {
    match take_n(s, 8) { Some((b, t)) => Some((de64(b) as i64, t)), None => None }
}
/// read_bytes: guard_size! (16 MiB) then read_exact
pub open spec fn r_bytes(s: Seq<u8>, n: nat) -> Option<(Seq<u8>, Seq<u8>)> {
    if n > MAX_BUFFER_SIZE { None } else { take_n(s, n) }
}
/// read_string: u32 length, guard_size!, read_exact, String::from_utf8
pub open spec fn r_string(s: Seq<u8>) -> Option<(Seq<char>, Seq<u8>)> {
    match r_u32(s) {
        None => None,
        Some((n, t)) => match r_bytes(t, n as nat) {
            None => None,
            Some((b, u)) => match utf8_dec(b) { None => None, Some(cs) => Some((cs, u)) },
        },
    }
}

pub broadcast proof fn lemma_take_n_concat(a: Seq<u8>, b: Seq<u8>)
    ensures #[trigger] take_n(a + b, a.len()) == Some((a, b)),
{
    assert((a + b).subrange(0, a.len() as int) =~= a);
    assert((a + b).subrange(a.len() as int, (a + b).len() as int) =~= b);
}

#[verifier::external_body]
#[verifier::reject_recursive_types(R)]
pub struct BinaryReader<R> { _r: core::marker::PhantomData<R> }

impl<R> View for BinaryReader<R> {
    type V = Stream;
    uninterp spec fn view(&self) -> Stream;
}

/// effect of a successful read that leaves `t` unread
pub open spec fn rd(old: Stream, new: Stream, t: Seq<u8>) -> bool {
    new.bytes == old.bytes && new.wf() && new.rest() == t && new.pos == old.pos + (old.rest().len() - t.len())
        && t.len() <= old.rest().len()
}

impl<R> BinaryReader<R> {
    #[verifier::external_body]
    pub fn stream_position(&mut self) -> (r: Result<u64>)
        requires old(self)@.wf(),
        ensures final(self)@ == old(self)@, r.is_ok(), r.unwrap() == old(self)@.pos,
    { unimplemented!() }

    #[verifier::external_body]
    pub fn len(&mut self) -> (r: Result<u64>)
        requires old(self)@.wf(),
        ensures final(self)@ == old(self)@, r.is_ok(), r.unwrap() == old(self)@.bytes.len(),
    { unimplemented!() }

    #[verifier::external_body]
    pub fn seek(&mut self, to: SeekFrom) -> (r: Result<u64>)
        requires old(self)@.wf(), to is Start, to->Start_0 <= old(self)@.bytes.len(),
        ensures r.is_ok() ==> final(self)@.wf(), r.is_ok() ==> final(self)@ == (Stream { bytes: old(self)@.bytes, pos: to->Start_0 as nat }),
    { unimplemented!() }

    #[verifier::external_body]
    pub fn read_u8(&mut self) -> (r: Result<u8>)
        requires old(self)@.wf(),
        ensures
            r.is_ok() <==> r_u8(old(self)@.rest()).is_some(),
            r.is_ok() ==> r_u8(old(self)@.rest()).unwrap().0 == r.unwrap() && rd(old(self)@, final(self)@, r_u8(old(self)@.rest()).unwrap().1),
            final(self)@.bytes == old(self)@.bytes, final(self)@.wf(),
    { unimplemented!() }

    #[verifier::external_body]
    pub fn read_bool(&mut self) -> (r: Result<bool>)
        requires old(self)@.wf(),
        ensures
            r.is_ok() <==> r_bool(old(self)@.rest()).is_some(),
            r.is_ok() ==> r_bool(old(self)@.rest()).unwrap().0 == r.unwrap() && rd(old(self)@, final(self)@, r_bool(old(self)@.rest()).unwrap().1),
            final(self)@.bytes == old(self)@.bytes, final(self)@.wf(),
    { unimplemented!() }

    #[verifier::external_body]
    pub fn read_u16(&mut self) -> (r: Result<u16>)
        requires old(self)@.wf(),
        ensures
            r.is_ok() <==> r_u16(old(self)@.rest()).is_some(),
            r.is_ok() ==> r_u16(old(self)@.rest()).unwrap().0 == r.unwrap() && rd(old(self)@, final(self)@, r_u16(old(self)@.rest()).unwrap().1),
            final(self)@.bytes == old(self)@.bytes, final(self)@.wf(),
    { unimplemented!() }

    #[verifier::external_body]
    pub fn read_u32(&mut self) -> (r: Result<u32>)
        requires old(self)@.wf(),
        ensures
            r.is_ok() <==> r_u32(old(self)@.rest()).is_some(),
            r.is_ok() ==> r_u32(old(self)@.rest()).unwrap().0 == r.unwrap() && rd(old(self)@, final(self)@, r_u32(old(self)@.rest()).unwrap().1),
            final(self)@.bytes == old(self)@.bytes, final(self)@.wf(),
    { unimplemented!() }

    #[verifier::external_body]
    pub fn read_u64(&mut self) -> (r: Result<u64>)
        requires old(self)@.wf(),
        ensures
            r.is_ok() <==> r_u64(old(self)@.rest()).is_some(),
            r.is_ok() ==> r_u64(old(self)@.rest()).unwrap().0 == r.unwrap() && rd(old(self)@, final(self)@, r_u64(old(self)@.rest()).unwrap().1),
            final(self)@.bytes == old(self)@.bytes, final(self)@.wf(),
    { unimplemented!() }

    #[verifier::external_body]
    pub fn read_i64(&mut self) -> (r: Result<i64>)
        requires old(self)@.wf(),
        ensures
            r.is_ok() <==> r_i64(old(self)@.rest()).is_some(),
            r.is_ok() ==> r_i64(old(self)@.rest()).unwrap().0 == r.unwrap() && rd(old(self)@, final(self)@, r_i64(old(self)@.rest()).unwrap().1),
            final(self)@.bytes == old(self)@.bytes, final(self)@.wf(),
    { unimplemented!() }

    /// guard_size! then vec![0; n] then read_exact
    #[verifier::external_body]
    pub fn read_bytes(&mut self, length: usize) -> (r: Result<Vec<u8>>)
        requires old(self)@.wf(),
        ensures
            r.is_ok() <==> r_bytes(old(self)@.rest(), length as nat).is_some(),
            r.is_ok() ==> r_bytes(old(self)@.rest(), length as nat).unwrap().0 == r.unwrap()@ && r.unwrap()@.len() == length
                && rd(old(self)@, final(self)@, r_bytes(old(self)@.rest(), length as nat).unwrap().1),
            final(self)@.bytes == old(self)@.bytes, final(self)@.wf(),
    { unimplemented!() }

    /// u32 length, guard_size!, read_exact, String::from_utf8
    #[verifier::external_body]
    pub fn read_string(&mut self) -> (r: Result<String>)
        requires old(self)@.wf(),
        ensures
            r.is_ok() <==> r_string(old(self)@.rest()).is_some(),
            r.is_ok() ==> r_string(old(self)@.rest()).unwrap().0 == r.unwrap()@ && rd(old(self)@, final(self)@, r_string(old(self)@.rest()).unwrap().1),
            final(self)@.bytes == old(self)@.bytes, final(self)@.wf(),
    { unimplemented!() }
}

// ---- the two codec traits, with the C14/C15 contract -----------------------
// enc():   the encoding *function* (determinism = the real encoder equals it)
// dec(s):  the decoding function on the unread input: value view + bytes used
pub trait Encodable {
    type EV;
    spec fn eview(&self) -> Self::EV;
    spec fn enc_of(v: Self::EV) -> Seq<u8>;
    spec fn enc_valid(v: Self::EV) -> bool;

    fn encode<W: AsyncWrite + AsyncSeek + Unpin + Send>(&self, writer: &mut BinaryWriter<W>) -> (r: Result<()>)
        requires old(writer)@.wf(),
        ensures
            r.is_ok() ==> final(writer)@.wf(),
            r.is_ok() ==> final(writer)@ == wr(old(writer)@, Self::enc_of(self.eview())), /*@TL:Encodable::encode:encode_writes_exactly_enc_fn*/
            r.is_ok() ==> Self::enc_valid(self.eview()); /*@TL:Encodable::encode:encode_ok_only_for_valid*/
}

pub trait Decodable {
    type DV;
    spec fn dview(&self) -> Self::DV;
    /// decoding function on the unread input: (value view, input left unread)
    spec fn dec_of(s: Seq<u8>) -> Option<(Self::DV, Seq<u8>)>;
    /// what `decode` needs of the receiver before the call (Vec<T> appends)
    spec fn dec_ready(&self) -> bool;

    fn decode<R: AsyncRead + AsyncSeek + Unpin + Send>(&mut self, reader: &mut BinaryReader<R>) -> (r: Result<()>)
        requires old(reader)@.wf(), old(self).dec_ready(),
        ensures
            final(reader)@.wf(), final(reader)@.bytes == old(reader)@.bytes,
            r.is_ok() <==> Self::dec_of(old(reader)@.rest()).is_some(), /*@TL:Decodable::decode:decode_accepts_exactly_dec_fn*/
            r.is_ok() ==> Self::dec_of(old(reader)@.rest()).unwrap().0 == final(self).dview() /*@TL:Decodable::decode:decode_value_is_dec_fn*/
                && rd(old(reader)@, final(reader)@, Self::dec_of(old(reader)@.rest()).unwrap().1);
}

pub broadcast proof fn lemma_wr_wr(s: Stream, a: Seq<u8>, b: Seq<u8>)
    requires s.wf(),
    ensures #[trigger] wr(wr(s, a), b) == wr(s, a + b),
{
    reveal(splice);
    assert(wr(wr(s, a), b).bytes =~= wr(s, a + b).bytes);
}

/// back-patching: overwriting the first |a| bytes of what was just written
pub proof fn lemma_backpatch(s: Stream, a: Seq<u8>, b: Seq<u8>, a2: Seq<u8>)
    requires s.wf(), a.len() == a2.len(),
    ensures
        wr(Stream { bytes: wr(s, a + b).bytes, pos: s.pos }, a2).bytes == wr(s, a2 + b).bytes,
        wr(s, a + b).bytes.len() >= s.pos + a.len() + b.len(),
{
    reveal(splice);
    assert(wr(Stream { bytes: wr(s, a + b).bytes, pos: s.pos }, a2).bytes =~= wr(s, a2 + b).bytes);
}

pub broadcast proof fn lemma_wr_len(s: Stream, d: Seq<u8>)
    requires s.wf(),
    ensures (#[trigger] wr(s, d)).bytes.len() == (if s.pos + d.len() >= s.bytes.len() { s.pos + d.len() } else { s.bytes.len() }),
{
    reveal(splice);
}

/// writing at the end of the stream appends
pub proof fn lemma_wr_at_end(s: Stream, d: Seq<u8>)
    requires s.pos == s.bytes.len(),
    ensures wr(s, d).bytes == s.bytes + d, wr(s, d).pos == wr(s, d).bytes.len(),
{
    reveal(splice);
    assert(wr(s, d).bytes =~= s.bytes + d);
}

pub broadcast group group_binary_stream { lemma_take_n_concat, lemma_wr_wr, lemma_wr_len, axiom_utf8_roundtrip, axiom_utf8_dec_sound }

// ---- include prelude/types.rs
// ===========================================================================
// prelude/types.rs — stand-ins for small third-party value types
// ===========================================================================

/// uuid::Uuid — 16 bytes (uuid-1.x: as_bytes / from_bytes are field access)
#[derive(Clone, Copy, Default)]
pub struct Uuid(pub [u8; 16]);
impl Uuid {
    pub fn as_bytes(&self) -> (r: &[u8; 16])
        ensures *r == self.0,
    { &self.0 }
    pub fn from_bytes(b: [u8; 16]) -> (r: Uuid)
        ensures r.0 == b,
    { Uuid(b) }
}
pub type SecretId = Uuid;
pub type VaultId = Uuid;

/// bitflags! { struct VaultFlags: u64 } in crates/core/src/lib.rs — code behind a
/// macro; stand-in with the macro's documented meaning: from_bits accepts
/// exactly the values whose set bits are all defined flags (bits 0..=9).
#[derive(Clone, Copy, Default)]
pub struct VaultFlags { pub b: u64 }
pub spec const VAULT_FLAGS_ALL: u64 = 0x3ff;
impl VaultFlags {
    /// Assumed type invariant: a VaultFlags value holds defined bits only
    /// (bitflags constructors other than from_bits_retain keep this;
    /// from_bits_retain is not used in /repo — checked by the assumption scan).
    #[verifier::external_body]
    pub fn bits(&self) -> (r: u64)
        ensures r == self.b, (r & !VAULT_FLAGS_ALL) == 0,
    { self.b }
    #[verifier::external_body]
    pub fn from_bits(x: u64) -> (r: Option<VaultFlags>)
        ensures
            r.is_some() <==> (x & !VAULT_FLAGS_ALL) == 0,
            r.is_some() ==> r.unwrap().b == x,
    { if x & !0x3ff == 0 { Some(VaultFlags { b: x }) } else { None } }
    pub open spec fn wf(self) -> bool { (self.b & !VAULT_FLAGS_ALL) == 0 }
}

// ---- time crate (0.3, default range: years -9999..=9999) ---------------------
pub spec const TS_MIN: int = -377705116800;
pub spec const TS_MAX: int = 253402300799;

/// time::OffsetDateTime in UTC, viewed as (unix seconds, nanosecond)
#[verifier::external_body]
#[derive(Clone, Copy)]
pub struct OffsetDateTime { _p: () }
pub ghost struct Instant { pub secs: int, pub nanos: int }
impl View for OffsetDateTime {
    type V = Instant;
    uninterp spec fn view(&self) -> Instant;
}
#[derive(Debug)]
pub struct ComponentRange { pub _p: () }
#[verifier::external_body]
#[derive(Clone, Copy)]
pub struct Duration { _p: () }
impl View for Duration {
    type V = int;   // whole nanoseconds
    uninterp spec fn view(&self) -> int;
}
impl Duration {
    #[verifier::external_body]
    pub fn nanoseconds(n: i64) -> (r: Duration)
        ensures r@ == n,
    { unimplemented!() }
}
pub open spec fn instant_wf(i: Instant) -> bool {
    TS_MIN <= i.secs <= TS_MAX && 0 <= i.nanos < 1_000_000_000
}
pub open spec fn instant_add(i: Instant, nanos: int) -> Instant {
    let total = i.nanos + nanos;
    Instant { secs: i.secs + total / 1_000_000_000, nanos: total % 1_000_000_000 }
}
impl OffsetDateTime {
    #[verifier::external_body]
    pub fn now_utc() -> (r: OffsetDateTime)
        ensures instant_wf(r@),
    { unimplemented!() }
    /// Err(ComponentRange) outside the supported range
    #[verifier::external_body]
    pub fn from_unix_timestamp(s: i64) -> (r: core::result::Result<OffsetDateTime, ComponentRange>)
        ensures
            r.is_ok() <==> TS_MIN <= s <= TS_MAX,
            r.is_ok() ==> r.unwrap()@ == (Instant { secs: s as int, nanos: 0 }),
    { unimplemented!() }
    #[verifier::external_body]
    pub fn unix_timestamp(self) -> (r: i64)
        ensures r == self@.secs, instant_wf(self@),
    { unimplemented!() }
    #[verifier::external_body]
    pub fn nanosecond(self) -> (r: u32)
        ensures r == self@.nanos, instant_wf(self@),
    { unimplemented!() }
    /// checked_add: None when the sum leaves the supported range
    #[verifier::external_body]
    pub fn checked_add(self, d: Duration) -> (r: Option<OffsetDateTime>)
        ensures
            instant_wf(self@) ==> (r.is_some() <==> instant_wf(instant_add(self@, d@))),
            r.is_some() ==> r.unwrap()@ == instant_add(self@, d@),
    { unimplemented!() }
}

// ---- include prelude/codec_ext.rs
// ===========================================================================
// prelude/codec_ext.rs — further dependency stand-ins used by the codec units
// ===========================================================================

// ---- rs_merkle::MerkleProof<Sha256> serialisation (rs_merkle-1.5.0
// src/merkle_proof.rs to_bytes/from_bytes, src/proof_serializers/
// direct_hashes_order.rs): a proof is its list of 32-byte hashes; to_bytes is
// their concatenation; from_bytes accepts exactly multiples of 32 bytes.
pub struct Sha256 {}
#[verifier::external_body]
#[verifier::reject_recursive_types(T)]
pub struct MerkleProof<T> { _p: core::marker::PhantomData<T> }
impl<T> View for MerkleProof<T> {
    type V = Seq<u8>;     // concatenated proof hashes
    uninterp spec fn view(&self) -> Seq<u8>;
}
#[derive(Debug)]
pub struct MerkleError { pub _p: () }
pub open spec fn flatten32(h: Seq<[u8; 32]>) -> Seq<u8>
    decreases h.len(),
{
    if h.len() == 0 { Seq::<u8>::empty() } else { h[0]@ + flatten32(h.subrange(1, h.len() as int)) }
}
impl<T> MerkleProof<T> {
    #[verifier::external_body]
    pub fn to_bytes(&self) -> (r: Vec<u8>)
        ensures r@ == self@, self@.len() % 32 == 0,
    { unimplemented!() }
    #[verifier::external_body]
    pub fn from_bytes(b: &[u8]) -> (r: core::result::Result<MerkleProof<T>, MerkleError>)
        ensures r.is_ok() <==> b@.len() % 32 == 0, r.is_ok() ==> r.unwrap()@ == b@,
    { unimplemented!() }
    #[verifier::external_body]
    pub fn new(hashes: Vec<[u8; 32]>) -> (r: MerkleProof<T>)
        ensures r@ == flatten32(hashes@),
    { unimplemented!() }
}

// ---- binary_stream's own impls for usize / Vec<usize> (binary-stream-10.0.0
// src/futures/mod.rs: impl_encode_decode!(usize, read_usize, write_usize) — a
// macro expansion, 8 bytes little endian on the 64-bit targets of the baseline;
// impl<T> Encodable/Decodable for Vec<T>: u32 count then the items, decode
// PUSHES onto the receiver).
pub open spec fn enc_usize(x: usize) -> Seq<u8> { le64(x as u64) }
pub open spec fn dec_usize(s: Seq<u8>) -> Option<(usize, Seq<u8>)> {
    match r_u64(s) { None => None, Some((x, t)) => Some((x as usize, t)) }
}
pub open spec fn enc_usize_items(v: Seq<usize>) -> Seq<u8>
    decreases v.len(),
{
    if v.len() == 0 { Seq::<u8>::empty() } else { enc_usize(v[0]) + enc_usize_items(v.subrange(1, v.len() as int)) }
}
pub open spec fn dec_usize_items(s: Seq<u8>, n: nat) -> Option<(Seq<usize>, Seq<u8>)>
    decreases n,
{
    if n == 0 { Some((Seq::<usize>::empty(), s)) } else {
        match dec_usize(s) {
            None => None,
            Some((x, t)) => match dec_usize_items(t, (n - 1) as nat) {
                None => None,
                Some((xs, u)) => Some((seq![x] + xs, u)),
            },
        }
    }
}
pub open spec fn enc_vec_usize(v: Seq<usize>) -> Seq<u8> { le32(v.len() as u32) + enc_usize_items(v) }
pub open spec fn dec_vec_usize(s: Seq<u8>) -> Option<(Seq<usize>, Seq<u8>)> {
    match r_u32(s) { None => None, Some((n, t)) => dec_usize_items(t, n as nat) }
}

impl Encodable for usize {
    type EV = usize;
    open spec fn eview(&self) -> usize { *self }
    open spec fn enc_of(v: usize) -> Seq<u8> { enc_usize(v) }
    open spec fn enc_valid(v: usize) -> bool { true }
    #[verifier::external_body]
    fn encode<W: AsyncWrite + AsyncSeek + Unpin + Send>(&self, writer: &mut BinaryWriter<W>) -> (r: Result<()>) { unimplemented!() }
}
impl Decodable for usize {
    type DV = usize;
    open spec fn dview(&self) -> usize { *self }
    open spec fn dec_of(s: Seq<u8>) -> Option<(usize, Seq<u8>)> { dec_usize(s) }
    open spec fn dec_ready(&self) -> bool { true }
    #[verifier::external_body]
    fn decode<R: AsyncRead + AsyncSeek + Unpin + Send>(&mut self, reader: &mut BinaryReader<R>) -> (r: Result<()>) { unimplemented!() }
}
impl Encodable for Vec<usize> {
    type EV = Seq<usize>;
    open spec fn eview(&self) -> Seq<usize> { self@ }
    open spec fn enc_of(v: Seq<usize>) -> Seq<u8> { enc_vec_usize(v) }
    /// `self.len() as u32` is not guarded by the library
    open spec fn enc_valid(v: Seq<usize>) -> bool { true }
    #[verifier::external_body]
    fn encode<W: AsyncWrite + AsyncSeek + Unpin + Send>(&self, writer: &mut BinaryWriter<W>) -> (r: Result<()>) { unimplemented!() }
}
impl Decodable for Vec<usize> {
    type DV = Seq<usize>;
    open spec fn dview(&self) -> Seq<usize> { self@ }
    open spec fn dec_of(s: Seq<u8>) -> Option<(Seq<usize>, Seq<u8>)> { dec_vec_usize(s) }
    /// decode pushes onto the receiver: the result is the decoded list only for an empty receiver
    open spec fn dec_ready(&self) -> bool { self@.len() == 0 }
    #[verifier::external_body]
    fn decode<R: AsyncRead + AsyncSeek + Unpin + Send>(&mut self, reader: &mut BinaryReader<R>) -> (r: Result<()>) { unimplemented!() }
}

// ---- serde_json for TrustedDevice (DeviceEvent::Trust payload) -----------------
/// sos_core::device::TrustedDevice — carried opaquely; its JSON form is an
/// uninterpreted function.  Assumption JSON: from_slice(to_vec(d)) == d.
#[verifier::external_body]
pub struct TrustedDevice { _p: () }
impl Clone for TrustedDevice {
    #[verifier::external_body]
    fn clone(&self) -> (r: Self)
        ensures r@ == self@,
    { unimplemented!() }
}
pub ghost struct TrustedDeviceV { pub json: Seq<u8> }
impl View for TrustedDevice {
    type V = TrustedDeviceV;
    uninterp spec fn view(&self) -> TrustedDeviceV;
}
pub uninterp spec fn json_parse(b: Seq<u8>) -> Option<TrustedDeviceV>;
pub broadcast axiom fn axiom_json_roundtrip(d: TrustedDeviceV)
    ensures #[trigger] json_parse(d.json) == Some(d);
#[derive(Debug)]
pub struct JsonError { pub _p: () }
impl core::convert::From<JsonError> for Error {
    #[verifier::external_body]
    fn from(e: JsonError) -> Error { unimplemented!() }
}
#[verifier::external_body]
pub fn json_to_vec(d: &TrustedDevice) -> (r: core::result::Result<Vec<u8>, JsonError>)
    ensures r.is_ok() ==> r.unwrap()@ == d@.json,
{ unimplemented!() }
#[verifier::external_body]
pub fn json_from_slice(b: &[u8]) -> (r: core::result::Result<TrustedDevice, JsonError>)
    ensures r.is_ok() <==> json_parse(b@).is_some(), r.is_ok() ==> Some(r.unwrap()@) == json_parse(b@),
{ unimplemented!() }

// ---- include prelude/secretcodec_types.rs
// ===========================================================================
// prelude/secretcodec_types.rs — dependency stand-ins of the unit `secretcodec`
// (crates/vault/src/encoding/secret.rs).  Included inside `mod pre`.  Every
// `external_body` / `axiom` / `uninterp` here is an ASSUMPTION.
// ===========================================================================

/// view of `uuid::Uuid` (struct in prelude/types.rs): its 16 bytes
impl View for Uuid {
    type V = Seq<u8>;
    open spec fn view(&self) -> Seq<u8> { self.0@ }
}

// ---- errors that are only constructed -----------------------------------------
/// `sos_vault::Error` (crates/vault/src/error.rs, a thiserror enum): the
/// variants constructed by the extracted code.
#[derive(Debug)]
pub enum VaultError {
    UnknownSecretKind(u8),
    UnknownIdentityKind(u8),
    InvalidSecretFlags,
    InvalidX25519Identity(String),
}
pub type VResult<T> = core::result::Result<T, VaultError>;

// ---- bitflags! { struct SecretFlags: u32 } (crates/vault/src/secret.rs:31) --------
/// code behind a macro; stand-in with the macro's documented meaning:
/// from_bits accepts exactly the values whose set bits are all defined flags
/// (bit 0, VERIFY).
#[derive(Clone, Copy, Default)]
pub struct SecretFlags { pub b: u32 }
pub spec const SECRET_FLAGS_ALL: u32 = 0x1;
impl SecretFlags {
    /// Assumed type invariant: a SecretFlags value holds defined bits only
    /// (from_bits_retain is not used in /repo).
    #[verifier::external_body]
    pub fn bits(&self) -> (r: u32)
        ensures r == self.b, (r & !SECRET_FLAGS_ALL) == 0,
    { self.b }
    #[verifier::external_body]
    pub fn from_bits(x: u32) -> (r: Option<SecretFlags>)
        ensures
            r.is_some() <==> (x & !SECRET_FLAGS_ALL) == 0,
            r.is_some() ==> r.unwrap().b == x,
    { if x & !0x1 == 0 { Some(SecretFlags { b: x }) } else { None } }
}

// ---- std::collections::HashSet<T> ---------------------------------------------------
/// std HashSet<T, RandomState>.  View: the (finite, vstd `Set`) set of element views.  The
/// ITERATION ORDER is a further, uninterpreted attribute of the exec value
/// (`order`): it depends on the per-instance random hasher keys and on the
/// insertion history, not on the set of elements alone.
#[verifier::external_body]
#[verifier::reject_recursive_types(T)]
pub struct HashSet<T> { _p: core::marker::PhantomData<T> }
impl<T: View> View for HashSet<T> {
    type V = Set<T::V>;
    uninterp spec fn view(&self) -> Set<T::V>;
}
impl<T: View> HashSet<T> {
    /// the element views in the order `iter()` yields them
    pub uninterp spec fn order(&self) -> Seq<T::V>;
}
/// every element exactly once
pub broadcast axiom fn axiom_hashset_order<T: View>(s: HashSet<T>)
    ensures (#[trigger] s.order()).no_duplicates(), s.order().to_set() == s@;

impl<T: View> Default for HashSet<T> {
    #[verifier::external_body]
    fn default() -> (r: Self)
        ensures r@ == Set::<T::V>::empty(),
    { unimplemented!() }
}
impl<T: View> HashSet<T> {
    /// std `HashSet::insert`: adds the value, keeps an equal one already present
    #[verifier::external_body]
    pub fn insert(&mut self, value: T) -> (r: bool)
        ensures final(self)@ == old(self)@.insert(value@), r == !old(self)@.contains(value@),
    { unimplemented!() }
    /// number of elements
    #[verifier::external_body]
    pub fn len(&self) -> (r: usize)
        ensures r == self.order().len(),
    { unimplemented!() }
}
pub open spec fn ref_views<'a, T: View>(s: Seq<&'a T>) -> Seq<T::V> {
    Seq::new(s.len(), |i: int| (*s[i])@)
}
/// `std::collections::hash_set::Iter<'a, T>`
#[verifier::external_body]
#[verifier::reject_recursive_types(T)]
pub struct HashSetIter<'a, T> { _p: core::marker::PhantomData<&'a T> }
impl<'a, T> HashSetIter<'a, T> {
    pub uninterp spec fn rest(&self) -> Seq<&'a T>;
}
impl<'a, T> Iterator for HashSetIter<'a, T> {
    type Item = &'a T;
    #[verifier::external_body]
    fn next(&mut self) -> (r: Option<&'a T>)
    { unimplemented!() }
}
impl<'a, T> vstd::std_specs::iter::IteratorSpecImpl for HashSetIter<'a, T> {
    open spec fn obeys_prophetic_iter_laws(&self) -> bool { true }
    #[verifier::prophetic]
    open spec fn remaining(&self) -> Seq<&'a T> { self.rest() }
    #[verifier::prophetic]
    open spec fn will_return_none(&self) -> bool { true }
    open spec fn decrease(&self) -> Option<nat> { Some(self.rest().len()) }
    open spec fn peek(&self, i: int) -> Option<&'a T> {
        if 0 <= i < self.rest().len() { Some(self.rest()[i]) } else { None }
    }
}
impl<'a, T: View> IntoIterator for &'a HashSet<T> {
    type Item = &'a T;
    type IntoIter = HashSetIter<'a, T>;
    /// `impl IntoIterator for &HashSet`: `self.iter()`
    #[verifier::external_body]
    fn into_iter(self) -> (r: HashSetIter<'a, T>)
        ensures ref_views(r.rest()) == self.order(),
    { unimplemented!() }
}

// ---- urn::Urn (urn-0.7.0 src/owned.rs) ---------------------------------------------
/// View: the URN text (`AsRef<str>` / Display).  `FromStr` validates and
/// NORMALISES (lower-cases scheme and NID): `urn_parse` is uninterpreted.
#[verifier::external_body]
pub struct Urn { _p: () }
impl View for Urn {
    type V = Seq<char>;
    uninterp spec fn view(&self) -> Seq<char>;
}
pub uninterp spec fn urn_parse(s: Seq<char>) -> Option<Seq<char>>;
/// Assumption URN: the text of a Urn value is in normal form — parsing it
/// gives the same Urn back (owned.rs `FromStr`/`Display`).
pub broadcast axiom fn axiom_urn_canonical(u: Urn)
    ensures #[trigger] urn_parse(u@) == Some(u@);
impl StrLike for &Urn { open spec fn chars(&self) -> Seq<char> { (*self)@ } }
#[derive(Debug)]
pub struct UrnError { pub _p: () }
/// R12: `$s.parse()` with target `Urn`
#[verifier::external_body]
pub fn parse_urn(s: &String) -> (r: core::result::Result<Urn, UrnError>)
    ensures r.is_ok() <==> urn_parse(s@).is_some(), r.is_ok() ==> Some(r.unwrap()@) == urn_parse(s@),
{ unimplemented!() }
/// R12: `$s.parse()` with target `String` (`impl FromStr for String`, Err = Infallible)
#[derive(Debug)]
pub struct Infallible { pub _p: () }
#[verifier::external_body]
pub fn parse_string(s: &String) -> (r: core::result::Result<String, Infallible>)
    ensures r.is_ok(), r.unwrap()@ == s@,
{ unimplemented!() }

// ---- secrecy::SecretBox<Vec<u8>> (secrecy-0.10.3 src/lib.rs) -------------------------
/// `SecretBox<S>`: a `Box<S>` that is zeroized on drop; `expose_secret` is
/// `self.inner_secret.as_ref()`.
pub struct SecretBox<S> { pub inner: Box<S> }
impl<S> SecretBox<S> {
    pub fn new(b: Box<S>) -> (r: SecretBox<S>)
        ensures r.inner == b,
    { SecretBox { inner: b } }
    pub fn expose_secret(&self) -> (r: &S)
        ensures *r == *self.inner,
    { &*self.inner }
}

// ---- include prelude/secretcodec_ext.rs
// ===========================================================================
// prelude/secretcodec_ext.rs — stand-ins for the third-party value types met
// in the payloads of `Secret` (crates/vault/src/secret.rs).  Included inside
// `mod pre` after secretcodec_types.rs.  Every `external_body` / `axiom` /
// `uninterp` here is an ASSUMPTION.  The text formats (URL, JSON, PEM, vCard,
// age identity) are uninterpreted functions; what is assumed of them is that
// the crate's own printer and parser are inverse on the crate's own values.
// ===========================================================================

impl StrLike for String { open spec fn chars(&self) -> Seq<char> { self@ } }
impl BytesLike for Vec<u8> { open spec fn bytes(&self) -> Seq<u8> { self@ } }

/// `str::to_string` / `to_owned` (alloc): the same characters
#[verifier::external_body]
pub fn str_to_owned(s: &str) -> (r: String)
    ensures r@ == s@,
{ s.to_owned() }

// ---- secrecy::SecretString = SecretBox<str> (secrecy-0.10.3 src/lib.rs:214) -------------
/// a boxed str that is zeroized on drop; `From<String>` is `into_boxed_str`,
/// `expose_secret` is `as_ref`.  Stand-in: a wrapper of the String.
pub struct SecretString { pub s: String }
impl View for SecretString {
    type V = Seq<char>;
    open spec fn view(&self) -> Seq<char> { self.s@ }
}
impl SecretString {
    pub fn expose_secret(&self) -> (r: &str)
        ensures r@ == self.s@,
    { self.s.as_str() }
}
impl From<String> for SecretString {
    fn from(s: String) -> (r: SecretString)
        ensures r.s == s,
    { SecretString { s } }
}
impl vstd::std_specs::convert::FromSpecImpl<String> for SecretString {
    open spec fn obeys_from_spec() -> bool { true }
    open spec fn from_spec(s: String) -> SecretString { SecretString { s } }
}

// ---- url::Url (url-2.5) -------------------------------------------------------------------
/// View: the serialisation of the URL (`Url::as_str`).
#[verifier::external_body]
pub struct Url { _p: () }
impl View for Url {
    type V = Seq<char>;
    uninterp spec fn view(&self) -> Seq<char>;
}
pub open spec fn urls_view(v: Seq<Url>) -> Seq<Seq<char>> { Seq::new(v.len(), |i: int| v[i]@) }
pub uninterp spec fn url_parse(s: Seq<char>) -> Option<Seq<char>>;
#[derive(Debug)]
pub struct UrlParseError { pub _p: () }
/// R12: `$s.parse::<Url>()`
#[verifier::external_body]
pub fn parse_url(s: &String) -> (r: core::result::Result<Url, UrlParseError>)
    ensures r.is_ok() <==> url_parse(s@).is_some(), r.is_ok() ==> Some(r.unwrap()@) == url_parse(s@),
{ unimplemented!() }
/// R12: `$v.clone()` on Vec<Url> (element-wise clone; vstd has no element-wise spec)
#[verifier::external_body]
pub fn clone_urls(v: &Vec<Url>) -> (r: Vec<Url>)
    ensures urls_view(r@) == urls_view(v@),
{ unimplemented!() }
/// serde_json text of `WebsiteUrl` (untagged: one URL string, or an array of URL strings)
pub uninterp spec fn websites_json(u: Seq<Seq<char>>) -> Seq<char>;
pub uninterp spec fn websites_parse(s: Seq<char>) -> Option<Seq<Seq<char>>>;
/// Assumption WEBSITES: the JSON of a non-empty URL list (`["..",".."]`) parses
/// back to the same list and is not itself a URL (it starts with `[`).
pub broadcast axiom fn axiom_websites_roundtrip(u: Seq<Seq<char>>)
    requires u.len() > 0,
    ensures (#[trigger] websites_parse(websites_json(u))) == Some(u), url_parse(websites_json(u)) is None;

// ---- std::collections::HashMap<K, V> ---------------------------------------------------------
/// std HashMap<K, V, RandomState>.  View: the map of key views to value
/// views.  The ITERATION ORDER (`order`) is a further uninterpreted attribute
/// of the exec value (random hasher keys, insertion history).
#[verifier::external_body]
#[verifier::reject_recursive_types(K)]
#[verifier::reject_recursive_types(V)]
pub struct HashMap<K, V> { _p: core::marker::PhantomData<(K, V)> }
impl<K: View, V: View> View for HashMap<K, V> {
    type V = Map<K::V, V::V>;
    uninterp spec fn view(&self) -> Map<K::V, V::V>;
}
impl<K: View, V: View> HashMap<K, V> {
    /// the (key view, value view) pairs in the order `iter()` yields them
    pub uninterp spec fn order(&self) -> Seq<(K::V, V::V)>;
}
/// the map a list of pairs denotes when inserted front to back (later wins)
pub open spec fn map_of<A, B>(xs: Seq<(A, B)>) -> Map<A, B>
    decreases xs.len(),
{
    if xs.len() == 0 { Map::empty() } else { map_of(xs.drop_last()).insert(xs.last().0, xs.last().1) }
}
pub open spec fn keys_distinct<A, B>(xs: Seq<(A, B)>) -> bool {
    forall|i: int, j: int| 0 <= i < j < xs.len() ==> (#[trigger] xs[i]).0 != (#[trigger] xs[j]).0
}
/// every entry exactly once
pub broadcast axiom fn axiom_hashmap_order<K: View, V: View>(m: HashMap<K, V>)
    ensures keys_distinct(#[trigger] m.order()), map_of(m.order()) == m@;
impl<K: View, V: View> HashMap<K, V> {
    /// std `HashMap::insert`: insert or replace
    #[verifier::external_body]
    pub fn insert(&mut self, key: K, value: V) -> (r: Option<V>)
        ensures final(self)@ == old(self)@.insert(key@, value@),
    { unimplemented!() }
    #[verifier::external_body]
    pub fn len(&self) -> (r: usize)
        ensures r == self.order().len(),
    { unimplemented!() }
}
/// R12c: `HashMap::with_capacity(n)`.  Same result as std (an empty map); the
/// precondition is the C15 obligation [alloc_proportional]: a capacity taken
/// from input must be bounded (16 MiB, the codec's max_buffer_size).
#[verifier::external_body]
pub fn hashmap_with_capacity_checked<K: View, V: View>(n: usize) -> (r: HashMap<K, V>)
    requires n <= 16777216,
    ensures r@ == Map::<K::V, V::V>::empty(),
{ unimplemented!() }
pub open spec fn kv_ref_views<'a, K: View, V: View>(s: Seq<(&'a K, &'a V)>) -> Seq<(K::V, V::V)> {
    Seq::new(s.len(), |i: int| ((*s[i].0)@, (*s[i].1)@))
}
/// `std::collections::hash_map::Iter<'a, K, V>`
#[verifier::external_body]
#[verifier::reject_recursive_types(K)]
#[verifier::reject_recursive_types(V)]
pub struct HashMapIter<'a, K, V> { _p: core::marker::PhantomData<&'a (K, V)> }
impl<'a, K, V> HashMapIter<'a, K, V> {
    pub uninterp spec fn rest(&self) -> Seq<(&'a K, &'a V)>;
}
impl<'a, K, V> Iterator for HashMapIter<'a, K, V> {
    type Item = (&'a K, &'a V);
    #[verifier::external_body]
    fn next(&mut self) -> (r: Option<(&'a K, &'a V)>)
    { unimplemented!() }
}
impl<'a, K, V> vstd::std_specs::iter::IteratorSpecImpl for HashMapIter<'a, K, V> {
    open spec fn obeys_prophetic_iter_laws(&self) -> bool { true }
    #[verifier::prophetic]
    open spec fn remaining(&self) -> Seq<(&'a K, &'a V)> { self.rest() }
    #[verifier::prophetic]
    open spec fn will_return_none(&self) -> bool { true }
    open spec fn decrease(&self) -> Option<nat> { Some(self.rest().len()) }
    open spec fn peek(&self, i: int) -> Option<(&'a K, &'a V)> {
        if 0 <= i < self.rest().len() { Some(self.rest()[i]) } else { None }
    }
}
impl<'a, K: View, V: View> IntoIterator for &'a HashMap<K, V> {
    type Item = (&'a K, &'a V);
    type IntoIter = HashMapIter<'a, K, V>;
    #[verifier::external_body]
    fn into_iter(self) -> (r: HashMapIter<'a, K, V>)
        ensures kv_ref_views(r.rest()) == self.order(),
    { unimplemented!() }
}

// ---- pem::Pem (pem-3.0.6 src/lib.rs) -------------------------------------------------------------
/// View: the PEM text of the one item (`pem::encode`).
#[verifier::external_body]
pub struct Pem { _p: () }
impl View for Pem {
    type V = Seq<char>;
    uninterp spec fn view(&self) -> Seq<char>;
}
pub open spec fn pems_view(v: Seq<Pem>) -> Seq<Seq<char>> { Seq::new(v.len(), |i: int| v[i]@) }
pub uninterp spec fn is_pem(s: Seq<char>) -> bool;
/// `encode_many`: the items joined with "\r\n" (lib.rs:550)
pub uninterp spec fn pem_join(v: Seq<Seq<char>>) -> Seq<char>;
/// `parse_many`: every PEM section found in the text (lib.rs:479)
pub uninterp spec fn pem_split(s: Seq<char>) -> Option<Seq<Seq<char>>>;
pub open spec fn all_pem(v: Seq<Seq<char>>) -> bool { forall|i: int| 0 <= i < v.len() ==> is_pem(#[trigger] v[i]) }
/// Assumption PEM: parse_many(encode_many(v)) == v for lists of Pem values.
pub broadcast axiom fn axiom_pem_roundtrip(v: Seq<Seq<char>>)
    requires all_pem(v),
    ensures #[trigger] pem_split(pem_join(v)) == Some(v);
pub broadcast axiom fn axiom_pem_value(p: Pem)
    ensures is_pem(#[trigger] p@);
#[derive(Debug)]
pub struct PemError { pub _p: () }
#[verifier::external_body]
pub fn encode_many(pems: &Vec<Pem>) -> (r: String)
    ensures r@ == pem_join(pems_view(pems@)),
{ unimplemented!() }
#[verifier::external_body]
pub fn parse_many(input: String) -> (r: core::result::Result<Vec<Pem>, PemError>)
    ensures r.is_ok() <==> pem_split(input@).is_some(), r.is_ok() ==> Some(pems_view(r.unwrap()@)) == pem_split(input@),
{ unimplemented!() }

// ---- vcard4::Vcard (vcard4-0.7.2) --------------------------------------------------------------------
/// View: the vCard text (`Display`).
#[verifier::external_body]
pub struct Vcard { _p: () }
impl View for Vcard {
    type V = Seq<char>;
    uninterp spec fn view(&self) -> Seq<char>;
}
pub open spec fn vcards_view(v: Seq<Vcard>) -> Seq<Seq<char>> { Seq::new(v.len(), |i: int| v[i]@) }
/// `vcard4::parse` (src/parser.rs:101): all cards of the text; an input without
/// any card is an ERROR (parser.rs:117 `if cards.is_empty() { return Err(..) }`)
pub uninterp spec fn vcard_parse(s: Seq<char>) -> Option<Seq<Seq<char>>>;
pub broadcast axiom fn axiom_vcard_parse_nonempty(s: Seq<char>)
    ensures (#[trigger] vcard_parse(s)) matches Some(v) ==> v.len() > 0;
/// Assumption VCARD: the text of a Vcard value parses back to that one card.
pub broadcast axiom fn axiom_vcard_roundtrip(c: Vcard)
    ensures #[trigger] vcard_parse(c@) == Some(seq![c@]);
impl Vcard {
    /// `ToString` through `Display`
    #[verifier::external_body]
    pub fn to_string(&self) -> (r: String)
        ensures r@ == self@,
    { unimplemented!() }
}
#[derive(Debug)]
pub struct VcardError { pub _p: () }
/// `vcard4::parse`
#[verifier::external_body]
pub fn parse(input: String) -> (r: core::result::Result<Vec<Vcard>, VcardError>)
    ensures r.is_ok() <==> vcard_parse(input@).is_some(), r.is_ok() ==> Some(vcards_view(r.unwrap()@)) == vcard_parse(input@),
{ unimplemented!() }

// ---- totp_rs::TOTP (serde_json form) -------------------------------------------------------------------
#[verifier::external_body]
pub struct TOTP { _p: () }
pub ghost struct TotpV { pub json: Seq<u8> }
impl View for TOTP {
    type V = TotpV;
    uninterp spec fn view(&self) -> TotpV;
}
pub uninterp spec fn totp_parse(b: Seq<u8>) -> Option<TotpV>;
/// Assumption JSON-TOTP: from_slice(to_vec(t)) == t.
pub broadcast axiom fn axiom_totp_roundtrip(t: TotpV)
    ensures #[trigger] totp_parse(t.json) == Some(t);
#[verifier::external_body]
pub fn json_totp_to_vec(t: &TOTP) -> (r: core::result::Result<Vec<u8>, JsonError>)
    ensures r.is_ok() ==> r.unwrap()@ == t@.json,
{ unimplemented!() }
#[verifier::external_body]
pub fn json_totp_from_slice(b: &[u8]) -> (r: core::result::Result<TOTP, JsonError>)
    ensures r.is_ok() <==> totp_parse(b@).is_some(), r.is_ok() ==> Some(r.unwrap()@) == totp_parse(b@),
{ unimplemented!() }

// ---- age::x25519::Identity ---------------------------------------------------------------------------------
pub struct AgeIdentity { pub _p: () }
pub uninterp spec fn is_age_identity(s: Seq<char>) -> bool;
/// R12: `$s.parse()` with target `age::x25519::Identity` (age-0.11.1 src/x25519.rs, Err = &'static str)
#[verifier::external_body]
pub fn parse_age_identity(s: &String) -> (r: core::result::Result<AgeIdentity, &'static str>)
    ensures r.is_ok() <==> is_age_identity(s@),
{ unimplemented!() }

} // mod pre
use pre::*;
broadcast use {group_binary_stream, axiom_json_roundtrip, axiom_hashset_order, axiom_urn_canonical, axiom_vcard_parse_nonempty};
// ---- include units/frag/codec_base.vrs
// fragment: base codec types shared by the codec units (included with //@include)

#[derive(Debug)]
pub struct CoreError { pub _p: () }
impl CoreError {
    #[verifier::external_body]
    #[allow(non_snake_case)]
    pub fn UnknownEventKind(_v: u16) -> CoreError { CoreError { _p: () } }
}

pub const NOOP: u16 = 0;
pub const CREATE_ACCOUNT: u16 = 1;
pub const DELETE_ACCOUNT: u16 = 2;
pub const LIST_VAULTS: u16 = 3;
pub const CREATE_VAULT: u16 = 4;
pub const READ_VAULT: u16 = 5;
pub const UPDATE_VAULT: u16 = 6;
pub const DELETE_VAULT: u16 = 7;
pub const GET_VAULT_NAME: u16 = 8;
pub const SET_VAULT_NAME: u16 = 9;
pub const SET_VAULT_META: u16 = 10;
pub const CREATE_SECRET: u16 = 11;
pub const READ_SECRET: u16 = 12;
pub const UPDATE_SECRET: u16 = 13;
pub const DELETE_SECRET: u16 = 14;
pub const MOVE_SECRET: u16 = 15;
pub const READ_EVENT_LOG: u16 = 16;
pub const EXPORT_VAULT: u16 = 17;
pub const EXPORT_BACKUP_ARCHIVE: u16 = 18;
pub const IMPORT_BACKUP_ARCHIVE: u16 = 19;
pub const EXPORT_UNSAFE: u16 = 20;
pub const IMPORT_UNSAFE: u16 = 21;
pub const EXPORT_CONTACTS: u16 = 22;
pub const IMPORT_CONTACTS: u16 = 23;
pub const CREATE_FILE: u16 = 24;
pub const MOVE_FILE: u16 = 25;
pub const DELETE_FILE: u16 = 26;
pub const COMPACT_VAULT: u16 = 27;
pub const CHANGE_PASSWORD: u16 = 28;
pub const TRUST_DEVICE: u16 = 29;
pub const REVOKE_DEVICE: u16 = 30;
pub const UPDATE_IDENTITY: u16 = 31;
pub const RENAME_ACCOUNT: u16 = 32;
pub const SET_VAULT_FLAGS: u16 = 33;
pub const DOWNLOAD_FILE: u16 = 34;

// ---- include units/frag/codec_base.vrs



#[derive(Default, Copy, Clone)]
pub enum EventKind {
    
    #[default]
    Noop,
    
    CreateAccount,
    
    DeleteAccount,
    
    ListVaults,
    
    CreateVault,
    
    ReadVault,
    
    UpdateVault,
    
    GetVaultName,
    
    SetVaultName,
    
    SetVaultFlags,
    
    SetVaultMeta,
    
    DeleteVault,
    
    CreateSecret,
    
    ReadSecret,
    
    UpdateSecret,
    
    DeleteSecret,
    
    MoveSecret,
    
    ReadEventLog,
    
    ExportVault,
    
    ExportBackupArchive,
    
    ImportBackupArchive,
    
    ExportUnsafe,
    
    ImportUnsafe,
    
    ExportContacts,
    
    ImportContacts,
    
    CreateFile,
    
    MoveFile,
    
    DeleteFile,
    
    CompactVault,
    
    ChangePassword,
    
    TrustDevice,
    
    RevokeDevice,
    
    UpdateIdentity,
    
    RenameAccount,
    
    DownloadFile,
}
// ---- include units/frag/codec_base.vrs

impl From<&EventKind> for u16 {
/*@FN:core/events/event_kind.rs::impl From < & EventKind > for u16::from*/
fn from(value: &EventKind) -> (r: Self) 
    ensures
        r == kind_code(value), /*@L:core/events/event_kind.rs::impl From < & EventKind > for u16::from:from_is_twin*/
{
        match value {
            EventKind::Noop => NOOP,
            EventKind::CreateAccount => CREATE_ACCOUNT,
            EventKind::DeleteAccount => DELETE_ACCOUNT,
            EventKind::ListVaults => LIST_VAULTS,
            EventKind::CreateVault => CREATE_VAULT,
            EventKind::ReadVault => READ_VAULT,
            EventKind::UpdateVault => UPDATE_VAULT,
            EventKind::DeleteVault => DELETE_VAULT,
            EventKind::GetVaultName => GET_VAULT_NAME,
            EventKind::SetVaultName => SET_VAULT_NAME,
            EventKind::SetVaultFlags => SET_VAULT_FLAGS,
            EventKind::SetVaultMeta => SET_VAULT_META,
            EventKind::CreateSecret => CREATE_SECRET,
            EventKind::ReadSecret => READ_SECRET,
            EventKind::UpdateSecret => UPDATE_SECRET,
            EventKind::DeleteSecret => DELETE_SECRET,
            EventKind::MoveSecret => MOVE_SECRET,
            EventKind::ReadEventLog => READ_EVENT_LOG,
            EventKind::ExportVault => EXPORT_VAULT,
            EventKind::ExportBackupArchive => EXPORT_BACKUP_ARCHIVE,
            EventKind::ImportBackupArchive => IMPORT_BACKUP_ARCHIVE,
            EventKind::ExportUnsafe => EXPORT_UNSAFE,
            EventKind::ImportUnsafe => IMPORT_UNSAFE,
            EventKind::ExportContacts => EXPORT_CONTACTS,
            EventKind::ImportContacts => IMPORT_CONTACTS,
            EventKind::CreateFile => CREATE_FILE,
            EventKind::MoveFile => MOVE_FILE,
            EventKind::DeleteFile => DELETE_FILE,
            EventKind::CompactVault => COMPACT_VAULT,
            EventKind::ChangePassword => CHANGE_PASSWORD,
            EventKind::TrustDevice => TRUST_DEVICE,
            EventKind::RevokeDevice => REVOKE_DEVICE,
            EventKind::UpdateIdentity => UPDATE_IDENTITY,
            EventKind::RenameAccount => RENAME_ACCOUNT,
            EventKind::DownloadFile => DOWNLOAD_FILE,
        }
    }
/*@ENDFN:core/events/event_kind.rs::impl From < & EventKind > for u16::from*/
}
pub open spec fn kind_code(value: &EventKind) -> u16 {
        match value {
            EventKind::Noop => NOOP,
            EventKind::CreateAccount => CREATE_ACCOUNT,
            EventKind::DeleteAccount => DELETE_ACCOUNT,
            EventKind::ListVaults => LIST_VAULTS,
            EventKind::CreateVault => CREATE_VAULT,
            EventKind::ReadVault => READ_VAULT,
            EventKind::UpdateVault => UPDATE_VAULT,
            EventKind::DeleteVault => DELETE_VAULT,
            EventKind::GetVaultName => GET_VAULT_NAME,
            EventKind::SetVaultName => SET_VAULT_NAME,
            EventKind::SetVaultFlags => SET_VAULT_FLAGS,
            EventKind::SetVaultMeta => SET_VAULT_META,
            EventKind::CreateSecret => CREATE_SECRET,
            EventKind::ReadSecret => READ_SECRET,
            EventKind::UpdateSecret => UPDATE_SECRET,
            EventKind::DeleteSecret => DELETE_SECRET,
            EventKind::MoveSecret => MOVE_SECRET,
            EventKind::ReadEventLog => READ_EVENT_LOG,
            EventKind::ExportVault => EXPORT_VAULT,
            EventKind::ExportBackupArchive => EXPORT_BACKUP_ARCHIVE,
            EventKind::ImportBackupArchive => IMPORT_BACKUP_ARCHIVE,
            EventKind::ExportUnsafe => EXPORT_UNSAFE,
            EventKind::ImportUnsafe => IMPORT_UNSAFE,
            EventKind::ExportContacts => EXPORT_CONTACTS,
            EventKind::ImportContacts => IMPORT_CONTACTS,
            EventKind::CreateFile => CREATE_FILE,
            EventKind::MoveFile => MOVE_FILE,
            EventKind::DeleteFile => DELETE_FILE,
            EventKind::CompactVault => COMPACT_VAULT,
            EventKind::ChangePassword => CHANGE_PASSWORD,
            EventKind::TrustDevice => TRUST_DEVICE,
            EventKind::RevokeDevice => REVOKE_DEVICE,
            EventKind::UpdateIdentity => UPDATE_IDENTITY,
            EventKind::RenameAccount => RENAME_ACCOUNT,
            EventKind::DownloadFile => DOWNLOAD_FILE,
        }
    }

// ---- include units/frag/codec_base.vrs
impl FromSpecImpl<&EventKind> for u16 {
    open spec fn obeys_from_spec() -> bool { true }
    open spec fn from_spec(v: &EventKind) -> u16 { kind_code(v) }
}

impl TryFrom<u16> for EventKind {
type Error = CoreError;

/*@FN:core/events/event_kind.rs::impl TryFrom < u16 > for EventKind::try_from*/
fn try_from(value: u16) -> (r: std::result::Result<Self, Self::Error>) 
    ensures
        r.is_err() ==> (forall|k: EventKind| kind_code(&k) != value), /*@L:core/events/event_kind.rs::impl TryFrom < u16 > for EventKind::try_from:try_from_rejects_only_non_codes*/
        r.is_ok() ==> kind_code(&r.unwrap()) == value, /*@L:core/events/event_kind.rs::impl TryFrom < u16 > for EventKind::try_from:try_from_inverts_code*/
{
        Ok(match value {
            NOOP => EventKind::Noop,
            CREATE_ACCOUNT => EventKind::CreateAccount,
            DELETE_ACCOUNT => EventKind::DeleteAccount,
            LIST_VAULTS => EventKind::ListVaults,
            CREATE_VAULT => EventKind::CreateVault,
            READ_VAULT => EventKind::ReadVault,
            UPDATE_VAULT => EventKind::UpdateVault,
            DELETE_VAULT => EventKind::DeleteVault,
            GET_VAULT_NAME => EventKind::GetVaultName,
            SET_VAULT_NAME => EventKind::SetVaultName,
            SET_VAULT_FLAGS => EventKind::SetVaultFlags,
            SET_VAULT_META => EventKind::SetVaultMeta,
            CREATE_SECRET => EventKind::CreateSecret,
            READ_SECRET => EventKind::ReadSecret,
            UPDATE_SECRET => EventKind::UpdateSecret,
            DELETE_SECRET => EventKind::DeleteSecret,
            MOVE_SECRET => EventKind::MoveSecret,
            READ_EVENT_LOG => EventKind::ReadEventLog,
            EXPORT_VAULT => EventKind::ExportVault,
            EXPORT_BACKUP_ARCHIVE => EventKind::ExportBackupArchive,
            IMPORT_BACKUP_ARCHIVE => EventKind::ImportBackupArchive,
            EXPORT_UNSAFE => EventKind::ExportUnsafe,
            IMPORT_UNSAFE => EventKind::ImportUnsafe,
            EXPORT_CONTACTS => EventKind::ExportContacts,
            IMPORT_CONTACTS => EventKind::ImportContacts,
            CREATE_FILE => EventKind::CreateFile,
            MOVE_FILE => EventKind::MoveFile,
            DELETE_FILE => EventKind::DeleteFile,
            COMPACT_VAULT => EventKind::CompactVault,
            CHANGE_PASSWORD => EventKind::ChangePassword,
            TRUST_DEVICE => EventKind::TrustDevice,
            REVOKE_DEVICE => EventKind::RevokeDevice,
            UPDATE_IDENTITY => EventKind::UpdateIdentity,
            RENAME_ACCOUNT => EventKind::RenameAccount,
            DOWNLOAD_FILE => EventKind::DownloadFile,
            _ => return Err(CoreError::UnknownEventKind(value)),
        })
    }
/*@ENDFN:core/events/event_kind.rs::impl TryFrom < u16 > for EventKind::try_from*/
}

// ---- include units/frag/codec_base.vrs

impl TryFromSpecImpl<u16> for EventKind {
    open spec fn obeys_try_from_spec() -> bool { false }
    open spec fn try_from_spec(v: u16) -> core::result::Result<Self, Self::Error> { arbitrary() }
}

pub proof fn lemma_kind_code_injective(a: EventKind, b: EventKind)
    requires kind_code(&a) == kind_code(&b),
    ensures a == b,
{}


// ---- EventKind --------------------------------------------------------------
pub open spec fn enc_EventKind(k: EventKind) -> Seq<u8> { le16(kind_code(&k)) }
pub open spec fn kind_of_code(c: u16) -> Option<EventKind> {
    if exists|k: EventKind| kind_code(&k) == c { Some(choose|k: EventKind| kind_code(&k) == c) } else { None }
}
pub open spec fn dec_EventKind(s: Seq<u8>) -> Option<(EventKind, Seq<u8>)> {
    match r_u16(s) {
        None => None,
        Some((c, t)) => match kind_of_code(c) { None => None, Some(k) => Some((k, t)) },
    }
}
pub proof fn lemma_kind_of_code(k: EventKind)
    ensures kind_of_code(kind_code(&k)) == Some(k),
{
    let k2 = choose|k2: EventKind| kind_code(&k2) == kind_code(&k);
    lemma_kind_code_injective(k, k2);
}
pub proof fn lemma_roundtrip_EventKind(k: EventKind, rest: Seq<u8>)
    ensures dec_EventKind(enc_EventKind(k) + rest) == Some((k, rest)),
{
    lemma_le16(kind_code(&k));
    lemma_kind_of_code(k);
}


impl Encodable for EventKind {
type EV = EventKind;
open spec fn eview(&self) -> EventKind { *self }
open spec fn enc_of(v: EventKind) -> Seq<u8> { enc_EventKind(v) }
open spec fn enc_valid(v: EventKind) -> bool { true }
/*@FN:core/encoding/v1/events.rs::impl Encodable for EventKind::encode*/
fn encode<W: AsyncWrite + AsyncSeek + Unpin + Send>(
        &self,
        writer: &mut BinaryWriter<W>,
    ) -> (r: Result<()>) {
        let value: u16 = self.into();
        writer.write_u16(value)?;
        Ok(())
    }
/*@ENDFN:core/encoding/v1/events.rs::impl Encodable for EventKind::encode*/
}

// ---- include units/frag/codec_base.vrs


impl Decodable for EventKind {
type DV = EventKind;
open spec fn dview(&self) -> EventKind { *self }
open spec fn dec_of(s: Seq<u8>) -> Option<(EventKind, Seq<u8>)> { dec_EventKind(s) }
open spec fn dec_ready(&self) -> bool { true }
/*@FN:core/encoding/v1/events.rs::impl Decodable for EventKind::decode*/
fn decode<R: AsyncRead + AsyncSeek + Unpin + Send>(
        &mut self,
        reader: &mut BinaryReader<R>,
    ) -> (r: Result<()>) {
        let op = reader.read_u16()?;
        *self = EventKind::try_from(op).map_err(|_p0| {
            Error::other(opaque_string())
        })?;
        Ok(())
    }
/*@ENDFN:core/encoding/v1/events.rs::impl Decodable for EventKind::decode*/
}

// ---- include units/frag/codec_base.vrs


// ---- CommitHash ---------------------------------------------------------------
/// rs_merkle: <Sha256 as Hasher>::Hash
pub type TreeHash = [u8; 32];

#[derive(Default, Copy, Clone)]
pub struct CommitHash( pub TreeHash);
impl AsRef<TreeHash> for CommitHash {
/*@FN:core/commit/proof.rs::impl AsRef < TreeHash > for CommitHash::as_ref*/
fn as_ref(&self) -> (r: &TreeHash) 
    ensures
        *r == self.0, /*@L:core/commit/proof.rs::impl AsRef < TreeHash > for CommitHash::as_ref:as_ref_is_field*/
{
        &self.0
    }
/*@ENDFN:core/commit/proof.rs::impl AsRef < TreeHash > for CommitHash::as_ref*/
}

// ---- include units/frag/codec_base.vrs

pub open spec fn enc_CommitHash(h: Seq<u8>) -> Seq<u8> { h }
pub open spec fn dec_CommitHash(s: Seq<u8>) -> Option<(Seq<u8>, Seq<u8>)> { r_bytes(s, 32) }
pub proof fn lemma_roundtrip_CommitHash(h: Seq<u8>, rest: Seq<u8>)
    requires h.len() == 32,
    ensures dec_CommitHash(enc_CommitHash(h) + rest) == Some((h, rest)),
{}


impl Encodable for CommitHash {
type EV = Seq<u8>;
open spec fn eview(&self) -> Seq<u8> { self.0@ }
open spec fn enc_of(v: Seq<u8>) -> Seq<u8> { enc_CommitHash(v) }
open spec fn enc_valid(v: Seq<u8>) -> bool { v.len() == 32 }
/*@FN:core/encoding/v1/commit.rs::impl Encodable for CommitHash::encode*/
fn encode<W: AsyncWrite + AsyncSeek + Unpin + Send>(
        &self,
        writer: &mut BinaryWriter<W>,
    ) -> (r: Result<()>) {
        writer.write_bytes(self.as_ref())?;
        Ok(())
    }
/*@ENDFN:core/encoding/v1/commit.rs::impl Encodable for CommitHash::encode*/
}

// ---- include units/frag/codec_base.vrs


impl Decodable for CommitHash {
type DV = Seq<u8>;
open spec fn dview(&self) -> Seq<u8> { self.0@ }
open spec fn dec_of(s: Seq<u8>) -> Option<(Seq<u8>, Seq<u8>)> { dec_CommitHash(s) }
open spec fn dec_ready(&self) -> bool { true }
/*@FN:core/encoding/v1/commit.rs::impl Decodable for CommitHash::decode*/
fn decode<R: AsyncRead + AsyncSeek + Unpin + Send>(
        &mut self,
        reader: &mut BinaryReader<R>,
    ) -> (r: Result<()>) {
        let commit: [u8; 32] = slice_to_array(reader
            .read_bytes(32)?
            .as_slice())
            .map_err(encoding_error)?;
        *self = CommitHash(commit);
        Ok(())
    }
/*@ENDFN:core/encoding/v1/commit.rs::impl Decodable for CommitHash::decode*/
}

// ---- include units/frag/codec_base.vrs


// ---- Nonce / AeadPack ---------------------------------------------------------


#[derive(Clone)]

pub enum Nonce {
    
    Nonce12( [u8; 12]),
    
    Nonce24( [u8; 24]),
}
impl Default for Nonce {
/*@FN:core/crypto/mod.rs::impl Default for Nonce::default*/
fn default() -> (r: Self) {
        Nonce::Nonce24([0; 24])
    }
/*@ENDFN:core/crypto/mod.rs::impl Default for Nonce::default*/
}



#[derive(Default, Clone)]
pub struct AeadPack {
    
    pub nonce: Nonce,
    
    
    pub ciphertext: Vec<u8>,
}
// ---- include units/frag/codec_base.vrs

pub ghost enum NonceV { N12(Seq<u8>), N24(Seq<u8>) }
pub ghost struct AeadPackV { pub nonce: NonceV, pub ct: Seq<u8> }
impl View for Nonce {
    type V = NonceV;
    open spec fn view(&self) -> NonceV {
        match self { Nonce::Nonce12(b) => NonceV::N12(b@), Nonce::Nonce24(b) => NonceV::N24(b@) }
    }
}
impl View for AeadPack {
    type V = AeadPackV;
    open spec fn view(&self) -> AeadPackV { AeadPackV { nonce: self.nonce@, ct: self.ciphertext@ } }
}
pub open spec fn valid_AeadPack(v: AeadPackV) -> bool {
    v.ct.len() <= MAX_BUFFER_SIZE && match v.nonce { NonceV::N12(b) => b.len() == 12, NonceV::N24(b) => b.len() == 24 }
}
#[verifier::opaque]
pub open spec fn enc_AeadPack(v: AeadPackV) -> Seq<u8> {
    (match v.nonce { NonceV::N12(b) => seq![12u8] + b, NonceV::N24(b) => seq![24u8] + b })
        + le32(v.ct.len() as u32) + v.ct
}
#[verifier::opaque]
pub open spec fn dec_AeadPack(s: Seq<u8>) -> Option<(AeadPackV, Seq<u8>)> {
    match r_u8(s) {
        None => None,
        Some((n, t)) => match r_bytes(t, n as nat) {
            None => None,
            Some((nb, u)) => if !(n == 12 || n == 24) { None } else {
                match r_u32(u) {
                    None => None,
                    Some((len, w)) => match r_bytes(w, len as nat) {
                        None => None,
                        Some((ct, x)) => Some((AeadPackV { nonce: if n == 12 { NonceV::N12(nb) } else { NonceV::N24(nb) }, ct: ct }, x)),
                    },
                }
            },
        },
    }
}
pub proof fn lemma_roundtrip_AeadPack(v: AeadPackV, rest: Seq<u8>)
    requires valid_AeadPack(v),
    ensures dec_AeadPack(enc_AeadPack(v) + rest) == Some((v, rest)),
{
    reveal(enc_AeadPack); reveal(dec_AeadPack);
    lemma_le32(v.ct.len() as u32);
    let l = le32(v.ct.len() as u32);
    match v.nonce {
        NonceV::N12(b) => {
            assert(enc_AeadPack(v) + rest =~= seq![12u8] + (b + (l + (v.ct + rest))));
            assert(r_u8(seq![12u8] + (b + (l + (v.ct + rest)))) == Some((12u8, b + (l + (v.ct + rest))))) by {
                lemma_take_n_concat(seq![12u8], b + (l + (v.ct + rest)));
            }
        }
        NonceV::N24(b) => {
            assert(enc_AeadPack(v) + rest =~= seq![24u8] + (b + (l + (v.ct + rest))));
            assert(r_u8(seq![24u8] + (b + (l + (v.ct + rest)))) == Some((24u8, b + (l + (v.ct + rest))))) by {
                lemma_take_n_concat(seq![24u8], b + (l + (v.ct + rest)));
            }
        }
    }
}


impl Encodable for AeadPack {
type EV = AeadPackV;
open spec fn eview(&self) -> AeadPackV { self@ }
open spec fn enc_of(v: AeadPackV) -> Seq<u8> { enc_AeadPack(v) }
open spec fn enc_valid(v: AeadPackV) -> bool { valid_AeadPack(v) }
/*@FN:core/encoding/v1/crypto.rs::impl Encodable for AeadPack::encode*/
fn encode<W: AsyncWrite + AsyncSeek + Unpin + Send>(
        &self,
        writer: &mut BinaryWriter<W>,
    ) -> (r: Result<()>) { proof { reveal(enc_AeadPack); } 
        match &self.nonce {
            Nonce::Nonce12(ref bytes) => {
                writer.write_u8(12)?;
                writer.write_bytes(bytes)?;
            }
            Nonce::Nonce24(ref bytes) => {
                writer.write_u8(24)?;
                writer.write_bytes(bytes)?;
            }
        }
        writer.write_u32(self.ciphertext.len() as u32)?;
        writer.write_bytes(&self.ciphertext)?;
        Ok(())
    }
/*@ENDFN:core/encoding/v1/crypto.rs::impl Encodable for AeadPack::encode*/
}

// ---- include units/frag/codec_base.vrs


impl Decodable for AeadPack {
type DV = AeadPackV;
open spec fn dview(&self) -> AeadPackV { self@ }
open spec fn dec_of(s: Seq<u8>) -> Option<(AeadPackV, Seq<u8>)> { dec_AeadPack(s) }
open spec fn dec_ready(&self) -> bool { true }
/*@FN:core/encoding/v1/crypto.rs::impl Decodable for AeadPack::decode*/
fn decode<R: AsyncRead + AsyncSeek + Unpin + Send>(
        &mut self,
        reader: &mut BinaryReader<R>,
    ) -> (r: Result<()>) { proof { reveal(dec_AeadPack); } 
        let nonce_size = reader.read_u8()?;
        let nonce_buffer = reader.read_bytes(nonce_size as usize)?;
        match nonce_size {
            12 => {
                self.nonce = Nonce::Nonce12(
                    slice_to_array(nonce_buffer
                        .as_slice())
                        .map_err(encoding_error)?,
                );
            }
            24 => {
                self.nonce = Nonce::Nonce24(
                    slice_to_array(nonce_buffer
                        .as_slice())
                        .map_err(encoding_error)?,
                );
            }
            _ => {
                return Err(Error::other(opaque_string()));
            }
        }
        let len = reader.read_u32()?;
        self.ciphertext = reader.read_bytes(len as usize)?;
        Ok(())
    }
/*@ENDFN:core/encoding/v1/crypto.rs::impl Decodable for AeadPack::decode*/
}

// ---- include units/frag/codec_base.vrs


// ---- VaultEntry / VaultCommit ---------------------------------------------------

#[derive(Default, Clone)]
pub struct VaultEntry(pub AeadPack, pub AeadPack);

#[derive(Default, Clone)]
pub struct VaultCommit(pub CommitHash, pub VaultEntry);
// ---- include units/frag/codec_base.vrs
pub ghost struct VaultEntryV { pub meta: AeadPackV, pub secret: AeadPackV }
pub ghost struct VaultCommitV { pub commit: Seq<u8>, pub entry: VaultEntryV }
impl View for VaultEntry {
    type V = VaultEntryV;
    open spec fn view(&self) -> VaultEntryV { VaultEntryV { meta: self.0@, secret: self.1@ } }
}
impl View for VaultCommit {
    type V = VaultCommitV;
    open spec fn view(&self) -> VaultCommitV { VaultCommitV { commit: self.0.0@, entry: self.1@ } }
}
pub open spec fn valid_VaultEntry(v: VaultEntryV) -> bool { valid_AeadPack(v.meta) && valid_AeadPack(v.secret) }
#[verifier::opaque]
pub open spec fn enc_VaultEntry(v: VaultEntryV) -> Seq<u8> { enc_AeadPack(v.meta) + enc_AeadPack(v.secret) }
#[verifier::opaque]
pub open spec fn dec_VaultEntry(s: Seq<u8>) -> Option<(VaultEntryV, Seq<u8>)> {
    match dec_AeadPack(s) {
        None => None,
        Some((m, t)) => match dec_AeadPack(t) {
            None => None,
            Some((x, u)) => Some((VaultEntryV { meta: m, secret: x }, u)),
        },
    }
}
pub proof fn lemma_roundtrip_VaultEntry(v: VaultEntryV, rest: Seq<u8>)
    requires valid_VaultEntry(v),
    ensures dec_VaultEntry(enc_VaultEntry(v) + rest) == Some((v, rest)),
{
    reveal(enc_VaultEntry); reveal(dec_VaultEntry);
    assert(enc_VaultEntry(v) + rest =~= enc_AeadPack(v.meta) + (enc_AeadPack(v.secret) + rest));
    lemma_roundtrip_AeadPack(v.meta, enc_AeadPack(v.secret) + rest);
    lemma_roundtrip_AeadPack(v.secret, rest);
}
/// the row length written by the encoder is the entry length; the decoder ignores it
pub open spec fn valid_VaultCommit(v: VaultCommitV) -> bool { v.commit.len() == 32 && valid_VaultEntry(v.entry) }
#[verifier::opaque]
pub open spec fn enc_VaultCommit(v: VaultCommitV) -> Seq<u8> {
    v.commit + le32(enc_VaultEntry(v.entry).len() as u32) + enc_VaultEntry(v.entry)
}
#[verifier::opaque]
pub open spec fn dec_VaultCommit(s: Seq<u8>) -> Option<(VaultCommitV, Seq<u8>)> {
    match r_bytes(s, 32) {
        None => None,
        Some((c, t)) => match r_u32(t) {
            None => None,
            Some((_len, u)) => match dec_VaultEntry(u) {
                None => None,
                Some((e, w)) => Some((VaultCommitV { commit: c, entry: e }, w)),
            },
        },
    }
}
pub proof fn lemma_roundtrip_VaultCommit(v: VaultCommitV, rest: Seq<u8>)
    requires valid_VaultCommit(v),
    ensures dec_VaultCommit(enc_VaultCommit(v) + rest) == Some((v, rest)),
{
    reveal(enc_VaultCommit); reveal(dec_VaultCommit);
    let l = le32(enc_VaultEntry(v.entry).len() as u32);
    lemma_le32(enc_VaultEntry(v.entry).len() as u32);
    assert(enc_VaultCommit(v) + rest =~= v.commit + (l + (enc_VaultEntry(v.entry) + rest)));
    lemma_roundtrip_VaultEntry(v.entry, rest);
}


impl Encodable for VaultEntry {
type EV = VaultEntryV;
open spec fn eview(&self) -> VaultEntryV { self@ }
open spec fn enc_of(v: VaultEntryV) -> Seq<u8> { enc_VaultEntry(v) }
open spec fn enc_valid(v: VaultEntryV) -> bool { valid_VaultEntry(v) }
/*@FN:core/encoding/v1/vault.rs::impl Encodable for VaultEntry::encode*/
fn encode<W: AsyncWrite + AsyncSeek + Unpin + Send>(
        &self,
        writer: &mut BinaryWriter<W>,
    ) -> (r: Result<()>) { proof { reveal(enc_VaultEntry); } 
        self.0.encode(&mut *writer)?;
        self.1.encode(&mut *writer)?;
        Ok(())
    }
/*@ENDFN:core/encoding/v1/vault.rs::impl Encodable for VaultEntry::encode*/
}


impl Decodable for VaultEntry {
type DV = VaultEntryV;
open spec fn dview(&self) -> VaultEntryV { self@ }
open spec fn dec_of(s: Seq<u8>) -> Option<(VaultEntryV, Seq<u8>)> { dec_VaultEntry(s) }
open spec fn dec_ready(&self) -> bool { true }
/*@FN:core/encoding/v1/vault.rs::impl Decodable for VaultEntry::decode*/
fn decode<R: AsyncRead + AsyncSeek + Unpin + Send>(
        &mut self,
        reader: &mut BinaryReader<R>,
    ) -> (r: Result<()>) { proof { reveal(dec_VaultEntry); } 
        let mut meta: AeadPack = Default::default();
        meta.decode(&mut *reader)?;
        let mut secret: AeadPack = Default::default();
        secret.decode(&mut *reader)?;
        *self = VaultEntry(meta, secret);
        Ok(())
    }
/*@ENDFN:core/encoding/v1/vault.rs::impl Decodable for VaultEntry::decode*/
}


impl Encodable for VaultCommit {
type EV = VaultCommitV;
open spec fn eview(&self) -> VaultCommitV { self@ }
open spec fn enc_of(v: VaultCommitV) -> Seq<u8> { enc_VaultCommit(v) }
open spec fn enc_valid(v: VaultCommitV) -> bool { valid_VaultCommit(v) }
/*@FN:core/encoding/v1/vault.rs::impl Encodable for VaultCommit::encode*/
fn encode<W: AsyncWrite + AsyncSeek + Unpin + Send>(
        &self,
        writer: &mut BinaryWriter<W>,
    ) -> (r: Result<()>) { proof { reveal(enc_VaultCommit); } 
        // Write the UUID
        writer.write_bytes(self.0.as_ref())?; let ghost s1 = writer@; 

        let size_pos = writer.stream_position()?;

        writer.write_u32(0)?;

        self.1.encode(&mut *writer)?;

        // Encodable the data length for lazy iteration
        let row_pos = writer.stream_position()?;
        let row_len = row_pos - (size_pos + 4);
        writer.seek(SeekFrom::Start(size_pos))?;
        writer.write_u32(row_len as u32)?;
        writer.seek(SeekFrom::Start(row_pos))?;

         proof {
 let e = enc_VaultEntry(self.1@);
 lemma_backpatch(s1, le32(0), e, le32(e.len() as u32));
 assert(writer@.bytes == wr(s1, le32(e.len() as u32) + e).bytes);
 assert(writer@ == wr(s1, le32(e.len() as u32) + e));
 assert(self.0.0@ + (le32(e.len() as u32) + e) =~= enc_VaultCommit(self@));
 } Ok(())
    }
/*@ENDFN:core/encoding/v1/vault.rs::impl Encodable for VaultCommit::encode*/
}


impl Decodable for VaultCommit {
type DV = VaultCommitV;
open spec fn dview(&self) -> VaultCommitV { self@ }
open spec fn dec_of(s: Seq<u8>) -> Option<(VaultCommitV, Seq<u8>)> { dec_VaultCommit(s) }
open spec fn dec_ready(&self) -> bool { true }
/*@FN:core/encoding/v1/vault.rs::impl Decodable for VaultCommit::decode*/
fn decode<R: AsyncRead + AsyncSeek + Unpin + Send>(
        &mut self,
        reader: &mut BinaryReader<R>,
    ) -> (r: Result<()>) { proof { reveal(dec_VaultCommit); } 
        let commit: [u8; 32] = slice_to_array(reader
            .read_bytes(32)?
            .as_slice())
            .map_err(encoding_error)?;
        let commit = CommitHash(commit);

        // Read in the length of the data blob
        let _ = reader.read_u32()?;

        let mut group: VaultEntry = Default::default();
        group.decode(&mut *reader)?;
        self.0 = commit;
        self.1 = group;
        Ok(())
    }
/*@ENDFN:core/encoding/v1/vault.rs::impl Decodable for VaultCommit::decode*/
}

// ---- include units/frag/codec_base.vrs


// ---- Cipher / KeyDerivation -------------------------------------------------------
pub const X_CHACHA20_POLY1305: u8 = 1;
pub const AES_GCM_256: u8 = 2;
pub const X25519: u8 = 3;

pub const ARGON_2_ID: u8 = 1;
pub const BALLOON_HASH: u8 = 2;


#[derive(Default, Copy, Clone)]
pub enum Cipher {
    
    XChaCha20Poly1305,
    
    #[default]
    AesGcm256,
    
    X25519,
}

#[derive(Default, Copy, Clone)]
pub enum KeyDerivation {
    
    #[default]
    Argon2Id,
    
    BalloonHash,
}
impl From<&Cipher> for u8 {
/*@FN:core/crypto/cipher/mod.rs::impl From < & Cipher > for u8::from*/
fn from(value: &Cipher) -> (r: Self) 
    ensures
        r == cipher_code(value), /*@L:core/crypto/cipher/mod.rs::impl From < & Cipher > for u8::from:from_is_twin*/
{
        match value {
            Cipher::XChaCha20Poly1305 => X_CHACHA20_POLY1305,
            Cipher::AesGcm256 => AES_GCM_256,
            Cipher::X25519 => X25519,
        }
    }
/*@ENDFN:core/crypto/cipher/mod.rs::impl From < & Cipher > for u8::from*/
}
pub open spec fn cipher_code(value: &Cipher) -> u8 {
        match value {
            Cipher::XChaCha20Poly1305 => X_CHACHA20_POLY1305,
            Cipher::AesGcm256 => AES_GCM_256,
            Cipher::X25519 => X25519,
        }
    }

// ---- include units/frag/codec_base.vrs
impl FromSpecImpl<&Cipher> for u8 {
    open spec fn obeys_from_spec() -> bool { true }
    open spec fn from_spec(v: &Cipher) -> u8 { cipher_code(v) }
}
impl From<&KeyDerivation> for u8 {
/*@FN:core/crypto/key_derivation.rs::impl From < & KeyDerivation > for u8::from*/
fn from(value: &KeyDerivation) -> (r: Self) 
    ensures
        r == kdf_code(value), /*@L:core/crypto/key_derivation.rs::impl From < & KeyDerivation > for u8::from:from_is_twin*/
{
        match value {
            KeyDerivation::Argon2Id => ARGON_2_ID,
            KeyDerivation::BalloonHash => BALLOON_HASH,
        }
    }
/*@ENDFN:core/crypto/key_derivation.rs::impl From < & KeyDerivation > for u8::from*/
}
pub open spec fn kdf_code(value: &KeyDerivation) -> u8 {
        match value {
            KeyDerivation::Argon2Id => ARGON_2_ID,
            KeyDerivation::BalloonHash => BALLOON_HASH,
        }
    }

// ---- include units/frag/codec_base.vrs
impl FromSpecImpl<&KeyDerivation> for u8 {
    open spec fn obeys_from_spec() -> bool { true }
    open spec fn from_spec(v: &KeyDerivation) -> u8 { kdf_code(v) }
}
pub proof fn lemma_cipher_code_injective(a: Cipher, b: Cipher)
    requires cipher_code(&a) == cipher_code(&b), ensures a == b, {}
pub proof fn lemma_kdf_code_injective(a: KeyDerivation, b: KeyDerivation)
    requires kdf_code(&a) == kdf_code(&b), ensures a == b, {}
pub open spec fn cipher_of_code(c: u8) -> Option<Cipher> {
    if exists|k: Cipher| cipher_code(&k) == c { Some(choose|k: Cipher| cipher_code(&k) == c) } else { None }
}
pub open spec fn kdf_of_code(c: u8) -> Option<KeyDerivation> {
    if exists|k: KeyDerivation| kdf_code(&k) == c { Some(choose|k: KeyDerivation| kdf_code(&k) == c) } else { None }
}
pub proof fn lemma_cipher_of_code(k: Cipher)
    ensures cipher_of_code(cipher_code(&k)) == Some(k),
{
    let k2 = choose|k2: Cipher| cipher_code(&k2) == cipher_code(&k);
    lemma_cipher_code_injective(k, k2);
}
pub proof fn lemma_kdf_of_code(k: KeyDerivation)
    ensures kdf_of_code(kdf_code(&k)) == Some(k),
{
    let k2 = choose|k2: KeyDerivation| kdf_code(&k2) == kdf_code(&k);
    lemma_kdf_code_injective(k, k2);
}
pub open spec fn enc_Cipher(k: Cipher) -> Seq<u8> { seq![cipher_code(&k)] }
pub open spec fn dec_Cipher(s: Seq<u8>) -> Option<(Cipher, Seq<u8>)> {
    match r_u8(s) { None => None, Some((c, t)) => match cipher_of_code(c) { None => None, Some(k) => Some((k, t)) } }
}
pub open spec fn enc_KeyDerivation(k: KeyDerivation) -> Seq<u8> { seq![kdf_code(&k)] }
pub open spec fn dec_KeyDerivation(s: Seq<u8>) -> Option<(KeyDerivation, Seq<u8>)> {
    match r_u8(s) { None => None, Some((c, t)) => match kdf_of_code(c) { None => None, Some(k) => Some((k, t)) } }
}
pub proof fn lemma_roundtrip_Cipher(k: Cipher, rest: Seq<u8>)
    ensures dec_Cipher(enc_Cipher(k) + rest) == Some((k, rest)),
{
    lemma_cipher_of_code(k);
}
pub proof fn lemma_roundtrip_KeyDerivation(k: KeyDerivation, rest: Seq<u8>)
    ensures dec_KeyDerivation(enc_KeyDerivation(k) + rest) == Some((k, rest)),
{
    lemma_kdf_of_code(k);
}

impl Encodable for Cipher {
type EV = Cipher;
open spec fn eview(&self) -> Cipher { *self }
open spec fn enc_of(v: Cipher) -> Seq<u8> { enc_Cipher(v) }
open spec fn enc_valid(v: Cipher) -> bool { true }
/*@FN:core/encoding/v1/crypto.rs::impl Encodable for Cipher::encode*/
fn encode<W: AsyncWrite + AsyncSeek + Unpin + Send>(
        &self,
        writer: &mut BinaryWriter<W>,
    ) -> (r: Result<()>) {
        let id: u8 = self.into();
        writer.write_u8(id)?;
        Ok(())
    }
/*@ENDFN:core/encoding/v1/crypto.rs::impl Encodable for Cipher::encode*/
}


impl Decodable for Cipher {
type DV = Cipher;
open spec fn dview(&self) -> Cipher { *self }
open spec fn dec_of(s: Seq<u8>) -> Option<(Cipher, Seq<u8>)> { dec_Cipher(s) }
open spec fn dec_ready(&self) -> bool { true }
/*@FN:core/encoding/v1/crypto.rs::impl Decodable for Cipher::decode*/
fn decode<R: AsyncRead + AsyncSeek + Unpin + Send>(
        &mut self,
        reader: &mut BinaryReader<R>,
    ) -> (r: Result<()>) {
        let id = reader.read_u8()?;
        *self = match id {
            X_CHACHA20_POLY1305 => Cipher::XChaCha20Poly1305,
            AES_GCM_256 => Cipher::AesGcm256,
            X25519 => Cipher::X25519,
            _ => {
                return Err(Error::other(opaque_string()));
            }
        };
         proof { lemma_cipher_of_code(*self); } Ok(())
    }
/*@ENDFN:core/encoding/v1/crypto.rs::impl Decodable for Cipher::decode*/
}


impl Encodable for KeyDerivation {
type EV = KeyDerivation;
open spec fn eview(&self) -> KeyDerivation { *self }
open spec fn enc_of(v: KeyDerivation) -> Seq<u8> { enc_KeyDerivation(v) }
open spec fn enc_valid(v: KeyDerivation) -> bool { true }
/*@FN:core/encoding/v1/crypto.rs::impl Encodable for KeyDerivation::encode*/
fn encode<W: AsyncWrite + AsyncSeek + Unpin + Send>(
        &self,
        writer: &mut BinaryWriter<W>,
    ) -> (r: Result<()>) {
        let id: u8 = self.into();
        writer.write_u8(id)?;
        Ok(())
    }
/*@ENDFN:core/encoding/v1/crypto.rs::impl Encodable for KeyDerivation::encode*/
}


impl Decodable for KeyDerivation {
type DV = KeyDerivation;
open spec fn dview(&self) -> KeyDerivation { *self }
open spec fn dec_of(s: Seq<u8>) -> Option<(KeyDerivation, Seq<u8>)> { dec_KeyDerivation(s) }
open spec fn dec_ready(&self) -> bool { true }
/*@FN:core/encoding/v1/crypto.rs::impl Decodable for KeyDerivation::decode*/
fn decode<R: AsyncRead + AsyncSeek + Unpin + Send>(
        &mut self,
        reader: &mut BinaryReader<R>,
    ) -> (r: Result<()>) {
        let id = reader.read_u8()?;
        *self = match id {
            ARGON_2_ID => KeyDerivation::Argon2Id,
            BALLOON_HASH => KeyDerivation::BalloonHash,
            _ => {
                return Err(Error::other(opaque_string()));
            }
        };
         proof { lemma_kdf_of_code(*self); } Ok(())
    }
/*@ENDFN:core/encoding/v1/crypto.rs::impl Decodable for KeyDerivation::decode*/
}

// ---- include units/frag/codec_base.vrs


// ---- UtcDateTime -------------------------------------------------------------------

#[derive(Clone)]
pub struct UtcDateTime(
     pub OffsetDateTime,
);
impl Default for UtcDateTime {
/*@FN:core/date_time.rs::impl Default for UtcDateTime::default*/
fn default() -> (r: Self) {
        Self(OffsetDateTime::now_utc())
    }
/*@ENDFN:core/date_time.rs::impl Default for UtcDateTime::default*/
}

// ---- include units/frag/codec_base.vrs
pub open spec fn valid_UtcDateTime(t: Instant) -> bool { instant_wf(t) }
#[verifier::opaque]
pub open spec fn enc_UtcDateTime(t: Instant) -> Seq<u8> { le64((t.secs as i64) as u64) + le32(t.nanos as u32) }
/// the decoder accepts any u32 of nanoseconds and folds whole seconds into the result
#[verifier::opaque]
pub open spec fn dec_UtcDateTime(s: Seq<u8>) -> Option<(Instant, Seq<u8>)> {
    match r_i64(s) {
        None => None,
        Some((secs, t)) => match r_u32(t) {
            None => None,
            Some((nanos, u)) => if TS_MIN <= secs <= TS_MAX && instant_wf(instant_add(Instant { secs: secs as int, nanos: 0 }, nanos as int)) {
                Some((instant_add(Instant { secs: secs as int, nanos: 0 }, nanos as int), u))
            } else { None },
        },
    }
}
pub proof fn lemma_roundtrip_UtcDateTime(t: Instant, rest: Seq<u8>)
    requires valid_UtcDateTime(t),
    ensures dec_UtcDateTime(enc_UtcDateTime(t) + rest) == Some((t, rest)),
{
    reveal(enc_UtcDateTime); reveal(dec_UtcDateTime);
    lemma_le64((t.secs as i64) as u64);
    lemma_le32(t.nanos as u32);
    assert(enc_UtcDateTime(t) + rest =~= le64((t.secs as i64) as u64) + (le32(t.nanos as u32) + rest));
    let x: i64 = t.secs as i64;
    assert((x as u64) as i64 == x) by(bit_vector);
}


impl Encodable for UtcDateTime {
type EV = Instant;
open spec fn eview(&self) -> Instant { self.0@ }
open spec fn enc_of(v: Instant) -> Seq<u8> { enc_UtcDateTime(v) }
open spec fn enc_valid(v: Instant) -> bool { valid_UtcDateTime(v) }
/*@FN:core/encoding/v1/date_time.rs::impl Encodable for UtcDateTime::encode*/
fn encode<W: AsyncWrite + AsyncSeek + Unpin + Send>(
        &self,
        writer: &mut BinaryWriter<W>,
    ) -> (r: Result<()>) { proof { reveal(enc_UtcDateTime); } 
        let seconds = self.0.unix_timestamp();
        let nanos = self.0.nanosecond();
        writer.write_i64(seconds)?;
        writer.write_u32(nanos)?;
        Ok(())
    }
/*@ENDFN:core/encoding/v1/date_time.rs::impl Encodable for UtcDateTime::encode*/
}


impl Decodable for UtcDateTime {
type DV = Instant;
open spec fn dview(&self) -> Instant { self.0@ }
open spec fn dec_of(s: Seq<u8>) -> Option<(Instant, Seq<u8>)> { dec_UtcDateTime(s) }
open spec fn dec_ready(&self) -> bool { true }
/*@FN:core/encoding/v1/date_time.rs::impl Decodable for UtcDateTime::decode*/
fn decode<R: AsyncRead + AsyncSeek + Unpin + Send>(
        &mut self,
        reader: &mut BinaryReader<R>,
    ) -> (r: Result<()>) { proof { reveal(dec_UtcDateTime); } 
        let seconds = reader.read_i64()?;
        let nanos = reader.read_u32()?;
        self.0 = OffsetDateTime::from_unix_timestamp(seconds)
            .map_err(encoding_error)?
            .checked_add(Duration::nanoseconds(nanos as i64))
            .ok_or_else(|| {
                Error::other("date time out of range")
            })?;
        Ok(())
    }
/*@ENDFN:core/encoding/v1/date_time.rs::impl Decodable for UtcDateTime::decode*/
}

// ---- include units/frag/codec_base.vrs


// ---- shared helpers --------------------------------------------------------
pub open spec fn enc_bytes32(b: Seq<u8>) -> Seq<u8> { le32(b.len() as u32) + b }
pub open spec fn enc_string(s: Seq<char>) -> Seq<u8> { le32(utf8(s).len() as u32) + utf8(s) }
pub open spec fn r_bytes32(s: Seq<u8>) -> Option<(Seq<u8>, Seq<u8>)> {
    match r_u32(s) { None => None, Some((n, t)) => r_bytes(t, n as nat) }
}
pub proof fn lemma_roundtrip_bytes32(b: Seq<u8>, rest: Seq<u8>)
    requires b.len() <= MAX_BUFFER_SIZE,
    ensures r_bytes32(enc_bytes32(b) + rest) == Some((b, rest)),
{
    lemma_le32(b.len() as u32);
    assert(enc_bytes32(b) + rest =~= le32(b.len() as u32) + (b + rest));
}
pub proof fn lemma_roundtrip_string(s: Seq<char>, rest: Seq<u8>)
    requires utf8(s).len() <= MAX_BUFFER_SIZE,
    ensures r_string(enc_string(s) + rest) == Some((s, rest)),
{
    lemma_le32(utf8(s).len() as u32);
    assert(enc_string(s) + rest =~= le32(utf8(s).len() as u32) + (utf8(s) + rest));
}

/*@FN:core/encoding/mod.rs::decode_uuid*/


pub fn decode_uuid<R: AsyncRead + AsyncSeek + Unpin + Send>(
    reader: &mut BinaryReader<R>,
) -> (r: std::result::Result<Uuid, Error>) 
    requires
        old(reader)@.wf(),
    ensures
        r.is_ok() <==> r_bytes(old(reader)@.rest(), 16).is_some(), /*@L:core/encoding/mod.rs::decode_uuid:uuid_accepts_exactly_16*/
        r.is_ok() ==> r.unwrap().0@ == r_bytes(old(reader)@.rest(), 16).unwrap().0 && rd(old(reader)@, final(reader)@, r_bytes(old(reader)@.rest(), 16).unwrap().1), /*@L:core/encoding/mod.rs::decode_uuid:uuid_value*/
        final(reader)@.wf() && final(reader)@.bytes == old(reader)@.bytes, /*@L:core/encoding/mod.rs::decode_uuid:uuid_reader_frame*/
{
    let uuid: [u8; 16] = slice_to_array(reader
        .read_bytes(16)?
        .as_slice())
        .map_err(encoding_error)?;
    Ok(Uuid::from_bytes(uuid))
}
/*@ENDFN:core/encoding/mod.rs::decode_uuid*/

// ---- include units/frag/codec_base.vrs



// =============================================================================
// secret codec: crates/vault/src/encoding/secret.rs  (FIRST PART: SecretType / IdentityKind tag
// maps, AgeVersion, SecretSigner, FileContent, SecretMeta; Secret / SecretRow / UserData are not
// built yet, see the unit report)
// =============================================================================
// Declared per-site rewrites (logged in secretcodec.rs.extraction.log):
//   R15  Error => VaultError, Result => VResult in the TryFrom<u8> impls of crates/vault/src/secret.rs
//   R15b `Error::InvalidSecretFlags` (after R17 dropped `crate::`) => `VaultError::InvalidSecretFlags`
//   R12  `kind.try_into()` => `SecretType::try_from(kind)`; `urn.parse()` => `parse_urn(&urn)`;
//        `owner_id.parse()` => `parse_string(&owner_id)`;
//        `SecretBox::new($v.into())` => `SecretBox::new(Box::new($v))` (`impl From<T> for Box<T>`);
//        `writer.write_u64(size)` => `writer.write_u64(*size)` (binary_stream takes `V: Borrow<u64>`)
//   R18  `for P in E` => `for P in it: E`  names Verus' ghost loop iterator, no exec change

/// writing nothing changes nothing
pub proof fn lemma_wr_empty(s: Stream)
    requires s.wf(),
    ensures wr(s, Seq::<u8>::empty()) == s,
{
    reveal(splice);
    assert(wr(s, Seq::<u8>::empty()).bytes =~= s.bytes);
}

// ---- tag maps ----------------------------------------------------------------------------

    pub const ACCOUNT: u8 = 1;

    pub const NOTE: u8 = 2;

    pub const LIST: u8 = 3;

    pub const FILE: u8 = 4;

    pub const PEM: u8 = 5;

    pub const PAGE: u8 = 6;

    pub const IDENTIFICATION: u8 = 7;

    pub const SIGNER: u8 = 8;

    pub const CONTACT: u8 = 9;

    pub const TOTP: u8 = 10;

    pub const CARD: u8 = 11;

    pub const BANK: u8 = 12;

    pub const LINK: u8 = 13;

    pub const PASSWORD: u8 = 14;

    pub const AGE: u8 = 15;






#[derive(Default, Clone, Copy)]

pub enum SecretType {
    
    #[default]
    Note,
    
    File,
    
    Account,
    
    List,
    
    Pem,
    
    Page,
    
    Signer,
    
    Contact,
    
    Totp,
    
    Card,
    
    Bank,
    
    Link,
    
    Password,
    
    Identity,
    
    Age,
}
impl From<&SecretType> for u8 {
/*@FN:vault/secret.rs::impl From < & SecretType > for u8::from*/
fn from(value: &SecretType) -> (r: Self) 
    ensures
        r == secret_type_code(value), /*@L:vault/secret.rs::impl From < & SecretType > for u8::from:from_is_twin*/
{
        match value {
            SecretType::Note => NOTE,
            SecretType::File => FILE,
            SecretType::Account => ACCOUNT,
            SecretType::List => LIST,
            SecretType::Pem => PEM,
            SecretType::Page => PAGE,
            SecretType::Identity => IDENTIFICATION,
            SecretType::Signer => SIGNER,
            SecretType::Contact => CONTACT,
            SecretType::Totp => TOTP,
            SecretType::Card => CARD,
            SecretType::Bank => BANK,
            SecretType::Link => LINK,
            SecretType::Password => PASSWORD,
            SecretType::Age => AGE,
        }
    }
/*@ENDFN:vault/secret.rs::impl From < & SecretType > for u8::from*/
}
pub open spec fn secret_type_code(value: &SecretType) -> u8 {
        match value {
            SecretType::Note => NOTE,
            SecretType::File => FILE,
            SecretType::Account => ACCOUNT,
            SecretType::List => LIST,
            SecretType::Pem => PEM,
            SecretType::Page => PAGE,
            SecretType::Identity => IDENTIFICATION,
            SecretType::Signer => SIGNER,
            SecretType::Contact => CONTACT,
            SecretType::Totp => TOTP,
            SecretType::Card => CARD,
            SecretType::Bank => BANK,
            SecretType::Link => LINK,
            SecretType::Password => PASSWORD,
            SecretType::Age => AGE,
        }
    }

impl FromSpecImpl<&SecretType> for u8 {
    open spec fn obeys_from_spec() -> bool { true }
    open spec fn from_spec(v: &SecretType) -> u8 { secret_type_code(v) }
}
impl From<SecretType> for u8 {
/*@FN:vault/secret.rs::impl From < SecretType > for u8::from*/
fn from(value: SecretType) -> (r: Self) 
    ensures
        r == secret_type_code(&value), /*@L:vault/secret.rs::impl From < SecretType > for u8::from:from_is_code*/
{
        (&value).into()
    }
/*@ENDFN:vault/secret.rs::impl From < SecretType > for u8::from*/
}

impl FromSpecImpl<SecretType> for u8 {
    open spec fn obeys_from_spec() -> bool { true }
    open spec fn from_spec(v: SecretType) -> u8 { secret_type_code(&v) }
}
impl TryFrom<u8> for SecretType {
type Error = VaultError;

/*@FN:vault/secret.rs::impl TryFrom < u8 > for SecretType::try_from*/
fn try_from(value: u8) -> (r: VResult<Self>) 
    ensures
        r.is_err() ==> (forall|k: SecretType| secret_type_code(&k) != value), /*@L:vault/secret.rs::impl TryFrom < u8 > for SecretType::try_from:try_from_rejects_only_non_codes*/
        r.is_ok() ==> secret_type_code(&r.unwrap()) == value, /*@L:vault/secret.rs::impl TryFrom < u8 > for SecretType::try_from:try_from_inverts_code*/
{
        Ok(match value {
            NOTE => Self::Note,
            FILE => Self::File,
            ACCOUNT => Self::Account,
            LIST => Self::List,
            PEM => Self::Pem,
            PAGE => Self::Page,
            IDENTIFICATION => Self::Identity,
            SIGNER => Self::Signer,
            CONTACT => Self::Contact,
            TOTP => Self::Totp,
            CARD => Self::Card,
            BANK => Self::Bank,
            LINK => Self::Link,
            PASSWORD => Self::Password,
            AGE => Self::Age,
            _ => return Err(VaultError::UnknownSecretKind(value)),
        })
    }
/*@ENDFN:vault/secret.rs::impl TryFrom < u8 > for SecretType::try_from*/
}

impl TryFromSpecImpl<u8> for SecretType {
    open spec fn obeys_try_from_spec() -> bool { false }
    open spec fn try_from_spec(v: u8) -> core::result::Result<Self, Self::Error> { arbitrary() }
}
pub proof fn lemma_secret_type_code_injective(a: SecretType, b: SecretType)
    requires secret_type_code(&a) == secret_type_code(&b), ensures a == b, {}
pub open spec fn secret_type_of_code(c: u8) -> Option<SecretType> {
    if exists|k: SecretType| secret_type_code(&k) == c { Some(choose|k: SecretType| secret_type_code(&k) == c) } else { None }
}
pub proof fn lemma_secret_type_of_code(k: SecretType)
    ensures secret_type_of_code(secret_type_code(&k)) == Some(k),
{
    let k2 = choose|k2: SecretType| secret_type_code(&k2) == secret_type_code(&k);
    lemma_secret_type_code_injective(k, k2);
}



#[derive(Clone)]

pub enum IdentityKind {
    
    PersonalIdNumber,
    
    IdCard,
    
    Passport,
    
    DriverLicense,
    
    SocialSecurity,
    
    TaxNumber,
    
    MedicalCard,
}
impl From<&IdentityKind> for u8 {
/*@FN:vault/secret.rs::impl From < & IdentityKind > for u8::from*/
fn from(value: &IdentityKind) -> (r: Self) 
    ensures
        r == identity_kind_code(value), /*@L:vault/secret.rs::impl From < & IdentityKind > for u8::from:from_is_twin*/
{
        match value {
            IdentityKind::PersonalIdNumber => 1,
            IdentityKind::IdCard => 2,
            IdentityKind::Passport => 3,
            IdentityKind::DriverLicense => 4,
            IdentityKind::SocialSecurity => 5,
            IdentityKind::TaxNumber => 6,
            IdentityKind::MedicalCard => 7,
        }
    }
/*@ENDFN:vault/secret.rs::impl From < & IdentityKind > for u8::from*/
}
pub open spec fn identity_kind_code(value: &IdentityKind) -> u8 {
        match value {
            IdentityKind::PersonalIdNumber => 1,
            IdentityKind::IdCard => 2,
            IdentityKind::Passport => 3,
            IdentityKind::DriverLicense => 4,
            IdentityKind::SocialSecurity => 5,
            IdentityKind::TaxNumber => 6,
            IdentityKind::MedicalCard => 7,
        }
    }

impl FromSpecImpl<&IdentityKind> for u8 {
    open spec fn obeys_from_spec() -> bool { true }
    open spec fn from_spec(v: &IdentityKind) -> u8 { identity_kind_code(v) }
}
impl TryFrom<u8> for IdentityKind {
type Error = VaultError;

/*@FN:vault/secret.rs::impl TryFrom < u8 > for IdentityKind::try_from*/
fn try_from(value: u8) -> (r: VResult<Self>) 
    ensures
        r.is_err() ==> (forall|k: IdentityKind| identity_kind_code(&k) != value), /*@L:vault/secret.rs::impl TryFrom < u8 > for IdentityKind::try_from:try_from_rejects_only_non_codes*/
        r.is_ok() ==> identity_kind_code(&r.unwrap()) == value, /*@L:vault/secret.rs::impl TryFrom < u8 > for IdentityKind::try_from:try_from_inverts_code*/
{
        match value {
            1 => Ok(IdentityKind::PersonalIdNumber),
            2 => Ok(IdentityKind::IdCard),
            3 => Ok(IdentityKind::Passport),
            4 => Ok(IdentityKind::DriverLicense),
            5 => Ok(IdentityKind::SocialSecurity),
            6 => Ok(IdentityKind::TaxNumber),
            7 => Ok(IdentityKind::MedicalCard),
            _ => Err(VaultError::UnknownIdentityKind(value)),
        }
    }
/*@ENDFN:vault/secret.rs::impl TryFrom < u8 > for IdentityKind::try_from*/
}

impl TryFromSpecImpl<u8> for IdentityKind {
    open spec fn obeys_try_from_spec() -> bool { false }
    open spec fn try_from_spec(v: u8) -> core::result::Result<Self, Self::Error> { arbitrary() }
}
pub proof fn lemma_identity_kind_code_injective(a: IdentityKind, b: IdentityKind)
    requires identity_kind_code(&a) == identity_kind_code(&b), ensures a == b, {}

// ---- AgeVersion -----------------------------------------------------------------------------

#[derive(Default, Clone)]
pub enum AgeVersion {
    
    #[default]
    Version1,
}
pub open spec fn enc_AgeVersion(v: AgeVersion) -> Seq<u8> { seq![1u8] }
pub open spec fn dec_AgeVersion(s: Seq<u8>) -> Option<(AgeVersion, Seq<u8>)> {
    match r_u8(s) { None => None, Some((k, t)) => if k == 1 { Some((AgeVersion::Version1, t)) } else { None } }
}
pub proof fn lemma_roundtrip_AgeVersion(v: AgeVersion, rest: Seq<u8>)
    ensures dec_AgeVersion(enc_AgeVersion(v) + rest) == Some((v, rest)),
{
    lemma_take_n_concat(seq![1u8], rest);
}

impl Encodable for AgeVersion {
type EV = AgeVersion;
open spec fn eview(&self) -> AgeVersion { *self }
open spec fn enc_of(v: AgeVersion) -> Seq<u8> { enc_AgeVersion(v) }
open spec fn enc_valid(v: AgeVersion) -> bool { true }
/*@FN:vault/encoding/secret.rs::impl Encodable for AgeVersion::encode*/
fn encode<W: AsyncWrite + AsyncSeek + Unpin + Send>(
        &self,
        writer: &mut BinaryWriter<W>,
    ) -> (r: Result<()>) {
        match self {
            Self::Version1 => writer.write_u8(1)?,
        };
        Ok(())
    }
/*@ENDFN:vault/encoding/secret.rs::impl Encodable for AgeVersion::encode*/
}


impl Decodable for AgeVersion {
type DV = AgeVersion;
open spec fn dview(&self) -> AgeVersion { *self }
open spec fn dec_of(s: Seq<u8>) -> Option<(AgeVersion, Seq<u8>)> { dec_AgeVersion(s) }
open spec fn dec_ready(&self) -> bool { true }
/*@FN:vault/encoding/secret.rs::impl Decodable for AgeVersion::decode*/
fn decode<R: AsyncRead + AsyncSeek + Unpin + Send>(
        &mut self,
        reader: &mut BinaryReader<R>,
    ) -> (r: Result<()>) {
        let kind = reader.read_u8()?;
        match kind {
            1 => {
                *self = Self::Version1;
            }
            _ => {
                return Err(Error::other(opaque_string()));
            }
        };
        Ok(())
    }
/*@ENDFN:vault/encoding/secret.rs::impl Decodable for AgeVersion::decode*/
}


// ---- SecretSigner -------------------------------------------------------------------------------
pub const SINGLE_PARTY_ECDSA: u8 = 1;
pub const SINGLE_PARTY_ED25519: u8 = 2;


pub enum SecretSigner {
    
    
    SinglePartyEcdsa(SecretBox<Vec<u8>>),
    
    
    SinglePartyEd25519(SecretBox<Vec<u8>>),
}
pub ghost enum SecretSignerV { Ecdsa(Seq<u8>), Ed25519(Seq<u8>) }
impl View for SecretSigner {
    type V = SecretSignerV;
    open spec fn view(&self) -> SecretSignerV {
        match self {
            SecretSigner::SinglePartyEcdsa(b) => SecretSignerV::Ecdsa((*b.inner)@),
            SecretSigner::SinglePartyEd25519(b) => SecretSignerV::Ed25519((*b.inner)@),
        }
    }
}
pub open spec fn signer_bytes(v: SecretSignerV) -> Seq<u8> { match v { SecretSignerV::Ecdsa(b) => b, SecretSignerV::Ed25519(b) => b } }
pub open spec fn valid_SecretSigner(v: SecretSignerV) -> bool { signer_bytes(v).len() <= MAX_BUFFER_SIZE }
pub open spec fn enc_SecretSigner(v: SecretSignerV) -> Seq<u8> {
    match v {
        SecretSignerV::Ecdsa(b) => seq![1u8] + enc_bytes32(b),
        SecretSignerV::Ed25519(b) => seq![2u8] + enc_bytes32(b),
    }
}
pub open spec fn dec_SecretSigner(s: Seq<u8>) -> Option<(SecretSignerV, Seq<u8>)> {
    match r_u8(s) { None => None, Some((k, t)) =>
        if k == 1 { match r_bytes32(t) { None => None, Some((b, u)) => Some((SecretSignerV::Ecdsa(b), u)) } }
        else if k == 2 { match r_bytes32(t) { None => None, Some((b, u)) => Some((SecretSignerV::Ed25519(b), u)) } }
        else { None } }
}
pub proof fn lemma_roundtrip_SecretSigner(v: SecretSignerV, rest: Seq<u8>)
    requires valid_SecretSigner(v),
    ensures dec_SecretSigner(enc_SecretSigner(v) + rest) == Some((v, rest)),
{
    match v {
        SecretSignerV::Ecdsa(b) => {
            assert(enc_SecretSigner(v) + rest =~= seq![1u8] + (enc_bytes32(b) + rest));
            lemma_take_n_concat(seq![1u8], enc_bytes32(b) + rest);
            lemma_roundtrip_bytes32(b, rest);
        }
        SecretSignerV::Ed25519(b) => {
            assert(enc_SecretSigner(v) + rest =~= seq![2u8] + (enc_bytes32(b) + rest));
            lemma_take_n_concat(seq![2u8], enc_bytes32(b) + rest);
            lemma_roundtrip_bytes32(b, rest);
        }
    }
}

impl Encodable for SecretSigner {
type EV = SecretSignerV;
open spec fn eview(&self) -> SecretSignerV { self@ }
open spec fn enc_of(v: SecretSignerV) -> Seq<u8> { enc_SecretSigner(v) }
open spec fn enc_valid(v: SecretSignerV) -> bool { valid_SecretSigner(v) }
/*@FN:vault/encoding/secret.rs::impl Encodable for SecretSigner::encode*/
fn encode<W: AsyncWrite + AsyncSeek + Unpin + Send>(
        &self,
        writer: &mut BinaryWriter<W>,
    ) -> (r: Result<()>) {
        let kind = match self {
            Self::SinglePartyEcdsa(_) => SINGLE_PARTY_ECDSA,
            Self::SinglePartyEd25519(_) => SINGLE_PARTY_ED25519,
        };
        writer.write_u8(kind)?;

        match self {
            Self::SinglePartyEcdsa(buffer)
            | Self::SinglePartyEd25519(buffer) => {
                writer
                    .write_u32(buffer.expose_secret().len() as u32)?;
                writer.write_bytes(buffer.expose_secret())?;
            }
        }

         proof {
 let b = signer_bytes(self@);
 assert(seq![1u8] + le32(b.len() as u32) + b =~= seq![1u8] + enc_bytes32(b));
 assert(seq![2u8] + le32(b.len() as u32) + b =~= seq![2u8] + enc_bytes32(b));
 } Ok(())
    }
/*@ENDFN:vault/encoding/secret.rs::impl Encodable for SecretSigner::encode*/
}


impl Decodable for SecretSigner {
type DV = SecretSignerV;
open spec fn dview(&self) -> SecretSignerV { self@ }
open spec fn dec_of(s: Seq<u8>) -> Option<(SecretSignerV, Seq<u8>)> { dec_SecretSigner(s) }
open spec fn dec_ready(&self) -> bool { true }
/*@FN:vault/encoding/secret.rs::impl Decodable for SecretSigner::decode*/
fn decode<R: AsyncRead + AsyncSeek + Unpin + Send>(
        &mut self,
        reader: &mut BinaryReader<R>,
    ) -> (r: Result<()>) {
        let kind = reader.read_u8()?;
        match kind {
            SINGLE_PARTY_ECDSA => {
                let buffer_len = reader.read_u32()?;
                let buffer = SecretBox::new(Box::new(reader.read_bytes(buffer_len as usize)?));
                *self = Self::SinglePartyEcdsa(buffer);
            }
            SINGLE_PARTY_ED25519 => {
                let buffer_len = reader.read_u32()?;
                let buffer = SecretBox::new(Box::new(reader.read_bytes(buffer_len as usize)?));
                *self = Self::SinglePartyEd25519(buffer);
            }
            _ => {
                return Err(Error::other(opaque_string()));
            }
        }

        Ok(())
    }
/*@ENDFN:vault/encoding/secret.rs::impl Decodable for SecretSigner::decode*/
}


// ---- FileContent ------------------------------------------------------------------------------------
pub const EMBEDDED_FILE: u8 = 1;
pub const EXTERNAL_FILE: u8 = 2;

// `path` of FileContent::External is documented "never encoded or serialized" (a transient source
// path): it is NOT part of the abstract value; decode always yields `path: None`.



pub enum FileContent {
    
    Embedded {
        
        name: String,

        
        
        
        mime: String,

        
        
        buffer: SecretBox<Vec<u8>>,

        
        
        
        
        
        
        
        
        
        
        checksum: [u8; 32],
    },
    
    External {
        
        name: String,

        
        
        
        mime: String,

        
        
        
        
        
        
        
        
        
        
        checksum: [u8; 32],

        
        size: u64,

        
        
        path: Option<PathBuf>,
    },
}
/// std::path::PathBuf: carried only (never read by the codec)
#[verifier::external_body]
pub struct PathBuf { _p: () }
pub ghost enum FileContentV {
    Embedded { name: Seq<char>, mime: Seq<char>, buffer: Seq<u8>, checksum: Seq<u8> },
    External { name: Seq<char>, mime: Seq<char>, checksum: Seq<u8>, size: u64 },
}
impl View for FileContent {
    type V = FileContentV;
    open spec fn view(&self) -> FileContentV {
        match self {
            FileContent::Embedded { name, mime, buffer, checksum } => FileContentV::Embedded { name: name@, mime: mime@, buffer: (*buffer.inner)@, checksum: checksum@ },
            FileContent::External { name, mime, checksum, size, path } => FileContentV::External { name: name@, mime: mime@, checksum: checksum@, size: *size },
        }
    }
}
pub open spec fn valid_FileContent(v: FileContentV) -> bool {
    match v {
        FileContentV::Embedded { name, mime, buffer, checksum } => utf8(name).len() <= MAX_BUFFER_SIZE && utf8(mime).len() <= MAX_BUFFER_SIZE && buffer.len() <= MAX_BUFFER_SIZE && checksum.len() == 32,
        FileContentV::External { name, mime, checksum, size } => utf8(name).len() <= MAX_BUFFER_SIZE && utf8(mime).len() <= MAX_BUFFER_SIZE && checksum.len() == 32,
    }
}
pub open spec fn enc_FileContent(v: FileContentV) -> Seq<u8> {
    match v {
        FileContentV::Embedded { name, mime, buffer, checksum } => seq![1u8] + enc_string(name) + enc_string(mime) + enc_bytes32(buffer) + checksum,
        FileContentV::External { name, mime, checksum, size } => seq![2u8] + enc_string(name) + enc_string(mime) + checksum + le64(size),
    }
}
pub open spec fn dec_FileContent(s: Seq<u8>) -> Option<(FileContentV, Seq<u8>)> {
    match r_u8(s) { None => None, Some((k, t0)) =>
        if k == 1 {
            match r_string(t0) { None => None, Some((name, t1)) =>
            match r_string(t1) { None => None, Some((mime, t2)) =>
            match r_bytes32(t2) { None => None, Some((buffer, t3)) =>
            match r_bytes(t3, 32) { None => None, Some((checksum, t4)) =>
                Some((FileContentV::Embedded { name: name, mime: mime, buffer: buffer, checksum: checksum }, t4)) }}}}
        } else if k == 2 {
            match r_string(t0) { None => None, Some((name, t1)) =>
            match r_string(t1) { None => None, Some((mime, t2)) =>
            match r_bytes(t2, 32) { None => None, Some((checksum, t3)) =>
            match r_u64(t3) { None => None, Some((size, t4)) =>
                Some((FileContentV::External { name: name, mime: mime, checksum: checksum, size: size }, t4)) }}}}
        } else { None } }
}
#[verifier::spinoff_prover]
pub proof fn lemma_roundtrip_FileContent(v: FileContentV, rest: Seq<u8>)
    requires valid_FileContent(v),
    ensures dec_FileContent(enc_FileContent(v) + rest) == Some((v, rest)),
{
    match v {
        FileContentV::Embedded { name, mime, buffer, checksum } => {
            let b3 = checksum + rest;
            let b2 = enc_bytes32(buffer) + b3;
            let b1 = enc_string(mime) + b2;
            let b0 = enc_string(name) + b1;
            assert(enc_FileContent(v) + rest =~= seq![1u8] + b0);
            lemma_take_n_concat(seq![1u8], b0);
            lemma_roundtrip_string(name, b1);
            lemma_roundtrip_string(mime, b2);
            lemma_roundtrip_bytes32(buffer, b3);
            lemma_take_n_concat(checksum, rest);
        }
        FileContentV::External { name, mime, checksum, size } => {
            let b3 = le64(size) + rest;
            let b2 = checksum + b3;
            let b1 = enc_string(mime) + b2;
            let b0 = enc_string(name) + b1;
            assert(enc_FileContent(v) + rest =~= seq![2u8] + b0);
            lemma_take_n_concat(seq![2u8], b0);
            lemma_roundtrip_string(name, b1);
            lemma_roundtrip_string(mime, b2);
            lemma_take_n_concat(checksum, b3);
            lemma_le64(size);
            lemma_take_n_concat(le64(size), rest);
        }
    }
}

impl Encodable for FileContent {
type EV = FileContentV;
open spec fn eview(&self) -> FileContentV { self@ }
open spec fn enc_of(v: FileContentV) -> Seq<u8> { enc_FileContent(v) }
open spec fn enc_valid(v: FileContentV) -> bool { valid_FileContent(v) }
/*@FN:vault/encoding/secret.rs::impl Encodable for FileContent::encode*/
fn encode<W: AsyncWrite + AsyncSeek + Unpin + Send>(
        &self,
        writer: &mut BinaryWriter<W>,
    ) -> (r: Result<()>) {
        match self {
            Self::Embedded {
                name,
                mime,
                buffer,
                checksum,
            } => {
                writer.write_u8(EMBEDDED_FILE)?;
                writer.write_string(name)?;
                writer.write_string(mime)?;
                writer
                    .write_u32(buffer.expose_secret().len() as u32)?;
                writer.write_bytes(buffer.expose_secret())?;
                writer.write_bytes(checksum)?;
            }
            Self::External {
                name,
                mime,
                checksum,
                size,
                ..
            } => {
                writer.write_u8(EXTERNAL_FILE)?;
                writer.write_string(name)?;
                writer.write_string(mime)?;
                writer.write_bytes(checksum)?;
                writer.write_u64(*size)?;
            }
        }
         proof {
 match self@ {
 FileContentV::Embedded { name, mime, buffer, checksum } => {
 assert(seq![1u8] + enc_string(name) + enc_string(mime) + le32(buffer.len() as u32) + buffer + checksum =~= enc_FileContent(self@));
 }
 FileContentV::External { name, mime, checksum, size } => {}
 }
 } Ok(())
    }
/*@ENDFN:vault/encoding/secret.rs::impl Encodable for FileContent::encode*/
}


impl Decodable for FileContent {
type DV = FileContentV;
open spec fn dview(&self) -> FileContentV { self@ }
open spec fn dec_of(s: Seq<u8>) -> Option<(FileContentV, Seq<u8>)> { dec_FileContent(s) }
open spec fn dec_ready(&self) -> bool { true }
/*@FN:vault/encoding/secret.rs::impl Decodable for FileContent::decode*/
fn decode<R: AsyncRead + AsyncSeek + Unpin + Send>(
        &mut self,
        reader: &mut BinaryReader<R>,
    ) -> (r: Result<()>) {
        let kind = reader.read_u8()?;
        match kind {
            EMBEDDED_FILE => {
                let name = reader.read_string()?;
                let mime = reader.read_string()?;
                let buffer_len = reader.read_u32()?;
                let buffer = SecretBox::new(Box::new(reader.read_bytes(buffer_len as usize)?));
                let checksum: [u8; 32] = slice_to_array(reader
                    .read_bytes(32)?
                    .as_slice())
                    .map_err(encoding_error)?;
                *self = Self::Embedded {
                    name,
                    mime,
                    buffer,
                    checksum,
                };
            }
            EXTERNAL_FILE => {
                let name = reader.read_string()?;
                let mime = reader.read_string()?;
                let checksum: [u8; 32] = slice_to_array(reader
                    .read_bytes(32)?
                    .as_slice())
                    .map_err(encoding_error)?;
                let size = reader.read_u64()?;
                *self = Self::External {
                    name,
                    mime,
                    checksum,
                    size,
                    path: None,
                };
            }
            _ => {
                return Err(Error::other(opaque_string()));
            }
        }
        Ok(())
    }
/*@ENDFN:vault/encoding/secret.rs::impl Decodable for FileContent::decode*/
}


// ---- SecretMeta -----------------------------------------------------------------------------------------




pub struct SecretMeta {
    
    pub kind: SecretType,
    
    pub flags: SecretFlags,
    
    
    pub label: String,
    
    
    pub tags: HashSet<String>,
    
    pub favorite: bool,
    
    
    
    
    
    
    pub urn: Option<Urn>,
    
    
    
    
    
    
    pub owner_id: Option<String>,
    
    pub date_created: UtcDateTime,
    
    
    pub last_updated: UtcDateTime,
}
/// `#[derive(Default)]` on SecretMeta (R6b): field-wise Default, written out so that it carries a contract
impl Default for SecretMeta {
    fn default() -> (r: Self)
        ensures r.tags@ == Set::<Seq<char>>::empty(), r.urn is None, r.owner_id is None,
    {
        SecretMeta {
            kind: Default::default(), flags: Default::default(), label: Default::default(), tags: Default::default(), favorite: Default::default(),
            urn: None, owner_id: None, date_created: Default::default(), last_updated: Default::default(),
        }
    }
}
/// the abstract value: `tags` is a SET (crate: HashSet<String>)
pub ghost struct SecretMetaV {
    pub kind: SecretType, pub flags: u32, pub label: Seq<char>, pub tags: Set<Seq<char>>, pub favorite: bool,
    pub urn: Option<Seq<char>>, pub owner_id: Option<Seq<char>>, pub date_created: Instant, pub last_updated: Instant,
}
impl View for SecretMeta {
    type V = SecretMetaV;
    open spec fn view(&self) -> SecretMetaV {
        SecretMetaV {
            kind: self.kind, flags: self.flags.b, label: self.label@, tags: self.tags@, favorite: self.favorite,
            urn: match self.urn { Some(u) => Some(u@), None => None },
            owner_id: match self.owner_id { Some(o) => Some(o@), None => None },
            date_created: self.date_created.0@, last_updated: self.last_updated.0@,
        }
    }
}
pub open spec fn enc_strs(v: Seq<Seq<char>>) -> Seq<u8>
    decreases v.len(),
{
    if v.len() == 0 { Seq::<u8>::empty() } else { enc_string(v[0]) + enc_strs(v.subrange(1, v.len() as int)) }
}
pub open spec fn dec_strs(s: Seq<u8>, n: nat) -> Option<(Seq<Seq<char>>, Seq<u8>)>
    decreases n,
{
    if n == 0 { Some((Seq::<Seq<char>>::empty(), s)) } else {
        match r_string(s) { None => None, Some((x, t)) =>
            match dec_strs(t, (n - 1) as nat) { None => None, Some((xs, u)) => Some((seq![x] + xs, u)) } }
    }
}
pub open spec fn enc_opt_string(o: Option<Seq<char>>) -> Seq<u8> {
    match o { Some(s) => seq![1u8] + enc_string(s), None => seq![0u8] }
}
pub open spec fn dec_opt_string(s: Seq<u8>) -> Option<(Option<Seq<char>>, Seq<u8>)> {
    match r_bool(s) { None => None, Some((has, t)) =>
        if has { match r_string(t) { None => None, Some((x, u)) => Some((Some(x), u)) } } else { Some((None, t)) } }
}
/// the URN text is parsed (validated and normalised) on the way in
pub open spec fn dec_opt_urn(s: Seq<u8>) -> Option<(Option<Seq<char>>, Seq<u8>)> {
    match r_bool(s) { None => None, Some((has, t)) =>
        if has { match r_string(t) { None => None, Some((x, u)) => match urn_parse(x) { None => None, Some(y) => Some((Some(y), u)) } } } else { Some((None, t)) } }
}
/// `o` lists the set `t`: every element once
pub open spec fn lists(o: Seq<Seq<char>>, t: Set<Seq<char>>) -> bool { o.no_duplicates() && o.to_set() == t }
/// a fixed listing of a finite set (which one is irrelevant: a function of the set)
pub open spec fn canon_order(t: Set<Seq<char>>) -> Seq<Seq<char>> { choose|o: Seq<Seq<char>>| lists(o, t) }
pub open spec fn valid_SecretMeta_with(v: SecretMetaV, o: Seq<Seq<char>>) -> bool {
    (v.flags & !SECRET_FLAGS_ALL) == 0 && valid_UtcDateTime(v.date_created) && valid_UtcDateTime(v.last_updated)
    && utf8(v.label).len() <= MAX_BUFFER_SIZE
    && lists(o, v.tags) && o.len() <= u32::MAX && (forall|i: int| 0 <= i < o.len() ==> utf8(#[trigger] o[i]).len() <= MAX_BUFFER_SIZE)
    && (match v.urn { Some(u) => utf8(u).len() <= MAX_BUFFER_SIZE && urn_parse(u) == Some(u), None => true })
    && (match v.owner_id { Some(x) => utf8(x).len() <= MAX_BUFFER_SIZE, None => true })
}
pub open spec fn valid_SecretMeta(v: SecretMetaV) -> bool { valid_SecretMeta_with(v, canon_order(v.tags)) }
pub ghost struct MetaHeadV { pub kind: SecretType, pub flags: u32, pub date_created: Instant, pub last_updated: Instant, pub label: Seq<char> }
pub ghost struct MetaTailV { pub tags: Seq<Seq<char>>, pub urn: Option<Seq<char>>, pub owner_id: Option<Seq<char>>, pub favorite: bool }
pub open spec fn meta_head(v: SecretMetaV) -> MetaHeadV {
    MetaHeadV { kind: v.kind, flags: v.flags, date_created: v.date_created, last_updated: v.last_updated, label: v.label }
}
pub open spec fn meta_tail(v: SecretMetaV, o: Seq<Seq<char>>) -> MetaTailV {
    MetaTailV { tags: o, urn: v.urn, owner_id: v.owner_id, favorite: v.favorite }
}
pub open spec fn meta_of(h: MetaHeadV, t: MetaTailV) -> SecretMetaV {
    SecretMetaV { kind: h.kind, flags: h.flags, label: h.label, tags: t.tags.to_set(), favorite: t.favorite, urn: t.urn, owner_id: t.owner_id,
        date_created: h.date_created, last_updated: h.last_updated }
}
pub open spec fn enc_meta_head(h: MetaHeadV) -> Seq<u8> {
    seq![secret_type_code(&h.kind)] + le32(h.flags) + enc_UtcDateTime(h.date_created) + enc_UtcDateTime(h.last_updated) + enc_string(h.label)
}
pub open spec fn enc_meta_tail(t: MetaTailV) -> Seq<u8> {
    le32(t.tags.len() as u32) + enc_strs(t.tags) + enc_opt_string(t.urn) + enc_opt_string(t.owner_id) + seq![if t.favorite { 1u8 } else { 0u8 }]
}
pub open spec fn dec_meta_head(s: Seq<u8>) -> Option<(MetaHeadV, Seq<u8>)> {
    match r_u8(s) { None => None, Some((k, t0)) =>
    match secret_type_of_code(k) { None => None, Some(kind) =>
    match r_u32(t0) { None => None, Some((flags, t1)) => if (flags & !SECRET_FLAGS_ALL) != 0 { None } else {
    match dec_UtcDateTime(t1) { None => None, Some((dc, t2)) =>
    match dec_UtcDateTime(t2) { None => None, Some((lu, t3)) =>
    match r_string(t3) { None => None, Some((label, t4)) =>
        Some((MetaHeadV { kind: kind, flags: flags, date_created: dc, last_updated: lu, label: label }, t4)) }}}}}}}
}
/// what follows the tag strings
pub open spec fn dec_meta_rest(tags: Seq<Seq<char>>, t6: Seq<u8>) -> Option<(MetaTailV, Seq<u8>)> {
    match dec_opt_urn(t6) { None => None, Some((urn, t7)) =>
    match dec_opt_string(t7) { None => None, Some((owner, t8)) =>
    match r_bool(t8) { None => None, Some((fav, t9)) =>
        Some((MetaTailV { tags: tags, urn: urn, owner_id: owner, favorite: fav }, t9)) }}}
}
pub open spec fn dec_meta_tail(s: Seq<u8>) -> Option<(MetaTailV, Seq<u8>)> {
    match r_u32(s) { None => None, Some((n, t5)) =>
    match dec_strs(t5, n as nat) { None => None, Some((tags, t6)) => dec_meta_rest(tags, t6) } }
}
/// the bytes written when the tag set is iterated in the order `o`
pub open spec fn enc_SecretMeta_with(v: SecretMetaV, o: Seq<Seq<char>>) -> Seq<u8> {
    enc_meta_head(meta_head(v)) + enc_meta_tail(meta_tail(v, o))
}
/// C14 determinism: THE encoding of a value is a function of the value
pub open spec fn enc_SecretMeta(v: SecretMetaV) -> Seq<u8> { enc_SecretMeta_with(v, canon_order(v.tags)) }
pub open spec fn dec_SecretMeta(s: Seq<u8>) -> Option<(SecretMetaV, Seq<u8>)> {
    match dec_meta_head(s) { None => None, Some((h, t)) =>
    match dec_meta_tail(t) { None => None, Some((tl, u)) => Some((meta_of(h, tl), u)) } }
}
pub proof fn lemma_roundtrip_strs(v: Seq<Seq<char>>, rest: Seq<u8>)
    requires forall|i: int| 0 <= i < v.len() ==> utf8(#[trigger] v[i]).len() <= MAX_BUFFER_SIZE,
    ensures dec_strs(enc_strs(v) + rest, v.len()) == Some((v, rest)),
    decreases v.len(),
{
    if v.len() == 0 {
        assert(enc_strs(v) + rest =~= rest);
        assert(v =~= Seq::<Seq<char>>::empty());
    } else {
        let tl = v.subrange(1, v.len() as int);
        assert(enc_strs(v) + rest =~= enc_string(v[0]) + (enc_strs(tl) + rest));
        lemma_roundtrip_string(v[0], enc_strs(tl) + rest);
        assert forall|i: int| 0 <= i < tl.len() implies utf8(#[trigger] tl[i]).len() <= MAX_BUFFER_SIZE by { assert(tl[i] == v[i + 1]); }
        lemma_roundtrip_strs(tl, rest);
        assert(seq![v[0]] + tl =~= v);
    }
}
pub proof fn lemma_roundtrip_opt_string(o: Option<Seq<char>>, rest: Seq<u8>)
    requires o matches Some(s) ==> utf8(s).len() <= MAX_BUFFER_SIZE,
    ensures dec_opt_string(enc_opt_string(o) + rest) == Some((o, rest)),
{
    match o {
        Some(s) => {
            assert(enc_opt_string(o) + rest =~= seq![1u8] + (enc_string(s) + rest));
            lemma_take_n_concat(seq![1u8], enc_string(s) + rest);
            lemma_roundtrip_string(s, rest);
        }
        None => { lemma_take_n_concat(seq![0u8], rest); }
    }
}
pub proof fn lemma_roundtrip_opt_urn(o: Option<Seq<char>>, rest: Seq<u8>)
    requires o matches Some(s) ==> utf8(s).len() <= MAX_BUFFER_SIZE && urn_parse(s) == Some(s),
    ensures dec_opt_urn(enc_opt_string(o) + rest) == Some((o, rest)),
{
    match o {
        Some(s) => {
            assert(enc_opt_string(o) + rest =~= seq![1u8] + (enc_string(s) + rest));
            lemma_take_n_concat(seq![1u8], enc_string(s) + rest);
            lemma_roundtrip_string(s, rest);
        }
        None => { lemma_take_n_concat(seq![0u8], rest); }
    }
}
pub proof fn lemma_roundtrip_meta_head(h: MetaHeadV, rest: Seq<u8>)
    requires (h.flags & !SECRET_FLAGS_ALL) == 0, valid_UtcDateTime(h.date_created), valid_UtcDateTime(h.last_updated), utf8(h.label).len() <= MAX_BUFFER_SIZE,
    ensures dec_meta_head(enc_meta_head(h) + rest) == Some((h, rest)),
{
    let b4 = enc_string(h.label) + rest;
    let b3 = enc_UtcDateTime(h.last_updated) + b4;
    let b2 = enc_UtcDateTime(h.date_created) + b3;
    let b1 = le32(h.flags) + b2;
    let k = seq![secret_type_code(&h.kind)];
    assert(enc_meta_head(h) + rest =~= k + b1);
    lemma_take_n_concat(k, b1);
    lemma_secret_type_of_code(h.kind);
    lemma_le32(h.flags);
    lemma_take_n_concat(le32(h.flags), b2);
    lemma_roundtrip_UtcDateTime(h.date_created, b3);
    lemma_roundtrip_UtcDateTime(h.last_updated, b4);
    lemma_roundtrip_string(h.label, rest);
}
pub open spec fn enc_meta_rest(t: MetaTailV) -> Seq<u8> {
    enc_opt_string(t.urn) + enc_opt_string(t.owner_id) + seq![if t.favorite { 1u8 } else { 0u8 }]
}
pub proof fn lemma_roundtrip_meta_rest(t: MetaTailV, rest: Seq<u8>)
    requires
        t.urn matches Some(u) ==> utf8(u).len() <= MAX_BUFFER_SIZE && urn_parse(u) == Some(u),
        t.owner_id matches Some(x) ==> utf8(x).len() <= MAX_BUFFER_SIZE,
    ensures dec_meta_rest(t.tags, enc_meta_rest(t) + rest) == Some((t, rest)),
{
    hide(enc_opt_string); hide(dec_opt_string); hide(dec_opt_urn);
    let fav = seq![if t.favorite { 1u8 } else { 0u8 }];
    let b9 = fav + rest;
    let b8 = enc_opt_string(t.owner_id) + b9;
    assert(enc_meta_rest(t) + rest =~= enc_opt_string(t.urn) + b8);
    lemma_roundtrip_opt_urn(t.urn, b8);
    lemma_roundtrip_opt_string(t.owner_id, b9);
    lemma_take_n_concat(fav, rest);
}
pub proof fn lemma_roundtrip_meta_tail(t: MetaTailV, rest: Seq<u8>)
    requires
        t.tags.len() <= u32::MAX, forall|i: int| 0 <= i < t.tags.len() ==> utf8(#[trigger] t.tags[i]).len() <= MAX_BUFFER_SIZE,
        t.urn matches Some(u) ==> utf8(u).len() <= MAX_BUFFER_SIZE && urn_parse(u) == Some(u),
        t.owner_id matches Some(x) ==> utf8(x).len() <= MAX_BUFFER_SIZE,
    ensures dec_meta_tail(enc_meta_tail(t) + rest) == Some((t, rest)),
{
    hide(enc_meta_rest); hide(dec_meta_rest); hide(enc_opt_string);
    let b7 = enc_meta_rest(t) + rest;
    let b6 = enc_strs(t.tags) + b7;
    let n = t.tags.len() as u32;
    assert(enc_meta_tail(t) =~= le32(n) + enc_strs(t.tags) + enc_meta_rest(t)) by { reveal(enc_meta_rest); }
    assert(enc_meta_tail(t) + rest =~= le32(n) + b6);
    lemma_le32(n);
    lemma_take_n_concat(le32(n), b6);
    lemma_roundtrip_strs(t.tags, b7);
    lemma_roundtrip_meta_rest(t, rest);
}
/// C14 round trip for SecretMeta, for EVERY order in which the encoder may iterate the tag set
pub proof fn lemma_roundtrip_SecretMeta_with(v: SecretMetaV, o: Seq<Seq<char>>, rest: Seq<u8>)
    requires valid_SecretMeta_with(v, o),
    ensures dec_SecretMeta(enc_SecretMeta_with(v, o) + rest) == Some((v, rest)),
{
    hide(enc_meta_head); hide(enc_meta_tail); hide(dec_meta_head); hide(dec_meta_tail);
    let h = meta_head(v);
    let t = meta_tail(v, o);
    assert(enc_SecretMeta_with(v, o) + rest =~= enc_meta_head(h) + (enc_meta_tail(t) + rest));
    lemma_roundtrip_meta_head(h, enc_meta_tail(t) + rest);
    lemma_roundtrip_meta_tail(t, rest);
    assert(meta_of(h, t) == v);
}
/// validity does not depend on which listing of the tag set is taken
pub proof fn lemma_valid_any_order(v: SecretMetaV, o: Seq<Seq<char>>)
    requires valid_SecretMeta_with(v, o),
    ensures valid_SecretMeta(v),
{
    let c = canon_order(v.tags);
    assert(lists(o, v.tags));
    assert(lists(c, v.tags));
    o.unique_seq_to_set();
    c.unique_seq_to_set();
    assert forall|i: int| 0 <= i < c.len() implies utf8(#[trigger] c[i]).len() <= MAX_BUFFER_SIZE by {
        assert(c.to_set().contains(c[i]));
        assert(o.to_set().contains(c[i]));
        let j = choose|j: int| 0 <= j < o.len() && o[j] == c[i];
        assert(utf8(o[j]).len() <= MAX_BUFFER_SIZE);
    }
}
pub proof fn lemma_roundtrip_SecretMeta(v: SecretMetaV, rest: Seq<u8>)
    requires valid_SecretMeta(v),
    ensures dec_SecretMeta(enc_SecretMeta(v) + rest) == Some((v, rest)),
{
    lemma_roundtrip_SecretMeta_with(v, canon_order(v.tags), rest);
}
pub proof fn lemma_enc_strs_snoc(v: Seq<Seq<char>>, x: Seq<char>)
    ensures enc_strs(v.push(x)) == enc_strs(v) + enc_string(x),
    decreases v.len(),
{
    if v.len() == 0 {
        reveal_with_fuel(enc_strs, 3);
        assert(v.push(x).subrange(1, 1) =~= Seq::<Seq<char>>::empty());
        assert(v.push(x)[0] == x);
        assert(enc_strs(v.push(x)) =~= enc_string(x));
        assert(enc_strs(v) + enc_string(x) =~= enc_string(x));
    } else {
        let tl = v.subrange(1, v.len() as int);
        assert(v.push(x).subrange(1, v.len() as int + 1) =~= tl.push(x));
        assert(v.push(x)[0] == v[0]);
        lemma_enc_strs_snoc(tl, x);
        assert(enc_string(v[0]) + (enc_strs(tl) + enc_string(x)) =~= enc_string(v[0]) + enc_strs(tl) + enc_string(x));
    }
}
pub proof fn lemma_dec_strs_snoc(s: Seq<u8>, n: nat)
    ensures
        dec_strs(s, n + 1) == (match dec_strs(s, n) {
            None => None::<(Seq<Seq<char>>, Seq<u8>)>,
            Some((xs, t)) => match r_string(t) { None => None, Some((x, u)) => Some((xs.push(x), u)) },
        }),
    decreases n,
{
    if n == 0 {
        reveal_with_fuel(dec_strs, 3);
        match r_string(s) { None => {}, Some((x, u)) => { assert(seq![x] + Seq::<Seq<char>>::empty() =~= Seq::<Seq<char>>::empty().push(x)); } }
    } else {
        match r_string(s) {
            None => {}
            Some((x0, t0)) => {
                lemma_dec_strs_snoc(t0, (n - 1) as nat);
                match dec_strs(t0, (n - 1) as nat) {
                    None => {}
                    Some((xs, t)) => { match r_string(t) { None => {}, Some((x, u)) => { assert(seq![x0] + xs.push(x) =~= (seq![x0] + xs).push(x)); } } }
                }
            }
        }
    }
}
pub proof fn lemma_dec_strs_prefix(s: Seq<u8>, k: nat, n: nat)
    requires k <= n, dec_strs(s, n).is_some(),
    ensures dec_strs(s, k).is_some(),
    decreases n,
{
    if k == 0 {} else { lemma_dec_strs_prefix(r_string(s).unwrap().1, (k - 1) as nat, (n - 1) as nat); }
}
pub proof fn lemma_push_to_set(xs: Seq<Seq<char>>, x: Seq<char>)
    ensures xs.push(x).to_set() == xs.to_set().insert(x),
{
    assert forall|e: Seq<char>| xs.push(x).to_set().contains(e) <==> xs.to_set().insert(x).contains(e) by {
        if xs.push(x).to_set().contains(e) {
            let i = choose|i: int| 0 <= i < xs.push(x).len() && xs.push(x)[i] == e;
            if i < xs.len() { assert(xs[i] == e); }
        }
        if xs.to_set().contains(e) {
            let i = choose|i: int| 0 <= i < xs.len() && xs[i] == e;
            assert(xs.push(x)[i] == e);
        }
        if e == x { assert(xs.push(x)[xs.len() as int] == x); }
    }
    assert(xs.push(x).to_set() =~= xs.to_set().insert(x));
}

// EXPECTED TO FAIL [encode_writes_exactly_enc_fn]: the tags are written in HashSet iteration order,
// which is not a function of the value (two equal SecretMeta encode differently; replayed).  What the
// encoder DOES guarantee is stated and proved as [encode_writes_enc_for_iteration_order]; with
// lemma_roundtrip_SecretMeta_with it gives decode(encode(v)) == v for every iteration order.
// [encode_ok_only_for_valid] also FAILS: `self.tags.len() as u32` is not guarded (formal: needs 2^32 tags).
// The encoder is a chain of 13+ writes: with the broadcast lemma_wr_wr Z3 drowns in instantiations
// (31k in the profile), so this impl lives in a module of its own that does NOT broadcast lemma_wr_wr;
// every step names its instance.
pub mod secretmeta_enc {
use vstd::prelude::*;
use vstd::std_specs::convert::*;
use super::*;
use super::pre::*;
broadcast use {lemma_take_n_concat, lemma_wr_len, axiom_utf8_roundtrip, axiom_utf8_dec_sound, axiom_hashset_order, axiom_urn_canonical};

impl Encodable for SecretMeta {
type EV = SecretMetaV;
open spec fn eview(&self) -> SecretMetaV { self@ }
open spec fn enc_of(v: SecretMetaV) -> Seq<u8> { enc_SecretMeta(v) }
open spec fn enc_valid(v: SecretMetaV) -> bool { valid_SecretMeta(v) }
/*@FN:vault/encoding/secret.rs::impl Encodable for SecretMeta::encode*/
fn encode<W: AsyncWrite + AsyncSeek + Unpin + Send>(
        &self,
        writer: &mut BinaryWriter<W>,
    ) -> (r: Result<()>) 
    ensures
        r.is_ok() ==> final(writer)@ == wr(old(writer)@, enc_SecretMeta_with(self@, self.tags.order())), /*@L:vault/encoding/secret.rs::impl Encodable for SecretMeta::encode:encode_writes_enc_for_iteration_order*/
        r.is_ok() && self.tags.order().len() <= u32::MAX ==> valid_SecretMeta_with(self@, self.tags.order()), /*@L:vault/encoding/secret.rs::impl Encodable for SecretMeta::encode:encode_ok_only_if_round_trips*/
        r.is_ok() && self.tags.order().len() <= u32::MAX ==> valid_SecretMeta(self@), /*@L:vault/encoding/secret.rs::impl Encodable for SecretMeta::encode:encode_ok_only_for_valid_below_2p32_tags*/
{ let ghost w0 = writer@; let ghost o = self.tags.order();
 let ghost a1 = seq![secret_type_code(&self.kind)];
 let ghost a2 = a1 + le32(self.flags.b);
 let ghost a3 = a2 + enc_UtcDateTime(self.date_created.0@);
 let ghost a4 = a3 + enc_UtcDateTime(self.last_updated.0@);
 let ghost a5 = a4 + enc_string(self.label@);
 let ghost a6 = a5 + le32(o.len() as u32);
 let ghost a7 = a6 + enc_strs(o);
 let ghost a8 = a7 + enc_opt_string(self@.urn);
 let ghost a9 = a8 + enc_opt_string(self@.owner_id);
 let ghost fav = seq![if self.favorite { 1u8 } else { 0u8 }]; 
        let kind: u8 = self.kind.into();
        writer.write_u8(kind)?; proof { assert(writer@ == wr(w0, a1)); } 
        writer.write_u32(self.flags.bits())?; proof { lemma_wr_wr(w0, a1, le32(self.flags.b)); assert(writer@ == wr(w0, a2)); } 
        self.date_created.encode(&mut *writer)?; proof { lemma_wr_wr(w0, a2, enc_UtcDateTime(self.date_created.0@)); assert(writer@ == wr(w0, a3)); } 
        self.last_updated.encode(&mut *writer)?; proof { lemma_wr_wr(w0, a3, enc_UtcDateTime(self.last_updated.0@)); assert(writer@ == wr(w0, a4)); } 
        writer.write_string(&self.label)?; proof { lemma_wr_wr(w0, a4, enc_string(self.label@)); assert(writer@ == wr(w0, a5)); } 
        writer.write_u32(self.tags.len() as u32)?;
         let ghost s0 = writer@;
 proof { lemma_wr_wr(w0, a5, le32(o.len() as u32)); assert(s0 == wr(w0, a6)); lemma_wr_empty(s0); assert(o.take(0) =~= Seq::<Seq<char>>::empty()); } for tag in it: &self.tags 
        invariant
            writer@.wf() && s0.wf() && o == self.tags.order() && ref_views(it.seq()) == o && writer@ == wr(s0, enc_strs(o.take(it.history@.len() as int))) && (forall|j: int| 0 <= j < it.history@.len() ==> utf8(#[trigger] o[j]).len() <= MAX_BUFFER_SIZE), /*@L:vault/encoding/secret.rs::impl Encodable for SecretMeta::encode:enc_tags_prefix_written*/
    {
             let ghost h = it.history@.len() as int;
 proof { assert(ref_views(it.seq())[h] == tag@); assert(h < o.len()); } writer.write_string(tag)?; proof {
 lemma_wr_wr(s0, enc_strs(o.take(h)), enc_string(tag@));
 lemma_enc_strs_snoc(o.take(h), o[h]);
 assert(o.take(h).push(o[h]) =~= o.take(h + 1));
 } 
        }
         proof {
 assert(o.take(o.len() as int) =~= o);
 lemma_wr_wr(w0, a6, enc_strs(o));
 assert(writer@ == wr(w0, a7));
 } writer.write_bool(self.urn.is_some())?; let ghost u1 = seq![if self.urn.is_some() { 1u8 } else { 0u8 }];
 proof { lemma_wr_wr(w0, a7, u1); assert(writer@ == wr(w0, a7 + u1)); } 
        if let Some(urn) = &self.urn {
            writer.write_string(urn)?; proof { lemma_wr_wr(w0, a7 + u1, enc_string(urn@)); assert(a7 + u1 + enc_string(urn@) =~= a8); } 
        }
         proof { if self.urn is None { assert(a7 + u1 =~= a8); } assert(writer@ == wr(w0, a8)); } writer.write_bool(self.owner_id.is_some())?; let ghost u2 = seq![if self.owner_id.is_some() { 1u8 } else { 0u8 }];
 proof { lemma_wr_wr(w0, a8, u2); assert(writer@ == wr(w0, a8 + u2)); } 
        if let Some(owner_id) = &self.owner_id {
            writer.write_string(owner_id)?; proof { lemma_wr_wr(w0, a8 + u2, enc_string(owner_id@)); assert(a8 + u2 + enc_string(owner_id@) =~= a9); } 
        }
         proof { if self.owner_id is None { assert(a8 + u2 =~= a9); } assert(writer@ == wr(w0, a9)); } writer.write_bool(self.favorite)?;
         proof {
 lemma_wr_wr(w0, a9, fav);
 assert(a9 + fav =~= enc_meta_head(meta_head(self@)) + enc_meta_tail(meta_tail(self@, o)));
 if o.len() <= u32::MAX { lemma_valid_any_order(self@, o); }
 } Ok(())
    }
/*@ENDFN:vault/encoding/secret.rs::impl Encodable for SecretMeta::encode*/
}

} // mod secretmeta_enc
// `decode` INSERTS into `tags` and only SETS urn / owner_id when the flag byte says so: the decoded
// value is dec_SecretMeta's only for a receiver in its Default state for these three fields.

impl Decodable for SecretMeta {
type DV = SecretMetaV;
open spec fn dview(&self) -> SecretMetaV { self@ }
open spec fn dec_of(s: Seq<u8>) -> Option<(SecretMetaV, Seq<u8>)> { dec_SecretMeta(s) }
open spec fn dec_ready(&self) -> bool { self.tags@ == Set::<Seq<char>>::empty() && self.urn is None && self.owner_id is None }
/*@FN:vault/encoding/secret.rs::impl Decodable for SecretMeta::decode*/
#[verifier::spinoff_prover]
fn decode<R: AsyncRead + AsyncSeek + Unpin + Send>(
        &mut self,
        reader: &mut BinaryReader<R>,
    ) -> (r: Result<()>) { let ghost s_in = reader@.rest(); 
        let kind = reader.read_u8()?;
        self.kind = SecretType::try_from(kind).map_err(encoding_error)?; proof { lemma_secret_type_of_code(self.kind); } 
        self.flags = SecretFlags::from_bits(reader.read_u32()?)
            .ok_or(VaultError::InvalidSecretFlags)
            .map_err(encoding_error)?;
        let mut date_created: UtcDateTime = Default::default();
        date_created.decode(&mut *reader)?;
        self.date_created = date_created;
        let mut last_updated: UtcDateTime = Default::default();
        last_updated.decode(&mut *reader)?;
        self.last_updated = last_updated;
        self.label = reader.read_string()?;
         let ghost t4 = reader@.rest(); let ghost hv = meta_head(self@);
 proof { assert(dec_meta_head(s_in) == Some((hv, t4))); } let tag_count = reader.read_u32()?;
         let ghost t0 = reader@.rest(); let ghost r0 = reader@; let ghost mut xs = Seq::<Seq<char>>::empty();
 let ghost me = *self;
 proof { assert(xs.to_set() =~= Set::<Seq<char>>::empty()); assert(r_u32(t4) == Some((tag_count, t0))); } for k in it: 0..tag_count 
        invariant
            reader@.wf() && reader@.bytes == old(reader)@.bytes && r0.wf() && r0.bytes == reader@.bytes && r0.rest() == t0 && r0.pos <= reader@.pos && k <= tag_count && s_in == old(reader)@.rest() && dec_meta_head(s_in) == Some((hv, t4)) && r_u32(t4) == Some((tag_count, t0)) && rd(old(reader)@, r0, t0) && rd(r0, reader@, reader@.rest()) && dec_strs(t0, k as nat) == Some((xs, reader@.rest())) && self.tags@ == xs.to_set() && meta_head(self@) == hv && self.urn is None && self.owner_id is None, /*@L:vault/encoding/secret.rs::impl Decodable for SecretMeta::decode:dec_tags_prefix_read*/
    {
             proof { lemma_dec_strs_snoc(t0, k as nat); if dec_strs(t0, tag_count as nat).is_some() { lemma_dec_strs_prefix(t0, k as nat + 1, tag_count as nat); } } let tag = reader.read_string()?;
            self.tags.insert(tag); proof { lemma_push_to_set(xs, tag@); xs = xs.push(tag@); } 
        }
         let ghost t6 = reader@.rest();
 proof { assert(dec_strs(t0, tag_count as nat) == Some((xs, t6))); assert(dec_meta_tail(t4) == dec_meta_rest(xs, t6)); } let has_urn = reader.read_bool()?;
        if has_urn {
            let urn = reader.read_string()?;
            self.urn = Some(parse_urn(&urn).map_err(encoding_error)?);
        }
        let has_owner_id = reader.read_bool()?;
        if has_owner_id {
            let owner_id = reader.read_string()?;
            self.owner_id = Some(parse_string(&owner_id).map_err(encoding_error)?);
        }
        self.favorite = reader.read_bool()?;
         proof {
 let tl = dec_meta_rest(xs, t6).unwrap().0;
 assert(self@ == meta_of(hv, tl));
 } Ok(())
    }
/*@ENDFN:vault/encoding/secret.rs::impl Decodable for SecretMeta::decode*/
}


// =============================================================================
// SECOND PART: Secret / SecretRow / UserData  (decoders; see the unit report for the encoders)
// =============================================================================
// further declared rewrites:
//   R6b  derive(Default, Clone) taken off UserData / SecretRow; their Default is written out with a contract
//   R12  `SecretBox::new($s.into())` with target SecretString => `SecretString::from($s)` (secrecy:
//        `impl From<String> for SecretString`); `$r.try_into()` => `T::try_from($r)`;
//        `s.parse::<Url>()` => `parse_url(&s)`; `serde_json::from_str(&s)` => `json_websites_from_str(&s)`;
//        `serde_json::from_slice(&buffer)` => `json_totp_from_slice(buffer.as_slice())`;
//        `id.parse()` => `parse_age_identity(&id)`; `s.to_string()` => `str_to_owned(s)`;
//        `HashMap::with_capacity(n)` => `hashmap_with_capacity_checked(n)` (R12c for maps)




pub struct UserData {
    
    
    pub fields: Vec<SecretRow>,
    
    
    pub comment: Option<String>,
    
    
    
    
    
    
    
    pub recovery_note: Option<String>,
}



pub struct SecretRow {
    
    pub id: SecretId,
    
    pub meta: SecretMeta,
    
    pub secret: Secret,
}













pub enum Secret {
    
    
    Note {
        
        
        text: SecretString,
        
        
        user_data: UserData,
    },
    
    
    File {
        
        content: FileContent,

        
        
        user_data: UserData,
    },
    
    
    Account {
        
        account: String,
        
        
        password: SecretString,
        
        url: Vec<Url>,
        
        
        user_data: UserData,
    },
    
    
    List {
        
        
        items: HashMap<String, SecretString>,
        
        
        user_data: UserData,
    },
    
    
    Pem {
        
        certificates: Vec<Pem>,
        
        
        user_data: UserData,
    },
    
    
    Page {
        
        title: String,
        
        mime: String,
        
        
        document: SecretString,
        
        
        user_data: UserData,
    },
    
    
    Signer {
        
        private_key: SecretSigner,
        
        
        user_data: UserData,
    },
    
    
    Contact {
        
        vcard: Box<Vcard>,
        
        
        user_data: UserData,
    },
    
    
    Totp {
        
        totp: TOTP,
        
        
        user_data: UserData,
    },
    
    
    Card {
        
        
        number: SecretString,
        
        expiry: Option<UtcDateTime>,
        
        
        cvv: SecretString,
        
        
        name: Option<SecretString>,
        
        
        atm_pin: Option<SecretString>,
        
        
        user_data: UserData,
    },
    
    
    Bank {
        
        
        number: SecretString,
        
        
        routing: SecretString,
        
        
        iban: Option<SecretString>,
        
        
        swift: Option<SecretString>,
        
        
        bic: Option<SecretString>,
        
        
        user_data: UserData,
    },
    
    
    Link {
        
        
        url: SecretString,
        
        
        label: Option<SecretString>,
        
        
        title: Option<SecretString>,
        
        
        user_data: UserData,
    },
    
    
    Password {
        
        
        password: SecretString,
        
        
        
        
        
        name: Option<SecretString>,
        
        
        user_data: UserData,
    },
    
    
    Identity {
        
        id_kind: IdentityKind,
        
        
        number: SecretString,
        
        
        issue_place: Option<String>,
        
        
        issue_date: Option<UtcDateTime>,
        
        
        expiry_date: Option<UtcDateTime>,
        
        
        user_data: UserData,
    },
    
    
    Age {
        
        version: AgeVersion,
        
        
        key: SecretString,
        
        
        user_data: UserData,
    },
}









pub enum WebsiteUrl {
    One(Url),
    Many(Vec<Url>),
}
pub open spec fn websites_view(w: WebsiteUrl) -> Seq<Seq<char>> {
    match w { WebsiteUrl::One(u) => seq![u@], WebsiteUrl::Many(v) => urls_view(v@) }
}
impl WebsiteUrl {
/*@FN:vault/encoding/secret.rs::impl WebsiteUrl::into_vec*/

    pub fn into_vec(self) -> (r: Vec<Url>) 
    ensures
        urls_view(r@) == websites_view(self), /*@L:vault/encoding/secret.rs::impl WebsiteUrl::into_vec:into_vec_is_list*/
{ proof { assert forall|u: Url| #[trigger] urls_view(seq![u]) == seq![u@] by { assert(urls_view(seq![u]) =~= seq![u@]); } } 
        match self {
            Self::One(url) => vec![url],
            Self::Many(urls) => urls,
        }
    }
/*@ENDFN:vault/encoding/secret.rs::impl WebsiteUrl::into_vec*/
}

/// `serde_json::to_string(&WebsiteUrl)` / `serde_json::from_str::<WebsiteUrl>` (R12)
#[verifier::external_body]
pub fn json_websites_to_string(w: &WebsiteUrl) -> (r: core::result::Result<String, JsonError>)
    ensures r.is_ok() ==> r.unwrap()@ == websites_json(websites_view(*w)),
{ unimplemented!() }
#[verifier::external_body]
pub fn json_websites_from_str(s: &String) -> (r: core::result::Result<WebsiteUrl, JsonError>)
    ensures r.is_ok() <==> websites_parse(s@).is_some(), r.is_ok() ==> Some(websites_view(r.unwrap())) == websites_parse(s@),
{ unimplemented!() }

// ---- ghost views ---------------------------------------------------------------------------------------------
pub ghost enum PayloadV {
    Note { text: Seq<char> },
    File { content: FileContentV },
    Account { account: Seq<char>, password: Seq<char>, url: Seq<Seq<char>> },
    List { items: Map<Seq<char>, Seq<char>> },
    Pem { certificates: Seq<Seq<char>> },
    Page { title: Seq<char>, mime: Seq<char>, document: Seq<char> },
    Identity { id_kind: IdentityKind, number: Seq<char>, issue_place: Option<Seq<char>>, issue_date: Option<Instant>, expiry_date: Option<Instant> },
    Signer { private_key: SecretSignerV },
    Contact { vcard: Seq<char> },
    Totp { totp: TotpV },
    Card { number: Seq<char>, expiry: Option<Instant>, cvv: Seq<char>, name: Option<Seq<char>>, atm_pin: Option<Seq<char>> },
    Bank { number: Seq<char>, routing: Seq<char>, iban: Option<Seq<char>>, swift: Option<Seq<char>>, bic: Option<Seq<char>> },
    Link { url: Seq<char>, label: Option<Seq<char>>, title: Option<Seq<char>> },
    Password { password: Seq<char>, name: Option<Seq<char>> },
    Age { version: AgeVersion, key: Seq<char> },
}
/// every Secret variant is a payload followed by user data, in the enum and on the wire
pub ghost struct SecretV { pub payload: PayloadV, pub user_data: UserDataV }
pub ghost struct UserDataV { pub fields: Seq<SecretRowV>, pub comment: Option<Seq<char>>, pub recovery_note: Option<Seq<char>> }
pub ghost struct SecretRowV { pub id: Seq<u8>, pub meta: SecretMetaV, pub secret: SecretV }
pub open spec fn ov_str(o: Option<String>) -> Option<Seq<char>> { match o { Some(s) => Some(s@), None => None } }
pub open spec fn ov_sec(o: Option<SecretString>) -> Option<Seq<char>> { match o { Some(s) => Some(s@), None => None } }
pub open spec fn ov_time(o: Option<UtcDateTime>) -> Option<Instant> { match o { Some(t) => Some(t.0@), None => None } }
pub open spec fn payload_view(s: Secret) -> PayloadV {
    match s {
        Secret::Note { text, user_data } => PayloadV::Note { text: text@ },
        Secret::File { content, user_data } => PayloadV::File { content: content@ },
        Secret::Account { account, password, url, user_data } => PayloadV::Account { account: account@, password: password@, url: urls_view(url@) },
        Secret::List { items, user_data } => PayloadV::List { items: items@ },
        Secret::Pem { certificates, user_data } => PayloadV::Pem { certificates: pems_view(certificates@) },
        Secret::Page { title, mime, document, user_data } => PayloadV::Page { title: title@, mime: mime@, document: document@ },
        Secret::Identity { id_kind, number, issue_place, issue_date, expiry_date, user_data } =>
            PayloadV::Identity { id_kind: id_kind, number: number@, issue_place: ov_str(issue_place), issue_date: ov_time(issue_date), expiry_date: ov_time(expiry_date) },
        Secret::Signer { private_key, user_data } => PayloadV::Signer { private_key: private_key@ },
        Secret::Contact { vcard, user_data } => PayloadV::Contact { vcard: (*vcard)@ },
        Secret::Totp { totp, user_data } => PayloadV::Totp { totp: totp@ },
        Secret::Card { number, expiry, cvv, name, atm_pin, user_data } => PayloadV::Card { number: number@, expiry: ov_time(expiry), cvv: cvv@, name: ov_sec(name), atm_pin: ov_sec(atm_pin) },
        Secret::Bank { number, routing, iban, swift, bic, user_data } => PayloadV::Bank { number: number@, routing: routing@, iban: ov_sec(iban), swift: ov_sec(swift), bic: ov_sec(bic) },
        Secret::Link { url, label, title, user_data } => PayloadV::Link { url: url@, label: ov_sec(label), title: ov_sec(title) },
        Secret::Password { password, name, user_data } => PayloadV::Password { password: password@, name: ov_sec(name) },
        Secret::Age { version, key, user_data } => PayloadV::Age { version: version, key: key@ },
    }
}
pub open spec fn user_data_of(s: Secret) -> UserData {
    match s {
        Secret::Note { user_data, .. } => user_data, Secret::File { user_data, .. } => user_data, Secret::Account { user_data, .. } => user_data,
        Secret::List { user_data, .. } => user_data, Secret::Pem { user_data, .. } => user_data, Secret::Page { user_data, .. } => user_data,
        Secret::Identity { user_data, .. } => user_data, Secret::Signer { user_data, .. } => user_data, Secret::Contact { user_data, .. } => user_data,
        Secret::Totp { user_data, .. } => user_data, Secret::Card { user_data, .. } => user_data, Secret::Bank { user_data, .. } => user_data,
        Secret::Link { user_data, .. } => user_data, Secret::Password { user_data, .. } => user_data, Secret::Age { user_data, .. } => user_data,
    }
}
pub open spec fn secret_view(s: Secret) -> SecretV
    decreases s,
{
    SecretV { payload: payload_view(s), user_data: ud_view(user_data_of(s)) }
}
pub open spec fn rows_view(v: Seq<SecretRow>) -> Seq<SecretRowV>
    decreases v,
{
    Seq::new(v.len(), |i: int| if 0 <= i < v.len() { row_view(v[i]) } else { arbitrary() })
}
pub open spec fn ud_view(u: UserData) -> UserDataV
    decreases u,
{
    UserDataV { fields: rows_view(u.fields@), comment: ov_str(u.comment), recovery_note: ov_str(u.recovery_note) }
}
pub open spec fn row_view(r: SecretRow) -> SecretRowV
    decreases r,
{
    SecretRowV { id: r.id.0@, meta: r.meta@, secret: secret_view(r.secret) }
}
impl View for Secret { type V = SecretV; open spec fn view(&self) -> SecretV { secret_view(*self) } }
impl View for UserData { type V = UserDataV; open spec fn view(&self) -> UserDataV { ud_view(*self) } }
impl View for SecretRow { type V = SecretRowV; open spec fn view(&self) -> SecretRowV { row_view(*self) } }

// ---- decoding functions -------------------------------------------------------------------------------------------
pub open spec fn identity_kind_of_code(c: u8) -> Option<IdentityKind> {
    if exists|k: IdentityKind| identity_kind_code(&k) == c { Some(choose|k: IdentityKind| identity_kind_code(&k) == c) } else { None }
}
pub proof fn lemma_identity_kind_of_code(k: IdentityKind)
    ensures identity_kind_of_code(identity_kind_code(&k)) == Some(k),
{
    let k2 = choose|k2: IdentityKind| identity_kind_code(&k2) == identity_kind_code(&k);
    lemma_identity_kind_code_injective(k, k2);
}
pub open spec fn dec_opt_time(s: Seq<u8>) -> Option<(Option<Instant>, Seq<u8>)> {
    match r_bool(s) { None => None, Some((has, t)) =>
        if has { match dec_UtcDateTime(t) { None => None, Some((x, u)) => Some((Some(x), u)) } } else { Some((None, t)) } }
}
pub open spec fn dec_items(s: Seq<u8>, n: nat) -> Option<(Seq<(Seq<char>, Seq<char>)>, Seq<u8>)>
    decreases n,
{
    if n == 0 { Some((Seq::<(Seq<char>, Seq<char>)>::empty(), s)) } else {
        match r_string(s) { None => None, Some((k, t)) =>
        match r_string(t) { None => None, Some((v, u)) =>
        match dec_items(u, (n - 1) as nat) { None => None, Some((xs, w)) => Some((seq![(k, v)] + xs, w)) } } }
    }
}
pub open spec fn dec_urls(s: Seq<u8>) -> Option<(Seq<Seq<char>>, Seq<u8>)> {
    match r_bool(s) { None => None, Some((flag, t)) =>
        if !flag { Some((Seq::<Seq<char>>::empty(), t)) } else {
            match r_string(t) { None => None, Some((x, u)) =>
                match url_parse(x) {
                    Some(one) => Some((seq![one], u)),
                    None => match websites_parse(x) { None => None, Some(many) => Some((many, u)) },
                } } } }
}
pub open spec fn dec_p_note(s: Seq<u8>) -> Option<(PayloadV, Seq<u8>)> {
    match r_string(s) { None => None, Some((text, t)) => Some((PayloadV::Note { text: text }, t)) }
}
pub open spec fn dec_p_file(s: Seq<u8>) -> Option<(PayloadV, Seq<u8>)> {
    match dec_FileContent(s) { None => None, Some((c, t)) => Some((PayloadV::File { content: c }, t)) }
}
pub open spec fn dec_p_account(s: Seq<u8>) -> Option<(PayloadV, Seq<u8>)> {
    match r_string(s) { None => None, Some((account, t0)) =>
    match r_string(t0) { None => None, Some((password, t1)) =>
    match dec_urls(t1) { None => None, Some((url, t2)) => Some((PayloadV::Account { account: account, password: password, url: url }, t2)) }}}
}
pub open spec fn dec_p_list(s: Seq<u8>) -> Option<(PayloadV, Seq<u8>)> {
    match r_u32(s) { None => None, Some((n, t0)) =>
    match dec_items(t0, n as nat) { None => None, Some((xs, t1)) => Some((PayloadV::List { items: map_of(xs) }, t1)) }}
}
pub open spec fn dec_p_pem(s: Seq<u8>) -> Option<(PayloadV, Seq<u8>)> {
    match r_string(s) { None => None, Some((value, t)) =>
    match pem_split(value) { None => None, Some(v) => Some((PayloadV::Pem { certificates: v }, t)) }}
}
pub open spec fn dec_p_page(s: Seq<u8>) -> Option<(PayloadV, Seq<u8>)> {
    match r_string(s) { None => None, Some((title, t0)) =>
    match r_string(t0) { None => None, Some((mime, t1)) =>
    match r_string(t1) { None => None, Some((document, t2)) => Some((PayloadV::Page { title: title, mime: mime, document: document }, t2)) }}}
}
pub open spec fn dec_p_identity(s: Seq<u8>) -> Option<(PayloadV, Seq<u8>)> {
    match r_u8(s) { None => None, Some((k, t0)) =>
    match identity_kind_of_code(k) { None => None, Some(id_kind) =>
    match r_string(t0) { None => None, Some((number, t1)) =>
    match dec_opt_string(t1) { None => None, Some((issue_place, t2)) =>
    match dec_opt_time(t2) { None => None, Some((issue_date, t3)) =>
    match dec_opt_time(t3) { None => None, Some((expiry_date, t4)) =>
        Some((PayloadV::Identity { id_kind: id_kind, number: number, issue_place: issue_place, issue_date: issue_date, expiry_date: expiry_date }, t4)) }}}}}}
}
pub open spec fn dec_p_signer(s: Seq<u8>) -> Option<(PayloadV, Seq<u8>)> {
    match dec_SecretSigner(s) { None => None, Some((k, t)) => Some((PayloadV::Signer { private_key: k }, t)) }
}
pub open spec fn dec_p_contact(s: Seq<u8>) -> Option<(PayloadV, Seq<u8>)> {
    match r_string(s) { None => None, Some((text, t)) =>
    match vcard_parse(text) { None => None, Some(cards) => Some((PayloadV::Contact { vcard: cards[0] }, t)) }}
}
pub open spec fn dec_p_totp(s: Seq<u8>) -> Option<(PayloadV, Seq<u8>)> {
    match r_bytes32(s) { None => None, Some((b, t)) =>
    match totp_parse(b) { None => None, Some(totp) => Some((PayloadV::Totp { totp: totp }, t)) }}
}
pub open spec fn dec_p_card(s: Seq<u8>) -> Option<(PayloadV, Seq<u8>)> {
    match r_string(s) { None => None, Some((number, t0)) =>
    match dec_opt_time(t0) { None => None, Some((expiry, t1)) =>
    match r_string(t1) { None => None, Some((cvv, t2)) =>
    match dec_opt_string(t2) { None => None, Some((name, t3)) =>
    match dec_opt_string(t3) { None => None, Some((atm_pin, t4)) =>
        Some((PayloadV::Card { number: number, expiry: expiry, cvv: cvv, name: name, atm_pin: atm_pin }, t4)) }}}}}
}
pub open spec fn dec_p_bank(s: Seq<u8>) -> Option<(PayloadV, Seq<u8>)> {
    match r_string(s) { None => None, Some((number, t0)) =>
    match r_string(t0) { None => None, Some((routing, t1)) =>
    match dec_opt_string(t1) { None => None, Some((iban, t2)) =>
    match dec_opt_string(t2) { None => None, Some((swift, t3)) =>
    match dec_opt_string(t3) { None => None, Some((bic, t4)) =>
        Some((PayloadV::Bank { number: number, routing: routing, iban: iban, swift: swift, bic: bic }, t4)) }}}}}
}
pub open spec fn dec_p_link(s: Seq<u8>) -> Option<(PayloadV, Seq<u8>)> {
    match r_string(s) { None => None, Some((url, t0)) =>
    match dec_opt_string(t0) { None => None, Some((label, t1)) =>
    match dec_opt_string(t1) { None => None, Some((title, t2)) => Some((PayloadV::Link { url: url, label: label, title: title }, t2)) }}}
}
pub open spec fn dec_p_password(s: Seq<u8>) -> Option<(PayloadV, Seq<u8>)> {
    match r_string(s) { None => None, Some((password, t0)) =>
    match dec_opt_string(t0) { None => None, Some((name, t1)) => Some((PayloadV::Password { password: password, name: name }, t1)) }}
}
pub open spec fn dec_p_age(s: Seq<u8>) -> Option<(PayloadV, Seq<u8>)> {
    match dec_AgeVersion(s) { None => None, Some((version, t0)) =>
    match r_string(t0) { None => None, Some((id, t1)) =>
        if is_age_identity(id) { Some((PayloadV::Age { version: version, key: id }, t1)) } else { None } }}
}
pub open spec fn dec_payload(kind: SecretType, s: Seq<u8>) -> Option<(PayloadV, Seq<u8>)> {
    match kind {
        SecretType::Note => dec_p_note(s), SecretType::File => dec_p_file(s), SecretType::Account => dec_p_account(s),
        SecretType::List => dec_p_list(s), SecretType::Pem => dec_p_pem(s), SecretType::Page => dec_p_page(s),
        SecretType::Identity => dec_p_identity(s), SecretType::Signer => dec_p_signer(s), SecretType::Contact => dec_p_contact(s),
        SecretType::Totp => dec_p_totp(s), SecretType::Card => dec_p_card(s), SecretType::Bank => dec_p_bank(s),
        SecretType::Link => dec_p_link(s), SecretType::Password => dec_p_password(s), SecretType::Age => dec_p_age(s),
    }
}
// The four functions below are mutually recursive (user data holds rows, a row holds a secret).  Each
// recursive call is made on strictly less input; the three `len` guards make that evident to the
// termination checker and are proved never to fire (lemma_*_suffix below).
pub open spec fn dec_Secret(s: Seq<u8>) -> Option<(SecretV, Seq<u8>)>
    decreases s.len(), 1int,
{
    match r_u8(s) { None => None, Some((k, t0)) =>
    match secret_type_of_code(k) { None => None, Some(kind) =>
    match dec_payload(kind, t0) { None => None, Some((p, t1)) =>
        if t1.len() > t0.len() { None } else {
            match dec_UserData(t1) { None => None, Some((ud, t2)) => Some((SecretV { payload: p, user_data: ud }, t2)) } } }}}
}
pub open spec fn dec_UserData(s: Seq<u8>) -> Option<(UserDataV, Seq<u8>)>
    decreases s.len(), 0int,
{
    match r_u32(s) { None => None, Some((n, t0)) =>
    match dec_rows(t0, n as nat) { None => None, Some((rows, t1)) =>
    match dec_opt_string(t1) { None => None, Some((comment, t2)) =>
    match dec_opt_string(t2) { None => None, Some((note, t3)) =>
        Some((UserDataV { fields: rows, comment: comment, recovery_note: note }, t3)) }}}}
}
pub open spec fn dec_rows(s: Seq<u8>, n: nat) -> Option<(Seq<SecretRowV>, Seq<u8>)>
    decreases s.len(), 3 + n,
{
    if n == 0 { Some((Seq::<SecretRowV>::empty(), s)) } else {
        match dec_SecretRow(s) { None => None, Some((r, t)) =>
            if t.len() >= s.len() { None } else {
                match dec_rows(t, (n - 1) as nat) { None => None, Some((rs, u)) => Some((seq![r] + rs, u)) } } }
    }
}
pub open spec fn dec_SecretRow(s: Seq<u8>) -> Option<(SecretRowV, Seq<u8>)>
    decreases s.len(), 2int,
{
    match r_bytes(s, 16) { None => None, Some((id, t0)) =>
    match dec_SecretMeta(t0) { None => None, Some((m, t1)) =>
        if t1.len() > t0.len() { None } else {
            match dec_Secret(t1) { None => None, Some((sec, t2)) => Some((SecretRowV { id: id, meta: m, secret: sec }, t2)) } } }}
}

/// dec_Secret after its tag byte: the payload of that kind, then user data
pub open spec fn dec_after_payload(o: Option<(PayloadV, Seq<u8>)>, t0: Seq<u8>) -> Option<(SecretV, Seq<u8>)> {
    match o { None => None, Some((p, t1)) =>
        if t1.len() > t0.len() { None } else {
            match dec_UserData(t1) { None => None, Some((ud, t2)) => Some((SecretV { payload: p, user_data: ud }, t2)) } } }
}
pub proof fn lemma_dec_Secret_bad_tag(s: Seq<u8>)
    requires r_u8(s) is None || secret_type_of_code(r_u8(s).unwrap().0) is None,
    ensures dec_Secret(s) is None,
{}
pub proof fn lemma_dec_Secret_unfold(s: Seq<u8>, kind: SecretType, t0: Seq<u8>)
    requires r_u8(s) == Some((secret_type_code(&kind), t0)),
    ensures dec_Secret(s) == dec_after_payload(dec_payload(kind, t0), t0),
{
    lemma_secret_type_of_code(kind);
}

// ---- lemmas about the row list ---------------------------------------------------------------------------------------
pub proof fn lemma_dec_opt_string_suffix(s: Seq<u8>)
    requires dec_opt_string(s).is_some(),
    ensures dec_opt_string(s).unwrap().1.len() <= s.len(),
{
    match r_bool(s) { None => {}, Some((flag, t)) => { assert(t.len() <= s.len()); if flag {
        match r_u32(t) { None => {}, Some((n, u)) => { assert(u.len() <= t.len()); match r_bytes(u, n as nat) { None => {}, Some((b, w)) => { assert(w.len() <= u.len()); } } } }
    } } }
}
pub proof fn lemma_dec_rows_suffix(s: Seq<u8>, n: nat)
    requires dec_rows(s, n).is_some(),
    ensures dec_rows(s, n).unwrap().1.len() <= s.len(),
    decreases n,
{
    if n > 0 {
        let t = dec_SecretRow(s).unwrap().1;
        lemma_dec_rows_suffix(t, (n - 1) as nat);
    }
}
pub proof fn lemma_dec_UserData_suffix(s: Seq<u8>)
    requires dec_UserData(s).is_some(),
    ensures dec_UserData(s).unwrap().1.len() <= s.len(),
{
    match r_u32(s) { None => {}, Some((n, t0)) => {
        assert(t0.len() <= s.len());
        match dec_rows(t0, n as nat) { None => {}, Some((rows, t1)) => {
            lemma_dec_rows_suffix(t0, n as nat);
            match dec_opt_string(t1) { None => {}, Some((c, t2)) => {
                lemma_dec_opt_string_suffix(t1);
                match dec_opt_string(t2) { None => {}, Some((x, t3)) => { lemma_dec_opt_string_suffix(t2); } }
            } }
        } }
    } }
}
pub proof fn lemma_dec_Secret_suffix(s: Seq<u8>)
    requires dec_Secret(s).is_some(),
    ensures dec_Secret(s).unwrap().1.len() < s.len(),
{
    match r_u8(s) { None => {}, Some((k, t0)) => {
        assert(t0.len() + 1 == s.len());
        match secret_type_of_code(k) { None => {}, Some(kind) => {
            match dec_payload(kind, t0) { None => {}, Some((p, t1)) => { if t1.len() <= t0.len() { match dec_UserData(t1) { None => {}, Some((ud, t2)) => { lemma_dec_UserData_suffix(t1); } } } } }
        } }
    } }
}
/// a decoded row consumes at least its 16 id bytes: the guard in dec_rows never fires
pub proof fn lemma_dec_SecretRow_consumes(s: Seq<u8>)
    requires dec_SecretRow(s).is_some(),
    ensures dec_SecretRow(s).unwrap().1.len() + 16 < s.len(),
{
    match r_bytes(s, 16) { None => {}, Some((id, t0)) => {
        assert(t0.len() + 16 == s.len());
        match dec_SecretMeta(t0) { None => {}, Some((m, t1)) => { if t1.len() <= t0.len() { match dec_Secret(t1) { None => {}, Some((sec, t2)) => { lemma_dec_Secret_suffix(t1); } } } } }
    } }
}
pub proof fn lemma_dec_rows_snoc(s: Seq<u8>, n: nat)
    ensures
        dec_rows(s, n + 1) == (match dec_rows(s, n) {
            None => None::<(Seq<SecretRowV>, Seq<u8>)>,
            Some((xs, t)) => match dec_SecretRow(t) { None => None, Some((x, u)) => Some((xs.push(x), u)) },
        }),
    decreases n,
{
    if n == 0 {
        reveal_with_fuel(dec_rows, 3);
        match dec_SecretRow(s) { None => {}, Some((x, u)) => {
            lemma_dec_SecretRow_consumes(s);
            assert(seq![x] + Seq::<SecretRowV>::empty() =~= Seq::<SecretRowV>::empty().push(x));
        } }
    } else {
        match dec_SecretRow(s) {
            None => {}
            Some((x0, t0)) => {
                lemma_dec_SecretRow_consumes(s);
                lemma_dec_rows_snoc(t0, (n - 1) as nat);
                match dec_rows(t0, (n - 1) as nat) {
                    None => {}
                    Some((xs, t)) => { match dec_SecretRow(t) { None => {}, Some((x, u)) => { assert(seq![x0] + xs.push(x) =~= (seq![x0] + xs).push(x)); } } }
                }
            }
        }
    }
}
pub proof fn lemma_dec_rows_prefix(s: Seq<u8>, k: nat, n: nat)
    requires k <= n, dec_rows(s, n).is_some(),
    ensures dec_rows(s, k).is_some(),
    decreases n,
{
    if k == 0 {} else { lemma_dec_rows_prefix(dec_SecretRow(s).unwrap().1, (k - 1) as nat, (n - 1) as nat); }
}
pub proof fn lemma_rows_view_push(v: Seq<SecretRow>, x: SecretRow)
    ensures rows_view(v.push(x)) == rows_view(v).push(row_view(x)),
{
    assert(rows_view(v.push(x)) =~= rows_view(v).push(row_view(x)));
}
pub proof fn lemma_dec_items_snoc(s: Seq<u8>, n: nat)
    ensures
        dec_items(s, n + 1) == (match dec_items(s, n) {
            None => None::<(Seq<(Seq<char>, Seq<char>)>, Seq<u8>)>,
            Some((xs, t)) => match r_string(t) { None => None, Some((k, u)) => match r_string(u) { None => None, Some((v, w)) => Some((xs.push((k, v)), w)) } },
        }),
    decreases n,
{
    if n == 0 {
        reveal_with_fuel(dec_items, 3);
        match r_string(s) { None => {}, Some((k, u)) => { match r_string(u) { None => {}, Some((v, w)) => {
            assert(seq![(k, v)] + Seq::<(Seq<char>, Seq<char>)>::empty() =~= Seq::<(Seq<char>, Seq<char>)>::empty().push((k, v)));
        } } } }
    } else {
        match r_string(s) { None => {}, Some((k0, u0)) => { match r_string(u0) { None => {}, Some((v0, t0)) => {
            lemma_dec_items_snoc(t0, (n - 1) as nat);
            match dec_items(t0, (n - 1) as nat) {
                None => {}
                Some((xs, t)) => { match r_string(t) { None => {}, Some((k, u)) => { match r_string(u) { None => {}, Some((v, w)) => {
                    assert(seq![(k0, v0)] + xs.push((k, v)) =~= (seq![(k0, v0)] + xs).push((k, v)));
                } } } } }
            }
        } } } }
    }
}
pub proof fn lemma_dec_items_prefix(s: Seq<u8>, k: nat, n: nat)
    requires k <= n, dec_items(s, n).is_some(),
    ensures dec_items(s, k).is_some(),
    decreases n,
{
    if k == 0 {} else { lemma_dec_items_prefix(r_string(r_string(s).unwrap().1).unwrap().1, (k - 1) as nat, (n - 1) as nat); }
}
pub proof fn lemma_map_of_push(xs: Seq<(Seq<char>, Seq<char>)>, k: Seq<char>, v: Seq<char>)
    ensures map_of(xs.push((k, v))) == map_of(xs).insert(k, v),
{
    assert(xs.push((k, v)).drop_last() =~= xs);
}

// ---- Default of the row types ------------------------------------------------------------------------------------------
/// `#[derive(Default)]` on UserData (R6b), written out so that it carries a contract
impl Default for UserData {
    fn default() -> (r: Self)
        ensures r.fields@.len() == 0, r.comment is None, r.recovery_note is None,
    { UserData { fields: Vec::new(), comment: None, recovery_note: None } }
}
impl Default for FileContent {
/*@FN:vault/secret.rs::impl Default for FileContent::default*/
fn default() -> (r: Self) {
        Self::Embedded {
            name: String::new(),
            mime: String::new(),
            buffer: SecretBox::new(Box::new(Vec::new())),
            checksum: [0; 32],
        }
    }
/*@ENDFN:vault/secret.rs::impl Default for FileContent::default*/
}

impl Default for SecretSigner {
/*@FN:vault/secret.rs::impl Default for SecretSigner::default*/
fn default() -> (r: Self) {
        Self::SinglePartyEcdsa(SecretBox::new(Box::new(Vec::new())))
    }
/*@ENDFN:vault/secret.rs::impl Default for SecretSigner::default*/
}

impl Default for Secret {
/*@FN:vault/secret.rs::impl Default for Secret::default*/
fn default() -> (r: Self) {
        Self::Note {
            text: SecretString::from(String::new()),
            user_data: Default::default(),
        }
    }
/*@ENDFN:vault/secret.rs::impl Default for Secret::default*/
}

/// `#[derive(Default)]` on SecretRow (R6b), written out so that it carries a contract
impl Default for SecretRow {
    fn default() -> (r: Self)
        ensures r.meta.tags@ == Set::<Seq<char>>::empty(), r.meta.urn is None, r.meta.owner_id is None,
    { SecretRow { id: Default::default(), meta: Default::default(), secret: Default::default() } }
}
impl UserData {
/*@FN:vault/secret.rs::impl UserData::len*/

    pub fn len(&self) -> (r: usize) 
    ensures
        r == self.fields@.len(), /*@L:vault/secret.rs::impl UserData::len:len_is_fields*/
{
        self.fields.len()
    }
/*@ENDFN:vault/secret.rs::impl UserData::len*/

/*@FN:vault/secret.rs::impl UserData::fields*/

    pub fn fields(&self) -> (r: &Vec<SecretRow>) 
    ensures
        *r == self.fields, /*@L:vault/secret.rs::impl UserData::fields:fields_is_field*/
{
        &self.fields
    }
/*@ENDFN:vault/secret.rs::impl UserData::fields*/

/*@FN:vault/secret.rs::impl UserData::push*/

    pub fn push(&mut self, field: SecretRow) 
    ensures
        final(self).fields@ == old(self).fields@.push(field) && final(self).comment == old(self).comment && final(self).recovery_note == old(self).recovery_note, /*@L:vault/secret.rs::impl UserData::push:push_appends*/
{
        self.fields.push(field);
    }
/*@ENDFN:vault/secret.rs::impl UserData::push*/
}


// ---- decoders -----------------------------------------------------------------------------------------------------------
// NOT PROVED: termination / stack depth of the mutual recursion Secret::decode -> read_user_data ->
// SecretRow::decode -> Secret::decode (`exec_allows_no_decreases_clause`).  It is unbounded on the real
// code: 500 nested levels (33 KB of input) overflow the stack (replayed, see the unit report).

impl Decodable for SecretRow {
type DV = SecretRowV;
open spec fn dview(&self) -> SecretRowV { self@ }
open spec fn dec_of(s: Seq<u8>) -> Option<(SecretRowV, Seq<u8>)> { dec_SecretRow(s) }
open spec fn dec_ready(&self) -> bool { self.meta.tags@ == Set::<Seq<char>>::empty() && self.meta.urn is None && self.meta.owner_id is None }
/*@FN:vault/encoding/secret.rs::impl Decodable for SecretRow::decode*/
#[verifier::exec_allows_no_decreases_clause]
fn decode<R: AsyncRead + AsyncSeek + Unpin + Send>(
        &mut self,
        reader: &mut BinaryReader<R>,
    ) -> (r: Result<()>) {
        self.id = decode_uuid(&mut *reader)?;
        self.meta.decode(&mut *reader)?;
        self.secret.decode(&mut *reader)?;
        Ok(())
    }
/*@ENDFN:vault/encoding/secret.rs::impl Decodable for SecretRow::decode*/
}

#[verifier::exec_allows_no_decreases_clause]
/*@FN:vault/encoding/secret.rs::read_user_data*/
fn read_user_data<R: AsyncRead + AsyncSeek + Unpin + Send>(
    reader: &mut BinaryReader<R>,
) -> (r: Result<UserData>) 
    requires
        old(reader)@.wf(),
    ensures
        r.is_ok() <==> dec_UserData(old(reader)@.rest()).is_some(), /*@L:vault/encoding/secret.rs::read_user_data:user_data_accepts_exactly*/
        r.is_ok() ==> r.unwrap()@ == dec_UserData(old(reader)@.rest()).unwrap().0 && rd(old(reader)@, final(reader)@, dec_UserData(old(reader)@.rest()).unwrap().1), /*@L:vault/encoding/secret.rs::read_user_data:user_data_value*/
        final(reader)@.wf() && final(reader)@.bytes == old(reader)@.bytes, /*@L:vault/encoding/secret.rs::read_user_data:user_data_reader_frame*/
{
    let mut user_data: UserData = Default::default();
    let count = reader.read_u32()?;

     let ghost t0 = reader@.rest(); let ghost r0 = reader@;
 proof { assert(rows_view(user_data.fields@) =~= Seq::<SecretRowV>::empty()); } for k in it: 0..count 
        invariant
            reader@.wf() && reader@.bytes == old(reader)@.bytes && r0.wf() && r0.bytes == reader@.bytes && r0.rest() == t0 && r0.pos <= reader@.pos && k <= count && r_u32(old(reader)@.rest()) == Some((count, t0)) && rd(old(reader)@, r0, t0) && rd(r0, reader@, reader@.rest()) && dec_rows(t0, k as nat) == Some((rows_view(user_data.fields@), reader@.rest())) && user_data.comment is None && user_data.recovery_note is None, /*@L:vault/encoding/secret.rs::read_user_data:rows_prefix_read*/
    {
        let mut field: SecretRow = Default::default();
         proof { lemma_dec_rows_snoc(t0, k as nat); if dec_rows(t0, count as nat).is_some() { lemma_dec_rows_prefix(t0, k as nat + 1, count as nat); } } field.decode(reader)?;
         proof { lemma_rows_view_push(user_data.fields@, field); } user_data.push(field);
    }
    let has_comment = reader.read_bool()?;
    if has_comment {
        user_data.comment = Some(reader.read_string()?);
    }
    let has_recovery_note = reader.read_bool()?;
    if has_recovery_note {
        user_data.recovery_note = Some(reader.read_string()?);
    }
    Ok(user_data)
}
/*@ENDFN:vault/encoding/secret.rs::read_user_data*/


impl Decodable for Secret {
type DV = SecretV;
open spec fn dview(&self) -> SecretV { self@ }
open spec fn dec_of(s: Seq<u8>) -> Option<(SecretV, Seq<u8>)> { dec_Secret(s) }
open spec fn dec_ready(&self) -> bool { true }
/*@FN:vault/encoding/secret.rs::impl Decodable for Secret::decode*/
#[verifier::exec_allows_no_decreases_clause]
#[verifier::spinoff_prover]
#[verifier::rlimit(100)]
fn decode<R: AsyncRead + AsyncSeek + Unpin + Send>(
        &mut self,
        reader: &mut BinaryReader<R>,
    ) -> (r: Result<()>) { hide(dec_Secret); hide(Stream::rest); hide(take_n); let ghost s_in = reader@.rest();
 proof { if r_u8(s_in) is None || secret_type_of_code(r_u8(s_in).unwrap().0) is None { lemma_dec_Secret_bad_tag(s_in); } } 
        let kind: SecretType =
            SecretType::try_from(reader.read_u8()?).map_err(encoding_error)?; let ghost tk = reader@.rest();
 proof { lemma_dec_Secret_unfold(s_in, kind, tk); } 
        match kind {
            SecretType::Note => {
                let text = reader.read_string()?;
                let user_data = read_user_data(reader)?;
                *self = Self::Note {
                    text: SecretString::from(text),
                    user_data,
                };
            }
            SecretType::File => {
                let mut content: FileContent = Default::default();
                content.decode(&mut *reader)?;
                let user_data = read_user_data(reader)?;
                *self = Self::File { content, user_data };
            }
            SecretType::Account => {
                let account = reader.read_string()?;
                let password = SecretString::from(reader.read_string()?);
                let has_url = reader.read_bool()?;
                let url = if has_url {
                    let s = reader.read_string()?;
                    // Original encoding was a String Url
                    match parse_url(&s) {
                        Ok(u) => WebsiteUrl::One(u).into_vec(),
                        // Newer encoding is JSON to support
                        // list of Urls
                        Err(_) => {
                            let value: WebsiteUrl = json_websites_from_str(&s)?;
                            value.into_vec()
                        }
                    }
                } else {
                    vec![]
                };

                let user_data = read_user_data(reader)?;

                *self = Self::Account {
                    account,
                    password,
                    url,
                    user_data,
                };
            }
            SecretType::List => {
                let items_len = reader.read_u32()?;
                let mut items = hashmap_with_capacity_checked(items_len as usize);
                 let ghost t0 = reader@.rest(); let ghost r0 = reader@; let ghost mut xs = Seq::<(Seq<char>, Seq<char>)>::empty(); for k in it: 0..items_len 
        invariant
            reader@.wf() && reader@.bytes == old(reader)@.bytes && r0.wf() && r0.bytes == reader@.bytes && r0.rest() == t0 && r0.pos <= reader@.pos && k <= items_len && kind == SecretType::List && r_u8(old(reader)@.rest()) == Some((secret_type_code(&kind), tk)) && r_u32(tk) == Some((items_len, t0)) && dec_Secret(old(reader)@.rest()) == dec_after_payload(dec_p_list(tk), tk) && rd(old(reader)@, r0, t0) && rd(r0, reader@, reader@.rest()) && dec_items(t0, k as nat) == Some((xs, reader@.rest())) && items@ == map_of(xs), /*@L:vault/encoding/secret.rs::impl Decodable for Secret::decode:items_prefix_read*/
    {
                     proof { lemma_dec_items_snoc(t0, k as nat); if dec_items(t0, items_len as nat).is_some() { lemma_dec_items_prefix(t0, k as nat + 1, items_len as nat); } } let key = reader.read_string()?;
                    let value = SecretString::from(reader.read_string()?);
                    items.insert(key, value); proof { lemma_map_of_push(xs, key@, value@); xs = xs.push((key@, value@)); } 
                }
                let user_data = read_user_data(reader)?;
                *self = Self::List { items, user_data };
            }
            SecretType::Pem => {
                let value = reader.read_string()?;
                let user_data = read_user_data(reader)?;
                *self = Self::Pem {
                    certificates: parse_many(value)
                        .map_err(encoding_error)?,

                    user_data,
                };
            }
            SecretType::Page => {
                let title = reader.read_string()?;
                let mime = reader.read_string()?;
                let document = SecretString::from(reader.read_string()?);
                let user_data = read_user_data(reader)?;
                *self = Self::Page {
                    title,
                    mime,
                    document,
                    user_data,
                };
            }
            SecretType::Identity => {
                let id_kind = reader.read_u8()?;
                let id_kind: IdentityKind =
                    IdentityKind::try_from(id_kind).map_err(encoding_error)?;

                let number = reader.read_string()?.into();

                let has_issue_place = reader.read_bool()?;
                let issue_place = if has_issue_place {
                    Some(reader.read_string()?)
                } else {
                    None
                };

                let has_issue_date = reader.read_bool()?;
                let issue_date = if has_issue_date {
                    let mut timestamp: UtcDateTime = Default::default();
                    timestamp.decode(&mut *reader)?;
                    Some(timestamp)
                } else {
                    None
                };

                let has_expiry_date = reader.read_bool()?;
                let expiry_date = if has_expiry_date {
                    let mut timestamp: UtcDateTime = Default::default();
                    timestamp.decode(&mut *reader)?;
                    Some(timestamp)
                } else {
                    None
                };

                let user_data = read_user_data(reader)?;
                *self = Self::Identity {
                    id_kind,
                    number,
                    issue_place,
                    issue_date,
                    expiry_date,
                    user_data,
                };
            }
            SecretType::Signer => {
                let mut private_key: SecretSigner = Default::default();
                private_key.decode(reader)?;
                let user_data = read_user_data(reader)?;
                *self = Self::Signer {
                    private_key,
                    user_data,
                };
            }
            SecretType::Contact => {
                let vcard = reader.read_string()?;
                let mut cards =
                    parse(vcard).map_err(encoding_error)?;
                let vcard = cards.remove(0);
                let user_data = read_user_data(reader)?;
                *self = Self::Contact {
                    vcard: Box::new(vcard),
                    user_data,
                };
            }
            SecretType::Totp => {
                let buffer_len = reader.read_u32()?;
                let buffer = reader.read_bytes(buffer_len as usize)?;
                let totp: TOTP = json_totp_from_slice(buffer.as_slice())
                    .map_err(encoding_error)?;
                let user_data = read_user_data(reader)?;
                *self = Self::Totp { totp, user_data };
            }
            SecretType::Card => {
                let number = reader.read_string()?.into();
                let has_expiry = reader.read_bool()?;
                let expiry = if has_expiry {
                    let mut expiry: UtcDateTime = Default::default();
                    expiry.decode(reader)?;
                    Some(expiry)
                } else {
                    None
                };
                let cvv = reader.read_string()?.into();

                let has_name = reader.read_bool()?;
                let name = if has_name {
                    Some(reader.read_string()?.into())
                } else {
                    None
                };

                let has_atm_pin = reader.read_bool()?;
                let atm_pin = if has_atm_pin {
                    Some(reader.read_string()?.into())
                } else {
                    None
                };

                let user_data = read_user_data(reader)?;
                *self = Self::Card {
                    number,
                    expiry,
                    cvv,
                    name,
                    atm_pin,
                    user_data,
                };
            }
            SecretType::Bank => {
                let number = reader.read_string()?.into();
                let routing = reader.read_string()?.into();

                let has_iban = reader.read_bool()?;
                let iban = if has_iban {
                    Some(reader.read_string()?.into())
                } else {
                    None
                };

                let has_swift = reader.read_bool()?;
                let swift = if has_swift {
                    Some(reader.read_string()?.into())
                } else {
                    None
                };

                let has_bic = reader.read_bool()?;
                let bic = if has_bic {
                    Some(reader.read_string()?.into())
                } else {
                    None
                };

                let user_data = read_user_data(reader)?;
                *self = Self::Bank {
                    number,
                    routing,
                    iban,
                    swift,
                    bic,
                    user_data,
                };
            }
            SecretType::Link => {
                let url = reader.read_string()?.into();

                let has_label = reader.read_bool()?;
                let label = if has_label {
                    Some(reader.read_string()?.into())
                } else {
                    None
                };

                let has_title = reader.read_bool()?;
                let title = if has_title {
                    Some(reader.read_string()?.into())
                } else {
                    None
                };

                let user_data = read_user_data(reader)?;
                *self = Self::Link {
                    url,
                    label,
                    title,
                    user_data,
                };
            }
            SecretType::Password => {
                let password = reader.read_string()?.into();

                let has_name = reader.read_bool()?;
                let name = if has_name {
                    Some(reader.read_string()?.into())
                } else {
                    None
                };

                let user_data = read_user_data(reader)?;
                *self = Self::Password {
                    password,
                    name,
                    user_data,
                };
            }
            SecretType::Age => {
                let mut version: AgeVersion = Default::default();
                version.decode(reader)?;
                let id = reader.read_string()?;

                // Make sure it's a valid x25519 identity
                let _: AgeIdentity = parse_age_identity(&id).map_err(|s: &str| {
                        encoding_error(VaultError::InvalidX25519Identity(
                            str_to_owned(s),
                        ))
                    })?;

                let key = id.into();

                let user_data = read_user_data(reader)?;
                *self = Self::Age {
                    version,
                    key,
                    user_data,
                };
            }
        }
        Ok(())
    }
/*@ENDFN:vault/encoding/secret.rs::impl Decodable for Secret::decode*/
}


} // verus!
fn main() {}

