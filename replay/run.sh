#!/bin/bash
# build the witness-search binary against /repo's CURRENT working tree (incremental) and run it
cd "$(dirname "$0")" || exit 2
cp /repo/Cargo.lock Cargo.lock 2>/dev/null
CARGO_NET_OFFLINE=true cargo build --release --offline >/verif/build/replay-build.log 2>&1 || { echo "{\"found\":false,\"error\":\"witness binary does not build against this tree (see build/replay-build.log)\"}"; exit 2; }
exec /verif/build/replay-target/release/sos-replay "$@"
