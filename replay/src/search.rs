//! Differential witness for the search index (C20): random operation
//! sequences on the real SearchIndex against a model map; after every step the
//! documents and all counters must equal those of an index built from scratch.
use crate::Rng;
use sos_search::SearchIndex;
use sos_vault::secret::{Secret, SecretMeta, SecretType};
use std::collections::{BTreeMap, HashMap, HashSet};

type Key = (uuid::Uuid, uuid::Uuid);

fn note() -> Secret {
    Secret::Note { text: "t".to_string().into(), user_data: Default::default() }
}

fn fail(kind: &str, detail: String) -> ! {
    println!("{{\"found\":true,\"check\":\"search-{}\",{}}}", kind, detail);
    std::process::exit(1)
}

fn snapshot(ix: &SearchIndex) -> (BTreeMap<Key, (String, Vec<String>, u8, bool)>, HashMap<uuid::Uuid, usize>, HashMap<u8, usize>, HashMap<String, usize>, usize) {
    let mut docs = BTreeMap::new();
    for d in ix.documents().values() {
        let mut tags: Vec<String> = d.meta().tags().iter().cloned().collect();
        tags.sort();
        let kind: u8 = d.meta().kind().into();
        docs.insert((*d.folder_id(), *d.id()), (d.meta().label().to_string(), tags, kind, d.meta().favorite()));
    }
    let c = ix.statistics().count();
    let nz = |m: &HashMap<uuid::Uuid, usize>| m.iter().filter(|(_, v)| **v > 0).map(|(k, v)| (*k, *v)).collect::<HashMap<_, _>>();
    let nzk = |m: &HashMap<u8, usize>| m.iter().filter(|(_, v)| **v > 0).map(|(k, v)| (*k, *v)).collect::<HashMap<_, _>>();
    let nzt = |m: &HashMap<String, usize>| m.iter().filter(|(_, v)| **v > 0).map(|(k, v)| (k.clone(), *v)).collect::<HashMap<_, _>>();
    (docs, nz(c.vaults()), nzk(c.kinds()), nzt(c.tags()), c.favorites())
}

pub fn run(cases: usize, seed: u64) {
    let mut r = Rng(seed | 1);
    let folders: Vec<uuid::Uuid> = (0..3).map(|_| uuid::Uuid::from_bytes(r.arr())).collect();
    let ids: Vec<uuid::Uuid> = (0..4).map(|_| uuid::Uuid::from_bytes(r.arr())).collect();
    let kinds = [SecretType::Note, SecretType::Account, SecretType::Totp];
    let tagpool = ["a", "b", "c"];
    for case in 0..cases {
        let archive = if r.below(2) == 0 { Some(folders[2]) } else { None };
        let mut ix = SearchIndex::new();
        ix.set_archive_id(archive);
        let mut model: BTreeMap<Key, SecretMeta> = BTreeMap::new();
        let mut trace = vec![];
        let n = 1 + r.below(14) as usize;
        for step in 0..n {
            let f = folders[r.below(3) as usize];
            let id = ids[r.below(4) as usize];
            let mut meta = SecretMeta::new(format!("l{}", r.below(5)), kinds[r.below(3) as usize]);
            let mut tags = HashSet::new();
            for t in tagpool.iter() { if r.below(2) == 0 { tags.insert(t.to_string()); } }
            meta.set_tags(tags);
            meta.set_favorite(r.below(2) == 0);
            match r.below(5) {
                0 | 1 => {
                    // add only when absent (the callers' precondition: prepare() refuses a present id)
                    if !model.contains_key(&(f, id)) {
                        ix.add(&f, &id, &meta, &note());
                        model.insert((f, id), meta);
                        trace.push(format!("add({},{})", f.as_u128() % 97, id.as_u128() % 97));
                    }
                }
                2 => {
                    ix.update(&f, &id, &meta, &note());
                    model.insert((f, id), meta);
                    trace.push(format!("update({},{})", f.as_u128() % 97, id.as_u128() % 97));
                }
                3 => {
                    ix.remove(&f, &id);
                    model.remove(&(f, id));
                    trace.push(format!("remove({},{})", f.as_u128() % 97, id.as_u128() % 97));
                }
                _ => {
                    ix.remove_vault(&f);
                    model.retain(|k, _| k.0 != f);
                    trace.push(format!("remove_vault({})", f.as_u128() % 97));
                }
            }
            // rebuild from scratch
            let mut fresh = SearchIndex::new();
            fresh.set_archive_id(archive);
            for ((f2, id2), m) in model.iter() { fresh.add(f2, id2, m, &note()); }
            let a = snapshot(&ix);
            let b = snapshot(&fresh);
            if a != b {
                fail("vs-rebuild", format!("\"case\":{},\"step\":{},\"archive_set\":{},\"trace\":{:?},\"live\":{:?},\"rebuilt\":{:?}", case, step, archive.is_some(), trace, format!("{:?}", (a.1, a.2, a.3, a.4, a.0.len())), format!("{:?}", (b.1, b.2, b.3, b.4, b.0.len()))));
            }
        }
    }
}
