//! Differential witness for the event logs (C06/C07): random operation
//! sequences on the real file-system and database FolderEventLog in lockstep
//! with a model (a list of commit hashes); after every step the in-memory
//! tree, the log re-opened from storage, forward/backward iteration and both
//! backends must agree with the model, and a second log in the same
//! directory/table must not change.  Events are unique per log on the database
//! side (byte-identical events across logs are a listed known finding, D5);
//! the file-system side also gets duplicate events.
use crate::Rng;
use futures::StreamExt;
use sos_backend::{BackendEventLog, BackendTarget, FolderEventLog};
use sos_core::{
    commit::CommitHash,
    encode,
    events::{patch::{CheckedPatch, Patch}, EventLog, EventLogType, EventRecord, WriteEvent},
    AccountId, Paths, VaultId,
};
use sos_database::entity::{AccountEntity, AccountRow, FolderEntity, FolderRow};
use sos_vault::Vault;

fn fail(kind: &str, detail: String) -> ! {
    println!("{{\"found\":true,\"check\":\"log-{}\",{}}}", kind, detail);
    std::process::exit(1)
}

async fn leaves_of(log: &FolderEventLog) -> Vec<[u8; 32]> {
    log.tree().leaves().unwrap_or_default()
}

async fn stream_commits(log: &FolderEventLog, reverse: bool) -> Vec<[u8; 32]> {
    let mut out = vec![];
    let s = log.record_stream(reverse).await;
    futures::pin_mut!(s);
    while let Some(r) = s.next().await {
        let rec = r.unwrap();
        out.push(*rec.commit().as_ref());
    }
    out
}

struct Side {
    name: &'static str,
    log: FolderEventLog,
    other: FolderEventLog,
    reopen: Box<dyn Fn() -> std::pin::Pin<Box<dyn std::future::Future<Output = FolderEventLog>>>>,
}

async fn check(side: &Side, model: &Vec<[u8; 32]>, other_model: &Vec<[u8; 32]>, trace: &Vec<String>, case: usize) {
    let mem = leaves_of(&side.log).await;
    if &mem != model {
        fail("tree-vs-model", format!("\"backend\":\"{}\",\"case\":{},\"trace\":{:?},\"tree_len\":{},\"model_len\":{}", side.name, case, trace, mem.len(), model.len()));
    }
    let mut re = (side.reopen)().await;
    re.load_tree().await.unwrap();
    let stored = leaves_of(&re).await;
    if stored != mem {
        fail("reopen-vs-memory", format!("\"backend\":\"{}\",\"case\":{},\"trace\":{:?},\"reopened_len\":{},\"memory_len\":{}", side.name, case, trace, stored.len(), mem.len()));
    }
    let fwd = stream_commits(&side.log, false).await;
    let mut back = stream_commits(&side.log, true).await;
    back.reverse();
    if &fwd != model || back != fwd {
        fail("iteration", format!("\"backend\":\"{}\",\"case\":{},\"trace\":{:?},\"forward_len\":{},\"backward_len\":{},\"mirror\":{}", side.name, case, trace, fwd.len(), back.len(), back == fwd));
    }
    let mut o = leaves_of(&side.other).await;
    let stored_other = stream_commits(&side.other, false).await;
    if &o != other_model || &stored_other != other_model {
        o.truncate(0);
        fail("other-log-changed", format!("\"backend\":\"{}\",\"case\":{},\"trace\":{:?},\"other_stored_len\":{},\"other_model_len\":{}", side.name, case, trace, stored_other.len(), other_model.len()));
    }
}

async fn new_fs(path: std::path::PathBuf, account: AccountId, folder: VaultId) -> FolderEventLog {
    BackendEventLog::FileSystem(
        sos_filesystem::FolderEventLog::new_folder(path, account, EventLogType::Folder(folder)).await.unwrap(),
    )
}

pub async fn run(cases: usize, seed: u64) {
    let mut r = Rng(seed | 1);
    for case in 0..cases {
        let dir = tempfile::tempdir().unwrap();
        let account = AccountId::random();
        // ---- database: one account, two folders in the same table
        let client = sos_database::open_memory().await.unwrap();
        let mut v1 = Vault::default();
        let mut v2 = Vault::default();
        *v1.header_mut().id_mut() = VaultId::new_v4();
        *v2.header_mut().id_mut() = VaultId::new_v4();
        let (f1, f2) = (*v1.id(), *v2.id());
        let arow = AccountRow::new_insert(&account, "w".to_owned()).unwrap();
        let r1 = FolderRow::new_insert(&v1).await.unwrap();
        let r2 = FolderRow::new_insert(&v2).await.unwrap();
        client.conn_mut(move |conn| {
            let a = AccountEntity::new(&conn);
            let id = a.insert(&arow)?;
            let f = FolderEntity::new(&conn);
            f.insert_folder(id, &r1)?;
            f.insert_folder(id, &r2)?;
            Ok(())
        }).await.unwrap();
        let paths = Paths::new_client(dir.path()).with_account_id(&account);
        let target = BackendTarget::Database(paths.clone(), client.clone());
        let db_log = FolderEventLog::new_folder(target.clone(), &account, &f1).await.unwrap();
        let db_other = FolderEventLog::new_folder(target.clone(), &account, &f2).await.unwrap();
        let t2 = target.clone();
        let db = Side { name: "database", log: db_log, other: db_other,
            reopen: Box::new(move || { let t = t2.clone(); Box::pin(async move { FolderEventLog::new_folder(t, &account, &f1).await.unwrap() }) }) };
        // ---- file system: two logs in the same directory
        let p1 = dir.path().join("one.events");
        let p2 = dir.path().join("two.events");
        let fs_log = new_fs(p1.clone(), account, f1).await;
        let fs_other = new_fs(p2.clone(), account, f2).await;
        let p1c = p1.clone();
        let fs = Side { name: "filesystem", log: fs_log, other: fs_other,
            reopen: Box::new(move || { let p = p1c.clone(); Box::pin(async move { new_fs(p, account, f1).await }) }) };
        let mut sides = [db, fs];
        // byte-identical events (same commit hash twice) occur on both sides; on the database side `rewind` is then
        // skipped, because its delete-by-hash is a LISTED known finding (D5) and not what this witness looks for
        let dups_allowed = [true, true];
        for (si, side) in sides.iter_mut().enumerate() {
            let mut model: Vec<[u8; 32]> = vec![];
            let mut other_model: Vec<[u8; 32]> = vec![];
            let mut trace: Vec<String> = vec![];
            // seed both logs
            let ev0 = WriteEvent::CreateVault(encode(&Vault::default()).await.unwrap());
            side.log.apply(&[ev0.clone()]).await.unwrap();
            model.push(*EventRecord::encode_event(&ev0).await.unwrap().commit().as_ref());
            let evo = WriteEvent::SetVaultName(format!("other-{}-{}", case, si));
            side.other.apply(&[evo.clone()]).await.unwrap();
            other_model.push(*EventRecord::encode_event(&evo).await.unwrap().commit().as_ref());
            let mut counter = 0u32;
            let n = 2 + r.below(10) as usize;
            for _ in 0..n {
                match r.below(7) {
                    6 => {
                        // records patched in from a device whose clock is a day behind
                        counter += 1;
                        let e = WriteEvent::SetVaultName(format!("old-{}-{}-{}", case, si, counter));
                        let mut rec = EventRecord::encode_event(&e).await.unwrap();
                        let past: time::OffsetDateTime = time::OffsetDateTime::now_utc() - time::Duration::days(1) - time::Duration::seconds(counter as i64);
                        rec.set_time(past.into());
                        side.log.apply_records(vec![rec.clone()]).await.unwrap();
                        model.push(*rec.commit().as_ref());
                        trace.push("apply_records(clock a day behind)".to_string());
                    }
                    0 | 1 | 2 => {
                        let k = 1 + r.below(3) as usize;
                        let mut evs = vec![];
                        for _ in 0..k {
                            counter += 1;
                            let name = if dups_allowed[si] && r.below(3) == 0 { format!("dup-{}", r.below(2)) } else { format!("n-{}-{}-{}", case, si, counter) };
                            evs.push(WriteEvent::SetVaultName(name));
                        }
                        side.log.apply(evs.as_slice()).await.unwrap();
                        for e in &evs { model.push(*EventRecord::encode_event(e).await.unwrap().commit().as_ref()); }
                        trace.push(format!("apply({})", k));
                    }
                    3 => {
                        let has_dups = (0..model.len()).any(|a| (a + 1..model.len()).any(|b| model[a] == model[b]));
                        if model.len() >= 2 && !(si == 0 && has_dups) {
                            let i = r.below(model.len() as u64) as usize;
                            let c = CommitHash(model[i]);
                            // the log rewinds to the LAST occurrence of the commit
                            let last = model.iter().rposition(|x| *x == model[i]).unwrap();
                            let removed = side.log.rewind(&c).await.unwrap();
                            let want: Vec<[u8; 32]> = model[last + 1..].to_vec();
                            let got: Vec<[u8; 32]> = removed.iter().map(|x| *x.commit().as_ref()).collect();
                            trace.push(format!("rewind(index {} of {})", i, model.len()));
                            if got != want {
                                fail("rewind-returned-records", format!("\"backend\":\"{}\",\"case\":{},\"trace\":{:?},\"returned\":{},\"expected\":{}", side.name, case, trace, got.len(), want.len()));
                            }
                            model.truncate(last + 1);
                        }
                    }
                    4 => {
                        // checked patch on the agreed base, and on a stale base
                        counter += 1;
                        let e = WriteEvent::SetVaultName(format!("p-{}-{}-{}", case, si, counter));
                        let rec = EventRecord::encode_event(&e).await.unwrap();
                        let head = side.log.tree().head().unwrap();
                        let stale = r.below(2) == 0 && model.len() >= 2;
                        let proof = if stale {
                            // the head the sender saw before the last record was appended
                            let mut t = sos_core::commit::CommitTree::new();
                            for l in &model[..model.len() - 1] { t.insert(*l); }
                            t.commit();
                            t.head().unwrap()
                        } else { head };
                        let res = side.log.patch_checked(&proof, &Patch::<WriteEvent>::new(vec![rec.clone()])).await.unwrap();
                        trace.push(format!("patch_checked(stale={})", stale));
                        match (stale, res) {
                            (false, CheckedPatch::Success(_)) => model.push(*rec.commit().as_ref()),
                            (true, CheckedPatch::Conflict { .. }) => {}
                            (s, _) => fail("patch-checked", format!("\"backend\":\"{}\",\"case\":{},\"trace\":{:?},\"stale_base\":{}", side.name, case, trace, s)),
                        }
                    }
                    _ => {
                        if !model.is_empty() {
                            let i = r.below(model.len() as u64) as usize;
                            let last = model.iter().rposition(|x| *x == model[i]).unwrap();
                            let d = side.log.diff_records(Some(&CommitHash(model[i]))).await.unwrap();
                            let got: Vec<[u8; 32]> = d.iter().map(|x| *x.commit().as_ref()).collect();
                            trace.push(format!("diff_records(index {})", i));
                            if got != model[last + 1..].to_vec() {
                                fail("diff-records", format!("\"backend\":\"{}\",\"case\":{},\"trace\":{:?},\"returned\":{},\"expected\":{}", side.name, case, trace, got.len(), model.len() - last - 1));
                            }
                        }
                    }
                }
                check(side, &model, &other_model, &trace, case).await;
            }
        }
    }
}
