//! Witness search / replay on the REAL compiled crates (DESIGN.md 2.5).
//!
//! Executable transcriptions of top-level postconditions plus small-scope
//! enumerators.  Used when a Verus obligation fails, to look for a concrete
//! input on which the real function violates the same clause.
//!
//! exit 0: no failing input found in the explored scope
//! exit 1: failing input found; a JSON object describing it is printed
//! exit 2: usage / internal error
use sos_core::{
    commit::{CommitHash, CommitProof, CommitState, CommitTree, Comparison},
    crypto::{AeadPack, Cipher, KeyDerivation, Nonce},
    decode, encode,
    events::{
        AccountEvent, DeviceEvent, EventKind, EventRecord, FileEvent,
        WriteEvent,
    },
    ExternalFileName, SecretPath, UtcDateTime, VaultCommit, VaultEntry,
    VaultFlags,
};
use std::panic::{catch_unwind, AssertUnwindSafe};
mod accountops;
mod devices;
mod folderops;
mod integrityops;
mod kdf;
mod logops;
mod mergeops;
mod reducer;
mod secrets;
mod search;
mod tree;

fn rt() -> tokio::runtime::Runtime {
    tokio::runtime::Builder::new_current_thread().enable_all().build().unwrap()
}

fn hex(b: &[u8]) -> String {
    b.iter().map(|x| format!("{:02x}", x)).collect()
}

pub struct Rng(pub u64);
impl Rng {
    pub fn next(&mut self) -> u64 {
        self.0 ^= self.0 << 13;
        self.0 ^= self.0 >> 7;
        self.0 ^= self.0 << 17;
        self.0
    }
    pub fn bytes(&mut self, n: usize) -> Vec<u8> {
        (0..n).map(|_| self.next() as u8).collect()
    }
    pub fn arr<const N: usize>(&mut self) -> [u8; N] {
        let mut a = [0u8; N];
        for x in a.iter_mut() {
            *x = self.next() as u8;
        }
        a
    }
    pub fn below(&mut self, n: u64) -> u64 {
        self.next() % n
    }
}

fn fail(kind: &str, ty: &str, detail: String) -> ! {
    println!(
        "{{\"found\":true,\"check\":\"{}\",\"type\":\"{}\",{}}}",
        kind, ty, detail
    );
    std::process::exit(1)
}

// ---- value generators -------------------------------------------------------
fn gen_aead(r: &mut Rng) -> AeadPack {
    let n = r.below(40) as usize;
    AeadPack {
        nonce: if r.below(2) == 0 {
            Nonce::Nonce12(r.arr())
        } else {
            Nonce::Nonce24(r.arr())
        },
        ciphertext: r.bytes(n),
    }
}
fn gen_entry(r: &mut Rng) -> VaultEntry {
    VaultEntry(gen_aead(r), gen_aead(r))
}
fn gen_commit(r: &mut Rng) -> VaultCommit {
    VaultCommit(CommitHash(r.arr()), gen_entry(r))
}
fn gen_uuid(r: &mut Rng) -> uuid::Uuid {
    uuid::Uuid::from_bytes(r.arr())
}
fn gen_string(r: &mut Rng) -> String {
    let n = r.below(12) as usize;
    (0..n)
        .map(|_| char::from_u32(0x20 + r.below(0x250) as u32).unwrap_or('x'))
        .collect()
}
fn gen_time(r: &mut Rng) -> UtcDateTime {
    let secs = match r.below(6) {
        0 => -377705116800i64,
        1 => 253402300799i64,
        2 => 0,
        3 => -((r.next() % 4_000_000_000) as i64),
        4 => -1,
        _ => (r.next() % 4_000_000_000) as i64,
    };
    let nanos = match r.below(3) {
        0 => 0,
        1 => 999_999_999,
        _ => r.below(1_000_000_000),
    } as i64;
    let t = time::OffsetDateTime::from_unix_timestamp(secs).unwrap();
    match t.checked_add(time::Duration::nanoseconds(nanos)) {
        Some(t) => t.into(),
        None => t.into(),
    }
}
fn gen_flags(r: &mut Rng) -> VaultFlags {
    VaultFlags::from_bits_truncate(r.next())
}
fn gen_write(r: &mut Rng) -> WriteEvent {
    match r.below(7) {
        0 => {
            let n = r.below(50) as usize;
            WriteEvent::CreateVault(r.bytes(n))
        }
        1 => WriteEvent::SetVaultName(gen_string(r)),
        2 => WriteEvent::SetVaultFlags(gen_flags(r)),
        3 => WriteEvent::SetVaultMeta(gen_aead(r)),
        4 => WriteEvent::CreateSecret(gen_uuid(r), gen_commit(r)),
        5 => WriteEvent::UpdateSecret(gen_uuid(r), gen_commit(r)),
        _ => WriteEvent::DeleteSecret(gen_uuid(r)),
    }
}
fn gen_account(r: &mut Rng) -> AccountEvent {
    let n = r.below(50) as usize;
    match r.below(8) {
        0 => AccountEvent::RenameAccount(gen_string(r)),
        1 => AccountEvent::UpdateIdentity(r.bytes(n)),
        2 => AccountEvent::CreateFolder(gen_uuid(r), r.bytes(n)),
        3 => AccountEvent::RenameFolder(gen_uuid(r), gen_string(r)),
        4 => AccountEvent::UpdateFolder(gen_uuid(r), r.bytes(n)),
        5 => AccountEvent::CompactFolder(gen_uuid(r), r.bytes(n)),
        6 => AccountEvent::ChangeFolderPassword(gen_uuid(r), r.bytes(n)),
        _ => AccountEvent::DeleteFolder(gen_uuid(r)),
    }
}
fn gen_path(r: &mut Rng) -> SecretPath {
    SecretPath(gen_uuid(r), gen_uuid(r))
}
fn gen_file(r: &mut Rng) -> FileEvent {
    let name: ExternalFileName = r.arr::<32>().into();
    match r.below(3) {
        0 => FileEvent::CreateFile(gen_path(r), name),
        1 => FileEvent::DeleteFile(gen_path(r), name),
        _ => FileEvent::MoveFile {
            name,
            from: gen_path(r),
            dest: gen_path(r),
        },
    }
}
fn gen_device(r: &mut Rng) -> DeviceEvent {
    DeviceEvent::Revoke(r.arr::<32>().into())
}
fn gen_record(r: &mut Rng) -> EventRecord {
    let n = r.below(60) as usize;
    EventRecord::new(
        gen_time(r),
        CommitHash(r.arr()),
        CommitHash(r.arr()),
        r.bytes(n),
    )
}
fn gen_proof(r: &mut Rng) -> CommitProof {
    let mut t = CommitTree::new();
    let n = 1 + r.below(9) as usize;
    for _ in 0..n {
        t.insert(r.arr());
    }
    t.commit();
    let i = r.below(n as u64) as usize;
    t.proof(&[i]).unwrap()
}
fn gen_comparison(r: &mut Rng) -> Comparison {
    match r.below(3) {
        0 => Comparison::Equal,
        1 => {
            let n = r.below(6) as usize;
            Comparison::Contains((0..n).map(|_| r.next() as usize).collect())
        }
        _ => Comparison::Unknown,
    }
}

macro_rules! roundtrip {
    ($name:expr, $ty:ty, $gen:expr, $n:expr, $seed:expr) => {{
        let rt = rt();
        let mut r = Rng($seed | 1);
        for case in 0..$n {
            let v: $ty = $gen(&mut r);
            let res = catch_unwind(AssertUnwindSafe(|| {
                rt.block_on(async {
                    let a = encode(&v).await;
                    let b = encode(&v).await;
                    (a, b)
                })
            }));
            let (a, b) = match res {
                Ok(x) => x,
                Err(_) => fail("encode-panics", $name, format!("\"case\":{},\"value\":{:?}", case, format!("{:?}", v))),
            };
            let (a, b) = match (a, b) {
                (Ok(a), Ok(b)) => (a, b),
                _ => continue, // encoder refused the value: outside valid_T
            };
            if a != b {
                fail("encode-not-deterministic", $name, format!("\"case\":{},\"value\":{:?}", case, format!("{:?}", v)));
            }
            let d = catch_unwind(AssertUnwindSafe(|| {
                rt.block_on(async { decode::<$ty>(&a).await })
            }));
            match d {
                Err(_) => fail("decode-panics-on-own-encoding", $name, format!("\"case\":{},\"bytes\":\"{}\"", case, hex(&a))),
                Ok(Err(e)) => fail("decode-rejects-own-encoding", $name, format!("\"case\":{},\"bytes\":\"{}\",\"error\":{:?}", case, hex(&a), e.to_string())),
                Ok(Ok(w)) => {
                    if w != v {
                        fail("roundtrip-differs", $name, format!("\"case\":{},\"bytes\":\"{}\",\"value\":{:?},\"decoded\":{:?}", case, hex(&a), format!("{:?}", v), format!("{:?}", w)));
                    }
                }
            }
        }
    }};
}

macro_rules! fuzz {
    ($name:expr, $ty:ty, $gen:expr, $n:expr, $seed:expr) => {{
        let rt = rt();
        let mut r = Rng($seed | 1);
        for case in 0..$n {
            let v: $ty = $gen(&mut r);
            let enc = rt.block_on(async { encode(&v).await });
            let mut bytes = match enc { Ok(b) => b, Err(_) => continue };
            // mutate: truncate / flip / extreme fill / random
            match r.below(6) {
                0 => { let k = r.below(bytes.len() as u64 + 1) as usize; bytes.truncate(k); }
                1 => { if !bytes.is_empty() { let k = r.below(bytes.len() as u64) as usize; bytes[k] ^= 1 << r.below(8); } }
                2 => { if !bytes.is_empty() { let k = r.below(bytes.len() as u64) as usize; for x in bytes.iter_mut().skip(k).take(8) { *x = 0xff; } } }
                3 => { if !bytes.is_empty() { let k = r.below(bytes.len() as u64) as usize; for x in bytes.iter_mut().skip(k).take(8) { *x = 0x00; } } }
                4 => { let k = r.below(64) as usize; bytes = r.bytes(k); }
                _ => { if bytes.len() >= 2 { bytes[0] = 0; bytes[1] = 0; } }
            }
            let d = catch_unwind(AssertUnwindSafe(|| {
                rt.block_on(async { decode::<$ty>(&bytes).await.map(|_| ()) })
            }));
            if d.is_err() {
                fail("decode-panics", $name, format!("\"case\":{},\"bytes\":\"{}\"", case, hex(&bytes)));
            }
        }
    }};
}

fn kinds() {
    // complete: every u16
    for c in 0..=u16::MAX {
        if let Ok(k) = EventKind::try_from(c) {
            let back: u16 = (&k).into();
            if back != c {
                fail("tag-map-not-inverse", "EventKind", format!("\"code\":{}", c));
            }
        }
    }
    for c in 0..=u8::MAX {
        if let Ok(k) = Cipher::try_from(c) {
            let back: u8 = (&k).into();
            if back != c { fail("tag-map-not-inverse", "Cipher", format!("\"code\":{}", c)); }
        }
        if let Ok(k) = KeyDerivation::try_from(c) {
            let back: u8 = (&k).into();
            if back != c { fail("tag-map-not-inverse", "KeyDerivation", format!("\"code\":{}", c)); }
        }
    }
}

fn main() {
    let args: Vec<String> = std::env::args().collect();
    if args.get(1).map(|c| c.starts_with("codec-")).unwrap_or(false) {
        // the codec commands run decoders under catch_unwind and report panics themselves
        std::panic::set_hook(Box::new(|_| {}));
    } else {
        // any other command: a panic means the witness itself could not run (exit 101 -> "could not run")
        std::panic::set_hook(Box::new(|info| { eprintln!("witness panicked: {}", info); }));
    }
    if args.len() < 3 {
        eprintln!("usage: sos-replay <codec-roundtrip|codec-fuzz> <Type|all> [cases] [seed]");
        std::process::exit(2);
    }
    let cases: usize = args.get(3).and_then(|s| s.parse().ok()).unwrap_or(3000);
    let seed: u64 = args.get(4).and_then(|s| s.parse().ok()).unwrap_or(0x9e3779b97f4a7c15);
    let ty = args[2].as_str();
    let all = ty == "all";
    match args[1].as_str() {
        "codec-roundtrip" => {
            if all || ty == "EventKind" || ty == "Cipher" || ty == "KeyDerivation" { kinds(); }
            if all || ty == "AeadPack" { roundtrip!("AeadPack", AeadPack, gen_aead, cases, seed); }
            if all || ty == "VaultEntry" { roundtrip!("VaultEntry", VaultEntry, gen_entry, cases, seed); }
            if all || ty == "VaultCommit" { roundtrip!("VaultCommit", VaultCommit, gen_commit, cases, seed); }
            if all || ty == "UtcDateTime" { roundtrip!("UtcDateTime", UtcDateTime, gen_time, cases, seed); }
            if all || ty == "WriteEvent" { roundtrip!("WriteEvent", WriteEvent, gen_write, cases, seed); }
            if all || ty == "AccountEvent" { roundtrip!("AccountEvent", AccountEvent, gen_account, cases, seed); }
            if all || ty == "FileEvent" { roundtrip!("FileEvent", FileEvent, gen_file, cases, seed); }
            if all || ty == "DeviceEvent" { roundtrip!("DeviceEvent", DeviceEvent, gen_device, cases, seed); }
            if all || ty == "EventRecord" { roundtrip!("EventRecord", EventRecord, gen_record, cases, seed); }
            if all || ty == "CommitProof" { roundtrip!("CommitProof", CommitProof, gen_proof, cases, seed); }
            if all || ty == "CommitState" {
                roundtrip!("CommitState", CommitState, |r: &mut Rng| CommitState(CommitHash(r.arr()), gen_proof(r)), cases, seed);
            }
            if all || ty == "CommitHash" { roundtrip!("CommitHash", CommitHash, |r: &mut Rng| CommitHash(r.arr()), cases, seed); }
            if all || ty == "Comparison" { roundtrip!("Comparison", Comparison, gen_comparison, cases, seed); }
        }
        "secret-roundtrip" => { rt().block_on(secrets::run(cases, seed)); }
        "folder-ops" => { rt().block_on(folderops::run(cases, seed)); }
        "repro-db-shared-secret-id" => { rt().block_on(folderops::repro_db_shared_secret_id()); }
        "integrity-ops" => { rt().block_on(integrityops::run(cases, seed)); }
        "kdf" => { kdf::run(cases); }
        "account-ops" => { rt().block_on(accountops::run(cases, seed)); }
        "device-reducer" => { rt().block_on(devices::run(cases, seed)); }
        "plaintext-scan" => { rt().block_on(folderops::run_scan(cases, seed)); }
        "log-ops" => { rt().block_on(logops::run(cases, seed)); }
        "merge-patches" => { rt().block_on(mergeops::run(cases, seed)); }
        "search-index" => { search::run(cases, seed); }
        "tree-compare" => { tree::run(cases); }
        "reducer-replay" => {
            rt().block_on(reducer::run(cases, seed));
        }
        "codec-fuzz" => {
            if all || ty == "AeadPack" { fuzz!("AeadPack", AeadPack, gen_aead, cases, seed); }
            if all || ty == "VaultEntry" { fuzz!("VaultEntry", VaultEntry, gen_entry, cases, seed); }
            if all || ty == "VaultCommit" { fuzz!("VaultCommit", VaultCommit, gen_commit, cases, seed); }
            if all || ty == "UtcDateTime" { fuzz!("UtcDateTime", UtcDateTime, gen_time, cases, seed); }
            if all || ty == "WriteEvent" { fuzz!("WriteEvent", WriteEvent, gen_write, cases, seed); }
            if all || ty == "AccountEvent" { fuzz!("AccountEvent", AccountEvent, gen_account, cases, seed); }
            if all || ty == "FileEvent" { fuzz!("FileEvent", FileEvent, gen_file, cases, seed); }
            if all || ty == "DeviceEvent" { fuzz!("DeviceEvent", DeviceEvent, gen_device, cases, seed); }
            if all || ty == "EventRecord" { fuzz!("EventRecord", EventRecord, gen_record, cases, seed); }
            if all || ty == "CommitProof" { fuzz!("CommitProof", CommitProof, gen_proof, cases, seed); }
            if all || ty == "CommitHash" { fuzz!("CommitHash", CommitHash, |r: &mut Rng| CommitHash(r.arr()), cases, seed); }
            if all || ty == "Comparison" { fuzz!("Comparison", Comparison, gen_comparison, cases, seed); }
            if all || ty == "EventKind" {
                // EventKind is decoded as part of every event; cover all codes via WriteEvent
                fuzz!("WriteEvent", WriteEvent, gen_write, cases, seed);
            }
        }
        _ => {
            eprintln!("unknown command");
            std::process::exit(2);
        }
    }
    println!("{{\"found\":false,\"check\":\"{}\",\"type\":\"{}\",\"cases\":{}}}", args[1], ty, cases);
}
