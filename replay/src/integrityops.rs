//! Bounded stand-in for C16 on the real crates: after a random history of folder operations (plus, on the
//! database backend, a re-insert of an existing secret id with newer content through the vault writer — the
//! path a merge replay takes) `vault_integrity` and `event_integrity` must report NO failure on the untampered
//! storage; after flipping one byte of a stored secret row (vault file / folder_secrets.meta) the vault report,
//! and after flipping one byte of a stored event payload the event report, must contain a failure.
use crate::Rng;
use futures::StreamExt;
use sos_backend::{BackendTarget, Folder, VaultWriter};
use sos_core::{crypto::AccessKey, encode, AccountId, Paths, VaultId};
use sos_database::entity::{AccountEntity, AccountRow, FolderEntity, FolderRow};
use sos_integrity::{event_integrity, vault_integrity};
use sos_vault::{secret::{Secret, SecretMeta, SecretRow, SecretType, UserData}, BuilderCredentials, EncryptedEntry, SecretAccess, VaultBuilder};

fn fail(kind: &str, detail: String) -> ! {
    println!("{{\"found\":true,\"check\":\"integrity-{}\",{}}}", kind, detail);
    std::process::exit(1)
}

fn note(r: &mut Rng) -> (SecretMeta, Secret) {
    let label = format!("label-{}", r.below(100000));
    let text = format!("text-{}", r.below(100000));
    (SecretMeta::new(label, SecretType::Note), Secret::Note { text: text.into(), user_data: UserData::default() })
}

async fn reports(target: &BackendTarget, account: &AccountId, folder_id: &VaultId) -> (usize, usize, usize, usize) {
    let mut v_ok = 0; let mut v_err = 0; let mut e_ok = 0; let mut e_err = 0;
    let mut s = vault_integrity(target, account, folder_id);
    while let Some(x) = s.next().await { if x.is_ok() { v_ok += 1 } else { v_err += 1 } }
    let mut s = event_integrity(target, account, folder_id);
    while let Some(x) = s.next().await { if x.is_ok() { e_ok += 1 } else { e_err += 1 } }
    (v_ok, v_err, e_ok, e_err)
}

pub async fn run(cases: usize, seed: u64) {
    let mut r = Rng(seed | 1);
    for case in 0..cases {
        for backend in ["filesystem", "database"] {
            let dir = tempfile::tempdir().unwrap();
            let password: secrecy::SecretString = format!("pw-{}", case).into();
            let vault = VaultBuilder::new().build(BuilderCredentials::Password(password.clone(), None)).await.unwrap();
            let folder_id: VaultId = *vault.id();
            let account = AccountId::random();
            let key: AccessKey = password.into();
            let paths = Paths::new_client(dir.path()).with_account_id(&account);
            let db_path = dir.path().join("accounts.db");
            let target = if backend == "filesystem" {
                Paths::scaffold(&dir.path().to_path_buf()).await.ok();
                paths.ensure().await.unwrap();
                std::fs::write(paths.vault_path(&folder_id), encode(&vault).await.unwrap()).unwrap();
                BackendTarget::FileSystem(paths.clone())
            } else {
                let mut client = sos_database::open_file(&db_path).await.unwrap();
                sos_database::migrations::migrate_client(&mut client).await.unwrap();
                let arow = AccountRow::new_insert(&account, "w".to_owned()).unwrap();
                let frow = FolderRow::new_insert(&vault).await.unwrap();
                client.conn_mut(move |conn| {
                    let id = AccountEntity::new(&conn).insert(&arow)?;
                    FolderEntity::new(&conn).insert_folder(id, &frow)?;
                    Ok(())
                }).await.unwrap();
                BackendTarget::Database(paths.clone(), client)
            };
            let mut f = Folder::new(target.clone(), &account, &folder_id).await.unwrap();
            f.unlock(&key).await.unwrap();
            let mut ids: Vec<uuid::Uuid> = vec![];
            let mut trace: Vec<String> = vec![];
            let n = 2 + r.below(7) as usize;
            for _ in 0..n {
                match r.below(5) {
                    0 | 1 | 2 => {
                        let id = uuid::Uuid::from_bytes(r.arr());
                        let (m, s) = note(&mut r);
                        f.create_secret(&SecretRow::new(id, m, s)).await.unwrap();
                        ids.push(id); trace.push("create".into());
                    }
                    3 => if !ids.is_empty() {
                        let id = ids[r.below(ids.len() as u64) as usize];
                        let (m, s) = note(&mut r);
                        f.update_secret(&id, m, s).await.unwrap(); trace.push("update".into());
                    },
                    _ => if ids.len() > 1 {
                        let k = r.below(ids.len() as u64) as usize;
                        let id = ids.remove(k);
                        f.delete_secret(&id).await.unwrap(); trace.push("delete".into());
                    },
                }
            }
            if ids.is_empty() {
                let id = uuid::Uuid::from_bytes(r.arr());
                let (m, s) = note(&mut r);
                f.create_secret(&SecretRow::new(id, m, s)).await.unwrap();
                ids.push(id); trace.push("create".into());
            }
            if backend == "database" {
                // re-insert an existing id with newer content through the vault writer (what a merge replay of a
                // CreateSecret for an existing secret does on this backend: the insert is an upsert)
                let id = ids[0];
                let tmp = uuid::Uuid::from_bytes(r.arr());
                let (m, s) = note(&mut r);
                f.create_secret(&SecretRow::new(tmp, m, s)).await.unwrap();
                let (commit, entry) = {
                    let ap = f.access_point(); let ap = ap.lock().await;
                    let vc = ap.vault().get(&tmp).unwrap().clone();
                    (vc.0, vc.1)
                };
                f.delete_secret(&tmp).await.unwrap();
                let mut w = VaultWriter::new(target.clone(), &folder_id);
                w.insert_secret(id, commit, entry).await.unwrap();
                trace.push("writer.insert_secret(existing id, newer content)".into());
            }
            drop(f);
            let (v_ok, v_err, e_ok, e_err) = reports(&target, &account, &folder_id).await;
            if v_err > 0 || e_err > 0 || v_ok != ids.len() {
                fail("false-positive-on-untampered-storage", format!("\"backend\":\"{}\",\"case\":{},\"trace\":{:?},\"vault_ok\":{},\"vault_failures\":{},\"live_secrets\":{},\"event_ok\":{},\"event_failures\":{}", backend, case, trace, v_ok, v_err, ids.len(), e_ok, e_err));
            }
            // tamper: one byte of a stored secret row
            if backend == "filesystem" {
                let p = paths.vault_path(&folder_id);
                let mut bytes = std::fs::read(&p).unwrap();
                let k = bytes.len() - 1 - (r.below(40) as usize);   // inside the last row's encrypted content
                bytes[k] ^= 0x01;
                std::fs::write(&p, bytes).unwrap();
            } else if let BackendTarget::Database(_, client) = &target {
                client.conn_mut(|conn| {
                    let (rid, mut meta): (i64, Vec<u8>) = conn.query_row("SELECT secret_id, meta FROM folder_secrets ORDER BY secret_id DESC LIMIT 1", [], |row| Ok((row.get(0)?, row.get(1)?)))?;
                    let n = meta.len(); meta[n - 1] ^= 0x01;
                    conn.execute("UPDATE folder_secrets SET meta=?1 WHERE secret_id=?2", (meta, rid))?;
                    Ok(())
                }).await.unwrap();
            }
            let (_, v_err2, _, _) = reports(&target, &account, &folder_id).await;
            if v_err2 == 0 {
                fail("tampered-secret-row-not-flagged", format!("\"backend\":\"{}\",\"case\":{},\"trace\":{:?}", backend, case, trace));
            }
            // tamper: one byte of a stored event payload
            if backend == "filesystem" {
                let p = paths.event_log_path(&folder_id);
                let mut bytes = std::fs::read(&p).unwrap();
                let k = bytes.len() - 8 - (r.below(20) as usize);   // inside the last record's event bytes (before the trailing row length)
                bytes[k] ^= 0x01;
                std::fs::write(&p, bytes).unwrap();
            } else if let BackendTarget::Database(_, client) = &target {
                client.conn_mut(|conn| {
                    let (rid, mut ev): (i64, Vec<u8>) = conn.query_row("SELECT event_id, event FROM folder_events ORDER BY event_id DESC LIMIT 1", [], |row| Ok((row.get(0)?, row.get(1)?)))?;
                    let n = ev.len(); ev[n - 1] ^= 0x01;
                    conn.execute("UPDATE folder_events SET event=?1 WHERE event_id=?2", (ev, rid))?;
                    Ok(())
                }).await.unwrap();
            }
            let (_, _, _, e_err2) = reports(&target, &account, &folder_id).await;
            if e_err2 == 0 {
                fail("tampered-event-not-flagged", format!("\"backend\":\"{}\",\"case\":{},\"trace\":{:?}", backend, case, trace));
            }
        }
    }
    println!("{{\"found\":false,\"check\":\"integrity-ops\",\"cases\":{}}}", cases);
}
