//! Round-trip witness for Secret / SecretMeta / Vault (C14, second part):
//! generated values of the simple secret kinds with every combination of
//! optional fields, nested user data fields, and whole vaults.
use crate::Rng;
use sos_core::{crypto::{AeadPack, Nonce}, decode, encode, commit::CommitHash, VaultCommit, VaultEntry, VaultFlags};
use sos_vault::secret::{IdentityKind, Secret, SecretMeta, SecretRow, SecretType, UserData};
use sos_vault::Vault;
use std::collections::{HashMap, HashSet};

fn fail(kind: &str, detail: String) -> ! {
    println!("{{\"found\":true,\"check\":\"secret-{}\",{}}}", kind, detail);
    std::process::exit(1)
}
fn s(r: &mut Rng) -> String { format!("v{}", r.below(1000)) }
fn ss(r: &mut Rng) -> secrecy::SecretString { s(r).into() }
fn os(r: &mut Rng) -> Option<secrecy::SecretString> { if r.below(2) == 0 { Some(ss(r)) } else { None } }
fn odt(r: &mut Rng) -> Option<sos_core::UtcDateTime> {
    if r.below(2) == 0 {
        let t = time::OffsetDateTime::from_unix_timestamp((r.next() % 4_000_000_000) as i64 - 2_000_000_000).unwrap()
            + time::Duration::nanoseconds(r.below(1_000_000_000) as i64);
        Some(t.into())
    } else { None }
}
fn user_data(r: &mut Rng, depth: usize) -> UserData {
    let mut u = if r.below(2) == 0 { UserData::new_comment(s(r)) } else { UserData::default() };
    if depth > 0 {
        for _ in 0..r.below(3) {
            let meta = SecretMeta::new(s(r), SecretType::Note);
            let sec = gen_secret(r, depth - 1);
            u.push(SecretRow::new(uuid::Uuid::from_bytes(r.arr()), meta, sec));
        }
    }
    u
}
pub fn gen_secret(r: &mut Rng, depth: usize) -> Secret {
    let ud = user_data(r, depth);
    match r.below(9) {
        0 => Secret::Note { text: ss(r), user_data: ud },
        1 => Secret::Account { account: s(r), password: ss(r), url: vec![], user_data: ud },
        2 => {
            let mut items = HashMap::new();
            // at most one item: Secret's PartialEq compares List items in HashMap iteration order
            for _ in 0..r.below(2) { items.insert(s(r), ss(r)); }
            Secret::List { items, user_data: ud }
        }
        3 => Secret::Page { title: s(r), mime: "text/markdown".into(), document: ss(r), user_data: ud },
        4 => Secret::Card { number: ss(r), expiry: odt(r), cvv: ss(r), name: os(r), atm_pin: os(r), user_data: ud },
        5 => Secret::Bank { number: ss(r), routing: ss(r), iban: os(r), swift: os(r), bic: os(r), user_data: ud },
        6 => Secret::Link { url: ss(r), label: os(r), title: os(r), user_data: ud },
        7 => Secret::Password { password: ss(r), name: os(r), user_data: ud },
        _ => {
            let kinds = [IdentityKind::PersonalIdNumber, IdentityKind::IdCard, IdentityKind::Passport, IdentityKind::DriverLicense, IdentityKind::SocialSecurity, IdentityKind::TaxNumber, IdentityKind::MedicalCard];
            Secret::Identity { id_kind: kinds[r.below(7) as usize].clone(), number: ss(r), issue_place: if r.below(2) == 0 { Some(s(r)) } else { None }, issue_date: odt(r), expiry_date: odt(r), user_data: ud }
        }
    }
}
fn aead(r: &mut Rng) -> AeadPack {
    let n = 1 + r.below(12) as usize;
    AeadPack { nonce: if r.below(2) == 0 { Nonce::Nonce12(r.arr()) } else { Nonce::Nonce24(r.arr()) }, ciphertext: r.bytes(n) }
}

pub async fn run(cases: usize, seed: u64) {
    let mut r = Rng(seed | 1);
    for case in 0..cases {
        // Secret
        let v = gen_secret(&mut r, 2);
        let a = encode(&v).await.unwrap();
        let w: Secret = match decode(&a).await {
            Ok(w) => w,
            Err(e) => fail("decode-rejects-own-encoding", format!("\"case\":{},\"value\":{:?},\"error\":{:?}", case, format!("{:?}", v), e.to_string())),
        };
        if w != v {
            let (ua, ub) = (v.user_data(), w.user_data());
            eprintln!("user_data equal: {} fields {} vs {} comment {:?} vs {:?}", ua == ub, ua.fields().len(), ub.fields().len(), ua.comment(), ub.comment());
            for (x, y) in ua.fields().iter().zip(ub.fields().iter()) {
                eprintln!(" row id eq {} meta eq {} secret eq {} ; kinds {:?} {:?}", x.id() == y.id(), x.meta() == y.meta(), x.secret() == y.secret(), x.secret(), y.secret());
            }
            fail("roundtrip-differs", format!("\"case\":{},\"value\":{:?},\"decoded\":{:?}", case, format!("{:?}", v), format!("{:?}", w)));
        }
        // SecretMeta
        let mut m = SecretMeta::new(s(&mut r), SecretType::Account);
        let mut tags = HashSet::new();
        for _ in 0..r.below(4) { tags.insert(s(&mut r)); }
        m.set_tags(tags);
        m.set_favorite(r.below(2) == 0);
        let a = encode(&m).await.unwrap();
        let w: SecretMeta = decode(&a).await.unwrap_or_else(|e| fail("meta-decode-rejects-own-encoding", format!("\"case\":{},\"error\":{:?}", case, e.to_string())));
        if w != m || w.tags() != m.tags() || w.favorite() != m.favorite() || w.label() != m.label() {
            fail("meta-roundtrip-differs", format!("\"case\":{},\"value\":{:?},\"decoded\":{:?}", case, format!("{:?}", m), format!("{:?}", w)));
        }
        // Vault with rows
        let mut vault = Vault::default();
        vault.set_name(s(&mut r));
        *vault.flags_mut() = VaultFlags::from_bits_truncate(r.next() & 0x3ff);
        if r.below(2) == 0 { vault.header_mut().set_meta(Some(aead(&mut r))); }
        for _ in 0..r.below(4) {
            vault.insert_entry(uuid::Uuid::from_bytes(r.arr()), VaultCommit(CommitHash(r.arr()), VaultEntry(aead(&mut r), aead(&mut r))));
        }
        let a = encode(&vault).await.unwrap();
        let b = encode(&vault).await.unwrap();
        if a != b { fail("vault-encode-not-deterministic", format!("\"case\":{}", case)); }
        let w: Vault = decode(&a).await.unwrap_or_else(|e| fail("vault-decode-rejects-own-encoding", format!("\"case\":{},\"error\":{:?}", case, e.to_string())));
        if w != vault {
            fail("vault-roundtrip-differs", format!("\"case\":{},\"name\":{:?}", case, vault.name()));
        }
    }
}
