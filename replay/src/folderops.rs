//! Differential witness for folder contents (C01 / C02): random create /
//! update / delete / rename / re-flag / describe sequences on the real
//! `sos_backend::Folder` over the file-system and the database backend in
//! lockstep with a model map; after every step reading through the live
//! folder, a folder RE-OPENED from storage and unlocked again, and the replay
//! of the event log must all give the model's answers (read-your-writes,
//! listing = live ids, reload, replay).  Ids are fresh per create (re-used ids
//! are a listed known finding, D14).
use crate::Rng;
use sos_backend::{BackendTarget, Folder};
use sos_core::{crypto::AccessKey, encode, events::EventLogType, AccountId, Paths, VaultFlags, VaultId};
use sos_database::entity::{AccountEntity, AccountRow, FolderEntity, FolderRow};
use sos_reducers::FolderReducer;
use sos_vault::SecretAccess;
use sos_vault::{secret::{Secret, SecretMeta, SecretRow, SecretType, UserData}, BuilderCredentials, VaultBuilder};
use secrecy::ExposeSecret;
use std::collections::BTreeMap;

fn fail(kind: &str, detail: String) -> ! {
    println!("{{\"found\":true,\"check\":\"folder-{}\",{}}}", kind, detail);
    std::process::exit(1)
}

fn note(r: &mut Rng) -> (SecretMeta, Secret, String, String) {
    let label = format!("label-{}", 100000 + r.below(900000));
    let text = format!("text-{}", 100000 + r.below(900000));
    let mut ud = UserData::default();
    if r.below(2) == 0 { ud = UserData::new_comment(format!("comment-of-{}", text)); }
    (SecretMeta::new(label.clone(), SecretType::Note), Secret::Note { text: text.clone().into(), user_data: ud }, label, text)
}

type Model = BTreeMap<uuid::Uuid, (String, String)>;

async fn compare(tag: &str, backend: &str, f: &Folder, model: &Model, name: &str, flags: u64, trace: &Vec<String>, case: usize) {
    // listing = live ids
    let ids: Vec<uuid::Uuid> = { let ap = f.access_point(); let ap = ap.lock().await; ap.vault().keys().copied().collect() };
    let mut a = ids.clone(); a.sort();
    let b: Vec<uuid::Uuid> = model.keys().copied().collect();
    if a != b {
        fail("listing", format!("\"backend\":\"{}\",\"view\":\"{}\",\"case\":{},\"trace\":{:?},\"listed\":{},\"live\":{}", backend, tag, case, trace, a.len(), b.len()));
    }
    for (id, (label, text)) in model.iter() {
        match f.read_secret(id).await.unwrap() {
            Some((meta, Secret::Note { text: t, .. }, _)) => {
                if meta.label() != label || t.expose_secret() != text {
                    fail("read-your-writes", format!("\"backend\":\"{}\",\"view\":\"{}\",\"case\":{},\"trace\":{:?},\"expected_label\":{:?},\"got_label\":{:?},\"expected_text\":{:?},\"got_text\":{:?}", backend, tag, case, trace, label, meta.label(), text, t.expose_secret()));
                }
            }
            _ => fail("missing-secret", format!("\"backend\":\"{}\",\"view\":\"{}\",\"case\":{},\"trace\":{:?}", backend, tag, case, trace)),
        }
    }
    let (n, fl) = { let ap = f.access_point(); let ap = ap.lock().await; (ap.vault().name().to_string(), ap.vault().flags().bits()) };
    if n != name || fl != flags {
        fail("name-or-flags", format!("\"backend\":\"{}\",\"view\":\"{}\",\"case\":{},\"trace\":{:?},\"name\":{:?},\"want_name\":{:?},\"flags\":{},\"want_flags\":{}", backend, tag, case, trace, n, name, fl, flags));
    }
}

fn scan_dir(dir: &std::path::Path, markers: &[String], backend: &str, case: usize, trace: &Vec<String>) {
    // every byte persisted under the storage directory (vault file, event log file, database file, WAL, journal)
    let mut stack = vec![dir.to_path_buf()];
    while let Some(d) = stack.pop() {
        for e in std::fs::read_dir(&d).unwrap() {
            let e = e.unwrap();
            let p = e.path();
            if p.is_dir() { stack.push(p); continue; }
            let bytes = std::fs::read(&p).unwrap();
            for m in markers {
                let mb = m.as_bytes();
                if mb.len() >= 6 && bytes.windows(mb.len()).any(|w| w == mb) {
                    fail("plaintext-in-storage", format!("\"backend\":\"{}\",\"case\":{},\"trace\":{:?},\"file\":{:?},\"plaintext\":{:?}", backend, case, trace, p.file_name().unwrap(), m));
                }
            }
        }
    }
}

pub async fn run(cases: usize, seed: u64) { run_mode(cases, seed, false).await }

/// C03 bounded stand-in: the same histories, and after every step no label, note text, comment
/// or folder password may occur in any file under the storage directory.
pub async fn run_scan(cases: usize, seed: u64) { run_mode(cases, seed, true).await }

async fn run_mode(cases: usize, seed: u64, scan: bool) {
    let mut r = Rng(seed | 1);
    for case in 0..cases {
        for backend in ["filesystem", "database"] {
            let dir = tempfile::tempdir().unwrap();
            let pw_text = format!("pw-{}-{}", case, r.below(1000000));
            let mut markers: Vec<String> = vec![pw_text.clone()];
            let password: secrecy::SecretString = pw_text.into();
            let vault = VaultBuilder::new().build(BuilderCredentials::Password(password.clone(), None)).await.unwrap();
            let folder_id: VaultId = *vault.id();
            let account = AccountId::random();
            let key: AccessKey = password.into();
            // open (and later re-open) the folder from storage
            let fs_path = dir.path().join("folder.vault");
            let client = if scan && backend == "database" {
                let mut c = sos_database::open_file(dir.path().join("accounts.db")).await.unwrap();
                sos_database::migrations::migrate_client(&mut c).await.unwrap();
                c
            } else { sos_database::open_memory().await.unwrap() };
            let paths = Paths::new_client(dir.path());
            if backend == "filesystem" {
                std::fs::write(&fs_path, encode(&vault).await.unwrap()).unwrap();
            } else {
                let arow = AccountRow::new_insert(&account, "w".to_owned()).unwrap();
                let frow = FolderRow::new_insert(&vault).await.unwrap();
                client.conn_mut(move |conn| {
                    let a = AccountEntity::new(&conn);
                    let id = a.insert(&arow)?;
                    FolderEntity::new(&conn).insert_folder(id, &frow)?;
                    Ok(())
                }).await.unwrap();
            }
            let open = || async {
                if backend == "filesystem" {
                    Folder::from_path(&fs_path, &account, EventLogType::Folder(folder_id)).await.unwrap()
                } else {
                    Folder::new(BackendTarget::Database(paths.clone(), client.clone()), &account, &folder_id).await.unwrap()
                }
            };
            let mut f = open().await;
            f.unlock(&key).await.unwrap();
            let mut model: Model = BTreeMap::new();
            let mut name = { let ap = f.access_point(); let ap = ap.lock().await; ap.vault().name().to_string() };
            let mut flags = { let ap = f.access_point(); let ap = ap.lock().await; ap.vault().flags().bits() };
            let mut trace: Vec<String> = vec![];
            let n = 2 + r.below(9) as usize;
            for _ in 0..n {
                match r.below(7) {
                    0 | 1 | 2 => {
                        let id = uuid::Uuid::from_bytes(r.arr());
                        let (m, s, l, t) = note(&mut r);
                        f.create_secret(&SecretRow::new(id, m, s)).await.unwrap();
                        markers.push(l.clone()); markers.push(t.clone());
                        model.insert(id, (l, t));
                        trace.push(format!("create(#{})", model.len()));
                    }
                    3 | 4 => {
                        if !model.is_empty() {
                            let k = r.below(model.len() as u64) as usize;
                            let id = *model.keys().nth(k).unwrap();
                            let (m, s, l, t) = note(&mut r);
                            f.update_secret(&id, m, s).await.unwrap();
                            markers.push(l.clone()); markers.push(t.clone());
                            model.insert(id, (l, t));
                            trace.push(format!("update(position {} of {})", k, model.len()));
                        }
                    }
                    5 => {
                        if !model.is_empty() {
                            let k = r.below(model.len() as u64) as usize;
                            let id = *model.keys().nth(k).unwrap();
                            f.delete_secret(&id).await.unwrap();
                            model.remove(&id);
                            trace.push(format!("delete(position {})", k));
                        }
                    }
                    _ => {
                        if r.below(2) == 0 {
                            name = format!("folder-{}", r.below(1000));
                            f.rename_folder(name.clone()).await.unwrap();
                            // self-test of the scanner: the folder NAME is legitimately stored in the clear,
                            // so with SOS_SCAN_SELFTEST=1 the scan must report it (checked by the C03 check)
                            if scan && std::env::var("SOS_SCAN_SELFTEST").is_ok() { markers.push(name.clone()); }
                            trace.push("rename".into());
                        } else {
                            let fl = VaultFlags::from_bits_truncate(r.next() & 0x3ff);
                            flags = fl.bits();
                            f.update_folder_flags(fl).await.unwrap();
                            trace.push("reflag".into());
                        }
                    }
                }
                if scan { scan_dir(dir.path(), &markers, backend, case, &trace); }
                compare("live", backend, &f, &model, &name, flags, &trace, case).await;
                // reload from persisted storage, unlock again
                let mut g = open().await;
                g.unlock(&key).await.unwrap();
                compare("reloaded", backend, &g, &model, &name, flags, &trace, case).await;
                // replay of the event log equals the served folder (ids and commits)
                let log = f.event_log();
                let log = log.read().await;
                let replayed = FolderReducer::new().reduce(&*log).await.unwrap().build(true).await.unwrap();
                let mut rid: Vec<uuid::Uuid> = replayed.keys().copied().collect(); rid.sort();
                let want: Vec<uuid::Uuid> = model.keys().copied().collect();
                if rid != want || replayed.name() != name || replayed.flags().bits() != flags {
                    fail("replay-vs-served", format!("\"backend\":\"{}\",\"case\":{},\"trace\":{:?},\"replayed_ids\":{},\"live\":{}", backend, case, trace, rid.len(), want.len()));
                }
                let served: Vec<(uuid::Uuid, sos_core::commit::CommitHash)> = { let ap = f.access_point(); let ap = ap.lock().await; ap.vault().iter().map(|(i, c)| (*i, c.0)).collect() };
                for (i, c) in served {
                    if replayed.get(&i).map(|x| x.0) != Some(c) {
                        fail("replay-commit-differs", format!("\"backend\":\"{}\",\"case\":{},\"trace\":{:?}", backend, case, trace));
                    }
                }
            }
        }
    }
}

/// Reproduction of the listed finding dbvault `insert_secret [other_folders_unchanged]`: two folders A and B
/// of one account in ONE database; the same secret id is created in A and then in B.  `folder_secrets.identifier`
/// is UNIQUE over the whole table and `insert_secret_by_row_id` is an upsert that also sets `folder_id`, so the
/// second create moves the row: A no longer has the secret.  Exit 1 (found) while the defect is present.
pub async fn repro_db_shared_secret_id() {
    let dir = tempfile::tempdir().unwrap();
    let client = sos_database::open_memory().await.unwrap();
    let paths = Paths::new_client(dir.path());
    let account = AccountId::random();
    let mut r = Rng(7);
    let mut folders = vec![];
    let arow = AccountRow::new_insert(&account, "w".to_owned()).unwrap();
    let account_row_id = client.conn_mut(move |conn| { Ok(AccountEntity::new(&conn).insert(&arow)?) }).await.unwrap();
    for k in 0..2 {
        let password: secrecy::SecretString = format!("pw-{}", k).into();
        let vault = VaultBuilder::new().build(BuilderCredentials::Password(password.clone(), None)).await.unwrap();
        let folder_id: VaultId = *vault.id();
        let frow = FolderRow::new_insert(&vault).await.unwrap();
        client.conn_mut(move |conn| { FolderEntity::new(&conn).insert_folder(account_row_id, &frow)?; Ok(()) }).await.unwrap();
        let mut f = Folder::new(BackendTarget::Database(paths.clone(), client.clone()), &account, &folder_id).await.unwrap();
        let key: AccessKey = password.into();
        f.unlock(&key).await.unwrap();
        folders.push((f, folder_id, key));
    }
    let id = uuid::Uuid::from_bytes(r.arr());
    let (m, s, la, _) = note(&mut r);
    folders[0].0.create_secret(&SecretRow::new(id, m, s)).await.unwrap();
    let (m, s, _lb, _) = note(&mut r);
    folders[1].0.create_secret(&SecretRow::new(id, m, s)).await.unwrap();
    // re-open A from storage
    let (_, a_id, a_key) = &folders[0];
    let mut a = Folder::new(BackendTarget::Database(paths.clone(), client.clone()), &account, a_id).await.unwrap();
    a.unlock(a_key).await.unwrap();
    let listed = { let ap = a.access_point(); let ap = ap.lock().await; let ks: Vec<uuid::Uuid> = ap.vault().keys().copied().collect(); ks.contains(&id) };
    if !listed {
        println!("{{\"found\":true,\"check\":\"db-shared-secret-id\",\"history\":\"A.create_secret(X,{:?}); B.create_secret(X,..); reopen A\",\"observed\":\"A no longer lists X (the row was moved to B by the upsert)\"}}", la);
        std::process::exit(1);
    }
    println!("{{\"found\":false,\"check\":\"db-shared-secret-id\"}}");
}
