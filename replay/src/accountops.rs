//! Account-level differential witness / bounded stand-in on the real crates (C01 account level, C18):
//! random histories on `sos_account::LocalAccount` over the file-system and the database backend against a
//! model (folder id -> name, secret id -> (label, text)):
//!   * after the history, and again after sign-out / sign-in from persisted storage: the user folders, their
//!     names, the live secret ids of each folder and every secret's label and text equal the model (C01);
//!   * the search index holds exactly one document per live secret with its current label, live and rebuilt after
//!     sign-in (C20); compaction leaves the model unchanged, and after change_account_password the old password no
//!     longer signs in while the new one does and serves the same model (C12);
//!   * export_backup_archive, import into EMPTY storage of the same backend kind, sign in with the same
//!     password: same folders and decrypted secrets (C18 sentence 1; event-log identity is NOT demanded: the
//!     file-system archive rebuilds folder logs from the vaults);
//!   * an archive in which one non-manifest entry is modified (manifest kept), and — when the entry exists —
//!     `preferences.json` replaced with manifest checksums "" / "00" / 32 zero bytes, is rejected and no
//!     account exists afterwards (C18 sentence 2);
//!   * (file-system accounts) a copy upgraded with sos_database_upgrader::upgrade_accounts signs in on the database
//!     backend, serves the model and reports the SAME sync status (root, and commit state of the identity, account,
//!     device, file and every folder log) as before the upgrade (C19);
//!   * an archive with an extra entry `files/<folder id>/../../../../../../<marker>` never produces the
//!     marker file outside the import target directory (C18 sentence 3).
use crate::Rng;
use sos_account::{Account, LocalAccount};
use sos_archive::{ZipReader, ZipWriter};
use sos_backend::BackendTarget;
use sos_client_storage::{AccessOptions, NewFolderOptions};
use sos_core::{crypto::AccessKey, Paths, VaultId};
use sos_vault::secret::{Secret, SecretMeta, SecretType, UserData};
use secrecy::ExposeSecret;
use std::collections::BTreeMap;
use std::io::Cursor;
use std::path::{Path, PathBuf};

const MARKER: &str = "sosv-escaped-entry.txt";

fn fail(kind: &str, detail: String) -> ! {
    println!("{{\"found\":true,\"check\":\"account-{}\",{}}}", kind, detail);
    std::process::exit(1)
}

/// secret value of the model: label, note text (empty for file secrets) and, for file secrets, the contents of the
/// file and of its attachments (empty for notes)
type SecretModel = (String, String, Vec<Vec<u8>>);
type FolderModel = (String, BTreeMap<uuid::Uuid, SecretModel>);
type Model = BTreeMap<VaultId, FolderModel>;

async fn target_for(backend: &str, dir: &Path) -> BackendTarget {
    std::fs::create_dir_all(dir).unwrap();
    let d = dir.to_path_buf();
    Paths::scaffold(&d).await.unwrap();
    let paths = Paths::new_client(&d);
    if backend == "filesystem" {
        BackendTarget::FileSystem(paths)
    } else {
        let mut client = sos_database::open_file(paths.database_file()).await.unwrap();
        sos_database::migrations::migrate_client(&mut client).await.unwrap();
        BackendTarget::Database(paths, client)
    }
}

fn note(r: &mut Rng) -> (SecretMeta, Secret, String, String) {
    let label = format!("label-{}", r.below(100000));
    let text = format!("text-{}", r.below(100000));
    (SecretMeta::new(label.clone(), SecretType::Note), Secret::Note { text: text.clone().into(), user_data: UserData::default() }, label, text)
}

/// a file secret whose content (and, half of the time, one attachment) comes from fresh files under `dir`
fn file_secret(r: &mut Rng, dir: &Path) -> (SecretMeta, Secret, String, Vec<Vec<u8>>) {
    use sos_vault::secret::SecretRow;
    std::fs::create_dir_all(dir).unwrap();
    let mut contents = vec![];
    let mut mk = |r: &mut Rng| -> PathBuf {
        let n = 1 + r.below(3000) as usize;
        let bytes: Vec<u8> = (0..n).map(|_| r.next() as u8).collect();
        let p = dir.join(format!("file-{}.txt", r.below(100000000)));
        std::fs::write(&p, &bytes).unwrap();
        contents.push(bytes);
        p
    };
    let label = format!("file-label-{}", r.below(100000));
    let mut secret: Secret = mk(r).try_into().unwrap();
    if r.below(2) == 0 {
        // a plain (non-file) custom field first, then the attachment: field positions and attachment positions differ
        let plain = Secret::Note { text: "a custom field".to_string().into(), user_data: UserData::default() };
        secret.user_data_mut().push(SecretRow::new(uuid::Uuid::from_bytes(r.arr()), SecretMeta::new("plain field".to_string(), SecretType::Note), plain));
        let att: Secret = mk(r).try_into().unwrap();
        secret.user_data_mut().push(SecretRow::new(uuid::Uuid::from_bytes(r.arr()), SecretMeta::new(format!("attachment-{}", r.below(100000)), SecretType::File), att));
    }
    (SecretMeta::new(label.clone(), SecretType::File), secret, label, contents)
}

fn external_checksums(secret: &Secret) -> Vec<[u8; 32]> {
    use sos_vault::secret::FileContent;
    let mut out = vec![];
    if let Secret::File { content: FileContent::External { checksum, .. }, .. } = secret { out.push(*checksum); }
    for f in secret.user_data().fields() {
        if let Secret::File { content: FileContent::External { checksum, .. }, .. } = f.secret() { out.push(*checksum); }
    }
    out
}

async fn compare(view: &str, backend: &str, account: &LocalAccount, model: &Model, trace: &Vec<String>, case: usize) {
    let folders = account.list_folders().await.unwrap();
    for (fid, (name, secrets)) in model.iter() {
        let s = match folders.iter().find(|s| s.id() == fid) {
            Some(s) => s,
            None => fail("folder-missing", format!("\"backend\":\"{}\",\"view\":\"{}\",\"case\":{},\"trace\":{:?},\"folder\":\"{}\"", backend, view, case, trace, name)),
        };
        if s.name() != name {
            fail("folder-name", format!("\"backend\":\"{}\",\"view\":\"{}\",\"case\":{},\"trace\":{:?},\"want\":{:?},\"got\":{:?}", backend, view, case, trace, name, s.name()));
        }
        let mut ids: Vec<uuid::Uuid> = account.list_secret_ids(fid).await.unwrap();
        ids.sort();
        let want: Vec<uuid::Uuid> = secrets.keys().copied().collect();
        if ids != want {
            fail("listing", format!("\"backend\":\"{}\",\"view\":\"{}\",\"case\":{},\"trace\":{:?},\"folder\":{:?},\"listed\":{},\"live\":{}", backend, view, case, trace, name, ids.len(), want.len()));
        }
        for (id, (label, text, files)) in secrets.iter() {
            match account.read_secret(id, Some(fid)).await {
                Ok((row, _)) => {
                    if !files.is_empty() && !(view == "live" || view.starts_with("restored") || view.starts_with("upgraded")) {
                        if row.meta().label() != label { fail("read-your-writes", format!("\"backend\":\"{}\",\"view\":\"{}\",\"case\":{},\"trace\":{:?},\"want\":{:?},\"got\":{:?}", backend, view, case, trace, label, row.meta().label())); }
                        continue;
                    }
                    if !files.is_empty() {
                        // C17 / C18 / C19: every external file of the secret (content and attachments) downloads to the bytes written
                        let mut got: Vec<Vec<u8>> = vec![];
                        for cs in external_checksums(row.secret()) {
                            match account.download_file(fid, id, &sos_core::ExternalFileName::from(cs)).await {
                                Ok(b) => got.push(b),
                                Err(e) => fail("attachment-missing", format!("\"backend\":\"{}\",\"view\":\"{}\",\"case\":{},\"trace\":{:?},\"secret\":{:?},\"error\":\"{}\"", backend, view, case, trace, label, e.to_string().replace('"', "'"))),
                            }
                        }
                        let mut want = files.clone(); want.sort(); got.sort();
                        if got != want || row.meta().label() != label {
                            fail("attachments-differ", format!("\"backend\":\"{}\",\"view\":\"{}\",\"case\":{},\"trace\":{:?},\"secret\":{:?},\"files_written\":{},\"files_served\":{}", backend, view, case, trace, label, want.len(), got.len()));
                        }
                        continue;
                    }
                    let got_text = match row.secret() { Secret::Note { text, .. } => text.expose_secret().to_string(), _ => "<not a note>".into() };
                    if row.meta().label() != label || &got_text != text {
                        fail("read-your-writes", format!("\"backend\":\"{}\",\"view\":\"{}\",\"case\":{},\"trace\":{:?},\"want\":[{:?},{:?}],\"got\":[{:?},{:?}]", backend, view, case, trace, label, text, row.meta().label(), got_text));
                    }
                }
                Err(e) => fail("secret-missing", format!("\"backend\":\"{}\",\"view\":\"{}\",\"case\":{},\"trace\":{:?},\"error\":\"{}\"", backend, view, case, trace, e.to_string().replace('"', "'"))),
            }
        }
    }
    // no user folder beyond the model (system folders are not user folders of the model unless listed there)
    for s in folders.iter() {
        if !model.contains_key(s.id()) && !s.flags().is_default() && !s.flags().is_archive() && !s.flags().is_contact() && !s.flags().is_authenticator() && !s.flags().is_system() {
            fail("deleted-folder-still-listed", format!("\"backend\":\"{}\",\"view\":\"{}\",\"case\":{},\"trace\":{:?},\"folder\":{:?}", backend, view, case, trace, s.name()));
        }
    }
}

/// C20 at account level: the search index holds exactly one document per live secret of the model's folders,
/// carrying its current label, and no document for anything else
async fn compare_index(view: &str, backend: &str, account: &LocalAccount, model: &Model, trace: &Vec<String>, case: usize) {
    let index = account.search_index().await.unwrap();
    let index = index.read().await;
    let mut got: Vec<(VaultId, uuid::Uuid, String)> = index.documents().values().map(|d| (*d.folder_id(), *d.id(), d.meta().label().to_string())).collect();
    got.sort();
    let mut want: Vec<(VaultId, uuid::Uuid, String)> = vec![];
    for (fid, (_, secrets)) in model.iter() { for (id, (label, _, _)) in secrets.iter() { want.push((*fid, *id, label.clone())); } }
    want.sort();
    if got != want {
        let stale: Vec<&(VaultId, uuid::Uuid, String)> = got.iter().filter(|g| !want.contains(g)).collect();
        let missing: Vec<&(VaultId, uuid::Uuid, String)> = want.iter().filter(|g| !got.contains(g)).collect();
        fail("search-index-differs-from-folders", format!("\"backend\":\"{}\",\"view\":\"{}\",\"case\":{},\"trace\":{:?},\"documents\":{},\"live_secrets\":{},\"stale_or_wrong\":{:?},\"missing\":{:?}", backend, view, case, trace, got.len(), want.len(), stale.iter().map(|x| &x.2).collect::<Vec<_>>(), missing.iter().map(|x| &x.2).collect::<Vec<_>>()));
    }
}

/// C20 counters: documents per folder and per kind (archived documents are not counted per kind) equal a recount
async fn compare_counts(view: &str, backend: &str, account: &LocalAccount, model: &Model, archive_id: &VaultId, trace: &Vec<String>, case: usize) {
    let count = account.document_count().await.unwrap();
    for (fid, (name, secrets)) in model.iter() {
        let got = count.vaults().get(fid).copied().unwrap_or(0);
        if got != secrets.len() {
            fail("search-folder-counter-differs-from-recount", format!("\"backend\":\"{}\",\"view\":\"{}\",\"case\":{},\"trace\":{:?},\"folder\":{:?},\"counter\":{},\"recount\":{}", backend, view, case, trace, name, got, secrets.len()));
        }
    }
    for (kind, is_file) in [(SecretType::Note, false), (SecretType::File, true)] {
        let want: usize = model.iter().filter(|(fid, _)| *fid != archive_id).map(|(_, (_, s))| s.values().filter(|v| v.2.is_empty() != is_file).count()).sum();
        let code: u8 = kind.into();
        let got = count.kinds().get(&code).copied().unwrap_or(0);
        if got != want {
            fail("search-kind-counter-differs-from-recount", format!("\"backend\":\"{}\",\"view\":\"{}\",\"case\":{},\"trace\":{:?},\"kind\":{},\"counter\":{},\"recount_excluding_archive\":{}", backend, view, case, trace, code, got, want));
        }
    }
}

/// C17 at account level: the files named by replaying the file event log (`canonical_files`) are exactly the external
/// files of the live file secrets of the model — none missing, none left behind for a deleted secret or folder
async fn compare_file_log(view: &str, backend: &str, account: &LocalAccount, model: &Model, trace: &Vec<String>, case: usize) {
    use sos_sync::StorageEventLogs;
    let canonical = account.canonical_files().await.unwrap();
    let mut got: Vec<(VaultId, uuid::Uuid, String)> = canonical.iter().map(|f| (*f.vault_id(), *f.secret_id(), f.file_name().to_string())).collect();
    got.sort();
    let mut want: Vec<(VaultId, uuid::Uuid, String)> = vec![];
    for (fid, (_, secrets)) in model.iter() {
        for (id, (_, _, files)) in secrets.iter() {
            if files.is_empty() { continue; }
            let (row, _) = account.read_secret(id, Some(fid)).await.unwrap();
            for cs in external_checksums(row.secret()) { want.push((*fid, *id, sos_core::ExternalFileName::from(cs).to_string())); }
        }
    }
    want.sort();
    if got != want {
        fail("file-log-replay-differs-from-live-file-secrets", format!("\"backend\":\"{}\",\"view\":\"{}\",\"case\":{},\"trace\":{:?},\"files_named_by_log\":{},\"files_of_live_secrets\":{}", backend, view, case, trace, got.len(), want.len()));
    }
}

/// C16 at account level: the integrity report of the account (all listed folders, `concurrency` scans in parallel)
/// — returns the failures it contains
async fn integrity_failures(target: &BackendTarget, account_id: &sos_core::AccountId, account: &LocalAccount, concurrency: usize) -> Vec<String> {
    use sos_integrity::{account_integrity, FolderIntegrityEvent};
    let folders = account.list_folders().await.unwrap();
    let (mut rx, _cancel) = account_integrity(target, account_id, folders, concurrency.max(1)).await.unwrap();
    let mut failures = vec![];
    loop {
        match tokio::time::timeout(std::time::Duration::from_secs(20), rx.recv()).await {
            Ok(Some(FolderIntegrityEvent::Failure(id, reason))) => failures.push(format!("{}: {:?}", id, reason).replace('"', "'")),
            Ok(Some(FolderIntegrityEvent::Complete)) | Ok(None) => break,
            Ok(Some(_)) => {}
            Err(_) => { failures.push("REPORT-DID-NOT-COMPLETE within 20 s".to_string()); break; }
        }
    }
    failures
}

async fn read_entries(path: &Path) -> Vec<(String, Vec<u8>)> {
    let buffer = std::fs::read(path).unwrap();
    let mut reader = ZipReader::new(Cursor::new(buffer)).await.unwrap();
    let mut names = Vec::new();
    for entry in reader.inner().file().entries() { names.push(entry.filename().as_str().unwrap().to_string()); }
    let mut out = Vec::new();
    for name in names { let data = reader.by_name(&name).await.unwrap().unwrap(); out.push((name, data)); }
    out
}

async fn write_entries(path: &Path, entries: &[(String, Vec<u8>)]) {
    let mut archive = Vec::new();
    let mut writer = ZipWriter::new(Cursor::new(&mut archive));
    for (name, data) in entries { writer.add_file(name, data).await.unwrap(); }
    writer.finish().await.unwrap();
    std::fs::write(path, archive).unwrap();
}

fn copy_dir(from: &Path, to: &Path) {
    std::fs::create_dir_all(to).unwrap();
    for e in std::fs::read_dir(from).unwrap().flatten() {
        let p = e.path();
        let q = to.join(e.file_name());
        if p.is_dir() { copy_dir(&p, &q); } else { std::fs::copy(&p, &q).unwrap(); }
    }
}

fn find_marker(dir: &Path, out: &mut Vec<PathBuf>) {
    if let Ok(rd) = std::fs::read_dir(dir) {
        for e in rd.flatten() {
            let p = e.path();
            if p.is_dir() { find_marker(&p, out); } else if e.file_name() == MARKER { out.push(p); }
        }
    }
}

pub async fn run(cases: usize, seed: u64) {
    let mut r = Rng(seed | 1);
    // release builds require configured audit providers: one file-system audit trail for the whole run; it is a
    // storage sink too, so at the end it is searched for every label / text written (C03: audit file)
    let audit_dir = tempfile::tempdir().unwrap();
    let audit_file = audit_dir.path().join("audit.dat");
    sos_backend::audit::init_providers(vec![sos_backend::audit::new_fs_provider(&audit_file)]);
    let mut plaintexts: Vec<String> = vec![];
    for case in 0..cases {
        for backend in ["filesystem", "database"] {
            let sandbox = tempfile::tempdir().unwrap();
            let sandbox_dir = sandbox.path().canonicalize().unwrap();
            let target = target_for(backend, &sandbox_dir.join("source")).await;
            let password: secrecy::SecretString = format!("correct horse battery staple {} {}", case, r.below(1000000)).into();
            let mut account = LocalAccount::new_account_with_builder(format!("acct-{}", case), password.clone(), target.clone(), |b| b.create_archive(true).create_file_password(true)).await.unwrap();
            let account_id = *account.account_id();
            let key: AccessKey = password.clone().into();
            account.sign_in(&key).await.unwrap();
            account.initialize_search_index().await.unwrap();
            let default_folder = account.default_folder().await.unwrap();
            let mut model: Model = BTreeMap::new();
            model.insert(*default_folder.id(), (default_folder.name().to_string(), BTreeMap::new()));
            let archive_folder = account.archive_folder().await.unwrap();
            model.insert(*archive_folder.id(), (archive_folder.name().to_string(), BTreeMap::new()));
            let archive_id = *archive_folder.id();
            let mut trace: Vec<String> = vec![];
            if case % 2 == 1 {
                // a folder created and deleted before another one is populated (row ids / positions diverge)
                let a = account.create_folder(NewFolderOptions::new("scratch".to_string())).await.unwrap().folder;
                let name = format!("folder-{}", r.below(100000));
                let b = account.create_folder(NewFolderOptions::new(name.clone())).await.unwrap().folder;
                account.delete_folder(a.id()).await.unwrap();
                let (m, s, l, t) = note(&mut r);
                let id = account.create_secret(m, s, AccessOptions { folder: Some(*b.id()), ..Default::default() }).await.unwrap().id;
                plaintexts.push(l.clone()); plaintexts.push(t.clone());
                let mut secrets = BTreeMap::new(); secrets.insert(id, (l, t, vec![]));
                model.insert(*b.id(), (name, secrets));
                trace.push("create_folder(scratch); create_folder; delete_folder(scratch); create_secret".into());
            }
            if case % 4 == 2 {
                // every fourth history holds one file secret (half of them with an attachment) in the default folder;
                // file encryption uses a deliberately slow passphrase KDF, so there is at most one per history
                // (in a folder of its own, so that the random folder operations may rename or DELETE the folder that holds it)
                let fname = format!("files-{}", r.below(100000));
                let ff = account.create_folder(NewFolderOptions::new(fname.clone())).await.unwrap().folder;
                let fid = *ff.id();
                model.insert(fid, (fname, BTreeMap::new()));
                let (m, s, l, files) = file_secret(&mut r, &sandbox_dir.join("inputs"));
                let nfiles = files.len();
                let id = match account.create_secret(m, s, AccessOptions { folder: Some(fid), ..Default::default() }).await {
                    Ok(c) => c.id,
                    Err(e) => fail("file-secret-not-created", format!("\"backend\":\"{}\",\"case\":{},\"files\":{},\"note\":\"a file secret whose user data holds a plain field followed by a file attachment\",\"error\":\"{}\"", backend, case, nfiles, e.to_string().replace('"', "'"))),
                };
                let mut files = files;
                trace.push(format!("create_file_secret({} file(s))", nfiles));
                if nfiles == 2 {
                    // add a second attachment through update_secret (the stored secret carries the first one's checksum)
                    use sos_vault::secret::SecretRow;
                    let (row, _) = account.read_secret(&id, Some(&fid)).await.unwrap();
                    let mut updated = row.secret().clone();
                    let bytes: Vec<u8> = (0..(1 + r.below(2000) as usize)).map(|_| r.next() as u8).collect();
                    let p = sandbox_dir.join("inputs").join(format!("added-{}.txt", r.below(100000000)));
                    std::fs::write(&p, &bytes).unwrap();
                    let att: Secret = p.try_into().unwrap();
                    updated.user_data_mut().push(SecretRow::new(uuid::Uuid::from_bytes(r.arr()), SecretMeta::new("second attachment".to_string(), SecretType::File), att));
                    account.update_secret(&id, row.meta().clone(), Some(updated), AccessOptions { folder: Some(fid), ..Default::default() }).await.unwrap();
                    files.push(bytes);
                    trace.push("update_secret(+1 attachment)".into());
                }
                model.get_mut(&fid).unwrap().1.insert(id, (l, String::new(), files));
            }
            let mut snapshot: Option<(VaultId, Vec<u8>, AccessKey, FolderModel)> = None;
            if case % 5 == 3 {
                // forced overwrite with a vault that LACKS a stored secret: folder with two notes, snapshot, a third
                // note, snapshot imported over the folder -> the folder holds the two notes again
                let name = format!("folder-{}", r.below(100000));
                let f = account.create_folder(NewFolderOptions::new(name.clone())).await.unwrap().folder;
                let fid = *f.id();
                let mut secrets = BTreeMap::new();
                for _ in 0..2 {
                    let (m, s, l, t) = note(&mut r);
                    let id = account.create_secret(m, s, AccessOptions { folder: Some(fid), ..Default::default() }).await.unwrap().id;
                    plaintexts.push(l.clone()); plaintexts.push(t.clone());
                    secrets.insert(id, (l, t, vec![]));
                }
                let skey: AccessKey = secrecy::SecretString::from(format!("snapshot key {} {}", case, r.below(1000000))).into();
                let buf = account.export_folder_buffer(&fid, skey.clone(), false).await.unwrap();
                let (m, s, _, _) = note(&mut r);
                account.create_secret(m, s, AccessOptions { folder: Some(fid), ..Default::default() }).await.unwrap();
                account.import_folder_buffer(&buf, skey, true).await.unwrap();
                model.insert(fid, (name, secrets));
                trace.push("create_folder; 2x create_secret; export_folder_buffer; create_secret; import_folder_buffer(overwrite)".into());
            }
            let n = 3 + r.below(8) as usize;
            for _ in 0..n {
                let fids: Vec<VaultId> = model.keys().copied().collect();
                let fid = fids[r.below(fids.len() as u64) as usize];
                match r.below(14) {
                    12 => {
                        // take a snapshot of a folder (export to a buffer under a fresh key)
                        if snapshot.is_none() && case % 4 != 2 && fid != archive_id {
                            let skey: AccessKey = secrecy::SecretString::from(format!("snapshot key {} {}", case, r.below(1000000))).into();
                            let buf = account.export_folder_buffer(&fid, skey.clone(), false).await.unwrap();
                            snapshot = Some((fid, buf, skey, model[&fid].clone()));
                            trace.push("export_folder_buffer".into());
                        }
                    }
                    13 => {
                        // forced overwrite: import the snapshot over the folder it was taken from
                        if let Some((sfid, buf, skey, smodel)) = snapshot.clone() {
                            if model.contains_key(&sfid) {
                                account.import_folder_buffer(&buf, skey, true).await.unwrap();
                                model.insert(sfid, smodel);
                                snapshot = None;
                                trace.push("import_folder_buffer(overwrite)".into());
                            }
                        }
                    }
                    10 => {
                        // archive a note of a non-archive folder
                        let ids: Vec<uuid::Uuid> = model[&fid].1.iter().filter(|(_, v)| v.2.is_empty()).map(|(k, _)| *k).collect();
                        if fid != archive_id && !ids.is_empty() {
                            let id = ids[r.below(ids.len() as u64) as usize];
                            let mv = account.archive(&fid, &id, Default::default()).await.unwrap();
                            let v = model.get_mut(&fid).unwrap().1.remove(&id).unwrap();
                            model.get_mut(&archive_id).unwrap().1.insert(mv.id, v);
                            trace.push("archive".into());
                        }
                    }
                    11 => {
                        let ids: Vec<uuid::Uuid> = model[&archive_id].1.iter().filter(|(_, v)| v.2.is_empty()).map(|(k, _)| *k).collect();
                        if !ids.is_empty() {
                            let id = ids[r.below(ids.len() as u64) as usize];
                            let (mv, to) = account.unarchive(&id, &SecretType::Note, Default::default()).await.unwrap();
                            let v = model.get_mut(&archive_id).unwrap().1.remove(&id).unwrap();
                            if !model.contains_key(to.id()) { fail("unarchive-to-unknown-folder", format!("\"backend\":\"{}\",\"case\":{},\"trace\":{:?}", backend, case, trace)); }
                            model.get_mut(to.id()).unwrap().1.insert(mv.id, v);
                            trace.push("unarchive".into());
                        }
                    }
                    9 => {
                        account.compact_folder(&fid).await.unwrap();
                        trace.push("compact_folder".into());
                    }
                    0 | 1 | 2 => {
                        let (m, s, l, t) = note(&mut r);
                        let id = account.create_secret(m, s, AccessOptions { folder: Some(fid), ..Default::default() }).await.unwrap().id;
                        plaintexts.push(l.clone()); plaintexts.push(t.clone());
                        model.get_mut(&fid).unwrap().1.insert(id, (l, t, vec![]));
                        trace.push("create_secret".into());
                    }
                    3 => {
                        let ids: Vec<uuid::Uuid> = model[&fid].1.keys().copied().collect();
                        let ids: Vec<uuid::Uuid> = ids.into_iter().filter(|i| model[&fid].1[i].2.is_empty()).collect();
                        if !ids.is_empty() {
                            let id = ids[r.below(ids.len() as u64) as usize];
                            let (m, s, l, t) = note(&mut r);
                            account.update_secret(&id, m, Some(s), AccessOptions { folder: Some(fid), ..Default::default() }).await.unwrap();
                            model.get_mut(&fid).unwrap().1.insert(id, (l, t, vec![]));
                            trace.push("update_secret".into());
                        }
                    }
                    4 => {
                        let ids: Vec<uuid::Uuid> = model[&fid].1.keys().copied().collect();
                        if !ids.is_empty() {
                            let id = ids[r.below(ids.len() as u64) as usize];
                            account.delete_secret(&id, AccessOptions { folder: Some(fid), ..Default::default() }).await.unwrap();
                            model.get_mut(&fid).unwrap().1.remove(&id);
                            trace.push("delete_secret".into());
                        }
                    }
                    5 => {
                        let ids: Vec<uuid::Uuid> = model[&fid].1.keys().copied().collect();
                        let to = fids[r.below(fids.len() as u64) as usize];
                        if !ids.is_empty() && to != fid {
                            let id = ids[r.below(ids.len() as u64) as usize];
                            let mv = account.move_secret(&id, &fid, &to, Default::default()).await.unwrap();
                            let v = model.get_mut(&fid).unwrap().1.remove(&id).unwrap();
                            model.get_mut(&to).unwrap().1.insert(mv.id, v);
                            trace.push("move_secret".into());
                        }
                    }
                    6 => {
                        // one in three new folders takes the NAME of an existing folder (names need not be unique)
                        let existing: Vec<String> = model.values().map(|v| v.0.clone()).collect();
                        let name = if r.below(3) == 0 { existing[r.below(existing.len() as u64) as usize].clone() } else { format!("folder-{}", r.below(100000)) };
                        let f = account.create_folder(NewFolderOptions::new(name.clone())).await.unwrap().folder;
                        model.insert(*f.id(), (name, BTreeMap::new()));
                        trace.push("create_folder".into());
                    }
                    7 => {
                        if fid != *default_folder.id() && fid != archive_id {
                            let name = format!("renamed-{}", r.below(100000));
                            account.rename_folder(&fid, name.clone()).await.unwrap();
                            model.get_mut(&fid).unwrap().0 = name;
                            trace.push("rename_folder".into());
                        }
                    }
                    _ => {
                        if fid != *default_folder.id() && fid != archive_id {
                            account.delete_folder(&fid).await.unwrap();
                            model.remove(&fid);
                            trace.push("delete_folder".into());
                        }
                    }
                }
            }
            compare("live", backend, &account, &model, &trace, case).await;
            compare_index("live", backend, &account, &model, &trace, case).await;
            compare_counts("live", backend, &account, &model, &archive_id, &trace, case).await;
            compare_file_log("live", backend, &account, &model, &trace, case).await;
            if std::env::var("SOS_ACCT_SELFTEST").is_ok() {
                // oracle self-test: with one label of the model changed the index comparison MUST report a difference
                let mut wrong = model.clone();
                let mut done = false;
                for (_, (_, secrets)) in wrong.iter_mut() { for (_, v) in secrets.iter_mut() { if !done { v.0.push_str("-x"); done = true; } } }
                if done { compare_index("selftest (planted difference)", backend, &account, &wrong, &trace, case).await; }
            }
            // C12: folder password change followed by key-dependent operations IN THE SAME SESSION, and "no blob
            // encrypted under the old key remains in the folder's storage" (the old ciphertext of a secret is
            // searched in every file of the storage directory; file system only — SQLite keeps freed pages)
            if case % 6 == 1 {
                let cands: Vec<VaultId> = model.iter().filter(|(f, v)| **f != archive_id && !v.1.is_empty() && v.1.values().all(|x| x.2.is_empty())).map(|(f, _)| *f).collect();
                if !cands.is_empty() {
                    let fid = cands[r.below(cands.len() as u64) as usize];
                    let sid = *model[&fid].1.keys().next().unwrap();
                    let old_cipher_text: Vec<u8> = match account.raw_secret(&fid, &sid).await.unwrap() {
                        Some((commit, _)) => sos_core::encode(&commit.1).await.unwrap(),
                        None => vec![],
                    };
                    account.compact_folder(&fid).await.unwrap();
                    let new_key: AccessKey = secrecy::SecretString::from(format!("new folder key {} {}", case, r.below(1000000))).into();
                    account.change_folder_password(&fid, new_key).await.unwrap();
                    trace.push("compact_folder; change_folder_password".into());
                    if let Err(e) = account.compact_folder(&fid).await {
                        fail("folder-unusable-after-password-change", format!("\"backend\":\"{}\",\"case\":{},\"trace\":{:?},\"operation\":\"compact_folder in the same session\",\"error\":\"{}\"", backend, case, trace, e.to_string().replace('"', "'")));
                    }
                    let (m, s, l, t) = note(&mut r);
                    match account.create_secret(m, s, AccessOptions { folder: Some(fid), ..Default::default() }).await {
                        Ok(c) => { model.get_mut(&fid).unwrap().1.insert(c.id, (l, t, vec![])); }
                        Err(e) => fail("folder-unusable-after-password-change", format!("\"backend\":\"{}\",\"case\":{},\"trace\":{:?},\"operation\":\"create_secret in the same session\",\"error\":\"{}\"", backend, case, trace, e.to_string().replace('"', "'"))),
                    }
                    compare("after folder password change", backend, &account, &model, &trace, case).await;
                    if backend == "filesystem" && old_cipher_text.len() >= 24 {
                        let mut stack = vec![sandbox_dir.join("source")];
                        while let Some(d) = stack.pop() {
                            for e in std::fs::read_dir(&d).unwrap().flatten() {
                                let p = e.path();
                                if p.is_dir() { stack.push(p); continue; }
                                // "the folder's storage": the files that carry the folder id in their name (vault file,
                                // folder event log, and anything else kept beside them such as snapshots); the ACCOUNT
                                // event log legitimately keeps earlier CreateFolder / CompactFolder buffers
                                if !p.file_name().unwrap().to_string_lossy().contains(&fid.to_string()) { continue; }
                                let bytes = std::fs::read(&p).unwrap_or_default();
                                if bytes.windows(old_cipher_text.len()).any(|w| w == &old_cipher_text[..]) {
                                    fail("blob-under-old-key-remains-in-storage", format!("\"backend\":\"{}\",\"case\":{},\"trace\":{:?},\"file\":{:?}", backend, case, trace, p.file_name().unwrap()));
                                }
                            }
                        }
                    }
                }
            }
            // C12: cipher change of the whole account (cipher only, the KDF stays): every folder reports the new
            // cipher afterwards and serves the model
            if case % 6 == 4 {
                use sos_core::crypto::Cipher;
                let before = account.list_folders().await.unwrap();
                let target_cipher = if before.iter().all(|s| *s.cipher() == Cipher::AesGcm256) { Cipher::XChaCha20Poly1305 } else { Cipher::AesGcm256 };
                let kdf = *before[0].kdf();
                account.change_cipher(&key, &target_cipher, Some(kdf)).await.unwrap();
                trace.push("change_cipher(cipher only)".into());
                for s in account.list_folders().await.unwrap() {
                    if *s.cipher() != target_cipher {
                        fail("folder-not-converted-by-change-cipher", format!("\"backend\":\"{}\",\"case\":{},\"trace\":{:?},\"folder\":{:?},\"cipher\":\"{}\",\"target\":\"{}\"", backend, case, trace, s.name(), s.cipher(), target_cipher));
                    }
                }
                compare("after cipher change", backend, &account, &model, &trace, case).await;
            }
            // C12: every third history ends with an account password change
            let mut key = key;
            if case % 3 == 0 {
                let new_password: secrecy::SecretString = format!("another long pass phrase {} {}", case, r.below(1000000)).into();
                account.change_account_password(new_password.clone()).await.unwrap();
                trace.push("change_account_password".into());
                compare("after password change", backend, &account, &model, &trace, case).await;
                account.sign_out().await.unwrap();
                if account.sign_in(&key).await.is_ok() {
                    fail("old-password-still-signs-in", format!("\"backend\":\"{}\",\"case\":{},\"trace\":{:?}", backend, case, trace));
                }
                key = new_password.into();
                if let Err(e) = account.sign_in(&key).await {
                    fail("new-password-does-not-sign-in", format!("\"backend\":\"{}\",\"case\":{},\"trace\":{:?},\"error\":\"{}\"", backend, case, trace, e.to_string().replace('"', "'")));
                }
            } else {
                account.sign_out().await.unwrap();
                account.sign_in(&key).await.unwrap();
            }
            compare("after sign-out/sign-in", backend, &account, &model, &trace, case).await;
            account.initialize_search_index().await.unwrap();
            compare_index("rebuilt after sign-in", backend, &account, &model, &trace, case).await;
            compare_counts("rebuilt after sign-in", backend, &account, &model, &archive_id, &trace, case).await;
            // C16: nothing was tampered with: the integrity report of the account must be clean for this history
            // (scans of all folders in parallel)
            let nfolders = account.list_folders().await.unwrap().len();
            let acct_target = account.backend_target().await;
            let fails = integrity_failures(&acct_target, &account_id, &account, nfolders).await;
            if !fails.is_empty() {
                fail("integrity-report-flags-untampered-account", format!("\"backend\":\"{}\",\"case\":{},\"trace\":{:?},\"failures\":{:?}", backend, case, trace, fails));
            }

            let status_before = { use sos_sync::SyncStorage; account.sync_status().await.unwrap() };
            // ---- C18: export, import into empty storage ---------------------------------------------
            let archive = sandbox_dir.join("backup.zip");
            account.export_backup_archive(&archive).await.unwrap();
            account.sign_out().await.unwrap();

            // ---- C19: upgrade a COPY of the file-system account to the database backend --------------
            if backend == "filesystem" {
                let up_dir = sandbox_dir.join("upgrade");
                copy_dir(&sandbox_dir.join("source"), &up_dir);
                let up_paths = Paths::new_client(&up_dir);
                // the account's server list (remote origins file): two servers, one of which the upgrade is asked to remap
                let origins_file = up_paths.with_account_id(&account_id).remote_origins();
                std::fs::write(&origins_file, br#"[{"name":"alpha","url":"https://alpha.example.com/"},{"name":"beta","url":"https://beta.example.com/"}]"#).unwrap();
                let mut remap = std::collections::HashMap::new();
                remap.insert(url::Url::parse("https://alpha.example.com/").unwrap(), url::Url::parse("https://alpha2.example.com/").unwrap());
                let options = sos_database_upgrader::UpgradeOptions { paths: up_paths.clone(), dry_run: false, keep_stale_files: true, remap_servers: remap, ..Default::default() };
                match sos_database_upgrader::upgrade_accounts(up_dir.clone(), options).await {
                    Err(e) => fail("upgrade-fails", format!("\"case\":{},\"trace\":{:?},\"error\":\"{}\"", case, trace, e.to_string().replace('"', "'"))),
                    Ok(res) => {
                        let client = sos_database::open_file(&res.database_file).await.unwrap();
                        // C19 "server list": every server is kept, the remapped one with its new url
                        let mut urls: Vec<String> = client.conn(|conn| {
                            let mut stmt = conn.prepare("SELECT url FROM servers")?;
                            let rows = stmt.query_map([], |row| row.get::<_, String>(0))?;
                            let mut out = vec![];
                            for r in rows { out.push(r?); }
                            Ok(out)
                        }).await.unwrap();
                        urls.sort();
                        let want = vec!["https://alpha2.example.com/".to_string(), "https://beta.example.com/".to_string()];
                        if urls != want {
                            fail("upgrade-changes-server-list", format!("\"case\":{},\"servers_after\":{:?},\"expected\":{:?},\"remap\":\"alpha -> alpha2\"", case, urls, want));
                        }
                        let db_target = BackendTarget::Database(up_paths.clone(), client);
                        let mut up = LocalAccount::new_unauthenticated(account_id, db_target).await.unwrap();
                        if let Err(e) = up.sign_in(&key).await {
                            fail("upgraded-account-does-not-sign-in", format!("\"case\":{},\"trace\":{:?},\"error\":\"{}\"", case, trace, e.to_string().replace('"', "'")));
                        }
                        compare("upgraded to the database backend", "filesystem->database", &up, &model, &trace, case).await;
                        let status_after = { use sos_sync::SyncStorage; up.sync_status().await.unwrap() };
                        if status_after != status_before {
                            fail("upgrade-changes-sync-status", format!("\"case\":{},\"trace\":{:?},\"root_before\":\"{}\",\"root_after\":\"{}\",\"identity_same\":{},\"account_same\":{},\"device_same\":{},\"files_same\":{},\"folders_same\":{}",
                                case, trace, status_before.root, status_after.root, status_before.identity == status_after.identity, status_before.account == status_after.account,
                                status_before.device == status_after.device, status_before.files == status_after.files, status_before.folders == status_after.folders));
                        }
                        up.sign_out().await.unwrap();
                    }
                }
            }
            let restore_target = target_for(backend, &sandbox_dir.join("restore")).await;
            match LocalAccount::import_backup_archive(&archive, &restore_target).await {
                Ok(list) => if list.len() != 1 || list[0].account_id() != &account_id {
                    fail("import-wrong-accounts", format!("\"backend\":\"{}\",\"case\":{},\"trace\":{:?},\"imported\":{}", backend, case, trace, list.len()));
                },
                Err(e) => fail("import-of-own-export-fails", format!("\"backend\":\"{}\",\"case\":{},\"trace\":{:?},\"error\":\"{}\"", backend, case, trace, e.to_string().replace('"', "'"))),
            }
            let mut restored = LocalAccount::new_unauthenticated(account_id, restore_target.clone()).await.unwrap();
            if let Err(e) = restored.sign_in(&key).await {
                fail("restored-account-does-not-sign-in", format!("\"backend\":\"{}\",\"case\":{},\"trace\":{:?},\"error\":\"{}\"", backend, case, trace, e.to_string().replace('"', "'")));
            }
            compare("restored from backup archive", backend, &restored, &model, &trace, case).await;
            restored.sign_out().await.unwrap();

            // ---- C18: tampered archives are rejected, no account created ------------------------------
            let entries = read_entries(&archive).await;
            let mut variants: Vec<(String, Vec<(String, Vec<u8>)>)> = vec![];
            // (a) one byte flipped in a non-manifest entry WHOSE CHECKSUM THE MANIFEST LISTS (the property speaks of
            //     "an archive whose manifest checksums do not match its entries"; attachment blobs carry no manifest
            //     checksum in either archive format and are not tampered with here)
            let manifest_text: String = entries.iter().filter(|(n, _)| n.contains("manifest")).map(|(_, d)| String::from_utf8_lossy(d).to_string()).collect();
            let cands: Vec<usize> = entries.iter().enumerate().filter(|(_, (n, d))| {
                use sha2::{Digest, Sha256};
                !n.contains("manifest") && !d.is_empty() && manifest_text.contains(&hex::encode(Sha256::digest(d)))
            }).map(|(i, _)| i).collect();
            if !cands.is_empty() {
                let k = cands[r.below(cands.len() as u64) as usize];
                let mut e2 = entries.clone();
                let pos = r.below(e2[k].1.len() as u64) as usize;
                e2[k].1[pos] ^= 0x01;
                variants.push((format!("byte {} of entry {} flipped", pos, e2[k].0), e2));
            }
            // (b) for every manifest field that is a plain checksum string of an entry (account / files / preferences /
            //     remotes events or settings): the entry the checksum names (found by its SHA-256) gets one byte
            //     changed and the manifest checksum becomes "" / one byte / 32 zero bytes
            if let Some((_, mbytes)) = entries.iter().find(|(n, _)| n == "sos-manifest.json") {
                use sha2::{Digest, Sha256};
                if let Ok(m) = serde_json::from_slice::<serde_json::Value>(mbytes) {
                    for field in ["account", "files", "preferences", "remotes"] {
                        if let Some(cs) = m.get(field).and_then(|v| v.as_str()) {
                            if let Some(k) = entries.iter().position(|(_, d)| hex::encode(Sha256::digest(d)) == cs) {
                                for bad in ["".to_string(), "00".to_string(), "00".repeat(32)] {
                                    let mut e2 = entries.clone();
                                    if e2[k].1.is_empty() { e2[k].1.push(1); } else { let n = e2[k].1.len(); e2[k].1[n - 1] ^= 0x01; }
                                    for (n, d) in e2.iter_mut() {
                                        if n == "sos-manifest.json" {
                                            let mut m2 = m.clone();
                                            m2[field] = serde_json::Value::String(bad.clone());
                                            *d = serde_json::to_vec_pretty(&m2).unwrap();
                                        }
                                    }
                                    variants.push((format!("entry {} (manifest field {}) modified, manifest checksum {:?}", entries[k].0, field, bad), e2));
                                }
                            }
                        }
                    }
                }
            }
            for (vi, (what, e2)) in variants.iter().enumerate() {
                let crafted = sandbox_dir.join(format!("crafted-{}.zip", vi));
                write_entries(&crafted, e2).await;
                let t = target_for(backend, &sandbox_dir.join(format!("restore-tampered-{}", vi))).await;
                let res = LocalAccount::import_backup_archive(&crafted, &t).await;
                let accounts = t.list_accounts().await.map(|a| a.len()).unwrap_or(0);
                if res.is_ok() || accounts != 0 {
                    fail("tampered-archive-accepted", format!("\"backend\":\"{}\",\"case\":{},\"tamper\":{:?},\"import_ok\":{},\"accounts_after\":{}", backend, case, what, res.is_ok(), accounts));
                }
            }

            // ---- C18: entry names cannot escape the import target ------------------------------------
            let mut e3 = entries.clone();
            for prefix in [format!("files/{}/", default_folder.id()), "files/".to_string(), "".to_string()] {
                let mut name = prefix.clone();
                for _ in 0..6 { name.push_str("../"); }
                name.push_str(MARKER);
                e3.insert(0, (name, b"escaped".to_vec()));
            }
            let crafted = sandbox_dir.join("crafted-escape.zip");
            write_entries(&crafted, &e3).await;
            let restore_dir = sandbox_dir.join("a").join("b").join("c").join("restore-escape");
            let t = target_for(backend, &restore_dir).await;
            let _ = LocalAccount::import_backup_archive(&crafted, &t).await;
            let mut found = vec![];
            find_marker(&sandbox_dir, &mut found);
            for p in found {
                if !p.starts_with(&restore_dir) {
                    fail("archive-entry-escapes-import-target", format!("\"backend\":\"{}\",\"case\":{},\"written\":{:?},\"import_target\":{:?}", backend, case, p, restore_dir));
                }
            }
        }
    }
    if let Ok(bytes) = std::fs::read(&audit_file) {
        for m in &plaintexts {
            let mb = m.as_bytes();
            if bytes.windows(mb.len()).any(|w| w == mb) {
                fail("plaintext-in-audit-trail", format!("\"plaintext\":{:?}", m));
            }
        }
    }
    println!("{{\"found\":false,\"check\":\"account-ops\",\"cases\":{}}}", cases);
}
