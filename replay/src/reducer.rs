//! Differential witness for FolderReducer: the real reduce / build / compact /
//! new_until_commit against an executable transcription of the replay
//! semantics of C02 (`step` in units/fold.vrs).
use crate::Rng;
use sos_backend::BackendEventLog;
use sos_core::{
    commit::CommitHash,
    crypto::{AeadPack, Nonce},
    decode,
    events::{EventLog, EventLogType, WriteEvent},
    AccountId, VaultCommit, VaultEntry, VaultFlags, VaultId,
};
use sos_reducers::FolderReducer;
use sos_vault::Vault;

#[derive(Clone, PartialEq, Debug)]
struct View {
    name: String,
    flags: u64,
    meta: Option<AeadPack>,
    secrets: Vec<(uuid::Uuid, VaultCommit)>,
}

async fn step(v: &mut View, e: &WriteEvent) {
    match e {
        WriteEvent::CreateVault(buf) => {
            let vault: Vault = decode(buf).await.unwrap();
            *v = View {
                name: vault.name().to_string(),
                flags: vault.flags().bits(),
                meta: vault.header().meta().cloned(),
                secrets: vec![],
            };
        }
        WriteEvent::SetVaultName(n) => v.name = n.clone(),
        WriteEvent::SetVaultFlags(f) => v.flags = f.bits(),
        WriteEvent::SetVaultMeta(m) => v.meta = Some(m.clone()),
        WriteEvent::CreateSecret(id, c) | WriteEvent::UpdateSecret(id, c) => {
            if let Some(slot) = v.secrets.iter_mut().find(|(i, _)| i == id) {
                slot.1 = c.clone();
            } else {
                v.secrets.push((*id, c.clone()));
            }
        }
        WriteEvent::DeleteSecret(id) => v.secrets.retain(|(i, _)| i != id),
        _ => {}
    }
}

fn view_of(vault: &Vault) -> View {
    View {
        name: vault.name().to_string(),
        flags: vault.flags().bits(),
        meta: vault.header().meta().cloned(),
        secrets: vault.iter().map(|(i, c)| (*i, c.clone())).collect(),
    }
}

fn aead(r: &mut Rng) -> AeadPack {
    let n = 1 + r.below(12) as usize;
    AeadPack { nonce: Nonce::Nonce24(r.arr()), ciphertext: r.bytes(n) }
}

fn fail(kind: &str, detail: String) -> ! {
    println!("{{\"found\":true,\"check\":\"reducer-{}\",{}}}", kind, detail);
    std::process::exit(1)
}

pub async fn run(cases: usize, seed: u64) {
    let mut r = Rng(seed | 1);
    for case in 0..cases {
        let temp = tempfile::NamedTempFile::new().unwrap();
        let account_id = AccountId::random();
        let folder_id = VaultId::new_v4();
        let mut log = BackendEventLog::FileSystem(
            sos_filesystem::FolderEventLog::new_folder(
                temp.path(),
                account_id,
                EventLogType::Folder(folder_id),
            )
            .await
            .unwrap(),
        );
        // head-only create-vault event with some flags set at creation
        let mut vault = Vault::default();
        *vault.flags_mut() = VaultFlags::from_bits_truncate(r.next() & 0x3ff);
        vault.set_name(format!("v{}", case));
        let create = vault.into_event().await.unwrap();
        let ids: Vec<uuid::Uuid> = (0..3).map(|_| uuid::Uuid::from_bytes(r.arr())).collect();
        let mut events = vec![create];
        let n = 1 + r.below(9) as usize;
        for k in 0..n {
            let id = ids[r.below(3) as usize];
            // every event unique (the counter goes into the payload) so commits are unique
            let e = match r.below(6) {
                0 => WriteEvent::SetVaultName(format!("name-{}-{}", case, k)),
                1 => WriteEvent::SetVaultFlags(VaultFlags::from_bits_truncate(r.next() & 0x3ff)),
                2 => WriteEvent::SetVaultMeta(aead(&mut r)),
                3 => WriteEvent::CreateSecret(id, VaultCommit(CommitHash(r.arr()), VaultEntry(aead(&mut r), aead(&mut r)))),
                4 => WriteEvent::UpdateSecret(id, VaultCommit(CommitHash(r.arr()), VaultEntry(aead(&mut r), aead(&mut r)))),
                _ => WriteEvent::DeleteSecret(id),
            };
            events.push(e);
        }
        log.apply(events.as_slice()).await.unwrap();
        let leaves = log.tree().leaves().unwrap_or_default();
        let mut uniq = true;
        for i in 0..leaves.len() { for j in 0..i { if leaves[i] == leaves[j] { uniq = false; } } }
        // (1) full replay
        let mut want = View { name: String::new(), flags: 0, meta: None, secrets: vec![] };
        let mut prefix_views = vec![];
        for e in &events { step(&mut want, e).await; prefix_views.push(want.clone()); }
        let got = FolderReducer::new().reduce(&log).await.unwrap().build(true).await.unwrap();
        if view_of(&got) != want {
            fail("reduce-build", format!("\"case\":{},\"events\":{:?},\"got\":{:?},\"want\":{:?}", case, format!("{:?}", events.len()), format!("{:?}", view_of(&got)), format!("{:?}", want)));
        }
        // (2) replay until every commit (commits unique by construction)
        if uniq {
            for (k, leaf) in leaves.iter().enumerate() {
                let got = FolderReducer::new_until_commit(CommitHash(*leaf)).reduce(&log).await.unwrap().build(true).await.unwrap();
                if view_of(&got) != prefix_views[k] {
                    fail("until-commit", format!("\"case\":{},\"log_len\":{},\"until_index\":{},\"got\":{:?},\"want\":{:?}", case, leaves.len(), k, format!("{:?}", view_of(&got)), format!("{:?}", prefix_views[k])));
                }
            }
        }
        // (3) compaction: shape and replay
        let compact = FolderReducer::new().reduce(&log).await.unwrap().compact().await.unwrap();
        if compact.is_empty() || !matches!(compact[0], WriteEvent::CreateVault(_)) || !compact[1..].iter().all(|e| matches!(e, WriteEvent::CreateSecret(_, _))) || compact.len() != 1 + want.secrets.len() {
            fail("compact-shape", format!("\"case\":{},\"compact_len\":{},\"live\":{}", case, compact.len(), want.secrets.len()));
        }
        let mut cv = View { name: String::new(), flags: 0, meta: None, secrets: vec![] };
        for e in &compact { step(&mut cv, e).await; }
        if cv != want {
            fail("compact-view", format!("\"case\":{},\"got\":{:?},\"want\":{:?}", case, format!("{:?}", cv), format!("{:?}", want)));
        }
    }
}
