//! Exhaustive small-scope witness for `AutoMerge::merge_patches` (C05 kernel),
//! run on the real trait default method through a do-nothing implementer
//! (`merge_patches` never touches `self`).  Universe: 4 commits, each with a
//! time from {0,1,2}; `local` and `remote` are duplicate-free sequences of at
//! most `cases` (<= 3) commits; a commit present on both sides may carry a
//! DIFFERENT `last_commit` on the remote (re-parented by another device's merge).
//! Clauses (the ones stated for `merge_patches` in units/merge.vrs):
//!   never fails; RewindLocal iff commits(local) ⊆ commits(remote), and then the
//!   records are exactly `remote`; PushRemote: every commit of local ∪ remote
//!   appears exactly once, nothing else appears, the result is the stable time
//!   sort of local ++ (remote minus local's commits).
use sos_core::{commit::CommitHash, events::EventRecord, AccountId, Origin, UtcDateTime};
use sos_remote_sync::{AutoMerge, AutoMergeStatus, RemoteSyncHandler};
use sos_protocol::{network_client::HttpClient, transfer::FileTransferQueueSender};
use sos_sync::SyncDirection;
use sos_account::LocalAccount;
use std::sync::Arc;
use tokio::sync::Mutex;

struct W;

#[async_trait::async_trait]
impl RemoteSyncHandler for W {
    type Client = HttpClient;
    type Account = LocalAccount;
    type Error = sos_net::Error;
    fn direction(&self) -> SyncDirection { SyncDirection::Push }
    fn client(&self) -> &Self::Client { unimplemented!() }
    fn origin(&self) -> &Origin { unimplemented!() }
    fn account_id(&self) -> &AccountId { unimplemented!() }
    fn account(&self) -> Arc<Mutex<Self::Account>> { unimplemented!() }
    fn file_transfer_queue(&self) -> &FileTransferQueueSender { unimplemented!() }
    async fn execute_sync_file_transfers(&self) -> Result<(), Self::Error> { unimplemented!() }
}

#[async_trait::async_trait]
impl AutoMerge for W {}

fn fail(kind: &str, detail: String) -> ! {
    println!("{{\"found\":true,\"check\":\"merge-{}\",{}}}", kind, detail);
    std::process::exit(1)
}

fn rec(c: u8, t: u8, parent: u8) -> EventRecord {
    let time = UtcDateTime::from(time::OffsetDateTime::from_unix_timestamp(1_700_000_000 + t as i64).unwrap());
    EventRecord::new(time, CommitHash([parent; 32]), CommitHash([c + 1; 32]), vec![c])
}

fn seqs(n: u8, max: usize) -> Vec<Vec<u8>> {
    // all duplicate-free sequences over 0..n of length <= max
    let mut out: Vec<Vec<u8>> = vec![vec![]];
    let mut cur: Vec<Vec<u8>> = vec![vec![]];
    for _ in 0..max {
        let mut next = vec![];
        for s in &cur { for x in 0..n { if !s.contains(&x) { let mut t = s.clone(); t.push(x); next.push(t); } } }
        out.extend(next.iter().cloned());
        cur = next;
    }
    out
}

fn show(v: &[EventRecord]) -> String {
    let s: Vec<String> = v.iter().map(|r| format!("\"c{}@t{}/p{}\"", r.commit().as_ref()[0] - 1, time::OffsetDateTime::from(r.time().clone()).unix_timestamp() - 1_700_000_000, r.last_commit().as_ref()[0])).collect();
    format!("[{}]", s.join(","))
}

pub async fn run(cases: usize, _seed: u64) {
    let max = cases.clamp(1, 3);
    let w = W;
    let all = seqs(4, max);
    let mut n = 0u64;
    // times per commit: three assignments (all distinct order, ties, reversed)
    for times in [[0u8, 1, 2, 2], [1, 1, 0, 2], [2, 1, 0, 0]] {
        for l in &all {
            for r in &all {
                for reparent in [false, true] {
                    let local: Vec<EventRecord> = l.iter().map(|c| rec(*c, times[*c as usize], 100)).collect();
                    let remote: Vec<EventRecord> = r.iter().map(|c| rec(*c, times[*c as usize], if reparent { 200 } else { 100 })).collect();
                    n += 1;
                    let ctx = format!("\"local\":{},\"remote\":{}", show(&local), show(&remote));
                    let res = match w.merge_patches(local.clone(), remote.clone()).await {
                        Ok(s) => s,
                        Err(e) => fail("fails", format!("{},\"error\":\"{}\"", ctx, e)),
                    };
                    let subset = l.iter().all(|c| r.contains(c));
                    match res {
                        AutoMergeStatus::RewindLocal(v) => {
                            if !subset { fail("rewind-local-but-local-has-own-commits", format!("{},\"result\":{}", ctx, show(&v))); }
                            if v != remote { fail("rewind-local-not-remote-records", format!("{},\"result\":{}", ctx, show(&v))); }
                        }
                        AutoMergeStatus::PushRemote(v) => {
                            if subset { fail("push-remote-but-remote-has-everything", format!("{},\"result\":{}", ctx, show(&v))); }
                            for c in 0..4u8 {
                                let want = if l.contains(&c) || r.contains(&c) { 1 } else { 0 };
                                let got = v.iter().filter(|x| x.commit().as_ref()[0] == c + 1).count();
                                if got != want { fail("commit-multiplicity", format!("{},\"result\":{},\"commit\":\"c{}\",\"count\":{},\"expected\":{}", ctx, show(&v), c, got, want)); }
                            }
                            let mut want: Vec<EventRecord> = local.clone();
                            want.extend(remote.iter().filter(|x| !l.contains(&(x.commit().as_ref()[0] - 1))).cloned());
                            want.sort_by(|a, b| a.time().cmp(b.time()));
                            if v != want { fail("not-stable-time-sort-of-local-then-new-remote", format!("{},\"result\":{},\"expected\":{}", ctx, show(&v), show(&want))); }
                        }
                    }
                }
            }
        }
    }
    println!("{{\"found\":false,\"check\":\"merge-patches\",\"cases\":{},\"max_len\":{}}}", n, max);
}
