//! Bounded companion of the C10 / C03 key-derivation clauses on the real crates (the proof treats the password
//! hash and SHA-256 as uninterpreted functions, so "the key depends on password AND salt AND seed" is checked
//! here on the compiled code): for both KDFs and a small set of passwords, salts and seeds, the derived keys of
//! any two inputs that differ in exactly one of (password, salt, seed — including Some vs None) differ, and
//! equal inputs give equal keys.
use sos_core::crypto::{KeyDerivation, Seed};
use secrecy::SecretString;

fn fail(kind: &str, detail: String) -> ! {
    println!("{{\"found\":true,\"check\":\"kdf-{}\",{}}}", kind, detail);
    std::process::exit(1)
}

pub fn run(_cases: usize) {
    let salts = [KeyDerivation::generate_salt(), KeyDerivation::generate_salt()];
    let passwords = ["correct horse battery", "correct horse batterx"];
    let seeds: [Option<Seed>; 3] = [None, Some(Seed([7u8; 32])), Some(Seed([8u8; 32]))];
    // BalloonHash is slow in debug builds; release is used by run.sh
    for kdf in [KeyDerivation::Argon2Id, KeyDerivation::BalloonHash] {
        let d = kdf.deriver();
        let mut keys: Vec<((usize, usize, usize), Vec<u8>)> = vec![];
        for (pi, p) in passwords.iter().enumerate() {
            for (si, s) in salts.iter().enumerate() {
                for (ei, e) in seeds.iter().enumerate() {
                    let pw: SecretString = p.to_string().into();
                    let k = d.derive(&pw, s, e.as_ref()).unwrap();
                    let k2 = d.derive(&pw, s, e.as_ref()).unwrap();
                    if k.as_ref() != k2.as_ref() { fail("not-deterministic", format!("\"kdf\":\"{}\"", kdf)); }
                    keys.push(((pi, si, ei), k.as_ref().to_vec()));
                }
            }
        }
        for (a, ka) in &keys {
            for (b, kb) in &keys {
                if a != b && ka == kb {
                    fail("same-key-for-different-inputs", format!("\"kdf\":\"{}\",\"a\":{{\"password\":{},\"salt\":{},\"seed\":{}}},\"b\":{{\"password\":{},\"salt\":{},\"seed\":{}}},\"note\":\"indices into passwords/salts/seeds (seed 0 = None)\"", kdf, a.0, a.1, a.2, b.0, b.1, b.2));
                }
            }
        }
    }
    println!("{{\"found\":false,\"check\":\"kdf\",\"inputs\":24}}");
}
