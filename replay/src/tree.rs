//! Exhaustive small-scope witness for CommitTree / CommitProof (C08): all pairs
//! of leaf sequences over 3 symbols up to length 4 (cases = max length).
//! Checks the clauses that hold for the current code (the D1 clauses are listed
//! known findings and are NOT checked here): equal iff same sequence; a strict
//! prefix is answered Contains; Contains implies the same leaf at the reported
//! index; Unknown only when neither equal nor strict prefix; a single-leaf proof
//! verifies against a replica iff the replica holds the same leaf there.
use sos_core::commit::{CommitTree, Comparison};

fn fail(kind: &str, detail: String) -> ! {
    println!("{{\"found\":true,\"check\":\"tree-{}\",{}}}", kind, detail);
    std::process::exit(1)
}

fn seqs(max: usize) -> Vec<Vec<u8>> {
    let mut out = vec![];
    let mut cur: Vec<Vec<u8>> = vec![vec![]];
    for _ in 0..max {
        let mut next = vec![];
        for s in &cur { for sym in 0..3u8 { let mut t = s.clone(); t.push(sym); next.push(t); } }
        out.extend(next.iter().cloned());
        cur = next;
    }
    out
}

fn tree_of(s: &[u8]) -> CommitTree {
    let mut t = CommitTree::new();
    for x in s { t.insert(CommitTree::hash(&[*x])); }
    t.commit();
    t
}

pub fn run(max: usize) {
    let max = max.clamp(1, 5);
    let all = seqs(max);
    for a in &all {
        let ta = tree_of(a);
        let leaves_a = ta.leaves().unwrap_or_default();
        for b in &all {
            let tb = tree_of(b);
            let head_b = tb.head().unwrap();
            let cmp = ta.compare(&head_b).unwrap();
            let is_prefix = b.len() < a.len() && a[..b.len()] == b[..];
            match &cmp {
                Comparison::Equal => if a != b { fail("equal-not-same", format!("\"local\":{:?},\"remote\":{:?}", a, b)); },
                Comparison::Contains(ix) => {
                    if ix.len() != 1 || ix[0] >= a.len() || a[ix[0]] != b[b.len() - 1] || ix[0] != b.len() - 1 {
                        fail("contains-without-same-leaf", format!("\"local\":{:?},\"remote\":{:?},\"indices\":{:?}", a, b, ix));
                    }
                }
                Comparison::Unknown => if a == b || is_prefix { fail("unknown-for-equal-or-prefix", format!("\"local\":{:?},\"remote\":{:?}", a, b)); },
            }
            if a == b && cmp != Comparison::Equal { fail("same-not-equal", format!("\"local\":{:?}", a)); }
            if is_prefix && !matches!(cmp, Comparison::Contains(_)) { fail("prefix-not-contains", format!("\"local\":{:?},\"remote\":{:?}", a, b)); }
            // single-leaf proofs of b against replica a, every index
            for i in 0..b.len() {
                let p = tb.proof(&[i]).unwrap();
                let (ok, _) = p.verify_leaves(&leaves_a);
                let agree = i < a.len() && a[i] == b[i];
                if ok != agree {
                    fail("verify-leaves", format!("\"proof_from\":{:?},\"index\":{},\"replica\":{:?},\"verified\":{},\"positions_agree\":{}", b, i, a, ok, agree));
                }
            }
        }
    }
}
