//! Witness for the device reducer (C11: "a device currently trusted by that account ... revoked device ... refused"):
//! random sequences of Trust / Revoke events over 3 device keys — the same key may be trusted several times with
//! DIFFERENT meta data / dates — applied to a real file-system device event log; `DeviceReducer::reduce` must return
//! exactly the keys whose last event is a Trust, each once.
use crate::Rng;
use sos_core::{device::{DevicePublicKey, TrustedDevice}, events::{DeviceEvent, EventLog}, AccountId};
use sos_reducers::DeviceReducer;

fn fail(kind: &str, detail: String) -> ! {
    println!("{{\"found\":true,\"check\":\"devices-{}\",{}}}", kind, detail);
    std::process::exit(1)
}

pub async fn run(cases: usize, seed: u64) {
    let mut r = Rng(seed | 1);
    for case in 0..cases {
        let dir = tempfile::tempdir().unwrap();
        let path = dir.path().join("devices.events");
        let mut log = sos_filesystem::FileSystemEventLog::<DeviceEvent, sos_backend::Error>::new_device(&path, AccountId::random()).await.unwrap();
        let keys: Vec<DevicePublicKey> = (0..3u8).map(|k| { let b: [u8; 32] = [k + 1; 32]; b.into() }).collect();
        let mut trusted = [false; 3];
        let mut trace = vec![];
        let n = 1 + r.below(8) as usize;
        for _ in 0..n {
            let k = r.below(3) as usize;
            if r.below(3) < 2 {
                let when = time::OffsetDateTime::from_unix_timestamp(1_700_000_000 + r.below(100000) as i64).unwrap();
                let dev = TrustedDevice::new(keys[k].clone(), None, Some(when));
                log.apply(&[DeviceEvent::Trust(dev)]).await.unwrap();
                trusted[k] = true;
                trace.push(format!("trust({})", k));
            } else {
                log.apply(&[DeviceEvent::Revoke(keys[k].clone())]).await.unwrap();
                trusted[k] = false;
                trace.push(format!("revoke({})", k));
            }
        }
        let set = DeviceReducer::new(&log).reduce().await.unwrap();
        let mut got: Vec<usize> = set.iter().map(|d| keys.iter().position(|k| k == d.public_key()).unwrap()).collect();
        got.sort();
        let want: Vec<usize> = (0..3).filter(|k| trusted[*k]).collect();
        if got != want {
            fail("trusted-set-differs-from-last-events", format!("\"case\":{},\"trace\":{:?},\"reduced_keys\":{:?},\"expected_keys\":{:?}", case, trace, got, want));
        }
    }
    println!("{{\"found\":false,\"check\":\"device-reducer\",\"cases\":{}}}", cases);
}
