#!/bin/bash
# dev helper: compose + verify a unit, print rendered errors
cd /verif/tools && python3 -m sosv compose /verif/units/$1.vrs /verif/build/$1/$1.rs || { echo "error: COMPOSE FAILED"; exit 2; }
cd /verif/build/$1 && verus $1.rs --error-format=json --multiple-errors 20 --rlimit 40 ${@:2} 2>&1 >/dev/null | python3 -c "
import sys,json
for l in sys.stdin:
    try: d=json.loads(l)
    except: print(l); continue
    print(d['rendered'])
" 
