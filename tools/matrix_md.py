#!/usr/bin/env python3
"""Regenerate the table of DESIGN.md section 9.1 from seeded/RESULTS.tsv (between the MATRIX markers)."""
import json, os, re
V = '/verif'
rows = []
for l in open(V + '/seeded/RESULTS.tsv'):
    p = l.rstrip('\n').split('\t')
    if len(p) < 3:
        continue
    sid, prop, verdict = p[0], p[1], p[2]
    obl = p[3] if len(p) > 3 else ''
    labs = sorted(set(re.findall(r'\[([A-Za-z0-9_:]+)\]', obl)) | set(re.findall(r'((?:bounded|witness):[A-Za-z0-9_]+)', obl)))
    try:
        title = json.load(open('%s/seeded/%s/meta.json' % (V, sid)))['title']
    except Exception:
        title = ''
    rows.append('| %s %s | %s | **%s** | %s |' % (sid, title[:90], prop, verdict, ', '.join(labs)))
table = '| seeded change | check | verdict | failing obligations (abridged) |\n|----|----|----|----|\n' + '\n'.join(rows) + '\n'
d = open(V + '/DESIGN.md').read()
b, e = '<!-- MATRIX-BEGIN -->\n', '<!-- MATRIX-END -->\n'
if b in d:
    d = d[:d.index(b) + len(b)] + table + d[d.index(e):]
else:
    m = re.search(r'\| seeded change \| check \| verdict \|.*?\n(?=\n)', d, re.S)
    d = d[:m.start()] + b + table + e + d[m.end():]
open(V + '/DESIGN.md', 'w').write(d)
print(len(rows), 'rows')
