#!/usr/bin/env python3
"""Regenerate MANIFEST.json from checks.json (claimed) and not_applicable.json."""
import json, os
V = os.path.dirname(os.path.dirname(os.path.abspath(__file__)))
props = [json.loads(l) for l in open(os.path.join(V, "properties.jsonl"))]
checks = json.load(open(os.path.join(V, "checks.json")))
na = json.load(open(os.path.join(V, "not_applicable.json")))
m = {
 "version": 1,
 "setup_cmd": "cd /verif/replay && ./run.sh codec-roundtrip all 10 || true",
 "hooks": {"guard": "none",
           "enable": "no hooks: contracts are woven into text extracted from /repo's working tree on every run; /repo carries only unguarded fix: commits",
           "baseline_off_cmd": "cd /repo && cargo nextest run --workspace --no-fail-fast --test-threads 8 --offline || cargo test --workspace --no-fail-fast --offline",
           "source_commits": [], "add_only": True},
 "engines": [{"name": "sosv", "path": "tools/sosv", "serves_properties": sorted(checks.keys()),
              "kind_free_text": "mechanical extraction of the real Rust items (catalogued rewrite rules) + contract weaving + Verus (deductive, unbounded); vacuity canaries; known-findings filter"}],
 "checks": [], "not_applicable": [],
 "notes": "see DESIGN.md; evidence files list functions under contract, obligations, solver time and every assumed contract",
}
for p in props:
    pid = p["id"]
    if pid in checks:
        c = checks[pid]
        m["checks"].append({
            "property_id": pid,
            "quick_cmd": "./check %s --tier quick" % pid,
            "thorough_cmd": "./check %s --tier thorough" % pid,
            "evidence_file": "/verif/evidence/%s.json" % pid,
            "replay_cmd_template": "./check %s --replay {path}" % pid,
            "engine": "sosv",
            "level_claimed": {"category": c.get("level", "proof"), "text": c.get("level_text", ""), "design_ref": c.get("design_ref", "DESIGN.md section 4, " + pid)},
            "level_note": c.get("level_note", ""),
            "technique": c.get("technique", "contract-based deductive verification: Verus on mechanically extracted real functions"),
        })
    else:
        m["not_applicable"].append({"property_id": pid, "reason": na.get(pid, "unit not built within budget (DESIGN.md section 7)")})
json.dump(m, open(os.path.join(V, "MANIFEST.json"), "w"), indent=1)
print("claimed:", sorted(checks.keys()))
