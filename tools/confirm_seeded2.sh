#!/bin/bash
# usage: confirm_seeded.sh <worktree> <k>   — confirm a seeded change in its scratch worktree
# steps: demo passes on pristine; demo fails with patch; full suite (without demo) passes with patch apart from known failures
WT=$1; K=$2; D=$WT/seeded-out/$K
export CARGO_TARGET_DIR=$WT/target CARGO_NET_OFFLINE=true
cd $WT || exit 2
git checkout -q -- . ; git clean -fdq -e seeded-out -e target
DEMO=$(python3 -c "import json;print(json.load(open('$D/meta.json'))['demo_cmd'])")
echo "## demo_cmd: $DEMO"
case "$DEMO" in *demo.diff*) echo "(demo_cmd applies demo.diff itself)";; *) git apply $D/demo.diff || { echo "RESULT demo.diff does not apply"; exit 2; };; esac
DEMO2=$(echo "$DEMO" | sed -E 's/git( -C [^ ]+)? apply [^ ]*demo\.diff *&& *//')
echo "## step A: demo on pristine (expect pass)"
bash -c "$DEMO" > $D/confirm_demo_pristine.log 2>&1; A=$?
echo "rc=$A"
git apply $D/patch.diff || { echo "RESULT patch.diff does not apply"; exit 2; }
echo "## step B: demo with patch (expect fail)"
bash -c "$DEMO2" > $D/confirm_demo_patched.log 2>&1; B=$?
echo "rc=$B"
# remove demo, keep patch
git checkout -q -- . ; git clean -fdq -e seeded-out -e target
git apply $D/patch.diff
echo "## step C: full suite with patch (expect only known failures)"
cargo nextest run --workspace --no-fail-fast --offline --test-threads 8 > $D/confirm_suite.log 2>&1
grep -E "^\s+FAIL" $D/confirm_suite.log | sort -u | sed 's/\[.*\]//' > $D/confirm_suite_fails.txt
cat $D/confirm_suite_fails.txt
grep -E "Summary" $D/confirm_suite.log
UNEXPECTED=$(grep -v -E "command_line|not_authenticated_local_account|not_authenticated_network_account|db_event_log_compare" $D/confirm_suite_fails.txt | wc -l)
git checkout -q -- . ; git clean -fdq -e seeded-out -e target
if [ $A -eq 0 ] && [ $B -ne 0 ] && [ $UNEXPECTED -eq 0 ]; then echo "RESULT CONFIRMED $WT $K"; else echo "RESULT NOT-CONFIRMED $WT $K (A=$A B=$B unexpected_suite_failures=$UNEXPECTED)"; fi
