#!/usr/bin/env python3
"""helper: append known-finding entries for every currently failing label of a unit
usage: add_findings.py <unit> <json file: {label: {"input":..., "what":...}}>"""
import sys, json
sys.path.insert(0, '/verif/tools')
from sosv import run as R
unit = sys.argv[1]
texts = json.load(open(sys.argv[2]))
r = R.run_unit(unit)
assert r.status == 'ok', r.reason
have = set()
for l in open('/verif/known_findings.jsonl'):
    if l.startswith('{'):
        d = json.loads(l); have.add((d['property'], d['function'], d['label']))
n = 0
with open('/verif/known_findings.jsonl', 'a') as fh:
    for o in r.obligations:
        if o['ok']:
            continue
        t = texts.get(o['label'])
        if not t:
            print('NO TEXT for', o['fn'], o['label']); continue
        for p in o['props']:
            if (p, o['fn'], o['label']) in have:
                continue
            fh.write(json.dumps(dict(property=p, unit=unit, function=o['fn'], label=o['label'], input=t['input'], what=t['what'])) + "\n")
            n += 1
print('added', n)
