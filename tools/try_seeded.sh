#!/bin/bash
# usage: try_seeded.sh <patch.diff> <PID> [<PID>...]
# Applies the patch to a COPY of /repo's sources (so that concurrent work on /repo is not disturbed) and runs the
# checks against the copy via SOSV_REPO.  (The registered checks themselves always read /repo; witness searches
# are linked against /repo and therefore see the unpatched code in this mode.)
patch=$1; shift
C=/tmp/seedrepo.$$
mkdir -p $C && rsync -a --exclude target --exclude .git /repo/ $C/ || exit 2
( cd $C && patch -p1 -s < "$patch" ) || { echo "PATCH DOES NOT APPLY: $patch"; rm -rf $C; exit 2; }
for p in "$@"; do
  (cd /verif && SOSV_REPO=$C ./check $p 2>&1 | grep -v "^KNOWN-FINDING" | cut -c1-400)
done
rm -rf $C
