#!/bin/bash
# usage: try_seeded.sh <patch.diff> <PID> [<PID>...]   — apply to /repo, run checks, undo
patch=$1; shift
cd /repo || exit 2
git apply --check "$patch" || { echo "PATCH DOES NOT APPLY: $patch"; exit 2; }
git apply "$patch"
for p in "$@"; do
  (cd /verif && ./check $p 2>&1 | grep -v "^KNOWN-FINDING" | cut -c1-400)
done
git -C /repo checkout -- . 
git -C /repo status --short | head -3
