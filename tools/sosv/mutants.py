"""Contract-strength self check (thorough tier): generic mutants of the
EXTRACTED function bodies (never of specs, contracts or proof hints) are
verified; a mutant that still verifies shows a contract too weak to notice
that change.  Survivors are reported, they do not fail the check (some are
semantically equivalent or irrelevant to the property)."""

import concurrent.futures as cf
import json
import os
import random
import re
import subprocess
import sys

from . import compose as C
from .rlex import lex, sig, untok, match_close, IDENT, NUM, PUNCT, WS, COMMENT, Tok
from . import extract as X

VERIF = C.VERIF


def body_spans(text, meta):
    """(fid, abs_start, abs_end) of each extracted fn body, excluding proof blocks"""
    lines = text.split("\n")
    starts = [0]
    for l in lines:
        starts.append(starts[-1] + len(l) + 1)
    out = []
    for fid, (a, b) in meta["fn_ranges"].items():
        seg_a, seg_b = starts[a], starts[b - 1]
        seg = text[seg_a:seg_b]
        toks = lex(seg)
        try:
            fn = X.split_fn(toks)
        except Exception:
            continue
        if fn["body"] is None:
            continue
        # the woven text may carry `match x { .. }` at depth 0 in an ensures clause: the body is the LAST
        # top-level brace group (the one closed by the fn's final `}`), not the first `{`
        body = fn["body"]
        k = body
        while k < fn["end"]:
            if toks[k].kind == PUNCT and toks[k].text in ("{", "(", "["):
                c = match_close(toks, k)
                if toks[k].text == "{":
                    body = k
                k = c + 1
            else:
                k += 1
        out.append((fid, seg_a, toks, body, fn["end"]))
    return out


def candidate_sites(toks, body, end):
    """yield (kind, token index range, replacement text)"""
    # mark tokens inside `proof { }` blocks and ghost lets: not mutated
    skip = set()
    i = body
    while i < end:
        t = toks[i]
        if t.kind == IDENT and t.text == "proof":
            k = i + 1
            while toks[k].kind in (WS, COMMENT):
                k += 1
            if toks[k].text == "{":
                e = match_close(toks, k)
                skip.update(range(i, e + 1))
                i = e + 1
                continue
        if t.kind == IDENT and t.text == "ghost":
            k = i
            while k < end and toks[k].text != ";":
                k += 1
            skip.update(range(i, k + 1))
            i = k + 1
            continue
        if t.kind == IDENT and t.text in ("invariant", "invariant_except_break", "decreases", "ensures") :
            # loop clause: skip to the loop body brace
            k = i
            while k < end and toks[k].text != "{":
                if toks[k].text in ("(", "["):
                    k = match_close(toks, k)
                k += 1
            skip.update(range(i, k))
            i = k
            continue
        if t.kind == IDENT and t.text in ("assert", "assume"):
            k = i
            while k < end and toks[k].text != ";":
                if toks[k].text in ("(", "[", "{"):
                    k = match_close(toks, k)
                k += 1
            skip.update(range(i, k + 1))
            i = k + 1
            continue
        i += 1
    st = [(j, toks[j]) for j in range(body + 1, end) if toks[j].kind not in (WS, COMMENT) and j not in skip]
    sites = []
    for n, (j, t) in enumerate(st):
        prev = st[n - 1][1] if n > 0 else None
        nxt = st[n + 1][1] if n + 1 < len(st) else None
        if t.kind == NUM and re.fullmatch(r"[0-9]+", t.text):
            # not array lengths / tuple fields
            if prev is not None and prev.text in (";", ".") :
                continue
            sites.append(("INT", j, j, str(int(t.text) + 1)))
        elif t.kind == PUNCT and t.text == "==":
            sites.append(("NEG", j, j, "!="))
        elif t.kind == PUNCT and t.text == "!=":
            sites.append(("NEG", j, j, "=="))
        elif t.kind == PUNCT and t.text == "<" and prev is not None and nxt is not None and \
                (prev.kind in (IDENT, NUM) or prev.text == ")") and (nxt.kind in (IDENT, NUM) or nxt.text == "(") \
                and not (nxt.kind == IDENT and nxt.text[:1].isupper()):
            sites.append(("REL", j, j, "<="))
        elif t.kind == PUNCT and t.text == "+" and prev is not None and (prev.kind in (IDENT, NUM) or prev.text == ")"):
            sites.append(("ARITH", j, j, "-"))
        elif t.kind == PUNCT and t.text == "-" and prev is not None and (prev.kind in (IDENT, NUM) or prev.text == ")"):
            sites.append(("ARITH", j, j, "+"))
    # statement deletion / swap: statements `...?;` at any depth
    stmts = []
    j = body + 1
    cur = None
    depth_stack = []
    k = body + 1
    start = None
    while k < end:
        t = toks[k]
        if k in skip:
            k += 1
            start = None
            continue
        if t.kind in (WS, COMMENT):
            k += 1
            continue
        if start is None:
            start = k
        if t.kind == PUNCT and t.text in ("(", "["):
            k = match_close(toks, k) + 1
            continue
        if t.kind == PUNCT and t.text == "{":
            start = None
            k += 1
            continue
        if t.kind == PUNCT and t.text == "}":
            start = None
            k += 1
            continue
        if t.kind == PUNCT and t.text == ";":
            s0 = start
            txt = untok(toks[s0:k + 1])
            if txt.rstrip().endswith("?;") and not txt.lstrip().startswith("let"):
                stmts.append((s0, k))
            start = None
        k += 1
    for (a, b) in stmts:
        sites.append(("DEL", a, b, ""))
    for n in range(len(stmts) - 1):
        (a, b), (c, d) = stmts[n], stmts[n + 1]
        between = untok(toks[b + 1:c])
        if between.strip() == "":
            sites.append(("SWAP", a, d, untok(toks[c:d + 1]) + between + untok(toks[a:b + 1])))
    return sites


def make_mutants(text, meta, limit, seed):
    out = []
    for fid, off, toks, body, end in body_spans(text, meta):
        for kind, a, b, rep in candidate_sites(toks, body, end):
            pa = off + toks[a].pos
            pb = off + toks[b].pos + len(toks[b].text)
            before = text[pa:pb]
            out.append(dict(fn=fid, kind=kind, before=" ".join(before.split())[:80], after=" ".join(rep.split())[:80],
                            line=text.count("\n", 0, pa) + 1, pa=pa, pb=pb, rep=rep))
    rnd = random.Random(seed)
    rnd.shuffle(out)
    # spread over functions
    byfn = {}
    for m in out:
        byfn.setdefault(m["fn"], []).append(m)
    pick = []
    while len(pick) < limit and any(byfn.values()):
        for fn in list(byfn):
            if byfn[fn]:
                pick.append(byfn[fn].pop())
                if len(pick) >= limit:
                    break
    return pick, len(out)


def run_mutant(unit, text, m, idx, rlimit=40, base_errors=frozenset()):
    d = os.path.join(VERIF, "build", unit + "-mutants")
    os.makedirs(d, exist_ok=True)
    name = "%s_m%d" % (unit, idx)
    path = os.path.join(d, name + ".rs")
    with open(path, "w") as fh:
        orig = text[m["pa"]:m["pb"]]
        rep = m["rep"]
        pad = orig.count("\n") - rep.count("\n")
        if pad > 0:
            rep = rep + "\n" * pad     # later errors keep their line numbers (base errors are matched by position)
        fh.write(text[:m["pa"]] + rep + text[m["pb"]:])
    from .run import run_with_timeout
    p = run_with_timeout(["verus", name + ".rs", "--error-format=json", "--multiple-errors", "40", "--rlimit", str(rlimit)],
                         d, None, int(os.environ.get("SOSV_MUTANT_TIMEOUT", "240")))
    status = "survived"
    msgs = []
    if p.timed_out:
        try:
            os.remove(path)
        except OSError:
            pass
        return ("base", []) if idx < 0 else ("undecided", ["wall-clock timeout"])
    for line in p.stderr.split("\n"):
        if not line.startswith("{"):
            continue
        try:
            dj = json.loads(line)
        except Exception:
            continue
        if dj.get("level") != "error" or dj.get("message", "").startswith("aborting"):
            continue
        key = (dj["message"].split("\n")[0][:100], tuple(sorted((sp["line_start"], sp.get("column_start", 0)) for sp in dj.get("spans", []))))
        if key in base_errors:
            continue
        if idx < 0:
            msgs.append(key)
        else:
            msgs.append(key[0])
    if idx < 0:
        return "base", msgs
    if msgs:
        low = " ".join(msgs).lower()
        if any(v in low for v in ("postcondition", "post-condition", "precondition", "pre-condition", "assertion", "invariant", "overflow", "decreases", "underflow")):
            status = "killed"
        elif "rlimit" in low or "resource limit" in low:
            status = "undecided"
        else:
            status = "stillborn"
    try:
        os.remove(path)
    except OSError:
        pass
    return status, msgs[:2]


def mutation_run(unit, limit=48, seed=0, workers=12):
    upath = os.path.join(VERIF, "units", unit + ".vrs")
    text, meta, log = C.compose(upath)
    picks, total = make_mutants(text, meta, limit, seed)
    res = dict(unit=unit, candidate_sites=total, run=len(picks), killed=0, survived=0, stillborn=0, undecided=0, survivors=[])
    # errors of the unmutated file (known findings): a mutant is killed only by an ADDITIONAL failure
    _, base = run_mutant(unit, text, dict(pa=0, pb=0, rep=""), -1)
    base = frozenset(base)
    with cf.ThreadPoolExecutor(max_workers=workers) as ex:
        futs = {ex.submit(run_mutant, unit, text, m, i, 40, base): m for i, m in enumerate(picks)}
        for f in cf.as_completed(futs):
            m = futs[f]
            st, msgs = f.result()
            res[st] += 1
            if st == "survived":
                res["survivors"].append(dict(fn=m["fn"], kind=m["kind"], line=m["line"], before=m["before"], after=m["after"]))
    return res


if __name__ == "__main__":
    unit = sys.argv[1]
    limit = int(sys.argv[2]) if len(sys.argv) > 2 else 48
    r = mutation_run(unit, limit, int(os.environ.get("VERIF_SEED", "0") or 0))
    print(json.dumps(r, indent=1))
