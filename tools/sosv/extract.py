"""Mechanical extraction of Rust items from /repo plus the catalogued rewrite
rules R1..R14 of DESIGN.md section 2.2.  Every rule application is logged."""

import re
from .rlex import (lex, sig, norm, untok, match_close, Tok, WS, COMMENT, DOC,
                   STR, IDENT, PUNCT, LIFETIME, NUM, OPEN, CLOSE)


class ExtractError(Exception):
    """lost anchor / unsupported construct: the run becomes UNDECIDED (exit 2)"""


ITEM_KW = ("fn", "struct", "enum", "impl", "const", "type", "trait", "static",
           "mod", "use", "macro_rules")
PREFIX_KW = ("pub", "async", "unsafe", "default", "extern", "const")


def _skip_back_prefix(toks, i):
    """toks[i] is an item keyword; walk back over visibility, qualifiers,
    attributes and doc comments; return first index of the item."""
    j = i
    while True:
        k = j - 1
        while k >= 0 and toks[k].kind in (WS, COMMENT):
            k -= 1
        if k < 0:
            break
        t = toks[k]
        if t.kind == DOC:
            j = k
            continue
        if t.kind == IDENT and t.text in PREFIX_KW:
            j = k
            continue
        if t.kind == STR:  # extern "C"
            j = k
            continue
        if t.kind == PUNCT and t.text == ")":
            # pub(crate)
            d, m = 0, k
            while m >= 0:
                if toks[m].kind == PUNCT and toks[m].text == ")":
                    d += 1
                elif toks[m].kind == PUNCT and toks[m].text == "(":
                    d -= 1
                    if d == 0:
                        break
                m -= 1
            m2 = m - 1
            while m2 >= 0 and toks[m2].kind in (WS, COMMENT):
                m2 -= 1
            if m2 >= 0 and toks[m2].kind == IDENT and toks[m2].text == "pub":
                j = m2
                continue
            break
        if t.kind == PUNCT and t.text == "]":
            d, m = 0, k
            while m >= 0:
                if toks[m].kind == PUNCT and toks[m].text == "]":
                    d += 1
                elif toks[m].kind == PUNCT and toks[m].text == "[":
                    d -= 1
                    if d == 0:
                        break
                m -= 1
            m2 = m - 1
            while m2 >= 0 and toks[m2].kind in (WS, COMMENT):
                m2 -= 1
            if m2 >= 0 and toks[m2].kind == PUNCT and toks[m2].text == "#":
                j = m2
                continue
            if m2 >= 1 and toks[m2].text == "!" and toks[m2 - 1].text == "#":
                break
            break
        break
    return j


def _item_end(toks, i, kw):
    """index of the last token of the item whose keyword is toks[i]"""
    depth = 0
    j = i + 1
    n = len(toks)
    while j < n:
        t = toks[j]
        if t.kind == PUNCT:
            if t.text in ("(", "["):
                j = match_close(toks, j)
            elif t.text == "{":
                e = match_close(toks, j)
                if kw in ("const", "static", "type", "use"):
                    j = e
                else:
                    return e
            elif t.text == ";":
                return j
        j += 1
    raise ExtractError("item without end at %d" % toks[i].pos)


def iter_items(toks, lo=0, hi=None):
    """yield (kw, kw_index, start, end) for items directly inside toks[lo:hi]"""
    hi = len(toks) if hi is None else hi
    i = lo
    while i < hi:
        t = toks[i]
        if t.kind == PUNCT and t.text in OPEN:
            i = match_close(toks, i) + 1
            continue
        if t.kind == IDENT and t.text in ITEM_KW:
            kw = t.text
            if kw == "const":
                # `const fn` / `const NAME`
                k = i + 1
                while toks[k].kind in (WS, COMMENT):
                    k += 1
                if toks[k].kind == IDENT and toks[k].text in ("fn", "unsafe", "async"):
                    i += 1
                    continue
            if kw == "macro_rules":
                k = i + 1
                while toks[k].text != "{" and toks[k].text != "(":
                    k += 1
                i = match_close(toks, k) + 1
                continue
            start = _skip_back_prefix(toks, i)
            end = _item_end(toks, i, kw)
            yield kw, i, start, end
            i = end + 1
            continue
        i += 1


def _name_after(toks, i):
    k = i + 1
    while toks[k].kind in (WS, COMMENT):
        k += 1
    return toks[k].text


def _impl_header(toks, i):
    """normalised header text of impl starting at keyword index i"""
    k = i
    while not (toks[k].kind == PUNCT and toks[k].text == "{"):
        if toks[k].kind == PUNCT and toks[k].text in ("(", "["):
            k = match_close(toks, k)
        k += 1
    return norm(toks[i:k]), k


def find_item(toks, spec, lo=0, hi=None, depth=0):
    """spec: 'fn name' | 'struct N' | 'enum N' | 'const N' | 'type N' |
    'trait N' | 'impl <header>' (header normalised, generics included).
    `fn handlers::name` addresses an item inside the inline module `handlers`.
    Returns list of (start, end, kw_index, depth); depth 0 = top level."""
    spec_n = norm(spec)
    kw = spec_n.split(" ", 1)[0]
    out = []
    for k, ki, s, e in iter_items(toks, lo, hi):
        if k == "mod":
            name = _name_after(toks, ki)
            if name in ("tests", "test"):
                continue
            # inline module: recurse
            b = ki
            while toks[b].text not in ("{", ";"):
                b += 1
            if toks[b].text == "{":
                parts = spec_n.split(" ")
                if len(parts) >= 4 and parts[1] == name and parts[2] == "::":
                    sub = parts[0] + " " + " ".join(parts[3:])
                    out.extend(find_item(toks, sub, b + 1, e, depth))
                else:
                    out.extend(find_item(toks, spec, b + 1, e, depth + 1))
            continue
        if k != kw:
            continue
        if kw == "impl":
            hdr, _ = _impl_header(toks, ki)
            if hdr == spec_n:
                out.append((s, e, ki, depth))
        else:
            if _name_after(toks, ki) == spec_n.split(" ")[1]:
                out.append((s, e, ki, depth))
    return out


# ---------------------------------------------------------------------------
# rewrite rules


class Log:
    def __init__(self):
        self.entries = []   # (rule, file, line, before, after)
        self.counts = {}

    def add(self, rule, where, before, after):
        self.entries.append((rule, where, before, after))
        self.counts[rule] = self.counts.get(rule, 0) + 1


DROP_ATTRS = re.compile(
    r"^#\s*\[\s*(async_trait|cfg_attr\s*\(.*async_trait.*|doc\b.*|allow\b.*|"
    r"typeshare\b.*|serde\b.*|instrument\b.*|tracing::instrument\b.*|"
    r"inline\b.*|must_use\b.*|deprecated\b.*|non_exhaustive|repr\b.*|"
    r"cfg\s*\(\s*feature\s*=\s*\"(files|search|contacts|migrate|archive|audit|"
    r"full|account|clipboard)\"\s*\)|"
    r"utoipa::path\b.*|derive_where\b.*|serde_as\b.*|serde_with\b.*|"
    r"cfg\s*\(\s*not\s*\(\s*target_arch\s*=\s*\"wasm32\"\s*\)\s*\))\s*\]$", re.S)

KEEP_DERIVES = ("Default", "Clone", "Copy")
TRACE_MACROS = ("trace", "debug", "info", "warn", "error")
PANIC_MACROS = ("panic", "unreachable", "unimplemented", "todo")


def _line_of(src_text, pos):
    return src_text.count("\n", 0, pos) + 1


def rewrite(toks, log, where, keep_attrs=()):
    """apply R1,R2,R3,R4,R6,R13 to a token list; returns new token list"""
    out = []
    i, n = 0, len(toks)

    def nxt(k):
        k += 1
        while k < n and toks[k].kind in (WS, COMMENT, DOC):
            k += 1
        return k

    while i < n:
        t = toks[i]
        # R6 doc comments
        if t.kind == DOC:
            log.add("R6", where, t.text.strip()[:60], "")
            i += 1
            continue
        # attributes
        if t.kind == PUNCT and t.text == "#":
            k = nxt(i)
            if k < n and toks[k].text == "[":
                e = match_close(toks, k)
                text = untok(toks[i:e + 1])
                flat = " ".join(text.split())
                md = re.match(r"^#\s*\[\s*derive\s*\((.*)\)\s*\]$", flat, re.S)
                if md:
                    # R6: keep only the derives that matter to the verified code
                    names = [x.strip() for x in md.group(1).split(",") if x.strip()]
                    keep = [x for x in names if x in KEEP_DERIVES]
                    log.add("R6", where, flat[:80], "#[derive(%s)]" % ", ".join(keep))
                    if keep:
                        out.append(Tok(IDENT, "#[derive(%s)]" % ", ".join(keep), t.pos))
                    i = e + 1
                    continue
                if DROP_ATTRS.match(flat) and not any(a in flat for a in keep_attrs):
                    rule = "R1" if "async_trait" in flat else (
                        "R2" if "instrument" in flat else "R6")
                    log.add(rule, where, flat[:80], "")
                    i = e + 1
                    # swallow one following newline's indentation
                    continue
                out.extend(toks[i:e + 1])
                i = e + 1
                continue
        # R17: `use` declarations inside bodies (name resolution only)
        if t.kind == IDENT and t.text == "use":
            k = i
            while k < n and not (toks[k].kind == PUNCT and toks[k].text == ";"):
                k += 1
            log.add("R17", where, " ".join(untok(toks[i:k + 1]).split())[:80], "")
            i = k + 1
            continue
        # R1 async fn
        if t.kind == IDENT and t.text == "async":
            k = nxt(i)
            if k < n and toks[k].kind == IDENT and toks[k].text in ("fn", "unsafe"):
                log.add("R1", where, "async fn", "fn")
                i = k
                continue
        # R1 .await
        if t.kind == PUNCT and t.text == ".":
            k = nxt(i)
            if k < n and toks[k].kind == IDENT and toks[k].text == "await":
                log.add("R1", where, ".await", "")
                # drop trailing whitespace before '.' that we already emitted
                while out and out[-1].kind == WS:
                    out.pop()
                i = k + 1
                continue
        # macros
        if t.kind == IDENT:
            # path prefix tracing::
            j = i
            name = t.text
            is_tracing_path = False
            if name == "tracing":
                k = nxt(i)
                if k < n and toks[k].text == "::":
                    k2 = nxt(k)
                    if k2 < n and toks[k2].kind == IDENT:
                        name = toks[k2].text
                        j = k2
                        is_tracing_path = True
            k = nxt(j)
            if k < n and toks[k].kind == PUNCT and toks[k].text == "!":
                k2 = nxt(k)
                if k2 < n and toks[k2].kind == PUNCT and toks[k2].text in OPEN:
                    e = match_close(toks, k2)
                    before = " ".join(untok(toks[i:e + 1]).split())[:80]
                    if is_tracing_path and name in TRACE_MACROS:
                        # statement macro: drop including the `;`
                        e2 = nxt(e)
                        if e2 < n and toks[e2].text == ";":
                            e = e2
                        log.add("R2", where, before, "")
                        i = e + 1
                        continue
                    if name == "format" and not is_tracing_path:
                        log.add("R3", where, before, "opaque_string()")
                        out.append(Tok(IDENT, "opaque_string()", t.pos))
                        i = e + 1
                        continue
                    if name in PANIC_MACROS and not is_tracing_path:
                        log.add("R4", where, before, "vpanic()")
                        out.append(Tok(IDENT, "vpanic()", t.pos))
                        i = e + 1
                        continue
        # R12c: Vec::with_capacity(n) -> vec_with_capacity_checked(n): same
        # value, plus the C15 obligation that n is bounded (16 MiB)
        if t.kind == IDENT and t.text == "Vec":
            k = nxt(i)
            if k < n and toks[k].text == "::":
                k2 = nxt(k)
                if k2 < n and toks[k2].kind == IDENT and toks[k2].text == "with_capacity":
                    log.add("R12c", where, "Vec::with_capacity", "vec_with_capacity_checked")
                    out.append(Tok(IDENT, "vec_with_capacity_checked", t.pos))
                    i = k2 + 1
                    continue
        # R13 closure parameter |_|
        if t.kind == PUNCT and t.text == "|":
            k = nxt(i)
            if k < n and toks[k].kind == IDENT and toks[k].text == "_":
                k2 = nxt(k)
                if k2 < n and toks[k2].kind == PUNCT and toks[k2].text == "|":
                    log.add("R13", where, "|_|", "|_p0|")
                    out.append(t)
                    out.append(Tok(IDENT, "_p0", toks[k].pos))
                    out.append(toks[k2])
                    i = k2 + 1
                    continue
        out.append(t)
        i += 1
    return out


def _chain_start(st, i):
    """st: significant tokens; st[i] is the `.` that starts `.as_slice()`.
    Walk back over the postfix chain that is the receiver; return index of its
    first token."""
    j = i - 1
    while j >= 0:
        t = st[j]
        if t.kind == PUNCT and t.text in (")", "]"):
            # balanced group
            d = 0
            while j >= 0:
                if st[j].kind == PUNCT and st[j].text in (")", "]"):
                    d += 1
                elif st[j].kind == PUNCT and st[j].text in ("(", "["):
                    d -= 1
                    if d == 0:
                        break
                j -= 1
            # a call/index group: what precedes must be ident / path / `>`(turbofish) / another group
            if j - 1 >= 0 and (st[j - 1].kind == IDENT or st[j - 1].text in (")", "]", "?")):
                j -= 1
                continue
            return j
        if t.kind == IDENT or t.kind == NUM:
            if j - 1 >= 0 and st[j - 1].kind == PUNCT and st[j - 1].text in (".", "::"):
                j -= 2
                if st[j + 1].text == "::" and j >= 0 and st[j].kind != IDENT:
                    return j + 1
                continue
            if j - 1 >= 0 and st[j - 1].kind == PUNCT and st[j - 1].text in ("&", "*") :
                return j
            return j
        if t.kind == PUNCT and t.text == "?":
            j -= 1
            continue
        return j + 1
    return 0


def rewrite_slice_try_into(text, log, where):
    """R12a: `$recv.as_slice().try_into()` -> `slice_to_array($recv.as_slice())`
    (std meaning of <&[u8] as TryInto<[u8; N]>>; N is inferred by rustc from the
    expected type exactly as in the original)."""
    pat = [".", "as_slice", "(", ")", ".", "try_into", "(", ")"]
    while True:
        toks = lex(text)
        st = sig(toks)
        hit = None
        for i in range(len(st) - len(pat) + 1):
            if [t.text for t in st[i:i + len(pat)]] == pat:
                hit = i
                break
        if hit is None:
            return text
        a = _chain_start(st, hit)
        start = st[a].pos
        mid_end = st[hit + 3].pos + 1          # after `.as_slice()`
        end = st[hit + 7].pos + 1              # after `.try_into()`
        before = " ".join(text[start:end].split())
        new = "slice_to_array(" + text[start:mid_end] + ")"
        log.add("R12a", where, before[:100], " ".join(new.split())[:100])
        text = text[:start] + new + text[end:]


def relex(toks):
    return lex(untok(toks))


def _parse_pattern(before):
    """pattern tokens; `$name` is a wildcard matching a non-empty bracket-balanced token run"""
    pt = sig(lex(before))
    out = []
    i = 0
    while i < len(pt):
        if pt[i].text == "$" and i + 1 < len(pt) and pt[i + 1].kind == IDENT:
            out.append(("$", pt[i + 1].text))
            i += 2
        else:
            out.append(("t", pt[i].text))
            i += 1
    return out


def _match_at(st, i, pat, k, binds):
    """try to match pat[k:] at st[i:]; returns end index (exclusive) or None"""
    if k == len(pat):
        return i
    kind, val = pat[k]
    if kind == "t":
        if i < len(st) and st[i].text == val:
            return _match_at(st, i + 1, pat, k + 1, binds)
        return None
    # wildcard: minimal balanced run
    depth = 0
    j = i
    while j < len(st):
        t = st[j]
        if t.kind == PUNCT and t.text in OPEN:
            depth += 1
        elif t.kind == PUNCT and t.text in CLOSE:
            depth -= 1
            if depth < 0:
                return None
        j += 1
        if depth == 0:
            binds[val] = (i, j)
            e = _match_at(st, j, pat, k + 1, binds)
            if e is not None:
                return e
    return None


def apply_pattern_rewrites(text, rules, log, where):
    """per-site, declared, logged rewrites (R12 family): each rule is
    (rule_id, before, after_text, expected_count).  Matching is on the
    normalised token stream so layout does not matter; `$name` in `before`
    matches any non-empty bracket-balanced token run (e.g. a closure that must
    stay real code) and `$name` in `after` re-inserts its source text."""
    for rid, before, after, expect in rules:
        toks = lex(text)
        st = sig(toks)
        pat = _parse_pattern(before)
        hits = []
        i = 0
        while i < len(st):
            binds = {}
            e = _match_at(st, i, pat, 0, binds) if pat else None
            if e is not None and e > i:
                a = st[i].pos
                b = st[e - 1].pos + len(st[e - 1].text)
                rep = after
                for name, (x, y) in binds.items():
                    seg = text[st[x].pos:st[y - 1].pos + len(st[y - 1].text)]
                    rep = rep.replace("$" + name, seg)
                hits.append((a, b, rep))
                i = e
            else:
                i += 1
        if expect == -1:
            pass    # `x?`: any number of sites, also none (parameter threading that must not hide a removed call)
        elif expect is not None and len(hits) != expect:
            raise ExtractError(
                "%s: rewrite %s expected %s site(s) of `%s`, found %d"
                % (where, rid, expect, before, len(hits)))
        elif not hits and expect is None:
            raise ExtractError("%s: rewrite %s matches nowhere: `%s`"
                               % (where, rid, before))
        for a, b, rep in reversed(hits):
            log.add(rid, where, " ".join(text[a:b].split())[:100], " ".join(rep.split())[:100])
            text = text[:a] + rep + text[b:]
    return text


# ---------------------------------------------------------------------------
# function surgery: signature, contract insertion, loops, hints


def split_fn(toks):
    """toks is one fn item.  Returns dict with token index of: kw 'fn',
    params '(' ')', arrow (or None), where (or None), body '{' '}'"""
    s = [i for i, t in enumerate(toks)]
    i = 0
    n = len(toks)
    while not (toks[i].kind == IDENT and toks[i].text == "fn"):
        if toks[i].kind == PUNCT and toks[i].text in OPEN:
            i = match_close(toks, i)
        i += 1
    kw = i
    # generics: skip <...> by angle counting until '('
    j = kw + 1
    angle = 0
    while True:
        t = toks[j]
        if t.kind == PUNCT:
            if t.text == "<":
                angle += 1
            elif t.text == ">":
                angle -= 1
            elif t.text == ">>":
                angle -= 2
            elif t.text == "(" and angle == 0:
                break
            elif t.text in ("(", "[", "{"):
                j = match_close(toks, j)
        j += 1
    lp = j
    rp = match_close(toks, lp)
    arrow = where = None
    j = rp + 1
    body = None
    while j < n:
        t = toks[j]
        if t.kind == PUNCT and t.text == "->" and arrow is None:
            arrow = j
        elif t.kind == IDENT and t.text == "where" and where is None:
            where = j
        elif t.kind == PUNCT and t.text == "{":
            body = j
            break
        elif t.kind == PUNCT and t.text == ";":
            body = None
            break
        elif t.kind == PUNCT and t.text in ("(", "["):
            j = match_close(toks, j)
        j += 1
    if body is None:
        return dict(kw=kw, lp=lp, rp=rp, arrow=arrow, where=where, body=None, end=j)
    return dict(kw=kw, lp=lp, rp=rp, arrow=arrow, where=where, body=body,
                end=match_close(toks, body))


LOOP_KW = ("while", "for", "loop")


def find_loops(toks, body, end):
    """indices (keyword index, body '{' index) of loops in order of appearance"""
    out = []
    i = body + 1
    while i < end:
        t = toks[i]
        if t.kind == IDENT and t.text in LOOP_KW:
            # `for` inside `impl ... for` cannot occur in a body; HRTB `for<'a>` skip
            k = i + 1
            while toks[k].kind in (WS, COMMENT):
                k += 1
            if t.text == "for" and toks[k].text == "<":
                i += 1
                continue
            j = k
            while True:
                tt = toks[j]
                if tt.kind == PUNCT and tt.text in ("(", "["):
                    j = match_close(toks, j)
                elif tt.kind == PUNCT and tt.text == "{":
                    break
                j += 1
            out.append((i, j))
        i += 1
    return out
