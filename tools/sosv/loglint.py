"""Side condition of extraction rule R2 (tracing macros are dropped): a dropped log statement must not
carry secret material, otherwise dropping it hides a C03 violation ("no byte sequence written to ... audit/log
file ... contains the plaintext of a secret's label, tags, fields ... a folder password ... keys").

Decision procedure (syntactic, over the REAL source text of every `tracing::{trace,debug,info,warn,error}!`
and `tracing::span!`-family invocation in crates/*/src, not only extracted functions): an invocation is flagged
when one of its argument expressions
  (a) mentions an identifier that the enclosing fn declares (parameter, or `let x: T`) with a type naming one of
      SENSITIVE_TYPES, or
  (b) calls `.expose_secret()`, or
  (c) mentions an identifier bound by `let` in the enclosing fn from an expression that calls one of
      SENSITIVE_ACCESSORS on anything (e.g. `let label = meta.label();`).
Field projections that are known to be public (`.id()`, `.len()`, `.is_some()`, ...) on a sensitive value are
still flagged unless the projection is in PUBLIC_PROJECTIONS.  Sound only in the obvious direction (a flag is a
real mention); completeness is limited to these three shapes and is stated as such in the evidence.
"""
import json
import os
import re
import sys

from .rlex import lex, sig, untok, match_close, IDENT, PUNCT, WS, COMMENT
from . import extract as X

REPO = os.environ.get("SOSV_REPO", "/repo")
SENSITIVE_TYPES = ("SecretMeta", "Secret", "SecretRow", "SecretString", "SecretBox", "AccessKey", "PrivateKey",
                   "DerivedPrivateKey", "UserData", "SecretSigner", "Seed", "Identity", "BuilderCredentials",
                   "SigningKey", "BoxedEcdsaSigner", "BoxedEd25519Signer", "VaultMeta", "SecretFlags_")
SENSITIVE_ACCESSORS = ("label", "tags", "expose_secret", "user_data", "comment", "recovery_note", "description",
                       "favorite_", "text", "password", "passphrase")
PUBLIC_PROJECTIONS = ("id", "len", "is_some", "is_none", "is_empty", "kind", "last_updated", "date_created", "flags")
MACROS = ("trace", "debug", "info", "warn", "error", "trace_span", "debug_span", "info_span", "warn_span", "error_span", "span", "event")
TYPE_RE = re.compile(r"\b(%s)\b" % "|".join(t for t in SENSITIVE_TYPES))


def _fns(toks, lo=0, hi=None, out=None):
    out = [] if out is None else out
    for k, ki, s, e in X.iter_items(toks, lo, hi):
        if k == "fn":
            out.append((s, e))
        elif k in ("impl", "trait", "mod"):
            b = ki
            while b < e and toks[b].text not in ("{", ";"):
                b += 1
            if b < e and toks[b].text == "{":
                _fns(toks, b + 1, match_close(toks, b), out)
    return out


def _decls(ftoks):
    """identifier -> declared type text, for params and typed lets; plus lets bound from sensitive accessors"""
    typed, tainted = {}, set()
    try:
        fn = X.split_fn(ftoks)
    except Exception:
        return typed, tainted
    params = ftoks[fn["lp"] + 1:fn["rp"]]
    # split params at depth-0 commas
    cur, depth = [], 0
    parts = []
    for t in params:
        if t.kind == PUNCT and t.text in ("(", "[", "{", "<"):
            depth += 1
        elif t.kind == PUNCT and t.text in (")", "]", "}", ">"):
            depth -= 1
        elif t.kind == PUNCT and t.text == ">>":
            depth -= 2
        if t.kind == PUNCT and t.text == "," and depth == 0:
            parts.append(cur); cur = []
        else:
            cur.append(t)
    if cur:
        parts.append(cur)
    for p in parts:
        st = sig(p)
        names = []
        ty = None
        for i, t in enumerate(st):
            if t.kind == PUNCT and t.text == ":":
                ty = untok(p[p.index(t) + 1:])
                break
            if t.kind == IDENT and t.text not in ("mut", "ref"):
                names.append(t.text)
        if ty is not None and names:
            typed[names[-1]] = ty
    if fn["body"] is None:
        return typed, tainted
    body = ftoks[fn["body"]:fn["end"] + 1]
    st = sig(body)
    i = 0
    while i < len(st):
        if st[i].kind == IDENT and st[i].text == "let":
            j = i + 1
            names = []
            ty = None
            while j < len(st) and st[j].text not in ("=", ";"):
                if st[j].text == ":" and ty is None:
                    k = j + 1
                    tt = []
                    while k < len(st) and st[k].text not in ("=", ";"):
                        tt.append(st[k].text); k += 1
                    ty = " ".join(tt)
                    j = k
                    break
                if st[j].kind == IDENT and st[j].text not in ("mut", "ref", "Some", "Ok", "Err"):
                    names.append(st[j].text)
                j += 1
            # initialiser text up to `;`
            k = j
            init = []
            while k < len(st) and st[k].text != ";":
                init.append(st[k].text)
                if st[k].text in ("(", "[", "{"):
                    pass
                k += 1
            init_text = " ".join(init)
            for n in names:
                if ty is not None:
                    typed[n] = ty
                if re.search(r"\.\s*(%s)\s*\(" % "|".join(SENSITIVE_ACCESSORS), init_text):
                    tainted.add(n)
            i = k
        i += 1
    return typed, tainted


def scan_file(path, rel):
    src = open(path, encoding="utf-8", errors="replace").read()
    if "tracing::" not in src:
        return [], 0
    toks = lex(src)
    hits = []
    n = 0
    for s, e in _fns(toks):
        ftoks = toks[s:e + 1]
        st = sig(ftoks)
        typed = tainted = None
        for i in range(len(st) - 4):
            if st[i].text == "tracing" and st[i + 1].text == "::" and st[i + 2].text in MACROS and st[i + 3].text == "!":
                op = ftoks.index(st[i + 4])
                if ftoks[op].text not in ("(", "[", "{"):
                    continue
                cl = match_close(ftoks, op)
                args = ftoks[op + 1:cl]
                n += 1
                if typed is None:
                    typed, tainted = _decls(ftoks)
                ast = sig(args)
                why = []
                for k, t in enumerate(ast):
                    if t.kind != IDENT:
                        continue
                    prev = ast[k - 1].text if k > 0 else ""
                    nxt = ast[k + 1].text if k + 1 < len(ast) else ""
                    if prev == "." and t.text == "expose_secret":
                        why.append("calls .expose_secret()")
                    if prev in (".", "::"):
                        continue
                    if nxt == "=" and (k + 2 < len(ast)) and ast[k + 2].text != "=":
                        continue        # `field = value`: the field NAME
                    ty = typed.get(t.text)
                    sensitive = (ty is not None and TYPE_RE.search(ty)) or t.text in tainted
                    if not sensitive:
                        continue
                    # a public projection directly on it?
                    if nxt == "." and k + 2 < len(ast) and ast[k + 2].text in PUBLIC_PROJECTIONS:
                        continue
                    why.append("`%s`%s" % (t.text, (" : " + " ".join(ty.split())[:60]) if ty else " (bound from a secret accessor)"))
                if why:
                    line = src.count("\n", 0, ftoks[op].pos) + 1
                    hits.append(dict(file=rel, line=line, macro=st[i + 2].text, args=" ".join(untok(args).split())[:200], why=sorted(set(why))))
    return hits, n


SELFTEST_SRC = """
pub struct Folder;
impl Folder {
    pub async fn update_secret(&mut self, id: &SecretId, secret_meta: SecretMeta, secret: Secret) -> Result<()> {
        let label = secret_meta.label();
        tracing::warn!(secret_id = %id, meta = ?secret_meta, "update_secret::not_found");
        tracing::debug!(secret_id = %id, "fine");
        tracing::info!(name = %label, "leaks a label bound from an accessor");
        Ok(())
    }
}
"""


def selftest():
    """the scanner must flag exactly the two planted leaks of SELFTEST_SRC and not the clean statement"""
    import tempfile
    with tempfile.NamedTemporaryFile("w", suffix=".rs", delete=False) as fh:
        fh.write(SELFTEST_SRC)
        path = fh.name
    try:
        hits, n = scan_file(path, "selftest.rs")
    finally:
        os.remove(path)
    return n == 3 and len(hits) == 2


def run():
    hits, total, files = [], 0, 0
    root = os.path.join(REPO, "crates")
    for d, _dn, fn in os.walk(root):
        if "/target" in d or "/tests" in d:
            continue
        for f in fn:
            if f.endswith(".rs"):
                p = os.path.join(d, f)
                h, n = scan_file(p, os.path.relpath(p, REPO))
                hits += h
                total += n
                files += 1 if n else 0
    return dict(invocations=total, files=files, hits=hits)


if __name__ == "__main__":
    r = run()
    print(json.dumps(r, indent=1))
    sys.exit(1 if r["hits"] else 0)
