"""Run one unit through Verus and turn the result into an obligations table."""

import json
import os
import re
import subprocess
import time

from . import compose as C
from .extract import ExtractError

VERIF = C.VERIF
BUILD = os.path.join(VERIF, "build")

VERIFICATION_FAILURES = (
    "postcondition not satisfied",
    "precondition not satisfied",
    "assertion failed",
    "possible arithmetic underflow/overflow",
    "possible division by zero",
    "invariant not satisfied before loop",
    "invariant not satisfied at end of loop body",
    "loop invariant not satisfied",
    "decreases not satisfied",
    "could not prove termination",
    "possible bit shift underflow/overflow",
    "recommendation not met",
    "cannot show invariant holds",
    "unable to prove assertion safety condition",
    "failed to apply hint",
    "loop ensures not satisfied",
    "break",
    "constructed value may fail to meet its declared type invariant",
    "argument bounds not satisfied",
    "arithmetic",
    "unable to prove post-condition of closure",
    "unable to prove pre-condition of closure",
    "closure",
)
VERUS_TIMEOUT = int(os.environ.get("SOSV_VERUS_TIMEOUT", "1500"))


class _Proc(object):
    pass


def run_with_timeout(cmd, cwd, env=None, timeout=1500):
    """subprocess.run with a wall-clock limit that kills the whole process group (verus spawns z3)."""
    import signal
    pr = subprocess.Popen(cmd, cwd=cwd, stdout=subprocess.PIPE, stderr=subprocess.PIPE, text=True, env=env,
                          start_new_session=True)
    r = _Proc()
    r.timed_out = False
    try:
        r.stdout, r.stderr = pr.communicate(timeout=timeout)
    except subprocess.TimeoutExpired:
        r.timed_out = True
        try:
            os.killpg(pr.pid, signal.SIGKILL)
        except OSError:
            pass
        r.stdout, r.stderr = pr.communicate()
    r.returncode = pr.returncode
    return r


RESOURCE = ("rlimit", "resource limit", "timed out", "timeout")

TL_RE = re.compile(r"/\*@TL:([A-Za-z_]+)::([A-Za-z_]+):([A-Za-z0-9_]+)\*/")
ASSUME_RE = re.compile(
    r"(external_body|assume_specification|\baxiom\s+fn\b|\badmit\s*\(|\bassume\s*\(|external_fn_specification|"
    r"external_type_specification|external_trait_specification|\buninterp\s+spec\s+fn\b|verifier::external\b)")


def scan_assumptions(text):
    """mechanical scan for everything that is assumed rather than proved"""
    out = []
    lines = text.split("\n")
    cur_inc = "unit"
    for i, line in enumerate(lines):
        m = re.match(r"// ---- include (\S+)", line)
        if m:
            cur_inc = m.group(1)
        if line.lstrip().startswith("//"):
            continue
        for m in ASSUME_RE.finditer(line):
            kind = " ".join(m.group(1).split()).rstrip("(").strip()
            name = None
            for j in range(i, min(i + 8, len(lines))):
                mm = re.search(r"\b(fn|struct|enum|trait)\s+([A-Za-z_][A-Za-z0-9_]*)", lines[j])
                if mm:
                    name = mm.group(1) + " " + mm.group(2)
                    break
            out.append("%s: %s %s" % (cur_inc, kind, name or ("line %d" % (i + 1))))
    return out


def _impl_trait_method(fid):
    """('Trait', 'method') for an id like `file.rs::impl < T : A + B > Trait < T > for Ty < T >::method`"""
    i = fid.find("::impl")
    if i < 0 or " for " not in fid[i:]:
        return None
    rest = fid[i + len("::impl"):].lstrip()
    if rest.startswith("<"):
        depth = 0
        toks = rest.split(" ")
        k = 0
        for k, t in enumerate(toks):
            if t == "<":
                depth += 1
            elif t == ">":
                depth -= 1
                if depth == 0:
                    break
            elif t == ">>":
                depth -= 2
                if depth <= 0:
                    break
        rest = " ".join(toks[k + 1:]).lstrip()
    mt = re.match(r"([A-Za-z_][A-Za-z0-9_]*)", rest)
    mm = re.search(r"::([A-Za-z_][A-Za-z0-9_]*)(?:#[A-Za-z0-9_]+)?$", fid)
    if not mt or not mm:
        return None
    return (mt.group(1), mm.group(1))


class UnitResult:
    def __init__(self, unit):
        self.unit = unit
        self.status = "ok"          # ok | undecided
        self.reason = None
        self.obligations = []       # dict(fn, label, props, kind, ok, msg)
        self.framework_errors = []
        self.meta = None
        self.times = {}
        self.assumptions = []
        self.verus_cmd = ""
        self.raw_errors = []
        self.wall = 0.0
        self.rule_counts = {}
        self.file = None


def run_unit(unit, rlimit=40, extra_args=(), text_override=None, tag=None):
    res = UnitResult(unit)
    t0 = time.time()
    upath = os.path.join(VERIF, "units", unit + ".vrs")
    try:
        text, meta, log = C.compose(upath)
    except ExtractError as e:
        res.status, res.reason = "undecided", "extraction: %s" % e
        return res
    except FileNotFoundError as e:
        res.status, res.reason = "undecided", "extraction: missing file %s" % e
        return res
    if text_override is not None:
        text = text_override(text, meta)
    bdir = os.path.join(BUILD, unit + ("-" + tag if tag else ""))
    os.makedirs(bdir, exist_ok=True)
    fpath = os.path.join(bdir, unit + ".rs")
    with open(fpath, "w") as fh:
        fh.write(text)
    with open(fpath + ".extraction.log", "w") as fh:
        for e in log.entries:
            fh.write("%s\t%s\t%s\t=>\t%s\n" % e)
    res.file = fpath
    res.meta = meta
    res.rule_counts = dict(log.counts)
    res.assumptions = scan_assumptions(text)
    cmd = ["verus", unit + ".rs", "--output-json", "--error-format=json", "--time",
           "--multiple-errors", "30", "--rlimit", str(rlimit)] + list(extra_args)
    res.verus_cmd = "cd %s && %s" % (bdir, " ".join(cmd))
    env = dict(os.environ)
    p = run_with_timeout(cmd, bdir, env, VERUS_TIMEOUT)
    res.wall = time.time() - t0
    if p.timed_out:
        # a diverging solver query is a tool limit, never an alarm
        res.status, res.reason = "undecided", "verifier wall-clock timeout after %ds (SOSV_VERUS_TIMEOUT)" % VERUS_TIMEOUT
        return res
    try:
        out = json.loads(p.stdout)
    except Exception:
        out = {}
    diags = []
    for line in p.stderr.split("\n"):
        line = line.strip()
        if not line.startswith("{"):
            continue
        try:
            diags.append(json.loads(line))
        except Exception:
            pass
    with open(fpath + ".stderr", "w") as fh:
        fh.write(p.stderr)
    with open(fpath + ".stdout.json", "w") as fh:
        fh.write(p.stdout)

    # trait-level labels
    lines = text.split("\n")
    trait_labels = {}   # line -> (trait, method, label)
    for ln, line in enumerate(lines, 1):
        for m in TL_RE.finditer(line):
            trait_labels[ln] = (m.group(1), m.group(2), m.group(3))
    # named preconditions of hand-written stand-ins: /*@PL:label*/ on a requires clause
    pl_lines = {}       # line -> (label, callee fn name)
    for ln, line in enumerate(lines, 1):
        m = re.search(r"/\*@PL:([A-Za-z0-9_]+)\*/", line)
        if m:
            callee = None
            for j in range(ln - 1, max(0, ln - 40), -1):
                mm = re.search(r"\bfn\s+([A-Za-z_][A-Za-z0-9_]*)", lines[j - 1])
                if mm:
                    callee = mm.group(1)
                    break
            pl_lines[ln] = (m.group(1), callee)
    label_lines = {int(k): tuple(v) for k, v in meta["label_lines"].items()}
    fn_ranges = meta["fn_ranges"]
    panic_lines = set(meta["panic_lines"])

    def fn_of_line(ln):
        for fid, (a, b) in fn_ranges.items():
            if a <= ln <= b:
                return fid
        return None

    # obligations table
    obl = {}
    sp = set(meta.get("safety_props") or [])
    for f in meta["functions"]:
        fid = f["id"]
        # implicit safety obligations (panic freedom, overflow, bounds) count for the
        # unit's declared safety properties when the function serves one of them
        f_safety = [p_ for p_ in f["serves"] if p_ in sp] or f["serves"]
        for lab, info in f["labels"].items():
            obl[(fid, lab)] = dict(fn=fid, label=lab, props=info["props"], kind=info["kind"], ok=True, msg=None)
        obl[(fid, "body_safe")] = dict(fn=fid, label="body_safe", props=f_safety, kind="implicit", ok=True, msg=None)
        a, b = fn_ranges[fid]
        k = 0
        for ln in sorted(panic_lines):
            if a <= ln <= b:
                k += 1
                obl[(fid, "panic_site_%d_unreachable" % k)] = dict(
                    fn=fid, label="panic_site_%d_unreachable" % k, props=f_safety, kind="panic", ok=True, msg=None, line=ln)
        # named call-site preconditions
        ftext = "\n".join(lines[a - 1:b])
        for ln, (plab, callee) in pl_lines.items():
            if callee and re.search(r"\b" + re.escape(callee) + r"\s*\(", ftext) and not (a <= ln <= b):
                key = (fid, "pre:%s:%s" % (plab, callee))
                obl[key] = dict(fn=fid, label=key[1], props=f["serves"], kind="call_precondition", ok=True, msg=None)
        # trait labels
        m = _impl_trait_method(fid)
        if m:
            for ln, (tr, meth, lab) in trait_labels.items():
                if tr == m[0] and meth == m[1]:
                    obl[(fid, lab)] = dict(fn=fid, label=lab, props=(f.get("tlprops") or {}).get(lab, f["serves"]), kind="trait_ensures", ok=True, msg=None)

    fatal = []
    for d in diags:
        if d.get("level") != "error":
            continue
        msg = d.get("message", "")
        if msg.startswith("aborting due to"):
            continue
        spans = d.get("spans", [])
        prim = [s for s in spans if s.get("is_primary")]
        all_lines = [(s["line_start"], s.get("label"), s.get("is_primary")) for s in spans]
        res.raw_errors.append(dict(message=msg, spans=all_lines))
        low = msg.lower()
        if d.get("code") or not any(v in low for v in VERIFICATION_FAILURES):
            if any(v in low for v in RESOURCE):
                ln = prim[0]["line_start"] if prim else 0
                fatal.append("solver resource limit in %s: %s" % (fn_of_line(ln) or "line %d" % ln, msg))
            else:
                ln = prim[0]["line_start"] if prim else 0
                fatal.append("verifier rejected the composed file (line %d, %s): %s" %
                             (ln, fn_of_line(ln) or "outside extracted code", msg.split("\n")[0][:200]))
            continue
        # attribute
        fids = [fn_of_line(s["line_start"]) for s in spans if s["file_name"].endswith(unit + ".rs")]
        fids = [f for f in fids if f]
        lab = None
        for s in spans:
            if not s["file_name"].endswith(unit + ".rs"):
                continue
            ln = s["line_start"]
            if ln in label_lines and s.get("is_primary"):
                lab = label_lines[ln]
            elif ln in label_lines and lab is None and "failed" in (s.get("label") or ""):
                lab = label_lines[ln]
        if lab is None:
            # loop invariants: primary span is the invariant clause
            for s in prim:
                if s["line_start"] in label_lines:
                    lab = label_lines[s["line_start"]]
        if lab is not None:
            key = (lab[0], lab[1])
            if key in obl:
                obl[key]["ok"] = False
                obl[key]["msg"] = msg
                continue
        tl = None
        for s in spans:
            if s["file_name"].endswith(unit + ".rs") and s["line_start"] in trait_labels:
                tl = trait_labels[s["line_start"]]
        if tl is not None and fids:
            key = (fids[0], tl[2])
            if key in obl:
                obl[key]["ok"] = False
                obl[key]["msg"] = msg
                continue
        if fids and "precondition" in low:
            hitp = False
            for s_ in spans:
                if s_["file_name"].endswith(unit + ".rs") and s_["line_start"] in pl_lines:
                    plab, callee = pl_lines[s_["line_start"]]
                    for fid_ in fids:
                        key = (fid_, "pre:%s:%s" % (plab, callee))
                        if key in obl:
                            obl[key]["ok"] = False
                            obl[key]["msg"] = msg
                            hitp = True
                            break
            if hitp:
                continue
        if fids:
            fid = fids[0]
            pl = [s["line_start"] for s in prim if s["line_start"] in panic_lines]
            if "precondition" in low and pl:
                hit = False
                for key, o in obl.items():
                    if o["fn"] == fid and o["kind"] == "panic" and o.get("line") == pl[0]:
                        o["ok"] = False
                        o["msg"] = "panic site reachable"
                        hit = True
                if hit:
                    continue
            o = obl[(fid, "body_safe")]
            o["ok"] = False
            where = prim[0]["text"][0]["text"].strip()[:100] if prim and prim[0].get("text") else ""
            o["msg"] = ((o["msg"] + " | ") if o["msg"] else "") + msg + (" @ `%s`" % where if where else "")
            continue
        # a failure outside extracted code: lemma / prelude -> framework error
        ln = prim[0]["line_start"] if prim else 0
        res.framework_errors.append("%s (line %d: %s)" % (msg, ln, lines[ln - 1].strip()[:120] if 0 < ln <= len(lines) else ""))

    res.obligations = list(obl.values())
    if fatal:
        res.status = "undecided"
        res.reason = "; ".join(fatal[:3])
    elif res.framework_errors:
        res.status = "undecided"
        res.reason = "spec-level lemma or prelude failed: " + "; ".join(res.framework_errors[:3])
    elif not out.get("verification-results"):
        res.status = "undecided"
        res.reason = "no verifier result (rc=%s): %s" % (p.returncode, p.stderr[-300:])
    # times
    try:
        tm = out["times-ms"]
        res.times = dict(total_ms=tm.get("total"), smt_ms=tm["smt"]["total"], per_fn={})
        for mod in tm["smt"].get("smt-run-module-times", []):
            for fb in mod.get("function-breakdown", []):
                res.times["per_fn"][fb["function"]] = dict(ms=fb["time"], rlimit=fb["rlimit"], ok=fb["success"])
        res.times["verified"] = out["verification-results"].get("verified")
        res.times["errors"] = out["verification-results"].get("errors")
    except Exception:
        pass
    return res
