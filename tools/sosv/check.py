"""Per-property check driver.  usage: check.py <PROPERTY> [--tier quick|thorough]
[--update-baseline] [--replay <file>]"""

import concurrent.futures as cf
import json
import os
import re
import subprocess
import sys
import time

from . import run as R
from . import compose as C

VERIF = C.VERIF


def load_json(path, default):
    try:
        with open(path) as fh:
            return json.load(fh)
    except FileNotFoundError:
        return default


def load_known():
    known, fixed = [], []
    p = os.path.join(VERIF, "known_findings.jsonl")
    if os.path.exists(p):
        for line in open(p):
            line = line.strip()
            if not line or line.startswith("#"):
                continue
            if line.startswith("fixed:"):
                fixed.append(line)
                continue
            known.append(json.loads(line))
    return known, fixed


def add_canary(text, meta, only=None):
    """vacuity canaries.
    only=None  (every run): `proof { assert(false); }` as the first statement of
               every extracted function: it must FAIL, otherwise the function's
               preconditions (or the axioms in scope) are contradictory.
    only=fid   (thorough, one function per run because a false postcondition
               would poison the callers): the function additionally promises
               `false`; that clause must FAIL, otherwise some callee contract it
               relies on is contradictory."""
    from .rlex import lex
    from . import extract as X
    lines = text.split("\n")
    ranges = meta["fn_ranges"]
    text2 = text
    pos = 0
    line_start = [0]
    for l in lines:
        pos += len(l) + 1
        line_start.append(pos)
    for fid, (a, b) in sorted(ranges.items(), key=lambda kv: -kv[1][0]):
        if only is not None and fid != only:
            continue
        seg_a = line_start[a]
        seg_b = line_start[b - 1]
        seg = text2[seg_a:seg_b]
        toks = lex(seg)
        try:
            fn = X.split_fn(toks)
        except Exception:
            continue
        if fn["body"] is None:
            continue
        bpos = toks[fn["body"]].pos
        if only is None:
            # Verus header statements (hide/reveal/broadcast use) must stay first in the body
            k = fn["body"] + 1
            ins = bpos + 1
            while k < len(toks):
                while k < len(toks) and toks[k].kind in ("ws", "comment", "doc"):
                    k += 1
                if k < len(toks) and toks[k].kind == "ident" and toks[k].text in ("hide", "reveal", "reveal_with_fuel", "broadcast"):
                    while k < len(toks) and toks[k].text != ";":
                        k += 1
                    ins = toks[k].pos + 1
                    k += 1
                    continue
                break
            seg = seg[:ins] + " proof { assert(false); } /*@CANARY:%s*/ " % fid + seg[ins:]
        else:
            head = seg[:bpos]
            has_ens = re.search(r"\bensures\b", head) is not None
            clause = ("        false, /*@CANARY:%s*/\n" % fid) if has_ens else ("\n    ensures\n        false, /*@CANARY:%s*/\n" % fid)
            bare = re.sub(r"/\*.*?\*/", "", head, flags=re.S).rstrip()
            if has_ens and not bare.endswith(","):
                head = head.rstrip() + ",\n"
            seg = head + clause + seg[bpos:]
        text2 = text2[:seg_a] + seg + text2[seg_b:]
    return text2


def canary_run(unit, only=None):
    """returns (ok, list of functions whose canary verified, reason)"""
    holder = {}

    def ov(text, meta):
        t2 = add_canary(text, meta, only)
        holder["text"] = t2
        return t2
    tag = "canary" if only is None else "canary-" + re.sub(r"[^A-Za-z0-9]+", "_", only)[-60:]
    res = R.run_unit(unit, text_override=ov, tag=tag)
    if res.meta is None or (res.status != "ok" and "resource limit" not in (res.reason or "")
                            and "spec-level lemma" not in (res.reason or "")):
        return False, [], res.reason
    text = holder.get("text", "")
    canary_lines = {}
    for ln, line in enumerate(text.split("\n"), 1):
        m = re.search(r"/\*@CANARY:(.*?)\*/", line)
        if m:
            canary_lines[ln] = m.group(1)
    failed = set()
    for e in res.raw_errors:
        for ln, lab, prim in e["spans"]:
            if ln in canary_lines:
                failed.add(canary_lines[ln])
    vac = [fid for fid in canary_lines.values() if fid not in failed]
    return True, vac, None


_CMD_CACHE = {}


def _run_cached(cmd, timeout):
    """one check run asks for the same witness command once (several failing labels of a unit share it)"""
    if cmd in _CMD_CACHE:
        return dict(_CMD_CACHE[cmd], cached=True)
    try:
        p = subprocess.run(cmd, shell=True, cwd=VERIF, capture_output=True, text=True, timeout=timeout)
        ent = dict(cmd=cmd, rc=p.returncode, stdout=p.stdout[-4000:], stderr=p.stderr[-1000:])
    except Exception as e:
        ent = dict(cmd=cmd, rc=2, error=str(e))
    _CMD_CACHE[cmd] = ent
    return ent


def witness_search(prop, unit, fn, label):
    """look for a concrete failing input on the real compiled code"""
    rules = load_json(os.path.join(VERIF, "witness.json"), [])
    key = "%s::%s" % (fn, label)
    tried = []
    for rule in rules:
        if "match" not in rule:
            continue
        m = re.search(rule["match"], key)
        if not m:
            continue
        for tmpl in rule["cmds"]:
            cmd = tmpl
            for i, g in enumerate(m.groups(), 1):
                cmd = cmd.replace("{%d}" % i, g or "")
            ent = _run_cached(cmd, rule.get("timeout", 1200))
            tried.append(ent)
            if ent.get("rc") == 1:
                return dict(found=True, cmd=cmd, failing_input=ent["stdout"].strip(), tried=tried)
        break
    if not tried:
        return None
    return dict(found=False, tried=tried)


def unit_witness(unit):
    """unit-level witnesses (witness.json entries with a "unit" key): bounded
    differential tests of the real code, used when the unit cannot be composed
    or verified after an edit (lost anchor, rejected construct) and as fallback
    for obligations without a specific witness"""
    rules = load_json(os.path.join(VERIF, "witness.json"), [])
    tried = []
    for rule in rules:
        if rule.get("unit") != unit:
            continue
        for cmd in rule["cmds"]:
            ent = _run_cached(cmd, rule.get("timeout", 1200))
            tried.append(ent)
            if ent.get("rc") == 1:
                return dict(found=True, cmd=cmd, failing_input=ent["stdout"].strip(), tried=tried)
    if not tried:
        return None
    return dict(found=False, tried=tried)


def main(argv):
    prop = argv[0]
    tier = os.environ.get("VERIF_TIER", "quick")
    update = False
    i = 1
    while i < len(argv):
        if argv[i] == "--tier":
            tier = argv[i + 1]
            i += 2
        elif argv[i] == "--update-baseline":
            update = True
            i += 1
        elif argv[i] == "--replay":
            return replay(prop, argv[i + 1])
        else:
            i += 1
    seed = int(os.environ.get("VERIF_SEED", "0") or 0)
    t0 = time.time()
    checks = load_json(os.path.join(VERIF, "checks.json"), {})
    if prop not in checks:
        print("UNDECIDED property=%s reason=no check registered" % prop)
        return 2
    units = checks[prop]["units"]
    known, fixed = load_known()
    known_p = [k for k in known if k["property"] == prop]

    with cf.ThreadPoolExecutor(max_workers=8) as ex:
        futs = {u: ex.submit(R.run_unit, u) for u in units}
        cfuts = {u: ex.submit(canary_run, u) for u in units}
        results = {u: f.result() for u, f in futs.items()}
        canaries = {u: f.result() for u, f in cfuts.items()}

    thorough = {}
    if tier == "thorough" and not update:
        from . import mutants as M
        for u in units:
            r = results[u]
            if r.meta is None:
                continue
            # (a) per-function `ensures false` canary: one function per run (a false
            #     postcondition would poison the callers), functions serving this property only
            fids = sorted({o["fn"] for o in r.obligations if prop in (o["props"] or [])})
            vac2 = []
            with cf.ThreadPoolExecutor(max_workers=12) as ex:
                futs = {fid: ex.submit(canary_run, u, fid) for fid in fids}
                for fid, f in futs.items():
                    ok, vac, reason = f.result()
                    if ok and vac:
                        vac2.extend(vac)
            # (b) contract-strength mutants of the extracted bodies
            try:
                mres = M.mutation_run(u, limit=int(os.environ.get("SOSV_MUTANTS", "48")), seed=seed)
            except Exception as e:
                mres = dict(error=str(e))
            thorough[u] = dict(ensures_false_canary=dict(functions=len(fids), verified_false=vac2), contract_mutation=mres)

    # bounded stand-ins (labelled bounded, never counted as proved): differential
    # tests of real functions that are NOT under contract, with a stated bound
    bounded_results = []
    if not update:
        for b in checks[prop].get("bounded", []):
            cmd = b["thorough_cmd"] if (tier == "thorough" and b.get("thorough_cmd")) else b["cmd"]
            try:
                pr = subprocess.run(cmd, shell=True, cwd=VERIF, capture_output=True, text=True, timeout=b.get("timeout", 1800))
                ent = dict(name=b["name"], cmd=cmd, bound=b["bound"], stands_in_for=b["stands_in_for"], rc=pr.returncode,
                           output=pr.stdout.strip()[-3000:], stderr=pr.stderr[-500:])
                # reachability of the oracle: a self-test command MUST report a finding (exit 1), otherwise the
                # bounded check proves nothing and is reported as unable to run
                if b.get("selftest_cmd") and ent["rc"] == 0:
                    st = subprocess.run(b["selftest_cmd"], shell=True, cwd=VERIF, capture_output=True, text=True, timeout=b.get("timeout", 1800))
                    ent["selftest"] = dict(cmd=b["selftest_cmd"], rc=st.returncode, expected_rc=1)
                    if st.returncode != 1:
                        ent["rc"] = 2
                        ent["stderr"] = "oracle self-test did not report its planted finding (rc=%s): %s" % (st.returncode, st.stdout[-200:])
            except Exception as e:
                ent = dict(name=b["name"], cmd=cmd, bound=b["bound"], stands_in_for=b["stands_in_for"], rc=2, output="", stderr=str(e))
            bounded_results.append(ent)

    # side conditions of extraction rules (syntactic, over the real source; reported separately, never counted as proved)
    side_results = []
    if not update:
        for sc in checks[prop].get("side_conditions", []):
            if sc == "loglint":
                from . import loglint
                try:
                    st = loglint.selftest()
                    lr = loglint.run()
                    side_results.append(dict(name="R2_log_arguments_carry_no_secret", selftest_ok=st, **lr))
                except Exception as e:
                    side_results.append(dict(name="R2_log_arguments_carry_no_secret", selftest_ok=False, error=str(e), hits=[], invocations=0, files=0))

    undecided = []
    all_obl = []
    witness_violations = []
    for u, r in results.items():
        if r.status != "ok":
            w = None
            if (r.reason or "").startswith(("extraction:", "verifier rejected")) and not update:
                w = unit_witness(u)
            if w is not None and w.get("found"):
                witness_violations.append((u, r.reason, w))
            else:
                undecided.append("%s: %s" % (u, r.reason))
        for o in r.obligations:
            if prop in (o["props"] or []):
                o = dict(o)
                o["unit"] = u
                all_obl.append(o)
    vacuous = []
    for u, (ok, vac, reason) in canaries.items():
        if not ok:
            undecided.append("%s canary: %s" % (u, reason))
        served = {o["fn"] for o in all_obl if o["unit"] == u}
        for fid in vac:
            if fid in served:
                vacuous.append("%s::%s" % (u, fid))
    for u, t in thorough.items():
        for fid in t["ensures_false_canary"]["verified_false"]:
            vacuous.append("%s::%s (callee contracts contradictory: `ensures false` verified)" % (u, fid))
    if vacuous:
        undecided.append("vacuous contract (canary `ensures false` verified) in: " + ", ".join(vacuous[:5]))

    baseline = {}
    for u in units:
        baseline[u] = set(load_json(os.path.join(VERIF, "baseline", u + ".labels.json"), []))

    if update:
        os.makedirs(os.path.join(VERIF, "baseline"), exist_ok=True)
        for u, r in results.items():
            if r.status != "ok":
                print("cannot update baseline for %s: %s" % (u, r.reason))
                continue
            labs = sorted("%s::%s" % (o["fn"], o["label"]) for o in r.obligations if o["ok"])
            with open(os.path.join(VERIF, "baseline", u + ".labels.json"), "w") as fh:
                json.dump(labs, fh, indent=0)
            print("baseline %s: %d discharged labels" % (u, len(labs)))
        return 0

    failed = [o for o in all_obl if not o["ok"]]
    violations, known_hits, never_passed = [], [], []
    for o in failed:
        k = next((k for k in known_p if k["function"] == o["fn"] and k["label"] == o["label"]), None)
        if k:
            known_hits.append((o, k))
        elif "%s::%s" % (o["fn"], o["label"]) in baseline[o["unit"]]:
            violations.append(o)
        else:
            never_passed.append(o)
    for o in never_passed:
        undecided.append("obligation %s [%s] fails and is neither in the baseline of discharged labels nor a listed finding: %s"
                         % (o["fn"], o["label"], o["msg"]))

    counted = [o for o in all_obl if not any(o is h[0] for h in known_hits)]
    n_obl = len(counted)
    n_ok = len([o for o in counted if o["ok"]])
    if n_obl == 0 and not undecided:
        undecided.append("no obligation generated for %s (vacuous run)" % prop)

    rc = 0
    out_lines = []
    os.makedirs(os.path.join(VERIF, "replay_out"), exist_ok=True)
    for o, k in known_hits:
        out_lines.append("KNOWN-FINDING: property=%s %s [%s] %s" % (prop, o["fn"], o["label"], k.get("what", "")))
    for o in violations:
        w = witness_search(prop, o["unit"], o["fn"], o["label"])
        if w is None or not w.get("found"):
            w2 = unit_witness(o["unit"])
            if w2 is not None and (w2.get("found") or w is None):
                w = w2
        slug = re.sub(r"[^A-Za-z0-9_]+", "_", "%s_%s_%s" % (prop, o["fn"].split("::", 1)[-1], o["label"]))[:150]
        rpath = os.path.join(VERIF, "replay_out", slug + ".json")
        r = results[o["unit"]]
        with open(rpath, "w") as fh:
            json.dump(dict(property=prop, unit=o["unit"], function=o["fn"], obligation=o["label"],
                           kind=o["kind"], verifier_message=o["msg"], verus_cmd=r.verus_cmd,
                           verifier_errors=[e for e in r.raw_errors][:20],
                           witness=w,
                           note="obligation was discharged on the unchanged tree (baseline/%s.labels.json) and fails on this tree" % o["unit"]),
                      fh, indent=1)
        tail = "" if (w and w.get("found")) else " no-failing-input-found"
        out_lines.append("VIOLATION property=%s replay=%s obligation=%s::[%s]%s" % (prop, rpath, o["fn"], o["label"], tail)
                         if not tail else
                         "VIOLATION property=%s replay=%s obligation=%s::[%s] no-failing-input-found" % (prop, rpath, o["fn"], o["label"]))
        rc = 1
    for u, reason, w in witness_violations:
        rpath = os.path.join(VERIF, "replay_out", "%s_%s_witness.json" % (prop, u))
        with open(rpath, "w") as fh:
            json.dump(dict(property=prop, unit=u, obligation="witness:%s" % u,
                           note="the unit's contracts could not be re-established on this tree (%s); a bounded differential test of the REAL compiled code against the executable transcription of the unit's top-level postconditions found a failing input" % reason,
                           witness=w), fh, indent=1)
        out_lines.append("VIOLATION property=%s replay=%s obligation=witness:%s (contracts not re-established: %s)" % (prop, rpath, u, (reason or "")[:160].replace("\n", " ")))
        rc = 1
    for ent in bounded_results:
        if ent["rc"] == 1:
            rpath = os.path.join(VERIF, "replay_out", "%s_bounded_%s.json" % (prop, ent["name"]))
            with open(rpath, "w") as fh:
                json.dump(dict(property=prop, obligation="bounded:%s" % ent["name"], bound=ent["bound"],
                               note="bounded differential check of real functions that are not under contract (%s) found a failing input" % ent["stands_in_for"],
                               witness=dict(found=True, cmd=ent["cmd"], failing_input=ent["output"])), fh, indent=1)
            out_lines.append("VIOLATION property=%s replay=%s obligation=bounded:%s" % (prop, rpath, ent["name"]))
            rc = 1
        elif ent["rc"] != 0:
            undecided.append("bounded check %s could not run: %s %s" % (ent["name"], ent["output"][-200:], ent["stderr"][-200:]))
    for sr in side_results:
        if sr.get("error") or not sr.get("selftest_ok") or not sr.get("invocations"):
            undecided.append("side condition %s could not be evaluated (%s)" % (sr["name"], sr.get("error") or "self-test failed or nothing scanned"))
            continue
        for h in sr["hits"]:
            rpath = os.path.join(VERIF, "replay_out", "%s_side_%s_%s_%d.json" % (prop, sr["name"], re.sub(r"[^A-Za-z0-9]+", "_", h["file"]), h["line"]))
            with open(rpath, "w") as fh:
                json.dump(dict(property=prop, obligation="side-condition:%s" % sr["name"], location="%s:%d" % (h["file"], h["line"]),
                               statement=h["args"], reason=h["why"],
                               note="rule R2 drops tracing macros from the verified text; that is only sound for C03 if no log statement carries secret material. "
                                    "This statement mentions a value of a secret-bearing type; it is written to the application log file by sos_logs."), fh, indent=1)
            out_lines.append("VIOLATION property=%s replay=%s obligation=side-condition:%s %s:%d no-failing-input-found" % (prop, rpath, sr["name"], h["file"], h["line"]))
            rc = 1
    if rc == 0 and undecided:
        rc = 2
        for u in undecided:
            out_lines.append("UNDECIDED property=%s reason=%s" % (prop, u.replace("\n", " ")[:600]))

    # evidence
    trusted, assumptions = [], []
    solver_ms, rules = {}, {}
    fns = sorted({o["fn"] for o in all_obl})
    for u, r in results.items():
        trusted.extend(r.assumptions)
        for k, v in (r.times.get("per_fn") or {}).items():
            solver_ms["%s::%s" % (u, k)] = v["ms"]
        for k, v in r.rule_counts.items():
            rules[k] = rules.get(k, 0) + v
    cfgp = checks[prop]
    entry_pre = {}
    for u, r in results.items():
        if r.meta:
            for f in r.meta["functions"]:
                if f.get("requires_text") and f["id"] in fns:
                    entry_pre[f["id"]] = f["requires_text"]
    ev = dict(
        property_id=prop, tier=tier, seed=seed, level=cfgp.get("level", "proof"),
        coverage=dict(
            obligations=n_obl, discharged=n_ok,
            checker_cmd="; ".join(r.verus_cmd for r in results.values()),
            trusted_base=sorted(set(trusted)),
            functions_under_contract=fns,
            samples=[dict(function=o["fn"], obligation=o["label"], kind=o["kind"], discharged=o["ok"]) for o in counted[:60]],
            entry_preconditions=entry_pre,
            known_finding_labels=["%s::[%s]" % (o["fn"], o["label"]) for o, k in known_hits],
            undecided=undecided,
            back_end="Verus 0.2026.09.13 (Z3 via AIR); per-function obligations discharged modularly against callee contracts",
            solver_ms=solver_ms,
            solver_total_ms={u: r.times.get("smt_ms") for u, r in results.items()},
            verus_verified_items={u: r.times.get("verified") for u, r in results.items()},
            extraction_rules=rules,
            units=units,
            canary="every function under contract re-verified with an added `ensures false`: each must fail; vacuous=%s" % vacuous,
            thorough=thorough,
            explanation=cfgp.get("explanation", ""),
            bounded_checks=[dict(name=e["name"], bound=e["bound"], stands_in_for=e["stands_in_for"], cmd=e["cmd"],
                                 outcome=("no failing input within the bound" if e["rc"] == 0 else ("FAILING INPUT FOUND" if e["rc"] == 1 else "could not run")),
                                 note="bounded stand-in: not counted in obligations/discharged") for e in bounded_results],
            side_conditions=[dict(name=sr["name"], scanned_invocations=sr.get("invocations"), files=sr.get("files"), hits=sr.get("hits"), selftest_ok=sr.get("selftest_ok"),
                                  note="syntactic side condition of extraction rule R2 over every tracing macro of crates/*/src (see tools/sosv/loglint.py for the exact shapes recognised); not a proof, not counted in obligations/discharged") for sr in side_results],
            observations=cfgp.get("observations", []),
        ),
        assumptions=cfgp.get("assumptions", []) + ["every entry of coverage.trusted_base is an assumed contract"],
        wall_s=round(time.time() - t0, 2),
        violations=len(violations) + len(witness_violations) + len([e for e in bounded_results if e["rc"] == 1]) + sum(len(sr.get("hits", [])) for sr in side_results),
    )
    evdir = os.path.join(VERIF, "evidence")
    if os.environ.get("SOSV_REPO", "/repo") != "/repo":
        evdir = os.path.join(VERIF, "build", "evidence-scratch")   # development runs against a copy never touch the evidence
    os.makedirs(evdir, exist_ok=True)
    with open(os.path.join(evdir, prop + ".json"), "w") as fh:
        json.dump(ev, fh, indent=1)
    for l in out_lines:
        print(l)
    print("%s: %d/%d obligations discharged over %d functions in units %s (%.1fs)%s" % (
        prop, n_ok, n_obl, len(fns), ",".join(units), time.time() - t0,
        "" if rc == 0 else (" -- VIOLATION" if rc == 1 else " -- UNDECIDED")))
    return rc


def replay(prop, path):
    d = json.load(open(path))
    print(json.dumps(d, indent=1)[:4000])
    w = d.get("witness")
    if w and w.get("found") and w.get("cmd"):
        print("re-running the witness on the current tree: %s" % w["cmd"])
        p = subprocess.run(w["cmd"], shell=True, cwd=VERIF)
        return p.returncode
    # re-run the check; the obligation must still fail
    return main([prop])


if __name__ == "__main__":
    sys.exit(main(sys.argv[1:]))
