import sys, os, json
from . import compose as C

def main():
    cmd = sys.argv[1]
    if cmd == "compose":
        unit = sys.argv[2]
        out = sys.argv[3]
        text, meta, log = C.compose(unit)
        os.makedirs(os.path.dirname(out), exist_ok=True)
        open(out, "w").write(text)
        json.dump(meta, open(out + ".meta.json", "w"), indent=1)
        with open(out + ".extraction.log", "w") as fh:
            for e in log.entries:
                fh.write("%s\t%s\t%s\t=>\t%s\n" % e)
        print("composed", out, "functions:", len(meta["functions"]), "rules:", log.counts)

main()
