"""Compose one Verus file from a unit template (units/<unit>.vrs): prelude
includes, hand-written spec text, and `//@extract` directives that pull the
real item text out of /repo, apply the rewrite catalogue and weave in the
contracts.  Produces the file text plus a line map of functions, labelled
clauses and panic sites."""

import os
import re
from .rlex import (lex, sig, norm, untok, match_close, Tok, WS, COMMENT, DOC,
                   IDENT, PUNCT)
from . import extract as X
from .extract import ExtractError

VERIF = os.path.dirname(os.path.dirname(os.path.dirname(os.path.abspath(__file__))))
REPO = os.environ.get("SOSV_REPO", "/repo")

PROP_RE = re.compile(r"^C[0-9]{2,3}$")


class FnSpec:
    def __init__(self, name):
        self.name = name
        self.serves = None
        self.requires = []      # (label, expr)
        self.ensures = []       # (label, props, expr)
        self.loops = {}         # n -> dict(invariant=[(label, props, expr)], decreases=expr, extra=[...])
        self.hints = []         # (mode, anchor, text)
        self.rewrites = []      # (rid, before, after, expect)
        self.attrs = []
        self.ret = "r"
        self.opts = set()
        self.lift = None
        self.twin = None        # signature of a spec fn sharing this fn's body verbatim


class ExtractDirective:
    def __init__(self, path, item, lineno):
        self.path, self.item, self.lineno = path, item, lineno
        self.serves = []
        self.attrs = []
        self.inject = []
        self.rewrites = []
        self.fns = []           # FnSpec, in order
        self.top = FnSpec(None)  # directives given before any `fn` line
        self.header_rewrite = None
        self.opts = set()
        self.renames = []       # R15 (identifier, replacement)


def _parse_label(s):
    """'[label; C14,C15] expr' -> (label, props|None, expr)"""
    s = s.strip()
    if not s.startswith("["):
        raise ExtractError("clause without [label]: %s" % s)
    e = s.index("]")
    inner = s[1:e]
    expr = s[e + 1:].strip()
    props = None
    if ";" in inner:
        label, p = inner.split(";", 1)
        props = [x.strip() for x in p.replace(",", " ").split() if x.strip()]
    else:
        label = inner
    return label.strip(), props, expr


_RW = re.compile(r'^(R\d+[a-z]?)\s+"((?:[^"\\]|\\.)*)"\s*=>\s*"((?:[^"\\]|\\.)*)"\s*(?:x(\d+|\*|\?))?$', re.S)


def _unq(s):
    return s.replace('\\"', '"').replace("\\\\", "\\")


def parse_unit(path):
    """returns list of segments: ('text', str, first_line) | ('include', relpath) |
    ('extract', ExtractDirective)"""
    segs = []
    cur_text = []
    cur_line = 1
    d = None
    f = None
    last = None   # callable to append continuation text
    with open(path) as fh:
        lines = fh.read().split("\n")
    for ln, line in enumerate(lines, 1):
        st = line.strip()
        if not st.startswith("//@"):
            if d is not None:
                if st == "":
                    continue
                raise ExtractError("%s:%d: text inside //@extract block (missing //@end)" % (path, ln))
            cur_text.append(line)
            continue
        body = st[3:].strip()
        if body.startswith("#") or body == "":
            continue
        if body.startswith("|"):
            if last is None:
                raise ExtractError("%s:%d: continuation without clause" % (path, ln))
            last(" " + body[1:].strip())
            continue
        word, _, rest = body.partition(" ")
        rest = rest.strip()
        if d is None:
            if cur_text:
                segs.append(("text", "\n".join(cur_text), cur_line))
                cur_text = []
            cur_line = ln + 1
            if word == "include":
                segs.append(("include", rest))
            elif word == "extract":
                parts = [p.strip() for p in rest.split("::", 1)]
                # path :: item   (item may itself contain '::')
                d = ExtractDirective(parts[0], parts[1], ln)
                f = d.top
                last = None
            elif word == "unit":
                segs.append(("unit", rest))
            elif word == "pin":
                # //@pin <file> :: <item> sha256=<hex16>   (trusted text that an assumed contract was read from)
                m = re.match(r"^(\S+)\s*::\s*(.*?)\s+sha256=([0-9a-f]+|\?)$", rest)
                if not m:
                    raise ExtractError("%s:%d: bad pin directive" % (path, ln))
                segs.append(("pin", m.group(1), m.group(2), m.group(3), ln))
            elif word == "safety_props":
                segs.append(("safety_props", rest.split()))
            elif word == "strip_paths":
                _strip_set().update(rest.split())
            else:
                raise ExtractError("%s:%d: unknown directive %s" % (path, ln, word))
            continue
        # inside an extract block
        if word == "end":
            segs.append(("extract", d))
            d = None
            f = None
            cur_line = ln + 1
            continue
        if word == "fn":
            f = FnSpec(rest)
            d.fns.append(f)
            last = None
            continue
        if word == "serves":
            props = rest.split()
            if f is d.top:
                d.serves = props
            else:
                f.serves = props
            continue
        if word == "attr":
            (d.attrs if f is d.top else f.attrs).append(rest)
            continue
        if word == "opt":
            (d.opts if f is d.top else f.opts).update(rest.split())
            continue
        if word == "inject":
            d.inject.append(rest)
            idx = len(d.inject) - 1

            def _a(s, idx=idx, d=d):
                d.inject[idx] += "\n" + s
            last = _a
            continue
        if word == "rewrite":
            m = _RW.match(rest)
            if not m:
                raise ExtractError("%s:%d: bad rewrite directive" % (path, ln))
            exp = m.group(4)
            exp = None if exp == "*" else (-1 if exp == "?" else (int(exp) if exp else 1))
            (d.rewrites if f is d.top else f.rewrites).append(
                (m.group(1), _unq(m.group(2)), _unq(m.group(3)), exp))
            last = None
            continue
        if word == "header":
            d.header_rewrite = rest
            continue
        if word == "rename":
            a, b = rest.split()
            d.renames.append((a, b))
            continue
        if word == "id":
            f.id_suffix = rest.strip()
            continue
        if word == "tlprops":
            # tlprops <trait label> <property ids...>: property list of a trait-level label for this fn
            parts_ = rest.split()
            if not hasattr(f, "tlprops"):
                f.tlprops = {}
            f.tlprops[parts_[0]] = parts_[1:]
            continue
        if word == "lift":
            # lift after "<anchor>" [nth K] as "<signature>" [tail "<text>"]
            m = re.match(r'^after\s+"((?:[^"\\]|\\.)*)"\s*(?:nth\s+(\d+)\s*)?as\s+"((?:[^"\\]|\\.)*)"\s*(?:tail\s+"((?:[^"\\]|\\.)*)")?\s*$', rest, re.S)
            if not m:
                raise ExtractError("%s:%d: bad lift directive" % (path, ln))
            f.lift = (_unq(m.group(1)), int(m.group(2) or 1), _unq(m.group(3)), _unq(m.group(4) or ""))
            continue
        if word == "twin":
            f.twin = rest
            continue
        if word == "ret":
            f.ret = rest
            continue
        if word == "requires":
            lab, props, expr = _parse_label(rest) if rest.startswith("[") else (None, None, rest)
            f.requires.append([lab, expr])
            ent = f.requires[-1]

            def _a(s, ent=ent):
                ent[1] += s
            last = _a
            continue
        if word == "ensures":
            lab, props, expr = _parse_label(rest)
            f.ensures.append([lab, props, expr])
            ent = f.ensures[-1]

            def _a(s, ent=ent):
                ent[2] += s
            last = _a
            continue
        if word == "loop":
            n, kind, tail = rest.split(None, 2) if len(rest.split(None, 2)) == 3 else (rest.split(None, 1) + [""])
            n = int(n)
            L = f.loops.setdefault(n, dict(invariant=[], decreases=None, kind="invariant"))
            if kind in ("invariant", "invariant_except_break", "ensures"):
                lab, props, expr = _parse_label(tail)
                ent = [lab, props, expr, kind]
                L["invariant"].append(ent)

                def _a(s, ent=ent):
                    ent[2] += s
                last = _a
            elif kind == "decreases":
                L["decreases"] = tail
                last = None
            else:
                raise ExtractError("%s:%d: bad loop clause" % (path, ln))
            continue
        if word == "hint":
            m = re.match(r'^(after|before)\s+"((?:[^"\\]|\\.)*)"\s*:\s*(.*)$', rest, re.S)
            if m:
                ent = [m.group(1), _unq(m.group(2)), m.group(3)]
            else:
                m = re.match(r'^(start|end)\s*:\s*(.*)$', rest, re.S)
                if not m:
                    raise ExtractError("%s:%d: bad hint" % (path, ln))
                ent = [m.group(1), None, m.group(2)]
            f.hints.append(ent)

            def _a(s, ent=ent):
                ent[2] += "\n" + s
            last = _a
            continue
        raise ExtractError("%s:%d: unknown directive %s" % (path, ln, word))
    if d is not None:
        raise ExtractError("%s: unterminated //@extract" % path)
    if cur_text:
        segs.append(("text", "\n".join(cur_text), cur_line))
    return segs


# ---------------------------------------------------------------------------


def _insert_hints(text, hints, where):
    """text is a fn item; hints anchored on normalised statement text"""
    for mode, anchor, htext in hints:
        toks = lex(text)
        fn = X.split_fn(toks)
        if mode == "start":
            p = toks[fn["body"]].pos + 1
            text = text[:p] + " " + htext + " " + text[p:]
            continue
        if mode == "end":
            p = toks[fn["end"]].pos
            text = text[:p] + " " + htext + " " + text[p:]
            continue
        st = [t for t in sig(toks) if t.pos >= toks[fn["body"]].pos]
        pat = [t.text for t in sig(lex(anchor))]
        hits = []
        for i in range(len(st) - len(pat) + 1):
            if [t.text for t in st[i:i + len(pat)]] == pat:
                hits.append((st[i].pos, st[i + len(pat) - 1].pos + len(st[i + len(pat) - 1].text)))
        if len(hits) != 1:
            raise ExtractError("%s: hint anchor `%s` matches %d places (lost anchor)"
                               % (where, anchor, len(hits)))
        a, b = hits[0]
        p = a if mode == "before" else b
        text = text[:p] + " " + htext + " " + text[p:]
    return text


def _lift_block(text, lift, log, where):
    """R11: the `{ ... }` block that follows the anchor text becomes the body of a
    plain fn with the declared signature (captured variables = its parameters).
    Only the block is kept, verbatim; everything around it (spawn / closure /
    stream plumbing) is dropped, and edits outside the block do not matter."""
    anchor, nth, sigtext, tail = lift
    toks = lex(text)
    st = sig(toks)
    pat = [t.text for t in sig(lex(anchor))]
    hits = []
    for i in range(len(st) - len(pat) + 1):
        if [t.text for t in st[i:i + len(pat)]] == pat:
            hits.append(i + len(pat) - 1)
    if len(hits) < nth:
        raise ExtractError("%s: lift anchor `%s` found %d time(s), need #%d (lost anchor)" % (where, anchor, len(hits), nth))
    last = st[hits[nth - 1]]
    # first `{` at or after the end of the anchor
    k = toks.index(last)
    if not (last.kind == PUNCT and last.text == "{"):
        k += 1
        while k < len(toks) and not (toks[k].kind == PUNCT and toks[k].text == "{"):
            if toks[k].kind == PUNCT and toks[k].text in ("(", "["):
                k = match_close(toks, k)
            k += 1
    if k >= len(toks):
        raise ExtractError("%s: lift anchor `%s`: no block follows" % (where, anchor))
    e = match_close(toks, k)
    inner = untok(toks[k + 1:e])
    log.add("R11", where, "block after `%s`" % anchor[:60], sigtext[:80])
    return "%s {%s\n%s }" % (sigtext, inner, tail)


def _weave_fn(text, fs, fid, dserves, log, where, meta, in_trait_impl):
    """text: one rewritten fn item (string).  Returns woven text."""
    if fs is None:
        fs = FnSpec(None)
    if fs.lift:
        text = _lift_block(text, fs.lift, log, where)
    if fs.rewrites:
        text = X.apply_pattern_rewrites(text, fs.rewrites, log, where)
    text = X.rewrite_slice_try_into(text, log, where)
    # R14: `mut self` receiver
    toks = lex(text)
    fn = X.split_fn(toks)
    params = sig(toks[fn["lp"] + 1:fn["rp"]])
    if len(params) >= 2 and params[0].text == "mut" and params[1].text == "self":
        log.add("R14", where, "mut self", "self + let mut this = self")
        a = params[0].pos
        text = text[:a] + text[a:].replace("mut self", "self", 1)
        toks = lex(text)
        fn = X.split_fn(toks)
        bpos = toks[fn["body"]].pos
        body = text[bpos + 1:toks[fn["end"]].pos]
        btoks = lex(body)
        for t in btoks:
            if t.kind == IDENT and t.text == "self":
                t.text = "this"
        text = text[:bpos + 1] + " let mut this = self; " + untok(btoks) + text[toks[fn["end"]].pos:]
    twin_text = ""
    if fs.twin:
        toks = lex(text)
        fn = X.split_fn(toks)
        btoks = toks[fn["body"]:fn["end"] + 1]
        if "self_" in fs.twin:
            for t in btoks:
                if t.kind == IDENT and t.text == "self":
                    t.text = "self_"
        if getattr(fs, "self_ty", None):
            for t in btoks:
                if t.kind == IDENT and t.text == "Self":
                    t.text = fs.self_ty
        twin_text = "%s %s\n" % (fs.twin, untok(btoks))
        toks = lex(text)
        fn = X.split_fn(toks)
        meta.setdefault("twins", []).append(dict(fn=fid, twin=fs.twin))
    text = _insert_hints(text, fs.hints, where)
    toks = lex(text)
    fn = X.split_fn(toks)
    if fn["body"] is None:
        raise ExtractError("%s: fn without body" % where)
    serves = fs.serves if fs.serves is not None else dserves
    entry = dict(id=fid, serves=serves, labels={}, loops=0, panics=0,
                 tlprops=getattr(fs, "tlprops", {}),
                 requires=len(fs.requires), requires_text=[" ".join(e.split())[:300] for _l, e in fs.requires], where=where)
    meta["functions"].append(entry)

    # loops (insert from last to first so positions stay valid)
    loops = X.find_loops(toks, fn["body"], fn["end"])
    entry["loops"] = len(loops)
    inserts = []   # (pos, text)
    for n, L in fs.loops.items():
        if n < 1 or n > len(loops):
            raise ExtractError("%s: loop %d not found (has %d loops)" % (where, n, len(loops)))
        kwi, bi = loops[n - 1]
        parts = []
        by_kind = {}
        for lab, props, expr, kind in L["invariant"]:
            by_kind.setdefault(kind, []).append((lab, props, expr))
        for kind in ("invariant_except_break", "invariant", "ensures"):
            if kind in by_kind:
                parts.append("\n        " + kind)
                for lab, props, expr in by_kind[kind]:
                    parts.append("\n            %s, /*@L:%s:%s*/" % (expr, fid, lab))
                    entry["labels"][lab] = dict(kind="loop_" + kind, props=props or serves, loop=n)
        if L["decreases"]:
            parts.append("\n        decreases %s," % L["decreases"])
        inserts.append((toks[bi].pos, "".join(parts) + "\n    "))
    # contract
    contract = []
    if fs.requires:
        contract.append("\n    requires")
        for lab, expr in fs.requires:
            contract.append("\n        %s," % expr)
    if fs.ensures:
        contract.append("\n    ensures")
        for lab, props, expr in fs.ensures:
            contract.append("\n        %s, /*@L:%s:%s*/" % (expr, fid, lab))
            entry["labels"][lab] = dict(kind="ensures", props=props or serves)
    if contract:
        inserts.append((toks[fn["body"]].pos, "".join(contract) + "\n"))
    # named return
    if fn["arrow"] is not None:
        a = fn["arrow"]
        stop = fn["where"] if fn["where"] is not None else fn["body"]
        k = a + 1
        while toks[k].kind in (WS, COMMENT):
            k += 1
        e = stop - 1
        while toks[e].kind in (WS, COMMENT):
            e -= 1
        rt = untok(toks[k:e + 1])
        if not rt.startswith("(" + fs.ret + ":") and rt.strip() != "!":
            inserts.append((toks[k].pos, "(" + fs.ret + ": "))
            inserts.append((toks[e].pos + len(toks[e].text), ")"))
    inserts.sort(key=lambda x: x[0], reverse=True)
    for pos, ins in inserts:
        text = text[:pos] + ins + text[pos:]
    entry["panics"] = text.count("vpanic()")
    attrs = "".join(a + "\n" for a in fs.attrs)
    if twin_text:
        meta.setdefault("twin_texts", {})[fid] = twin_text
    return "/*@FN:%s*/\n%s%s\n/*@ENDFN:%s*/" % (fid, attrs, text, fid)


import threading
_TLS = threading.local()


def _strip_set():
    if not hasattr(_TLS, "strip"):
        _TLS.strip = set()
    return _TLS.strip


def _strip_paths(text, log, where):
    """R17: module path prefixes (`crate::`, `crypto::` ...) are dropped: the
    single composed file has one flat namespace; only name resolution changes."""
    STRIP_PATHS = _strip_set()
    if not STRIP_PATHS:
        return text
    toks = lex(text)
    st = sig(toks)
    drop = set()
    n = 0
    prefixes = sorted((p.split("::") for p in STRIP_PATHS), key=len, reverse=True)
    i = 0
    while i < len(st):
        t = st[i]
        if t.kind == IDENT and not (i >= 1 and st[i - 1].text == "::"):
            for pre in prefixes:
                k = len(pre)
                seq = st[i:i + 2 * k]
                if len(seq) == 2 * k and all(seq[2 * j].text == pre[j] and seq[2 * j + 1].text == "::" for j in range(k)):
                    for x in seq:
                        drop.add(id(x))
                    n += 1
                    i += 2 * k - 1
                    break
        i += 1
    if n:
        log.add("R17", where, "module path prefix x%d" % n, "")
    return untok([t for t in toks if id(t) not in drop])


def _widen(text, log, where):
    """R16: `pub(crate)` / `pub(super)` -> `pub` (visibility only)"""
    new, n = re.subn(r"\bpub\s*\(\s*(crate|super)\s*\)", "pub", text)
    if n:
        log.add("R16", where, "pub(crate) x%d" % n, "pub")
    return new


def _rename(text, renames, log, where):
    text = _widen(text, log, where)
    text = _strip_paths(text, log, where)
    return _rename0(text, renames, log, where)


def _rename0(text, renames, log, where):
    """R15: identifier renaming to resolve names that the dropped `use` lines
    resolved (e.g. `Error` = crate::Error in one file, io::Error in another)"""
    if not renames:
        return text
    toks = lex(text)
    m = dict(renames)
    n = 0
    st = sig(toks)
    for i, t in enumerate(st):
        if t.kind == IDENT and t.text in m:
            if i >= 1 and st[i - 1].text == "type":
                continue
            if i >= 2 and st[i - 1].text == "::" and st[i - 2].text == "Self":
                continue
            t.text = m[t.text]
            n += 1
    if n:
        log.add("R15", where, ",".join(a for a, b in renames), ",".join(b for a, b in renames))
    return untok(toks)


def _read_repo(path):
    with open(os.path.join(REPO, path)) as fh:
        return fh.read()


def expand_extract(d, log, meta, unit_path):
    src = _read_repo(d.path)
    toks = lex(src)
    short = d.path.replace("crates/", "").replace("/src/", "/")
    if norm(d.item) == "consts":
        # every top-level `const` item of the file, verbatim
        outc = []
        for k, ki, s_, e_ in X.iter_items(toks):
            if k == "const":
                where = "%s:%d" % (d.path, X._line_of(src, toks[s_].pos))
                ctext = _rename(untok(X.rewrite(toks[s_:e_ + 1], log, where)), d.renames, log, where).strip()
                if re.match(r"^pub\s*\(\s*crate\s*\)", ctext):
                    log.add("R16", where, "pub(crate) const", "pub const")
                    ctext = re.sub(r"^pub\s*\(\s*crate\s*\)\s*", "pub ", ctext)
                if not ctext.startswith("pub"):
                    log.add("R16", where, "const", "pub const")
                    ctext = "pub " + ctext
                outc.append(ctext)
        if not outc:
            raise ExtractError("%s: no const items in %s" % (unit_path, d.path))
        meta["items"].append(dict(path=d.path, item="consts", n=len(outc)))
        return "\n".join(outc) + "\n"
    method_of = None
    if norm(d.item).startswith("method "):
        # `method <impl header> :: <name>`: ONE method of an impl block taken as a free-standing fn item
        # (for `lift`: a block of the method becomes a plain fn; the impl context is dropped)
        hdr_spec, mname = d.item.strip()[len("method "):].rsplit("::", 1)
        if hdr_spec.strip().startswith("impl ") or hdr_spec.strip().startswith("impl<"):
            hdr_spec = hdr_spec.strip()[4:]
        method_of = norm("impl " + hdr_spec.strip())
        mname = mname.strip()
        cands = []
        for s_, e_, ki_, dp_ in X.find_item(toks, "impl " + hdr_spec.strip()):
            hdr_, bi_ = X._impl_header(toks, ki_)
            be_ = match_close(toks, bi_)
            for k2, ki2, s2, e2 in X.iter_items(toks, bi_ + 1, be_):
                if k2 == "fn" and X._name_after(toks, ki2) == mname:
                    cands.append((s2, e2, ki2, 0))
        d_item_for_kw = "fn " + mname
    else:
        cands = X.find_item(toks, d.item)
        d_item_for_kw = d.item
    if not cands:
        raise ExtractError("%s:%d: item `%s` not found in %s (lost anchor)"
                           % (unit_path, d.lineno, d.item, d.path))
    kw = norm(d_item_for_kw).split(" ", 1)[0]
    top = [c for c in cands if c[3] == 0]
    if len(cands) > 1 and len(top) >= 1:
        cands = top
    meta["items"].append(dict(path=d.path, item=d.item))
    if kw != "impl" and not (kw == "trait" and d.fns):
        if len(cands) != 1:
            raise ExtractError("%s: item `%s` is ambiguous (%d)" % (d.path, d.item, len(cands)))
        s, e, ki, _dp = cands[0]
        where = "%s:%d" % (d.path, X._line_of(src, toks[s].pos))
        itoks = X.rewrite(toks[s:e + 1], log, where)
        text = _rename(untok(itoks), d.renames, log, where)
        post_lift = kw == "fn" and d.top.lift and "lift_first" in d.opts
        if d.rewrites and not post_lift:
            text = X.apply_pattern_rewrites(text, d.rewrites, log, where)
        attrs = "".join(a + "\n" for a in d.attrs)
        if kw == "fn":
            fs = d.top
            if post_lift:
                # `opt lift_first`: the declared rewrites (and their site counts) refer to the LIFTED block only
                fs.rewrites = list(d.rewrites)
            fs.name = norm(d_item_for_kw).split(" ")[1]
            fs.rewrites = fs.rewrites or []
            fid = "%s::%s" % (short, fs.name) if method_of is None else "%s::%s::%s" % (short, method_of, fs.name)
            if getattr(fs, "id_suffix", None):
                fid += "#" + fs.id_suffix
            w = _weave_fn(text, fs, fid, d.serves, log, where, meta, False)
            return attrs + w + "\n" + meta.get("twin_texts", {}).pop(fid, "")
        return attrs + text
    # impl: choose the block(s) holding the requested fns
    want = [f.name for f in d.fns]
    out_fns = []
    header_text = None
    found = set()
    is_trait_impl = " for " in (" " + norm(d.item) + " ")
    for s, e, ki, _dp in cands:
        hdr, bi = X._impl_header(toks, ki)
        be = match_close(toks, bi)
        for k2, ki2, s2, e2 in X.iter_items(toks, bi + 1, be):
            if k2 != "fn":
                if k2 in ("type", "const") and (not want or "opt_assoc" in d.opts or is_trait_impl):
                    where = "%s:%d" % (d.path, X._line_of(src, toks[s2].pos))
                    out_fns.append(_rename(untok(X.rewrite(toks[s2:e2 + 1], log, where)), d.renames, log, where))
                continue
            name = X._name_after(toks, ki2)
            if want and name not in want:
                continue
            if name in found:
                raise ExtractError("%s: fn %s found twice in `%s`" % (d.path, name, d.item))
            found.add(name)
            where = "%s:%d" % (d.path, X._line_of(src, toks[s2].pos))
            ftoks = X.rewrite(toks[s2:e2 + 1], log, where)
            ftext = _rename(untok(ftoks), d.renames, log, where)
            if d.rewrites:
                # block-level rules apply to every fn of the block where they match (each rule on its own)
                ftext = X.apply_pattern_rewrites(
                    ftext, [(a, b, c, -1) for a, b, c, _ in d.rewrites], log, where)
            fs = next((f for f in d.fns if f.name == name), None)
            if fs is not None:
                hn = norm(d.item)
                fs.self_ty = hn.split(" for ", 1)[1] if " for " in hn else hn.split(" ", 1)[1]
            fid = "%s::%s::%s" % (short, norm(d.item), name)
            if fs is not None and getattr(fs, "id_suffix", None):
                fid += "#" + fs.id_suffix
            out_fns.append(_weave_fn(ftext, fs, fid, d.serves, log, where, meta, is_trait_impl))
        if header_text is None:
            hs = s
            # header tokens: from item start (after attrs dropped) to '{'
            header_text = _rename(untok(X.rewrite(toks[s:bi], log, "%s:%d" % (d.path, X._line_of(src, toks[s].pos)))), d.renames, log, d.path)
    missing = [w for w in want if w not in found]
    if missing:
        raise ExtractError("%s:%d: fn(s) %s not found in `%s` of %s (lost anchor)"
                           % (unit_path, d.lineno, ", ".join(missing), d.item, d.path))
    if d.header_rewrite:
        header_text = d.header_rewrite
    attrs = "".join(a + "\n" for a in d.attrs)
    body = "\n".join(d.inject) + ("\n" if d.inject else "") + "\n\n".join(out_fns)
    twins = "".join(meta.get("twin_texts", {}).values())
    meta["twin_texts"] = {}
    return "%s%s {\n%s\n}\n%s" % (attrs, header_text.rstrip(), body, twins)


def _check_pin(seg, meta, unit_path):
    """An assumed contract (e.g. an SQL-backed entity function) is only valid for the
    source text it was read from: hash the normalised token text of the item and
    withdraw the contract (UNDECIDED, never an alarm) when it differs."""
    import hashlib
    _, path, item, want, ln = seg
    src = _read_repo(path)
    toks = lex(src)
    cands = X.find_item(toks, item)
    texts = []
    for s_, e_, ki, dp in cands:
        texts.append(norm(toks[s_:e_ + 1]))
    if not cands and norm(item).startswith("fn "):
        # a method: look inside every impl / trait block of the file
        name = norm(item).split(" ")[1]
        for k, ki, s_, e_ in X.iter_items(toks):
            if k in ("impl", "trait"):
                _h, bi = X._impl_header(toks, ki)
                be = match_close(toks, bi)
                for k2, ki2, s2, e2 in X.iter_items(toks, bi + 1, be):
                    if k2 == "fn" and X._name_after(toks, ki2) == name:
                        texts.append(norm(toks[s2:e2 + 1]))
    if not texts:
        raise ExtractError("%s:%d: pinned item `%s` not found in %s (lost anchor)" % (unit_path, ln, item, path))
    got = hashlib.sha256("\n".join(texts).encode()).hexdigest()[:16]
    meta.setdefault("pins", []).append(dict(path=path, item=item, sha256=got))
    if want == "?":
        return "// pin %s :: %s sha256=%s (unpinned: fill in)\n" % (path, item, got)
    if got != want:
        raise ExtractError("%s:%d: pinned text changed: %s :: %s (recorded %s, now %s) - the assumed contract read from it is withdrawn"
                           % (unit_path, ln, path, item, want, got))
    return "// pin %s :: %s sha256=%s ok\n" % (path, item, got)


def compose(unit_path):
    _TLS.strip = set()
    log = X.Log()
    meta = dict(functions=[], items=[], includes=[], unit=os.path.basename(unit_path))
    segs = parse_unit(unit_path)
    parts = []
    for seg in segs:
        if seg[0] == "text":
            parts.append(seg[1])
        elif seg[0] == "include":
            p = os.path.join(VERIF, seg[1])
            meta["includes"].append(seg[1])
            # includes may themselves hold directives
            sub = parse_unit(p)
            for s2 in sub:
                if s2[0] == "text":
                    parts.append("// ---- include %s\n%s" % (seg[1], s2[1]))
                elif s2[0] == "extract":
                    parts.append(expand_extract(s2[1], log, meta, p))
                elif s2[0] == "include":
                    raise ExtractError("nested include in %s" % seg[1])
        elif seg[0] == "extract":
            parts.append(expand_extract(seg[1], log, meta, unit_path))
        elif seg[0] == "unit":
            meta["unit_name"] = seg[1]
        elif seg[0] == "safety_props":
            meta["safety_props"] = seg[1]
        elif seg[0] == "pin":
            parts.append(_check_pin(seg, meta, unit_path))
    text = "\n".join(parts) + "\n"
    # line map
    fn_ranges = {}
    labels = {}
    start = {}
    panic_lines = []
    for ln, line in enumerate(text.split("\n"), 1):
        for m in re.finditer(r"/\*@(FN|ENDFN|L):(.*?)\*/", line):
            k, v = m.group(1), m.group(2)
            if k == "FN":
                start[v] = ln
            elif k == "ENDFN":
                fn_ranges[v] = (start[v], ln)
            else:
                fid, lab = v.rsplit(":", 1)
                labels[ln] = (fid, lab)
        if "vpanic()" in line and "fn vpanic" not in line:
            panic_lines.append(ln)
    meta["fn_ranges"] = fn_ranges
    meta["label_lines"] = {str(k): v for k, v in labels.items()}
    meta["panic_lines"] = panic_lines
    meta["rule_counts"] = log.counts
    return text, meta, log
