"""A small Rust lexer: enough to find items, balance brackets and apply
token-level rewrite rules without being fooled by comments, strings, raw
strings, char literals and lifetimes."""

import re

WS, COMMENT, DOC, STR, CHAR, LIFETIME, IDENT, NUM, PUNCT = (
    "ws", "comment", "doc", "str", "char", "lifetime", "ident", "num", "punct")


class Tok:
    __slots__ = ("kind", "text", "pos")

    def __init__(self, kind, text, pos):
        self.kind, self.text, self.pos = kind, text, pos

    def __repr__(self):
        return "%s(%r)" % (self.kind, self.text)


_ident = re.compile(r"[A-Za-z_][A-Za-z0-9_]*")
_num = re.compile(r"[0-9][0-9A-Za-z_]*(\.[0-9][0-9A-Za-z_]*)?")
_raw = re.compile(r"b?r(#*)\"")
_PUNCT3 = ("<<=", ">>=", "...", "..=")
_PUNCT2 = ("::", "->", "=>", "==", "!=", "<=", ">=", "&&", "||", "+=", "-=",
           "*=", "/=", "%=", "^=", "&=", "|=", "<<", ">>", "..")


def lex(src):
    toks = []
    i, n = 0, len(src)
    while i < n:
        c = src[i]
        if c.isspace():
            j = i
            while j < n and src[j].isspace():
                j += 1
            toks.append(Tok(WS, src[i:j], i))
            i = j
            continue
        if src.startswith("//", i):
            j = src.find("\n", i)
            if j < 0:
                j = n
            text = src[i:j]
            kind = DOC if (text.startswith("///") and not text.startswith("////")) \
                or text.startswith("//!") else COMMENT
            toks.append(Tok(kind, text, i))
            i = j
            continue
        if src.startswith("/*", i):
            depth, j = 1, i + 2
            while j < n and depth:
                if src.startswith("/*", j):
                    depth += 1
                    j += 2
                elif src.startswith("*/", j):
                    depth -= 1
                    j += 2
                else:
                    j += 1
            text = src[i:j]
            kind = DOC if (text.startswith("/**") and not text.startswith("/***")
                           and len(text) > 4) or text.startswith("/*!") else COMMENT
            toks.append(Tok(kind, text, i))
            i = j
            continue
        m = _raw.match(src, i)
        if m:
            hashes = m.group(1)
            end = src.find('"' + hashes, m.end())
            j = end + 1 + len(hashes)
            toks.append(Tok(STR, src[i:j], i))
            i = j
            continue
        if c == '"' or (c == 'b' and i + 1 < n and src[i + 1] == '"'):
            j = i + (2 if c == 'b' else 1)
            while j < n and src[j] != '"':
                j += 2 if src[j] == '\\' else 1
            j += 1
            toks.append(Tok(STR, src[i:j], i))
            i = j
            continue
        if c == "'" or (c == 'b' and i + 1 < n and src[i + 1] == "'"):
            k = i + (1 if c == 'b' else 0)
            # char literal or lifetime
            if k + 2 < n and src[k + 1] == '\\':
                j = k + 2
                while j < n and src[j] != "'":
                    j += 1
                j += 1
                toks.append(Tok(CHAR, src[i:j], i))
                i = j
                continue
            if k + 2 < n and src[k + 2] == "'":
                toks.append(Tok(CHAR, src[i:k + 3], i))
                i = k + 3
                continue
            m = _ident.match(src, k + 1)
            if m:
                toks.append(Tok(LIFETIME, src[i:m.end()], i))
                i = m.end()
                continue
            # multi-byte char literal
            j = src.find("'", k + 1)
            toks.append(Tok(CHAR, src[i:j + 1], i))
            i = j + 1
            continue
        m = _ident.match(src, i)
        if m:
            toks.append(Tok(IDENT, m.group(0), i))
            i = m.end()
            continue
        m = _num.match(src, i)
        if m:
            toks.append(Tok(NUM, m.group(0), i))
            i = m.end()
            continue
        for p in _PUNCT3:
            if src.startswith(p, i):
                toks.append(Tok(PUNCT, p, i))
                i += 3
                break
        else:
            for p in _PUNCT2:
                if src.startswith(p, i):
                    toks.append(Tok(PUNCT, p, i))
                    i += 2
                    break
            else:
                toks.append(Tok(PUNCT, c, i))
                i += 1
    return toks


def sig(toks):
    """significant tokens (no whitespace / comments / docs)"""
    return [t for t in toks if t.kind not in (WS, COMMENT, DOC)]


def norm(text_or_toks):
    """whitespace- and comment-insensitive normal form used for anchors"""
    toks = lex(text_or_toks) if isinstance(text_or_toks, str) else text_or_toks
    return " ".join(t.text for t in sig(toks))


def untok(toks):
    return "".join(t.text for t in toks)


OPEN = {"(": ")", "[": "]", "{": "}"}
CLOSE = {v: k for k, v in OPEN.items()}


def match_close(toks, i):
    """toks[i] is an opening bracket; return index of its closing partner"""
    depth = 0
    for j in range(i, len(toks)):
        t = toks[j]
        if t.kind != PUNCT:
            continue
        if t.text in OPEN:
            depth += 1
        elif t.text in CLOSE:
            depth -= 1
            if depth == 0:
                return j
    raise ValueError("unbalanced bracket at %d" % toks[i].pos)
