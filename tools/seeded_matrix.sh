#!/bin/bash
# Apply every kept seeded change to /repo itself, run the check(s) of its property, undo it.  Results -> seeded/RESULTS.tsv
# (evidence files written during these runs are restored from git afterwards)
cd /verif || exit 2
out=seeded/RESULTS.tsv
# usage: seeded_matrix.sh [id ...]   (no ids: every kept change; with ids: only those rows are replaced)
sel="$*"
if [ -z "$sel" ]; then : > $out; else for i in $sel; do grep -v -P "^$i\t" $out > $out.tmp; mv $out.tmp $out; done; fi
trap 'git -C /repo checkout -- . ; git -C /verif checkout -- evidence' EXIT
for d in seeded/C*-*/; do
  id=$(basename $d); P=${id%-*}
  if [ -n "$sel" ]; then case " $sel " in *" $id "*) ;; *) continue;; esac; fi
  extra=$(python3 -c "import json;print(' '.join(json.load(open('$d/meta.json')).get('also_check',[])))" 2>/dev/null)
  git -C /repo apply /verif/${d}patch.diff || { echo -e "$id\tPATCH-DOES-NOT-APPLY" >> $out; continue; }
  for p in $P $extra; do
    res=$(./check $p 2>&1 | grep -v "^KNOWN-FINDING")
    rc=$(echo "$res" | grep -c "^VIOLATION")
    und=$(echo "$res" | grep -c "^UNDECIDED")
    verdict=PASS; [ $und -gt 0 ] && verdict=UNDECIDED; [ $rc -gt 0 ] && verdict=VIOLATION
    obl=$(echo "$res" | grep "^VIOLATION" | sed -E 's/.*obligation=//' | cut -c1-160 | tr '\n' ';')
    echo -e "$id\t$p\t$verdict\t$obl" >> $out
  done
  git -C /repo checkout -- .
done
sort -o $out $out; cat $out
