// ===========================================================================
// prelude/files_integrity.rs — stand-ins used by unit `integrity` (C16) only.
// Included at the TOP LEVEL of units/integrity.vrs after the extraction of
// CommitHash / ExternalFile (it names those types).
// Every `external_body` and `uninterp spec fn` below is an ASSUMPTION.
// ===========================================================================

// ---- R11: channels as ghost sequences -----------------------------------------------
/// R11: a tokio mpsc channel is read as a ghost sequence of the values sent so
/// far.  The channel state is made explicit exactly like the file system
/// (R20): the lifted kernel gains `chan: &mut Channel<T>` and every
/// `tx.send(v)` receives it as additional first argument.  `closed` = the
/// receiver has been dropped; it does not change while the kernel runs.
/// What is dropped: the concurrency between producer and consumer (they share
/// no other state in the lifted sites) and back-pressure (`send` waiting for
/// capacity).
pub ghost struct ChannelV<T> { pub items: Seq<T>, pub closed: bool }
#[verifier::external_body]
#[verifier::reject_recursive_types(T)]
pub struct Channel<T> { _t: core::marker::PhantomData<T> }
impl<T> View for Channel<T> {
    type V = ChannelV<T>;
    uninterp spec fn view(&self) -> ChannelV<T>;
}
/// tokio::sync::mpsc::error::SendError<T>
#[verifier::reject_recursive_types(T)]
pub struct SendError<T>(pub T);
/// tokio: `impl<T> fmt::Debug for SendError<T>` (prints `SendError { .. }` for every T)
#[verifier::external]
impl<T> core::fmt::Debug for SendError<T> {
    fn fmt(&self, f: &mut core::fmt::Formatter<'_>) -> core::fmt::Result { f.write_str("SendError { .. }") }
}
/// tokio::sync::mpsc::Sender<T> (tokio-1.x src/sync/mpsc/bounded.rs): `send`
/// fails iff the receiver is gone, and then the value is handed back.
#[verifier::external_body]
#[verifier::reject_recursive_types(T)]
pub struct Sender<T> { _t: core::marker::PhantomData<T> }
impl<T> Sender<T> {
    #[verifier::external_body]
    pub fn send(&self, chan: &mut Channel<T>, value: T) -> (r: core::result::Result<(), SendError<T>>)
        ensures
            final(chan)@.closed == old(chan)@.closed,
            r.is_ok() <==> !old(chan)@.closed,
            r.is_ok() ==> final(chan)@.items == old(chan)@.items.push(value),
            r.is_err() ==> final(chan)@.items == old(chan)@.items,
    { unimplemented!() }
}
impl<T> Clone for Sender<T> {
    /// another handle of the same channel
    #[verifier::external_body]
    fn clone(&self) -> (r: Self) { unimplemented!() }
}

/// tokio::sync::watch::Receiver<bool> as used for cancellation.
/// R11b: `tokio::select! { biased; _ = cancel_rx.changed() => A, x = s.next() => B }`
/// is read sequentially: first poll the cancellation (`changed_ready()` — a
/// non-deterministic answer: every interleaving of the cancel signal is
/// covered), run A if it fired, otherwise take the next stream item and run B.
/// `fired` records whether the cancel branch was ever taken.
#[verifier::external_body]
pub struct WatchReceiver { _p: () }
impl WatchReceiver {
    pub uninterp spec fn fired(&self) -> bool;
    #[verifier::external_body]
    pub fn changed_ready(&mut self) -> (r: bool)
        ensures final(self).fired() == (old(self).fired() || r),
    { unimplemented!() }
}

// ---- small conversions -----------------------------------------------------------------
#[derive(Debug)]
pub struct UuidError { pub _p: () }
/// R12: `$s.parse()` with target `SecretId` (uuid-1.x `impl FromStr for Uuid`):
/// uninterpreted parser.
pub uninterp spec fn uuid_of_str(s: Seq<char>) -> Option<Seq<u8>>;
#[verifier::external_body]
pub fn uuid_parse(s: &str) -> (r: core::result::Result<Uuid, UuidError>)
    ensures
        r.is_ok() <==> uuid_of_str(s@).is_some(),
        r.is_ok() ==> r.unwrap().0@ == uuid_of_str(s@).unwrap(),
{ unimplemented!() }

/// R12: `$a == $b` for `$a, $b: &CommitHash` — the derived `PartialEq`
/// (crates/core/src/commit/proof.rs:12): equality of the 32 bytes.
#[verifier::external_body]
pub fn commit_hash_eq(a: &CommitHash, b: &CommitHash) -> (r: bool)
    ensures r == (a.0@ == b.0@),
{ unimplemented!() }

/// sos_core::Error (opaque)
#[derive(Debug)]
pub struct CoreError { pub _p: () }
pub type CoreResult<T> = core::result::Result<T, CoreError>;

/// `sos_core::encoding::encode(&T)` (crates/core/src/encoding/mod.rs:36) =
/// binary_stream::futures::encode (binary-stream-10.0.0 src/futures/mod.rs:444,
/// read: fresh `Vec`, `BufWriter<Cursor<&mut Vec>>`, `BinaryWriter`,
/// `encodable.encode(&mut writer)`, flush, return the buffer).  Its contract is
/// the contract of `T::encode` on an empty stream at position 0.
#[verifier::external_body]
pub fn encode<T: Encodable>(encodable: &T) -> (r: CoreResult<Vec<u8>>)
    ensures r.is_ok() ==> r.unwrap()@ == T::enc_of(encodable.eview()) && T::enc_valid(encodable.eview()),
{ unimplemented!() }

/// crates/integrity/src/error.rs `Error`: the variants the kernels construct and
/// the `#[from]` conversions their `?` sites use.
pub enum IntegrityError {
    VaultHashMismatch { commit: CommitHash, value: CommitHash, id: Uuid },
    HashMismatch { commit: CommitHash, value: CommitHash },
    TryFromSlice(TryFromSliceError),
    Core(CoreError),
    Uuid(UuidError),
    Io(Error),
    Database(DbError),
}
pub type IntegrityResult<T> = core::result::Result<T, IntegrityError>;
#[verifier::external]
impl core::fmt::Debug for IntegrityError {
    fn fmt(&self, f: &mut core::fmt::Formatter<'_>) -> core::fmt::Result { f.write_str("IntegrityError") }
}
#[derive(Debug)]
pub struct DbError { pub _p: () }
impl FromSpecImpl<TryFromSliceError> for IntegrityError {
    open spec fn obeys_from_spec() -> bool { true }
    open spec fn from_spec(e: TryFromSliceError) -> IntegrityError { IntegrityError::TryFromSlice(e) }
}
impl From<TryFromSliceError> for IntegrityError { fn from(e: TryFromSliceError) -> (r: IntegrityError) { IntegrityError::TryFromSlice(e) } }
impl FromSpecImpl<CoreError> for IntegrityError {
    open spec fn obeys_from_spec() -> bool { true }
    open spec fn from_spec(e: CoreError) -> IntegrityError { IntegrityError::Core(e) }
}
impl From<CoreError> for IntegrityError { fn from(e: CoreError) -> (r: IntegrityError) { IntegrityError::Core(e) } }
impl FromSpecImpl<UuidError> for IntegrityError {
    open spec fn obeys_from_spec() -> bool { true }
    open spec fn from_spec(e: UuidError) -> IntegrityError { IntegrityError::Uuid(e) }
}
impl From<UuidError> for IntegrityError { fn from(e: UuidError) -> (r: IntegrityError) { IntegrityError::Uuid(e) } }
impl FromSpecImpl<Error> for IntegrityError {
    open spec fn obeys_from_spec() -> bool { true }
    open spec fn from_spec(e: Error) -> IntegrityError { IntegrityError::Io(e) }
}
impl From<Error> for IntegrityError { fn from(e: Error) -> (r: IntegrityError) { IntegrityError::Io(e) } }
impl FromSpecImpl<DbError> for IntegrityError {
    open spec fn obeys_from_spec() -> bool { true }
    open spec fn from_spec(e: DbError) -> IntegrityError { IntegrityError::Database(e) }
}
impl From<DbError> for IntegrityError { fn from(e: DbError) -> (r: IntegrityError) { IntegrityError::Database(e) } }

/// sos_vault::Error as far as `Vault::commit_hash` needs it
#[derive(Debug)]
pub enum VaultError { Core(CoreError), TryFromSlice(TryFromSliceError) }
pub type VaultResult<T> = core::result::Result<T, VaultError>;
impl FromSpecImpl<CoreError> for VaultError {
    open spec fn obeys_from_spec() -> bool { true }
    open spec fn from_spec(e: CoreError) -> VaultError { VaultError::Core(e) }
}
impl From<CoreError> for VaultError { fn from(e: CoreError) -> (r: VaultError) { VaultError::Core(e) } }
impl FromSpecImpl<TryFromSliceError> for VaultError {
    open spec fn obeys_from_spec() -> bool { true }
    open spec fn from_spec(e: TryFromSliceError) -> VaultError { VaultError::TryFromSlice(e) }
}
impl From<TryFromSliceError> for VaultError { fn from(e: TryFromSliceError) -> (r: VaultError) { VaultError::TryFromSlice(e) } }

/// sos_vault::Vault — here only the namespace of `commit_hash`
pub struct Vault { pub _p: () }
/// sos_vault::Contents — here only the namespace of `encode_row`
pub struct Contents { pub _p: () }

// ---- stand-ins that name types extracted in the unit (UtcDateTime) -----------------------------
/// stand-ins used only by `SecretRow::new`: RFC 3339 text of a time stamp
/// (crates/core/src/date_time.rs:105, time-0.3 formatting) and the hyphenated
/// text of a uuid (uuid-1.x `Display`), which `str::parse::<Uuid>` reads back.
impl UtcDateTime {
    #[verifier::external_body]
    pub fn to_rfc3339(&self) -> (r: CoreResult<String>) { unimplemented!() }
}
pub trait UuidToString { fn to_string(&self) -> String; }
impl UuidToString for Uuid {
    #[verifier::external_body]
    fn to_string(&self) -> (r: String)
        ensures uuid_of_str(r@) == Some(self.0@),
    { unimplemented!() }
}
/// R12: `$a.to_vec()` for `$a: &[u8; 32]` (alloc::slice::to_vec)
#[verifier::external_body]
pub fn arr32_to_vec(a: &[u8; 32]) -> (r: Vec<u8>)
    ensures r@ == a@,
{ a.to_vec() }
pub type DbResult<T> = core::result::Result<T, DbError>;
impl FromSpecImpl<CoreError> for DbError {
    open spec fn obeys_from_spec() -> bool { true }
    open spec fn from_spec(e: CoreError) -> DbError { DbError { _p: () } }
}
impl From<CoreError> for DbError { fn from(e: CoreError) -> (r: DbError) { DbError { _p: () } } }


/// uuid-1.x `Uuid::from_slice`: exactly 16 bytes
pub trait UuidFromSlice: Sized { fn from_slice(b: &[u8]) -> core::result::Result<Self, UuidError>; }
impl UuidFromSlice for Uuid {
    #[verifier::external_body]
    fn from_slice(b: &[u8]) -> (r: core::result::Result<Uuid, UuidError>)
        ensures r is Ok <==> b@.len() == 16, r is Ok ==> r->Ok_0.0@ == b@,
    { unimplemented!() }
}

/// sos_backend::Error (opaque): the item error of `record_stream`
#[derive(Debug)]
pub struct BackendError { pub _p: () }
impl From<BackendError> for IntegrityError {
    #[verifier::external_body]
    fn from(e: BackendError) -> (r: IntegrityError) { unimplemented!() }
}

