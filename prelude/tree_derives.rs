// ===========================================================================
// prelude/tree_derives.rs — std meaning of derives that rule R6 drops and the
// extracted code of unit `tree` relies on.  Included at top level (after the
// extracted struct), not inside `mod pre`.
// ===========================================================================

/// `#[derive(Eq, PartialEq)]` on `pub struct CommitHash(pub TreeHash)`
/// (crates/core/src/commit/proof.rs): field-wise equality
/// (of the 32 bytes).
impl vstd::std_specs::cmp::PartialEqSpecImpl for CommitHash {
    open spec fn obeys_eq_spec() -> bool { true }
    open spec fn eq_spec(&self, other: &CommitHash) -> bool { self.0@ == other.0@ }
}
impl PartialEq for CommitHash {
    #[verifier::external_body]
    fn eq(&self, other: &CommitHash) -> bool { self.0 == other.0 }
}
