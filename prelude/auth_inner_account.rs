// ===========================================================================
// prelude/auth_inner_account.rs — stand-ins for the INNER handlers of
// crates/server/src/handlers/account.rs (`mod handlers`), included inside
// `pub mod account { pub mod handlers { .. } }` of units/auth.vrs.
// These are the only functions through which an account-route request reads or
// changes account data.  They are NOT verified here (protobuf decoding, storage,
// merge: other units).  Each consumes a `Caller` — a value only
// authenticate_endpoint constructs — and, where the request has a body, the
// typestate precondition [signed_bytes_are_the_body]: the bytes handed over are
// exactly the bytes the caller's signature was verified over.
// ===========================================================================

#[verifier::external_body]
pub fn account_exists(_state: ServerState, backend: ServerBackend, caller: Caller) -> ServerResult<bool>
{ unimplemented!() }

#[verifier::external_body]
pub fn create_account(_state: ServerState, backend: ServerBackend, caller: Caller, bytes: Bytes) -> ServerResult<()>
    requires signed_bytes_are_the_body(&caller, bytes@), /*@PL:signed_bytes_are_the_body*/
{ unimplemented!() }

#[verifier::external_body]
pub fn delete_account(_state: ServerState, backend: ServerBackend, caller: Caller) -> ServerResult<()>
{ unimplemented!() }

#[verifier::external_body]
pub fn update_account(_state: ServerState, backend: ServerBackend, caller: Caller, bytes: Bytes) -> ServerResult<()>
    requires signed_bytes_are_the_body(&caller, bytes@), /*@PL:signed_bytes_are_the_body*/
{ unimplemented!() }

#[verifier::external_body]
pub fn fetch_account(_state: ServerState, backend: ServerBackend, caller: Caller) -> ServerResult<(HeaderMap, Vec<u8>)>
{ unimplemented!() }

#[verifier::external_body]
pub fn sync_status(_state: ServerState, backend: ServerBackend, caller: Caller) -> ServerResult<(HeaderMap, Vec<u8>)>
{ unimplemented!() }

#[verifier::external_body]
pub fn event_scan(_state: ServerState, backend: ServerBackend, caller: Caller, bytes: Bytes) -> ServerResult<(HeaderMap, Vec<u8>)>
    requires signed_bytes_are_the_body(&caller, bytes@), /*@PL:signed_bytes_are_the_body*/
{ unimplemented!() }

#[verifier::external_body]
pub fn event_diff(_state: ServerState, backend: ServerBackend, caller: Caller, bytes: Bytes) -> ServerResult<(HeaderMap, Vec<u8>)>
    requires signed_bytes_are_the_body(&caller, bytes@), /*@PL:signed_bytes_are_the_body*/
{ unimplemented!() }

#[verifier::external_body]
pub fn event_patch(state: ServerState, backend: ServerBackend, caller: Caller, bytes: Bytes) -> ServerResult<(HeaderMap, Vec<u8>)>
    requires signed_bytes_are_the_body(&caller, bytes@), /*@PL:signed_bytes_are_the_body*/
{ unimplemented!() }

#[verifier::external_body]
pub fn sync_account(state: ServerState, backend: ServerBackend, caller: Caller, bytes: Bytes) -> ServerResult<(HeaderMap, Vec<u8>)>
    requires signed_bytes_are_the_body(&caller, bytes@), /*@PL:signed_bytes_are_the_body*/
{ unimplemented!() }
