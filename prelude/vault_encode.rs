// ===========================================================================
// prelude/vault_encode.rs — `sos_core::{encode, decode}` (whole-value codec
// entry points) for the units `vaultmem` and `vaultfile`.  Included at top
// level (needs CResult from prelude/vault_types.rs).  Everything
// `external_body` here is an ASSUMPTION.  Source read:
// crates/core/src/encoding/mod.rs, binary-stream-10.0.0 src/futures/mod.rs
// (`encode` / `decode`).
// ===========================================================================

// ---- sos_core::{encode, decode} -------------------------------------------------
/// the encoding *function* of a type, on views (C14: the real encoder equals it)
pub trait Encoded: View {
    spec fn enc_view(v: Self::V) -> Seq<u8>;
    /// what the encoder accepts (length guards); known of a value that was encoded
    spec fn enc_valid(v: Self::V) -> bool;
}
/// the decoding function of a type on a whole buffer, on views
pub trait Decoded: View + Sized {
    spec fn dec_view(b: Seq<u8>) -> Option<Self::V>;
}
/// `sos_core::encode` (crates/core/src/encoding/mod.rs:37): binary_stream
/// `encode(encodable, options)` = the value's `Encodable::encode` into a fresh
/// buffer; an io error (16 MiB guards) becomes sos_core::Error
#[verifier::external_body]
pub fn encode<T: Encoded>(encodable: &T) -> (r: CResult<Vec<u8>>)
    ensures r is Ok ==> r->Ok_0@ == T::enc_view(encodable@) && T::enc_valid(encodable@),
{ unimplemented!() }
/// `sos_core::decode` (mod.rs:42): `T::default()` then `T::decode` on a reader
/// over the buffer
#[verifier::external_body]
pub fn decode<T: Decoded>(buffer: &[u8]) -> (r: CResult<T>)
    ensures
        r is Ok <==> T::dec_view(buffer@) is Some,
        r is Ok ==> Some(r->Ok_0@) == T::dec_view(buffer@),
{ unimplemented!() }

