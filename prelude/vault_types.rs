// ===========================================================================
// prelude/vault_types.rs — stand-ins shared by the units `vaultmem` and
// `vaultfile`: error types that are only constructed / converted, the ordered
// map vocabulary, indexmap 2.12.0 `IndexMap` (the version in /repo/Cargo.lock
// for sos-vault), `Cow`, `Uuid::new_v4`.  Included inside `mod pre` (no
// dependency on extracted items).  Everything `external_body` / `axiom` /
// `assume_specification` here is an ASSUMPTION.
// ===========================================================================

/// `std::error::Error` used as a bound only (`E: std::error::Error + Debug + From<..>`);
/// declared so that the bound can stay verbatim in the extracted signatures.
#[verifier::external_trait_specification]
pub trait ExStdError: core::fmt::Debug + core::fmt::Display {
    type ExternalTraitSpecificationFor: std::error::Error;
}

/// `std::io::Error` as it appears (only) in the bound `E: From<std::io::Error>`
/// of AccessPoint<E>, kept verbatim in the extracted headers
#[verifier::external_type_specification]
#[verifier::external_body]
pub struct ExIoError(std::io::Error);

/// `sos_core::AuthenticationError` (crates/core/src/error.rs:172): the variant
/// constructed by the extracted code plus a catch-all.
#[derive(Debug)]
pub enum AuthenticationError { PasswordVerification, Other }

/// `sos_core::Error` (crates/core/src/error.rs, a thiserror enum): the variants
/// constructed by the extracted code, the `#[from]` wrappers met on its `?`
/// paths, plus a catch-all.
#[derive(Debug)]
pub enum CoreError {
    NotSymmetric,
    NotAsymmetric,
    InvalidNonce,
    Authentication(AuthenticationError),
    /// `#[from] aes_gcm::Error` / `chacha20poly1305::Error` (the opaque aead::Error)
    Aead,
    /// `#[from] sha2::digest::InvalidLength`
    InvalidLength,
    /// `#[from] argon2::password_hash::Error`
    PasswordHash,
    /// `#[from] std::array::TryFromSliceError`
    TryFromSlice,
    /// `#[from] std::io::Error`
    Io,
    Other,
}
impl From<AuthenticationError> for CoreError {
    /// thiserror `#[from]`: wraps the value
    fn from(e: AuthenticationError) -> (r: CoreError)
        ensures r == CoreError::Authentication(e),
    { CoreError::Authentication(e) }
}
impl vstd::std_specs::convert::FromSpecImpl<AuthenticationError> for CoreError {
    open spec fn obeys_from_spec() -> bool { true }
    open spec fn from_spec(e: AuthenticationError) -> CoreError { CoreError::Authentication(e) }
}
impl From<AeadError> for CoreError {
    fn from(e: AeadError) -> (r: CoreError) ensures r == CoreError::Aead, { CoreError::Aead }
}
impl vstd::std_specs::convert::FromSpecImpl<AeadError> for CoreError {
    open spec fn obeys_from_spec() -> bool { true }
    open spec fn from_spec(e: AeadError) -> CoreError { CoreError::Aead }
}
impl From<InvalidLength> for CoreError {
    fn from(e: InvalidLength) -> (r: CoreError) ensures r == CoreError::InvalidLength, { CoreError::InvalidLength }
}
impl vstd::std_specs::convert::FromSpecImpl<InvalidLength> for CoreError {
    open spec fn obeys_from_spec() -> bool { true }
    open spec fn from_spec(e: InvalidLength) -> CoreError { CoreError::InvalidLength }
}
impl From<PasswordHashError> for CoreError {
    fn from(e: PasswordHashError) -> (r: CoreError) ensures r == CoreError::PasswordHash, { CoreError::PasswordHash }
}
impl vstd::std_specs::convert::FromSpecImpl<PasswordHashError> for CoreError {
    open spec fn obeys_from_spec() -> bool { true }
    open spec fn from_spec(e: PasswordHashError) -> CoreError { CoreError::PasswordHash }
}
impl From<TryFromSliceError> for CoreError {
    fn from(e: TryFromSliceError) -> (r: CoreError) ensures r == CoreError::TryFromSlice, { CoreError::TryFromSlice }
}
impl vstd::std_specs::convert::FromSpecImpl<TryFromSliceError> for CoreError {
    open spec fn obeys_from_spec() -> bool { true }
    open spec fn from_spec(e: TryFromSliceError) -> CoreError { CoreError::TryFromSlice }
}
impl From<Error> for CoreError {
    fn from(e: Error) -> (r: CoreError) ensures r == CoreError::Io, { CoreError::Io }
}
impl vstd::std_specs::convert::FromSpecImpl<Error> for CoreError {
    open spec fn obeys_from_spec() -> bool { true }
    open spec fn from_spec(e: Error) -> CoreError { CoreError::Io }
}
/// `aead::Error` (aead-0.5): opaque unit struct
#[derive(Debug)]
pub struct AeadError { pub _p: () }
/// `crypto_common::InvalidLength` (digest / KeyInit::new_from_slice)
#[derive(Debug)]
pub struct InvalidLength { pub _p: () }
/// `password_hash::Error` (password-hash-0.5.0)
#[derive(Debug)]
pub struct PasswordHashError { pub _p: () }

/// `sos_vault::Error` (crates/vault/src/error.rs): the variants constructed by
/// the extracted code, the `#[from] sos_core::Error` wrapper, a catch-all.
#[derive(Debug)]
pub enum VaultError {
    VaultNotInit,
    VaultLocked,
    PermissionDenied,
    VaultAlreadyInit,
    Core(CoreError),
    /// `#[from] sos_core::AuthenticationError`
    Authentication(AuthenticationError),
    /// `#[from] std::array::TryFromSliceError`
    TryFromSlice,
    Other,
}
impl From<AuthenticationError> for VaultError {
    /// thiserror `#[from]`: wraps the value
    fn from(e: AuthenticationError) -> (r: VaultError)
        ensures r == VaultError::Authentication(e),
    { VaultError::Authentication(e) }
}
impl vstd::std_specs::convert::FromSpecImpl<AuthenticationError> for VaultError {
    open spec fn obeys_from_spec() -> bool { true }
    open spec fn from_spec(e: AuthenticationError) -> VaultError { VaultError::Authentication(e) }
}
impl From<TryFromSliceError> for VaultError {
    fn from(e: TryFromSliceError) -> (r: VaultError) ensures r == VaultError::TryFromSlice, { VaultError::TryFromSlice }
}
impl vstd::std_specs::convert::FromSpecImpl<TryFromSliceError> for VaultError {
    open spec fn obeys_from_spec() -> bool { true }
    open spec fn from_spec(e: TryFromSliceError) -> VaultError { VaultError::TryFromSlice }
}
impl From<CoreError> for VaultError {
    /// thiserror `#[from]`: wraps the value
    fn from(e: CoreError) -> (r: VaultError)
        ensures r == VaultError::Core(e),
    { VaultError::Core(e) }
}
impl vstd::std_specs::convert::FromSpecImpl<CoreError> for VaultError {
    open spec fn obeys_from_spec() -> bool { true }
    open spec fn from_spec(e: CoreError) -> VaultError { VaultError::Core(e) }
}
impl From<Error> for VaultError {
    /// `#[from] std::io::Error`
    fn from(e: Error) -> (r: VaultError) ensures r == VaultError::Other, { VaultError::Other }
}
impl vstd::std_specs::convert::FromSpecImpl<Error> for VaultError {
    open spec fn obeys_from_spec() -> bool { true }
    open spec fn from_spec(e: Error) -> VaultError { VaultError::Other }
}

pub type VResult<T> = core::result::Result<T, VaultError>;
pub type CResult<T> = core::result::Result<T, CoreError>;
pub type StdResult<T, E> = core::result::Result<T, E>;

/// `impl View for Uuid` (prelude/types.rs gives the struct): its 16 bytes
impl View for Uuid {
    type V = Seq<u8>;
    open spec fn view(&self) -> Seq<u8> { self.0@ }
}

// ---- ordered map semantics over a sequence of (key, value) -------------------
pub open spec fn m_has<K, V>(s: Seq<(K, V)>, k: K) -> bool {
    exists|i: int| 0 <= i < s.len() && (#[trigger] s[i]).0 == k
}
pub open spec fn m_idx<K, V>(s: Seq<(K, V)>, k: K) -> int {
    choose|i: int| 0 <= i < s.len() && (#[trigger] s[i]).0 == k
}
/// insert-or-replace keeping the position of an existing key, new keys last
pub open spec fn m_insert<K, V>(s: Seq<(K, V)>, k: K, v: V) -> Seq<(K, V)> {
    if m_has(s, k) { s.update(m_idx(s, k), (k, v)) } else { s.push((k, v)) }
}
/// replace the value of an existing key, nothing for an absent key
pub open spec fn m_update<K, V>(s: Seq<(K, V)>, k: K, v: V) -> Seq<(K, V)> {
    if m_has(s, k) { s.update(m_idx(s, k), (k, v)) } else { s }
}
/// remove, the entries behind it move up (relative order kept)
pub open spec fn m_remove<K, V>(s: Seq<(K, V)>, k: K) -> Seq<(K, V)> {
    if m_has(s, k) { s.remove(m_idx(s, k)) } else { s }
}
/// remove by moving the LAST entry into the hole (`Vec::swap_remove` order)
pub open spec fn m_swap_remove<K, V>(s: Seq<(K, V)>, k: K) -> Seq<(K, V)> {
    if m_has(s, k) {
        if m_idx(s, k) == s.len() - 1 { s.drop_last() } else { s.update(m_idx(s, k), s.last()).drop_last() }
    } else { s }
}
pub open spec fn m_get<K, V>(s: Seq<(K, V)>, k: K) -> Option<V> {
    if m_has(s, k) { Some(s[m_idx(s, k)].1) } else { None }
}
pub open spec fn m_distinct<K, V>(s: Seq<(K, V)>) -> bool {
    forall|i: int, j: int| 0 <= i < j < s.len() ==> (#[trigger] s[i]).0 != (#[trigger] s[j]).0
}
pub open spec fn m_keys<K, V>(s: Seq<(K, V)>) -> Seq<K> {
    Seq::new(s.len(), |i: int| s[i].0)
}

/// indexmap-2.12.0 `IndexMap<K, V, RandomState>` (src/map.rs, src/map/core.rs,
/// src/map/core/entry.rs).  View: the entries in iteration order, as (key
/// view, value view).  Assumed of K: `K: Eq + Hash` agree with equality of the
/// key's view (true for the one key type used here, `Uuid` = derived Eq/Hash
/// on `[u8; 16]`).
#[verifier::external_body]
#[verifier::reject_recursive_types(K)]
#[verifier::reject_recursive_types(V)]
pub struct IndexMap<K, V> { _p: core::marker::PhantomData<(K, V)> }

impl<K: View, V: View> View for IndexMap<K, V> {
    type V = Seq<(K::V, V::V)>;
    uninterp spec fn view(&self) -> Seq<(K::V, V::V)>;
}

/// structural invariant of IndexMap: one entry per key
pub broadcast axiom fn axiom_indexmap_distinct<K: View, V: View>(m: IndexMap<K, V>)
    ensures m_distinct(#[trigger] m@);

impl<K: View, V: View> Default for IndexMap<K, V> {
    /// map.rs `impl Default`: empty map
    #[verifier::external_body]
    fn default() -> (r: Self)
        ensures r@.len() == 0,
    { unimplemented!() }
}

impl<K: View + Clone, V: View + Clone> Clone for IndexMap<K, V> {
    /// map.rs:133 `impl Clone`: clones `core` (indices + entries): same entries, same order
    #[verifier::external_body]
    fn clone(&self) -> (r: Self)
        ensures r@ == self@,
    { unimplemented!() }
}

impl<K: View, V: View> IndexMap<K, V> {
    /// map.rs:446 `insert` -> core.rs:335 `insert_full`: "If an equivalent key
    /// already exists in the map: the key remains and retains in its place in
    /// the order, its corresponding value is updated with `value`, and the
    /// older value is returned inside `Some(_)`.  If no equivalent key existed
    /// in the map: the new key-value pair is inserted, last in order, and
    /// `None` is returned."
    #[verifier::external_body]
    pub fn insert(&mut self, key: K, value: V) -> (r: Option<V>)
        ensures
            final(self)@ == m_insert(old(self)@, key@, value@),
            r is Some <==> m_has(old(self)@, key@),
            r is Some ==> Some(r->Some_0@) == m_get(old(self)@, key@),
    { unimplemented!() }

    /// map.rs:1073 `shift_remove` -> core.rs:396 `shift_remove_full`: "Like
    /// Vec::remove, the pair is removed by shifting all of the elements that
    /// follow it, preserving their relative order. Return None if key is not
    /// in map."
    #[verifier::external_body]
    pub fn shift_remove(&mut self, key: &K) -> (r: Option<V>)
        ensures
            final(self)@ == m_remove(old(self)@, key@),
            r is Some <==> m_has(old(self)@, key@),
            r is Some ==> Some(r->Some_0@) == m_get(old(self)@, key@),
    { unimplemented!() }

    /// map.rs:834 `get`: "Return a reference to the stored value for key, if it
    /// is present, else None."
    #[verifier::external_body]
    pub fn get(&self, key: &K) -> (r: Option<&V>)
        ensures
            r is Some <==> m_has(self@, key@),
            r is Some ==> Some(r->Some_0@) == m_get(self@, key@),
    { unimplemented!() }

    /// map.rs:899 `get_mut`: a mutable reference to the stored value for `key`
    /// if present; the entry keeps its key and its place, whatever is written
    /// through the reference is the entry's new value.
    #[verifier::external_body]
    pub fn get_mut(&mut self, key: &K) -> (r: Option<&mut V>)
        ensures
            r is Some <==> m_has(old(self)@, key@),
            r is Some ==> Some((*r->Some_0)@) == m_get(old(self)@, key@)
                && final(self)@ == m_update(old(self)@, key@, (*final(r->Some_0))@),
            r is None ==> final(self)@ == old(self)@,
    { unimplemented!() }

    /// R12d: `$m.entry($k).or_insert($v)` (map.rs:737 `entry`, map/core/entry.rs:60
    /// `or_insert`): "Inserts the given default value in the entry if it is
    /// vacant and returns a mutable reference to it. Otherwise a mutable
    /// reference to an already existent value is returned."  An occupied
    /// entry is NOT replaced; a vacant one is pushed last (entry.rs:372
    /// `VacantEntry::insert` -> `insert_unique` -> `push_entry`).
    #[verifier::external_body]
    pub fn entry_or_insert(&mut self, key: K, value: V) -> (r: &mut V)
        ensures
            m_has(old(self)@, key@) ==> Some((*r)@) == m_get(old(self)@, key@)
                && final(self)@ == m_update(old(self)@, key@, (*final(r))@),
            !m_has(old(self)@, key@) ==> (*r)@ == value@
                && final(self)@ == old(self)@.push((key@, (*final(r))@)),
    { unimplemented!() }

    /// number of entries; `entries: Vec<Bucket<K, V>>` cannot reach usize::MAX
    /// elements (allocation limit isize::MAX bytes, a bucket is > 1 byte)
    #[verifier::external_body]
    pub fn len(&self) -> (r: usize)
        ensures r == self@.len(), r < usize::MAX,
    { unimplemented!() }

    // ---- further commonly used methods of the real type (additive; not called by the
    // ---- current code, present so that an edit that switches to them is still judged) ----
    /// map.rs `swap_remove` -> core.rs `swap_remove_full`: "Like Vec::swap_remove, the
    /// pair is removed by swapping it with the last element of the map and popping it
    /// off. This perturbs the position of what used to be the last element! Return
    /// None if key is not in map."
    #[verifier::external_body]
    pub fn swap_remove(&mut self, key: &K) -> (r: Option<V>)
        ensures
            final(self)@ == m_swap_remove(old(self)@, key@),
            r is Some <==> m_has(old(self)@, key@),
            r is Some ==> Some(r->Some_0@) == m_get(old(self)@, key@),
    { unimplemented!() }

    /// map.rs `contains_key`: "Return true if an equivalent to key exists in the map."
    #[verifier::external_body]
    pub fn contains_key(&self, key: &K) -> (r: bool)
        ensures r == m_has(self@, key@),
    { unimplemented!() }

    /// map.rs `is_empty`: "Returns true if the map contains no elements."
    #[verifier::external_body]
    pub fn is_empty(&self) -> (r: bool)
        ensures r == (self@.len() == 0),
    { unimplemented!() }

    /// map.rs `clear`: "Remove all key-value pairs in the map, while preserving its capacity."
    #[verifier::external_body]
    pub fn clear(&mut self)
        ensures final(self)@ == Seq::<(K::V, V::V)>::empty(),
    { unimplemented!() }
}

/// `std::borrow::Cow<'a, B>` restricted to sized `B: Clone` (alloc/src/borrow.rs)
pub enum Cow<'a, B: 'a> { Borrowed(&'a B), Owned(B) }
impl<'a, B: Clone> Cow<'a, B> {
    /// borrow.rs `into_owned`: "Clones the data if it is not already owned."
    pub fn into_owned(self) -> (r: B)
        ensures
            self matches Cow::Owned(o) ==> r == o,
            self matches Cow::Borrowed(b) ==> call_ensures(B::clone, (b,), r),
    {
        match self { Cow::Borrowed(b) => b.clone(), Cow::Owned(o) => o }
    }
}

/// `uuid::Uuid::new_v4()` (uuid-1.x, feature v4): 16 bytes from the RNG with
/// version/variant bits set; nothing is promised about the value.
#[verifier::external_body]
pub fn uuid_new_v4() -> (r: Uuid) { unimplemented!() }

/// `Option::or` (core/src/option.rs): "Returns the option if it contains a
/// value, otherwise returns optb."
pub assume_specification<T> [Option::<T>::or] (a: Option<T>, b: Option<T>) -> (r: Option<T>)
    ensures r == (if a is Some { a } else { b });
