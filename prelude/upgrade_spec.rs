// ===========================================================================
// prelude/upgrade_spec.rs — SPECIFICATION vocabulary of unit `upgrade`
// (file-system account -> database account, C19).  Pure spec text and PROVED
// lemmas only: no assumption lives in this file.  Included at top level after
// prelude/dbvault_spec.rs (tables `folders`, `folder_secrets`: `VDbV`) and
// prelude/dblog_spec.rs (the four event tables: `DbV`, `Rec`, `Log`, `own`,
// `log_of`, `sql_insert`).
//
// The ghost database of this unit is the PRODUCT of the two ghost relations
// the units `dblog` and `dbvault` use, plus the three account tables the
// importer writes (V1__base.sql: accounts :19, account_login_folder :36,
// account_device_folder :54).  Every other table (preferences, servers,
// system_messages, audit_logs, ...) stays the abstract component `fold.rest`.
// ===========================================================================

/// one row of `accounts` (V1__base.sql:19): `account_id INTEGER PRIMARY KEY`, `identifier TEXT NOT NULL UNIQUE`, `name`
pub ghost struct AccountRowV { pub row_id: int, pub identifier: Seq<char>, pub name: Seq<char> }
/// a remote server origin: its display name and its URL (text)
pub ghost struct ServerV { pub name: Seq<char>, pub url: Seq<char> }
/// the rows "INSERT INTO servers (account_id, .., name, url)" adds for account `aid`, one per element, in order
pub open spec fn acct_servers(aid: int, rows: Seq<ServerV>) -> Seq<(int, ServerV)> { Seq::new(rows.len(), |i: int| (aid, rows[i])) }
/// `UpgradeOptions::remap_servers` applied to ONE origin (db_import.rs:309): when the table has the origin's url as
/// a key the origin becomes `Origin::new(val.to_string(), val.clone())` (url AND name are the new url's text),
/// otherwise it is unchanged
pub open spec fn remap_one(m: Map<Seq<char>, Seq<char>>, s: ServerV) -> ServerV {
    if m.contains_key(s.url) { ServerV { name: m[s.url], url: m[s.url] } } else { s }
}
/// the remap applied to a server list: SAME LENGTH (none dropped, none added), same order
pub open spec fn remap_all(m: Map<Seq<char>, Seq<char>>, l: Seq<ServerV>) -> Seq<ServerV> { Seq::new(l.len(), |i: int| remap_one(m, l[i])) }
pub proof fn lemma_no_servers_added(s: Seq<(int, ServerV)>, aid: int)
    ensures s + acct_servers(aid, Seq::<ServerV>::empty()) == s,
{
    assert(s + acct_servers(aid, Seq::<ServerV>::empty()) =~= s);
}
/// the ghost database
pub ghost struct UDbV {
    /// account_events, folder_events, device_events, file_events (prelude/dblog_spec.rs)
    pub ev: DbV,
    /// folders, folder_secrets, and abstractly every table not named here (prelude/dbvault_spec.rs)
    pub fold: VDbV,
    /// accounts, in rowid order
    pub accounts: Seq<AccountRowV>,
    /// account_login_folder: (account_id, folder_id), in insertion order
    pub login: Seq<(int, int)>,
    /// account_device_folder: (account_id, folder_id), in insertion order
    pub device: Seq<(int, int)>,
    /// servers (V1__base.sql `servers`): (account_id, name + url), in rowid order
    pub servers: Seq<(int, ServerV)>,
}

// ---- record -> row ---------------------------------------------------------------------------
/// the row `EventRecordRow::new(record)` builds (unit dblog [record_to_row_keeps_fields]): the same commit
/// hash, the same event bytes, `created_at` = RFC 3339 text of the record's time (it parses back to that instant)
pub open spec fn row_is(r: RowV, rec: Rec) -> bool {
    r.commit == rec.commit && r.event == rec.event && parse_time(r.created_at) == Some(rec.time)
}
/// `rows == recs.map(row_of)`: one row per record, IN ORDER
pub open spec fn rows_are(rows: Seq<RowV>, recs: Log) -> bool {
    rows.len() == recs.len() && forall|i: int| 0 <= i < rows.len() ==> row_is(#[trigger] rows[i], recs[i])
}
/// what a sequence of rows to insert reads back as
pub open spec fn rowv_rec(r: RowV) -> Rec { Rec { time: parse_time(r.created_at)->Some_0, commit: r.commit, event: r.event } }
pub open spec fn rowv_recs(rows: Seq<RowV>) -> Log { Seq::new(rows.len(), |i: int| rowv_rec(rows[i])) }

pub proof fn lemma_rows_are_recs(rows: Seq<RowV>, recs: Log)
    requires rows_are(rows, recs),
    ensures rowv_recs(rows) == recs,
{
    assert forall|i: int| 0 <= i < rows.len() implies #[trigger] rowv_recs(rows)[i] == recs[i] by {
        assert(row_is(rows[i], recs[i]));
    }
    assert(rowv_recs(rows) =~= recs);
}

// ---- the record stream of a file-system log ------------------------------------------------------
/// every item the stream yields is `Ok`
pub open spec fn all_ok<A, E>(items: Seq<core::result::Result<A, E>>) -> bool {
    forall|i: int| 0 <= i < items.len() ==> (#[trigger] items[i]) is Ok
}
pub open spec fn some_err<A, E>(items: Seq<core::result::Result<A, E>>) -> bool {
    exists|i: int| 0 <= i < items.len() && (#[trigger] items[i]) is Err
}
/// the records of the `Ok` items of an event stream (`(EventRecord, T)` pairs), in stream order
pub open spec fn item_recs<T, E>(items: Seq<core::result::Result<(EventRecord, T), E>>) -> Log {
    Seq::new(items.len(), |i: int| (items[i]->Ok_0).0@)
}
/// what `event_stream(false)` of a file-system log yields over the log's records `recs` (append order):
/// item i is record i (or the `Err` of decoding record i's event); the producer task stops at the first
/// record it cannot READ (`it.next().await?` / `read_event_buffer(..).await?` inside `tokio::spawn`: the
/// error is dropped with the task and the channel closes), so the stream may END EARLY — it is complete
/// when the log file is readable to its end (`readable`).
pub open spec fn fwd_stream_of<T, E>(items: Seq<core::result::Result<(EventRecord, T), E>>, recs: Log, readable: bool) -> bool {
    &&& items.len() <= recs.len()
    &&& (readable ==> items.len() == recs.len())
    &&& forall|i: int| 0 <= i < items.len() && (#[trigger] items[i]) is Ok ==> (items[i]->Ok_0).0@ == recs[i]
}
pub proof fn lemma_stream_complete<T, E>(items: Seq<core::result::Result<(EventRecord, T), E>>, recs: Log)
    requires fwd_stream_of(items, recs, true), all_ok(items),
    ensures item_recs(items) == recs,
{
    assert forall|i: int| 0 <= i < items.len() implies #[trigger] item_recs(items)[i] == recs[i] by {
        assert(items[i] is Ok);
    }
    assert(item_recs(items) =~= recs);
}

// ---- INSERT of event rows, seen as a log -----------------------------------------------------------
/// after "INSERT INTO <t> (<id>, created_at, commit_hash, event)" of `rows` (= the rows of the records
/// `recs`) for owner `o`, the log of (t, o) is the old log followed by `recs`, record for record; every
/// other (table, owner) keeps its rows
pub proof fn lemma_insert_log(db: DbV, t: Tbl, o: int, rows: Seq<RowV>, recs: Log)
    requires rows_are(rows, recs),
    ensures
        log_of(sql_insert(db, t, o, rows), t, o) == log_of(db, t, o) + recs,
        commits_of(log_of(sql_insert(db, t, o, rows), t, o)) == commits_of(log_of(db, t, o)) + commits_of(recs),
        forall|t2: Tbl, o2: int| !(t2 == t && o2 == o) ==> #[trigger] own(sql_insert(db, t, o, rows), t2, o2) == own(db, t2, o2),
{
    lemma_insert(db, t, o, rows, t, o);
    let nr = new_rows(t, o, rows);
    lemma_recs_of_concat(own(db, t, o), nr);
    assert forall|i: int| 0 <= i < nr.len() implies #[trigger] recs_of(nr)[i] == recs[i] by {
        assert(row_is(rows[i], recs[i]));
    }
    assert(recs_of(nr) =~= recs);
    lemma_commits_of_add(log_of(db, t, o), recs);
    assert forall|t2: Tbl, o2: int| !(t2 == t && o2 == o) implies #[trigger] own(sql_insert(db, t, o, rows), t2, o2) == own(db, t2, o2) by {
        lemma_insert(db, t, o, rows, t2, o2);
    }
}
/// the rows of a log nobody has written yet
pub proof fn lemma_own_fresh(db: DbV, t: Tbl, o: int)
    requires forall|i: int| 0 <= i < db.len() ==> !is_own(#[trigger] db[i], t, o),
    ensures own(db, t, o) == Seq::<DbRow>::empty(), log_of(db, t, o) == Seq::<Rec>::empty(),
{
    lemma_own_none(db, t, o);
    assert(recs_of(Seq::<DbRow>::empty()) =~= Seq::<Rec>::empty());
}

// ---- schema invariants --------------------------------------------------------------------------
pub open spec fn folder_rid_exists(v: VDbV, rid: int) -> bool {
    exists|f: Seq<char>| v.folders.contains_key(f) && (#[trigger] v.folders[f]).row_id == rid
}
pub open spec fn account_rid_exists(a: Seq<AccountRowV>, rid: int) -> bool {
    exists|i: int| 0 <= i < a.len() && (#[trigger] a[i]).row_id == rid
}
/// the owner column of an event row references an existing row of its parent table
pub open spec fn ev_row_fk(db: UDbV, r: DbRow) -> bool {
    if r.tbl == Tbl::FolderEvents { folder_rid_exists(db.fold, r.owner) } else { account_rid_exists(db.accounts, r.owner) }
}
/// FOREIGN KEY constraints of V1__base.sql (enforced: "PRAGMA foreign_keys = ON", crates/backend/src/lib.rs:192):
///   folder_secrets.folder_id REFERENCES folders (folder_id)            (:139)
///   folder_events.folder_id  REFERENCES folders (folder_id)            (:157)
///   account_events / device_events / file_events .account_id REFERENCES accounts (account_id)  (:176, :194, :212)
pub open spec fn db_fk(db: UDbV) -> bool {
    &&& forall|k: Seq<char>| db.fold.secrets.contains_key(k) ==> folder_rid_exists(db.fold, (#[trigger] db.fold.secrets[k]).folder_id)
    &&& forall|i: int| 0 <= i < db.ev.len() ==> ev_row_fk(db, #[trigger] db.ev[i])
}
/// `rid` is the row id of no folder
pub open spec fn rid_fresh(v: VDbV, rid: int) -> bool {
    forall|k: Seq<char>| v.folders.contains_key(k) ==> (#[trigger] v.folders[k]).row_id != rid
}
pub open spec fn account_rid_fresh(a: Seq<AccountRowV>, rid: int) -> bool {
    forall|i: int| 0 <= i < a.len() ==> (#[trigger] a[i]).row_id != rid
}
/// with the foreign keys in force, a row id no folder has is referenced by no secret row and no folder event row
pub proof fn lemma_fresh_rid_unreferenced(db: UDbV, rid: int)
    requires db_fk(db), rid_fresh(db.fold, rid),
    ensures
        secrets_of(db.fold, rid) == IMap::<Seq<char>, SecV>::empty(),
        own(db.ev, Tbl::FolderEvents, rid) == Seq::<DbRow>::empty(),
        log_of(db.ev, Tbl::FolderEvents, rid) == Seq::<Rec>::empty(),
{
    assert forall|k: Seq<char>| !secret_in(db.fold, rid, k) by {
        if db.fold.secrets.contains_key(k) { assert(folder_rid_exists(db.fold, db.fold.secrets[k].folder_id)); }
    }
    assert(secrets_of(db.fold, rid) =~= IMap::<Seq<char>, SecV>::empty());
    assert forall|i: int| 0 <= i < db.ev.len() implies !is_own(#[trigger] db.ev[i], Tbl::FolderEvents, rid) by {
        assert(ev_row_fk(db, db.ev[i]));
    }
    lemma_own_fresh(db.ev, Tbl::FolderEvents, rid);
}
pub proof fn lemma_fresh_account_unreferenced(db: UDbV, rid: int, t: Tbl)
    requires db_fk(db), account_rid_fresh(db.accounts, rid), t != Tbl::FolderEvents,
    ensures own(db.ev, t, rid) == Seq::<DbRow>::empty(), log_of(db.ev, t, rid) == Seq::<Rec>::empty(),
{
    assert forall|i: int| 0 <= i < db.ev.len() implies !is_own(#[trigger] db.ev[i], t, rid) by {
        assert(ev_row_fk(db, db.ev[i]));
    }
    lemma_own_fresh(db.ev, t, rid);
}

// ---- INSERT INTO folders -------------------------------------------------------------------------
/// the row "INSERT INTO folders (account_id, created_at, modified_at, identifier, name, salt, meta, seed,
/// version, cipher, kdf, flags) VALUES (?1 .. ?12)" adds for the bound values `c` (+ created_at), with the
/// rowid `rid` SQLite assigns
pub open spec fn inserted_folder_row(account_id: int, rid: int, created: Seq<char>, c: FolderColsV) -> FolderRowV {
    FolderRowV { row_id: rid, account_id: account_id, created_at: created, modified_at: c.modified_at, name: c.name, salt: c.salt,
        meta: c.meta, seed: c.seed, version: c.version, cipher: c.cipher, kdf: c.kdf, flags: c.flags }
}
pub open spec fn sql_insert_folder(db: UDbV, account_id: int, rid: int, created: Seq<char>, c: FolderColsV) -> UDbV {
    UDbV { fold: VDbV { folders: db.fold.folders.insert(c.identifier, inserted_folder_row(account_id, rid, created, c)), ..db.fold }, ..db }
}
/// the ten header columns of a folder built from the parts `create_folder` hands to `FolderRow::new_insert_parts`:
/// the vault's summary, its salt and seed, and the ENCODED meta data the caller supplies
pub open spec fn parts_cols(s: SummaryV, salt: Option<Seq<char>>, meta: Option<Seq<u8>>, seed: Option<Seq<u8>>, m: Seq<char>) -> FolderColsV {
    FolderColsV {
        modified_at: m, identifier: uuid_text(s.id), name: s.name, salt: salt, meta: meta, seed: seed,
        version: s.version as int, cipher: cipher_text(s.cipher), kdf: kdf_text(s.kdf), flags: le64(s.flags),
    }
}

// ---- the upserts of `insert_folder_secrets` (text of units/dbvault.vrs, proved there too) -----------------
/// the upserts of `insert_folder_secrets`, one after the other
pub open spec fn sql_upsert_all(db: VDbV, rid: int, rows: Seq<SecretColsV>) -> VDbV
    decreases rows.len(),
{
    if rows.len() == 0 { db } else { sql_upsert_secret(sql_upsert_all(db, rid, rows.drop_last()), rid, rows.last()) }
}
/// the identifier / value pairs of rows to insert
pub open spec fn cols_kv(rows: Seq<SecretColsV>) -> Seq<(Seq<char>, SecV)> { Seq::new(rows.len(), |i: int| (rows[i].identifier, (rows[i].commit, rows[i].meta, rows[i].secret))) }
pub open spec fn kv_not_elsewhere(db: VDbV, rid: int, kv: Seq<(Seq<char>, SecV)>) -> bool {
    forall|i: int| 0 <= i < kv.len() ==> id_not_elsewhere(db, rid, (#[trigger] kv[i]).0)
}
pub proof fn lemma_upsert_all(db: VDbV, f: Seq<char>, rid: int, rows: Seq<SecretColsV>)
    requires db.folders.contains_key(f), rid == rid_of(db, f),
    ensures ({
        let db2 = sql_upsert_all(db, rid, rows);
        &&& db2.folders == db.folders
        &&& db2.rest == db.rest
        &&& secrets_of(db2, rid) == ins_all(secrets_of(db, rid), cols_kv(rows))
        &&& kv_not_elsewhere(db, rid, cols_kv(rows)) ==> others_same(db, db2, f, f, rid)
        &&& forall|k: Seq<char>| db2.secrets.contains_key(k) ==> (#[trigger] db2.secrets[k]).folder_id == rid || (db.secrets.contains_key(k) && db.secrets[k].folder_id == db2.secrets[k].folder_id)
    }),
    decreases rows.len(),
{
    if rows.len() == 0 {
        assert(db.folders.remove(f) =~= db.folders.remove(f));
    } else {
        let p = rows.drop_last();
        let d1 = sql_upsert_all(db, rid, p);
        lemma_upsert_all(db, f, rid, p);
        lemma_upsert(d1, f, rows.last());
        assert(cols_kv(rows).drop_last() =~= cols_kv(p));
        assert(cols_kv(rows).last() == (rows.last().identifier, (rows.last().commit, rows.last().meta, rows.last().secret)));
        if kv_not_elsewhere(db, rid, cols_kv(rows)) {
            assert forall|i: int| 0 <= i < cols_kv(p).len() implies id_not_elsewhere(db, rid, (#[trigger] cols_kv(p)[i]).0) by {
                assert(cols_kv(p)[i] == cols_kv(rows)[i]);
            }
            assert(id_not_elsewhere(db, rid, cols_kv(rows)[rows.len() - 1].0));
            assert(id_not_elsewhere(d1, rid, rows.last().identifier)) by {
                let k = rows.last().identifier;
                if d1.secrets.contains_key(k) && d1.secrets[k].folder_id != rid {
                    assert(db.secrets.contains_key(k) && db.secrets[k] == d1.secrets[k]);
                }
            }
            lemma_others_same_trans(db, d1, sql_upsert_all(db, rid, rows), f, f, f, rid);
        }
    }
}

// ---- the whole of `create_folder`, seen from the relation ------------------------------------------------
/// the database after the three steps of `create_folder`: the folder row inserted, one upsert per secret row
/// in order, the event rows inserted in order (none for `None`)
pub open spec fn created_folder(db: UDbV, account_id: int, rid: int, created: Seq<char>, c: FolderColsV, rows: Seq<SecretColsV>, events: Option<Seq<RowV>>) -> UDbV {
    let d1 = sql_insert_folder(db, account_id, rid, created, c);
    let d2 = UDbV { fold: sql_upsert_all(d1.fold, rid, rows), ..d1 };
    match events { Some(e) => UDbV { ev: sql_insert(d2.ev, Tbl::FolderEvents, rid, e), ..d2 }, None => d2 }
}
pub proof fn lemma_created_folder(db: UDbV, account_id: int, rid: int, created: Seq<char>, c: FolderColsV, rows: Seq<SecretColsV>, events: Option<Seq<RowV>>)
    requires db_fk(db), db_wf(db.fold), !db.fold.folders.contains_key(c.identifier), rid_fresh(db.fold, rid),
    ensures ({
        let d3 = created_folder(db, account_id, rid, created, c, rows, events);
        let f = c.identifier;
        let ev = match events { Some(e) => e, None => Seq::<RowV>::empty() };
        &&& db_fk(d3) && db_wf(d3.fold)
        &&& has_folder(d3.fold, f) && d3.fold.folders[f] == inserted_folder_row(account_id, rid, created, c)
        &&& d3.fold.folders == db.fold.folders.insert(f, inserted_folder_row(account_id, rid, created, c))
        &&& secrets_of(d3.fold, rid) == ins_all(IMap::<Seq<char>, SecV>::empty(), cols_kv(rows))
        &&& own(d3.ev, Tbl::FolderEvents, rid) == new_rows(Tbl::FolderEvents, rid, ev)
        &&& forall|recs: Log| #![trigger rows_are(ev, recs)] rows_are(ev, recs) ==> log_of(d3.ev, Tbl::FolderEvents, rid) == recs
        &&& forall|t: Tbl, o: int| !(t == Tbl::FolderEvents && o == rid) ==> #[trigger] own(d3.ev, t, o) == own(db.ev, t, o)
        &&& kv_not_elsewhere(db.fold, rid, cols_kv(rows)) ==> others_same(db.fold, d3.fold, f, f, rid)
        &&& d3.fold.rest == db.fold.rest && d3.accounts == db.accounts && d3.login == db.login && d3.device == db.device && d3.servers == db.servers
    }),
{
    let f = c.identifier;
    let row = inserted_folder_row(account_id, rid, created, c);
    let d1 = sql_insert_folder(db, account_id, rid, created, c);
    let d2 = UDbV { fold: sql_upsert_all(d1.fold, rid, rows), ..d1 };
    let d3 = created_folder(db, account_id, rid, created, c, rows, events);
    let ev = match events { Some(e) => e, None => Seq::<RowV>::empty() };
    lemma_fresh_rid_unreferenced(db, rid);
    assert(d1.fold.folders.contains_key(f) && rid_of(d1.fold, f) == rid);
    // the secret rows
    assert(secrets_of(d1.fold, rid) =~= secrets_of(db.fold, rid));
    lemma_upsert_all(d1.fold, f, rid, rows);
    assert(d3.fold == d2.fold);
    assert(d2.fold.folders == d1.fold.folders);
    // db_wf: one folder row per row id
    assert forall|a: Seq<char>, b: Seq<char>| d3.fold.folders.contains_key(a) && d3.fold.folders.contains_key(b)
        && (#[trigger] d3.fold.folders[a]).row_id == (#[trigger] d3.fold.folders[b]).row_id implies a == b by {
        if a != f { assert(db.fold.folders.contains_key(a) && db.fold.folders[a] == d3.fold.folders[a]); }
        if b != f { assert(db.fold.folders.contains_key(b) && db.fold.folders[b] == d3.fold.folders[b]); }
    }
    // the event rows
    if events is Some {
        lemma_insert(d2.ev, Tbl::FolderEvents, rid, ev, Tbl::FolderEvents, rid);
        assert(Seq::<DbRow>::empty() + new_rows(Tbl::FolderEvents, rid, ev) =~= new_rows(Tbl::FolderEvents, rid, ev));
        assert forall|t: Tbl, o: int| !(t == Tbl::FolderEvents && o == rid) implies #[trigger] own(d3.ev, t, o) == own(db.ev, t, o) by {
            lemma_insert(d2.ev, Tbl::FolderEvents, rid, ev, t, o);
        }
    } else {
        assert(new_rows(Tbl::FolderEvents, rid, ev) =~= Seq::<DbRow>::empty());
    }
    assert forall|recs: Log| #![trigger rows_are(ev, recs)] rows_are(ev, recs) implies log_of(d3.ev, Tbl::FolderEvents, rid) == recs by {
        if events is Some {
            lemma_insert_log(d2.ev, Tbl::FolderEvents, rid, ev, recs);
            assert(Seq::<Rec>::empty() + recs =~= recs);
        } else {
            assert(recs =~= Seq::<Rec>::empty());
        }
    }
    // others_same
    if kv_not_elsewhere(db.fold, rid, cols_kv(rows)) {
        assert forall|i: int| 0 <= i < cols_kv(rows).len() implies id_not_elsewhere(d1.fold, rid, (#[trigger] cols_kv(rows)[i]).0) by {
            assert(id_not_elsewhere(db.fold, rid, cols_kv(rows)[i].0));
        }
        assert(db.fold.folders.remove(f) =~= d1.fold.folders.remove(f));
        assert(others_same(db.fold, d1.fold, f, f, rid));
        lemma_others_same_trans(db.fold, d1.fold, d2.fold, f, f, f, rid);
    }
    // the foreign keys
    assert(d3.fold.folders[f].row_id == rid);
    assert forall|r: int| folder_rid_exists(db.fold, r) implies folder_rid_exists(d3.fold, r) by {
        let g = choose|g: Seq<char>| db.fold.folders.contains_key(g) && (#[trigger] db.fold.folders[g]).row_id == r;
        assert(g != f);
        assert(d3.fold.folders.contains_key(g) && d3.fold.folders[g].row_id == r);
    }
    assert(folder_rid_exists(d3.fold, rid));
    assert forall|k: Seq<char>| d3.fold.secrets.contains_key(k) implies folder_rid_exists(d3.fold, (#[trigger] d3.fold.secrets[k]).folder_id) by {
        if d3.fold.secrets[k].folder_id != rid {
            assert(d1.fold.secrets.contains_key(k) && d1.fold.secrets[k].folder_id == d3.fold.secrets[k].folder_id);
            assert(folder_rid_exists(db.fold, db.fold.secrets[k].folder_id));
        }
    }
    assert forall|i: int| 0 <= i < d3.ev.len() implies ev_row_fk(d3, #[trigger] d3.ev[i]) by {
        if i < db.ev.len() {
            assert(d3.ev[i] == db.ev[i]);
            assert(ev_row_fk(db, db.ev[i]));
        } else {
            assert(events is Some);
            assert(d3.ev[i] == new_rows(Tbl::FolderEvents, rid, ev)[i - db.ev.len()]);
        }
    }
}

// ---- equal logs have equal commit trees ----------------------------------------------------------------
/// C19 "same commit roots and lengths": a database log that equals the file-system log record for record has
/// the same sequence of commit hashes, hence the same number of leaves and (prelude/tree_merkle.rs
/// `merkle_root`, the root rs_merkle computes from the leaves) the same root
pub proof fn lemma_equal_logs_equal_roots(db_log: Log, fs_log: Log)
    requires db_log == fs_log,
    ensures
        commits_of(db_log) == commits_of(fs_log),
        commits_of(db_log).len() == fs_log.len(),
        mk::merkle_root(commits_of(db_log)) == mk::merkle_root(commits_of(fs_log)),
{}
/// the same from the rows: rows built record by record from `fs_log` and inserted into an empty log
pub proof fn lemma_imported_log_root(db: DbV, t: Tbl, o: int, rows: Seq<RowV>, fs_log: Log)
    requires rows_are(rows, fs_log), log_of(db, t, o) == Seq::<Rec>::empty(),
    ensures
        log_of(sql_insert(db, t, o, rows), t, o) == fs_log,
        mk::merkle_root(commits_of(log_of(sql_insert(db, t, o, rows), t, o))) == mk::merkle_root(commits_of(fs_log)),
        commits_of(log_of(sql_insert(db, t, o, rows), t, o)).len() == fs_log.len(),
{
    lemma_insert_log(db, t, o, rows, fs_log);
    assert(Seq::<Rec>::empty() + fs_log =~= fs_log);
}

// ---- the transaction of `import_account`: frames between its steps --------------------------------------
pub proof fn lemma_new_rows_recs(t: Tbl, o: int, rows: Seq<RowV>)
    ensures recs_of(new_rows(t, o, rows)) == rowv_recs(rows),
{
    assert(recs_of(new_rows(t, o, rows)) =~= rowv_recs(rows));
}
/// state `b` extends state `a`: every folder row of `a` is still there, unchanged; the log of every folder of `a`
/// and every account-level log of an account other than `aid` has the same rows
pub open spec fn ev_frame(a: UDbV, b: UDbV, aid: int) -> bool {
    &&& forall|k: Seq<char>| #![trigger a.fold.folders.contains_key(k)] #![trigger b.fold.folders[k]] a.fold.folders.contains_key(k) ==> b.fold.folders.contains_key(k) && b.fold.folders[k] == a.fold.folders[k]
    &&& forall|t: Tbl, o: int| (t == Tbl::FolderEvents ==> folder_rid_exists(a.fold, o)) && (t != Tbl::FolderEvents ==> o != aid)
            ==> #[trigger] own(b.ev, t, o) == own(a.ev, t, o)
}
/// the three account-level logs of account `aid` have the same rows in `a` and `b`
pub open spec fn acct_logs_same(a: UDbV, b: UDbV, aid: int) -> bool {
    forall|t: Tbl| t != Tbl::FolderEvents ==> #[trigger] own(b.ev, t, aid) == own(a.ev, t, aid)
}
pub proof fn lemma_ev_frame_refl(a: UDbV, aid: int)
    ensures ev_frame(a, a, aid), acct_logs_same(a, a, aid),
{}
pub proof fn lemma_rid_exists_mono(a: VDbV, b: VDbV, rid: int)
    requires folder_rid_exists(a, rid), forall|k: Seq<char>| #![trigger a.folders.contains_key(k)] #![trigger b.folders[k]] a.folders.contains_key(k) ==> b.folders.contains_key(k) && b.folders[k] == a.folders[k],
    ensures folder_rid_exists(b, rid),
{
    let g = choose|g: Seq<char>| a.folders.contains_key(g) && (#[trigger] a.folders[g]).row_id == rid;
    assert(b.folders.contains_key(g) && b.folders[g] == a.folders[g]);
}
pub proof fn lemma_ev_frame_trans(a: UDbV, b: UDbV, c: UDbV, aid: int)
    requires ev_frame(a, b, aid), ev_frame(b, c, aid),
    ensures ev_frame(a, c, aid),
{
    assert forall|k: Seq<char>| #![trigger a.fold.folders.contains_key(k)] #![trigger c.fold.folders[k]] a.fold.folders.contains_key(k) implies c.fold.folders.contains_key(k) && c.fold.folders[k] == a.fold.folders[k] by {
        assert(b.fold.folders.contains_key(k) && b.fold.folders[k] == a.fold.folders[k]);
    }
    assert forall|t: Tbl, o: int| (t == Tbl::FolderEvents ==> folder_rid_exists(a.fold, o)) && (t != Tbl::FolderEvents ==> o != aid)
        implies #[trigger] own(c.ev, t, o) == own(a.ev, t, o) by {
        if t == Tbl::FolderEvents { lemma_rid_exists_mono(a.fold, b.fold, o); }
        assert(own(b.ev, t, o) == own(a.ev, t, o));
        assert(own(c.ev, t, o) == own(b.ev, t, o));
    }
}
pub proof fn lemma_acct_logs_trans(a: UDbV, b: UDbV, c: UDbV, aid: int)
    requires acct_logs_same(a, b, aid), acct_logs_same(b, c, aid),
    ensures acct_logs_same(a, c, aid),
{
    assert forall|t: Tbl| t != Tbl::FolderEvents implies #[trigger] own(c.ev, t, aid) == own(a.ev, t, aid) by {
        assert(own(b.ev, t, aid) == own(a.ev, t, aid));
        assert(own(c.ev, t, aid) == own(b.ev, t, aid));
    }
}
/// what `create_folder` guarantees about its step `a -> b` (new folder `f` with the NEW row id `rid`), as far as
/// the other logs are concerned
pub open spec fn folder_step(a: UDbV, b: UDbV, f: Seq<char>, rid: int) -> bool {
    &&& !has_folder(a.fold, f) && has_folder(b.fold, f) && b.fold.folders[f].row_id == rid
    &&& b.fold.folders == a.fold.folders.insert(f, b.fold.folders[f])
    &&& rid_fresh(a.fold, rid)
    &&& forall|t: Tbl, o: int| !(t == Tbl::FolderEvents && o == rid) ==> #[trigger] own(b.ev, t, o) == own(a.ev, t, o)
}
pub proof fn lemma_folder_step_frame(a: UDbV, b: UDbV, f: Seq<char>, rid: int, aid: int)
    requires folder_step(a, b, f, rid),
    ensures ev_frame(a, b, aid), acct_logs_same(a, b, aid),
{
    assert forall|k: Seq<char>| #![trigger a.fold.folders.contains_key(k)] #![trigger b.fold.folders[k]] a.fold.folders.contains_key(k) implies b.fold.folders.contains_key(k) && b.fold.folders[k] == a.fold.folders[k] by {
        assert(k != f);
    }
    assert forall|t: Tbl, o: int| (t == Tbl::FolderEvents ==> folder_rid_exists(a.fold, o)) && (t != Tbl::FolderEvents ==> o != aid)
        implies #[trigger] own(b.ev, t, o) == own(a.ev, t, o) by {
        if t == Tbl::FolderEvents {
            let g = choose|g: Seq<char>| a.fold.folders.contains_key(g) && (#[trigger] a.fold.folders[g]).row_id == o;
            assert(a.fold.folders[g].row_id != rid);
        }
    }
}
/// an INSERT of event rows for the account-level log (t, aid) of the NEW account `aid`: every folder log and
/// every log of another account keeps its rows, the other two account-level logs of `aid` too
pub proof fn lemma_acct_insert_frame(a: UDbV, t: Tbl, aid: int, rows: Seq<RowV>)
    requires t != Tbl::FolderEvents, db_fk(a), account_rid_exists(a.accounts, aid),
    ensures ({
        let b = UDbV { ev: sql_insert(a.ev, t, aid, rows), ..a };
        &&& ev_frame(a, b, aid)
        &&& db_fk(b)
        &&& own(b.ev, t, aid) == own(a.ev, t, aid) + new_rows(t, aid, rows)
        &&& forall|t2: Tbl| t2 != t ==> #[trigger] own(b.ev, t2, aid) == own(a.ev, t2, aid)
    }),
{
    let b = UDbV { ev: sql_insert(a.ev, t, aid, rows), ..a };
    lemma_insert(a.ev, t, aid, rows, t, aid);
    assert forall|t2: Tbl, o: int| !(t2 == t && o == aid) implies #[trigger] own(b.ev, t2, o) == own(a.ev, t2, o) by {
        lemma_insert(a.ev, t, aid, rows, t2, o);
    }
    assert forall|t2: Tbl| t2 != t implies #[trigger] own(b.ev, t2, aid) == own(a.ev, t2, aid) by {
        lemma_insert(a.ev, t, aid, rows, t2, aid);
    }
    assert forall|i: int| 0 <= i < b.ev.len() implies ev_row_fk(b, #[trigger] b.ev[i]) by {
        if i < a.ev.len() {
            assert(b.ev[i] == a.ev[i]);
            assert(ev_row_fk(a, a.ev[i]));
        } else {
            assert(b.ev[i] == new_rows(t, aid, rows)[i - a.ev.len()]);
        }
    }
}
/// "INSERT INTO accounts": the foreign keys stay in force, no event row references the new account yet
pub proof fn lemma_account_insert(a: UDbV, row: AccountRowV)
    requires db_fk(a), account_rid_fresh(a.accounts, row.row_id),
    ensures ({
        let b = UDbV { accounts: a.accounts.push(row), ..a };
        &&& db_fk(b)
        &&& account_rid_exists(b.accounts, row.row_id)
        &&& forall|t: Tbl| t != Tbl::FolderEvents ==> #[trigger] own(b.ev, t, row.row_id) == Seq::<DbRow>::empty()
    }),
{
    let b = UDbV { accounts: a.accounts.push(row), ..a };
    assert(b.accounts[a.accounts.len() as int] == row);
    assert forall|r: int| account_rid_exists(a.accounts, r) implies account_rid_exists(b.accounts, r) by {
        let i = choose|i: int| 0 <= i < a.accounts.len() && (#[trigger] a.accounts[i]).row_id == r;
        assert(b.accounts[i] == a.accounts[i]);
    }
    assert forall|i: int| 0 <= i < b.ev.len() implies ev_row_fk(b, #[trigger] b.ev[i]) by {
        assert(ev_row_fk(a, a.ev[i]));
    }
    assert forall|t: Tbl| t != Tbl::FolderEvents implies #[trigger] own(b.ev, t, row.row_id) == Seq::<DbRow>::empty() by {
        lemma_fresh_account_unreferenced(a, row.row_id, t);
    }
}
