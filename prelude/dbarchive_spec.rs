// ===========================================================================
// prelude/dbarchive_spec.rs — SPECIFICATION vocabulary of unit `dbarchive` (the
// database backup-archive importer, C18).  Pure spec text and PROVED lemmas only:
// no assumption lives in this file.  Included at top level after
// prelude/dblog_spec.rs, prelude/dbvault_spec.rs and prelude/upgrade_spec.rs, whose
// ghost database `UDbV` (event tables x folder tables x account tables, every other
// table abstract in `fold.rest`) is the model of BOTH databases of an import: the
// SOURCE (the database file of the archive, read only) and the TARGET.
// ===========================================================================

// ---- rows as values ---------------------------------------------------------------------------------
/// the three value columns of a stored event row (what `load_events` reads, what `insert_*_events` binds)
pub open spec fn rowval(r: DbRow) -> RowV { RowV { created_at: r.created_at, commit: r.commit, event: r.event } }
pub open spec fn rowvals(s: Seq<DbRow>) -> Seq<RowV> { Seq::new(s.len(), |i: int| rowval(s[i])) }
pub proof fn lemma_rowvals_new_rows(t: Tbl, o: int, rows: Seq<RowV>)
    ensures rowvals(new_rows(t, o, rows)) == rows,
{
    assert(rowvals(new_rows(t, o, rows)) =~= rows);
}
/// what a folder of an account is, for the importer: the row (`created_at` + the ten header columns), the
/// secret rows and the event rows, in the order they were loaded
pub ghost struct FolderDataV { pub created: Seq<char>, pub cols: FolderColsV, pub secrets: Seq<SecretColsV>, pub events: Seq<RowV> }
/// no secret identifier of `a` is a secret identifier of `b`
pub open spec fn sec_disjoint(a: Seq<SecretColsV>, b: Seq<SecretColsV>) -> bool {
    forall|i: int, j: int| 0 <= i < a.len() && 0 <= j < b.len() ==> (#[trigger] a[i]).identifier != (#[trigger] b[j]).identifier
}

// ---- the steps of the transaction of `write_import_data_source` --------------------------------------------
pub open spec fn ins_ev(db: UDbV, t: Tbl, o: int, rows: Seq<RowV>) -> UDbV { UDbV { ev: sql_insert(db.ev, t, o, rows), ..db } }
/// insert_folder + insert_folder_secrets + insert_folder_events under the NEW folder id `rid`
pub open spec fn add_folder(db: UDbV, aid: int, rid: int, g: FolderDataV) -> UDbV {
    created_folder(db, aid, rid, g.created, g.cols, g.secrets, Some(g.events))
}
/// the loop over the user folders: one `add_folder` per folder, in order, each under ITS new id
pub open spec fn add_folders(db: UDbV, aid: int, rids: Seq<int>, gs: Seq<FolderDataV>) -> UDbV
    decreases gs.len(),
{
    if gs.len() == 0 || rids.len() != gs.len() { db } else { add_folder(add_folders(db, aid, rids.drop_last(), gs.drop_last()), aid, rids.last(), gs.last()) }
}
/// what `insert_folder` established at each step: the id is new, the identifier is new
pub open spec fn chain_ok(db: UDbV, aid: int, rids: Seq<int>, gs: Seq<FolderDataV>) -> bool
    decreases gs.len(),
{
    if gs.len() == 0 || rids.len() != gs.len() { true } else {
        let p = add_folders(db, aid, rids.drop_last(), gs.drop_last());
        chain_ok(db, aid, rids.drop_last(), gs.drop_last()) && rid_fresh(p.fold, rids.last()) && !p.fold.folders.contains_key(gs.last().cols.identifier)
    }
}
pub open spec fn st_account(d0: UDbV, aid: int, ident: Seq<char>, name: Seq<char>) -> UDbV {
    UDbV { accounts: d0.accounts.push(AccountRowV { row_id: aid, identifier: ident, name: name }), ..d0 }
}
pub open spec fn st_login(s: UDbV, aid: int, lrid: int, g: FolderDataV) -> UDbV {
    let a = add_folder(s, aid, lrid, g);
    UDbV { login: a.login.push((aid, lrid)), ..a }
}
/// the device folder: folder row, secret rows and folder event rows under the new id `drid`, registered in account_device_folder
pub open spec fn st_device(s: UDbV, aid: int, drid: int, g: FolderDataV) -> UDbV {
    let a = add_folder(s, aid, drid, g);
    UDbV { device: a.device.push((aid, drid)), ..a }
}

// ---- schema invariants, folder side / account side ---------------------------------------------------------
/// the foreign keys that reference `folders` (folder_secrets.folder_id, folder_events.folder_id)
pub open spec fn fk_f(db: UDbV) -> bool {
    &&& forall|k: Seq<char>| db.fold.secrets.contains_key(k) ==> folder_rid_exists(db.fold, (#[trigger] db.fold.secrets[k]).folder_id)
    &&& forall|i: int| 0 <= i < db.ev.len() && (#[trigger] db.ev[i]).tbl == Tbl::FolderEvents ==> folder_rid_exists(db.fold, db.ev[i].owner)
}
pub proof fn lemma_fk_split(db: UDbV)
    requires db_fk(db),
    ensures fk_f(db),
{
    assert forall|i: int| 0 <= i < db.ev.len() && (#[trigger] db.ev[i]).tbl == Tbl::FolderEvents implies folder_rid_exists(db.fold, db.ev[i].owner) by {
        assert(ev_row_fk(db, db.ev[i]));
    }
}
pub proof fn lemma_fresh_rid_unreferenced_f(db: UDbV, rid: int)
    requires fk_f(db), rid_fresh(db.fold, rid),
    ensures
        secrets_of(db.fold, rid) == IMap::<Seq<char>, SecV>::empty(),
        own(db.ev, Tbl::FolderEvents, rid) == Seq::<DbRow>::empty(),
{
    assert forall|k: Seq<char>| !secret_in(db.fold, rid, k) by {
        if db.fold.secrets.contains_key(k) { assert(folder_rid_exists(db.fold, db.fold.secrets[k].folder_id)); }
    }
    assert(secrets_of(db.fold, rid) =~= IMap::<Seq<char>, SecV>::empty());
    assert forall|i: int| 0 <= i < db.ev.len() implies !is_own(#[trigger] db.ev[i], Tbl::FolderEvents, rid) by {
        if db.ev[i].tbl == Tbl::FolderEvents { assert(folder_rid_exists(db.fold, db.ev[i].owner)); }
    }
    lemma_own_fresh(db.ev, Tbl::FolderEvents, rid);
}

// ---- one folder: what the target holds for it -------------------------------------------------------------------
/// the target holds folder `g` for account `aid` under the row id `rid`: the row with g's `created_at` and header
/// columns, EXACTLY g's secret rows keyed under `rid`, and exactly `evs` as its folder event rows, in order
pub open spec fn folder_ok(db: UDbV, aid: int, rid: int, g: FolderDataV, evs: Seq<RowV>) -> bool {
    let f = g.cols.identifier;
    &&& has_folder(db.fold, f) && db.fold.folders[f] == inserted_folder_row(aid, rid, g.created, g.cols)
    &&& secrets_of(db.fold, rid) == ins_all(IMap::<Seq<char>, SecV>::empty(), cols_kv(g.secrets))
    &&& own(db.ev, Tbl::FolderEvents, rid) == new_rows(Tbl::FolderEvents, rid, evs)
}
/// the keys of the rows built from `rows` are the identifiers of `rows`
pub proof fn lemma_kv_keys(rows: Seq<SecretColsV>, k: Seq<char>)
    ensures ins_all(IMap::<Seq<char>, SecV>::empty(), cols_kv(rows)).contains_key(k) <==> exists|i: int| 0 <= i < rows.len() && (#[trigger] rows[i]).identifier == k,
{
    lemma_ins_all_dom(IMap::<Seq<char>, SecV>::empty(), cols_kv(rows), k);
    let kv = cols_kv(rows);
    if exists|i: int| 0 <= i < kv.len() && (#[trigger] kv[i]).0 == k {
        let i = choose|i: int| 0 <= i < kv.len() && (#[trigger] kv[i]).0 == k;
        assert(rows[i].identifier == k);
    }
    if exists|i: int| 0 <= i < rows.len() && (#[trigger] rows[i]).identifier == k {
        let i = choose|i: int| 0 <= i < rows.len() && (#[trigger] rows[i]).identifier == k;
        assert(kv[i].0 == k);
    }
}
/// upserts into folder `rid2` of rows whose identifiers are not in folder `rid`: folder `rid` keeps its rows
pub proof fn lemma_upsert_all_other(db: VDbV, rid2: int, rows: Seq<SecretColsV>, rid: int)
    requires rid != rid2, forall|i: int| 0 <= i < rows.len() ==> !secret_in(db, rid, (#[trigger] rows[i]).identifier),
    ensures secrets_of(sql_upsert_all(db, rid2, rows), rid) == secrets_of(db, rid), sql_upsert_all(db, rid2, rows).folders == db.folders,
        sql_upsert_all(db, rid2, rows).rest == db.rest,
    decreases rows.len(),
{
    if rows.len() > 0 {
        let p = rows.drop_last();
        assert forall|i: int| 0 <= i < p.len() implies !secret_in(db, rid, (#[trigger] p[i]).identifier) by { assert(p[i] == rows[i]); }
        lemma_upsert_all_other(db, rid2, p, rid);
        let d1 = sql_upsert_all(db, rid2, p);
        let d2 = sql_upsert_secret(d1, rid2, rows.last());
        let k = rows.last().identifier;
        assert(!secret_in(db, rid, rows[rows.len() - 1].identifier));
        assert(!secrets_of(d1, rid).contains_key(k));
        assert(secrets_of(d2, rid) =~= secrets_of(d1, rid));
    }
}
/// `add_folder` of a NEW folder, with the folder-side foreign keys only (text of `lemma_created_folder`,
/// prelude/upgrade_spec.rs, which asks for ALL foreign keys; here the event rows of `device_events` may reference
/// a row id that is no account, see `st_device`)
pub proof fn lemma_created_folder_f(db: UDbV, account_id: int, rid: int, created: Seq<char>, c: FolderColsV, rows: Seq<SecretColsV>, events: Option<Seq<RowV>>)
    requires fk_f(db), db_wf(db.fold), !db.fold.folders.contains_key(c.identifier), rid_fresh(db.fold, rid),
    ensures ({
        let d3 = created_folder(db, account_id, rid, created, c, rows, events);
        let f = c.identifier;
        let ev = match events { Some(e) => e, None => Seq::<RowV>::empty() };
        &&& fk_f(d3) && db_wf(d3.fold)
        &&& folder_ok(d3, account_id, rid, FolderDataV { created: created, cols: c, secrets: rows, events: ev }, ev)
        &&& d3.fold.folders == db.fold.folders.insert(f, inserted_folder_row(account_id, rid, created, c))
        &&& forall|t: Tbl, o: int| !(t == Tbl::FolderEvents && o == rid) ==> #[trigger] own(d3.ev, t, o) == own(db.ev, t, o)
        &&& kv_not_elsewhere(db.fold, rid, cols_kv(rows)) ==> others_same(db.fold, d3.fold, f, f, rid)
        &&& d3.fold.rest == db.fold.rest && d3.accounts == db.accounts && d3.login == db.login && d3.device == db.device
    }),
{
    let f = c.identifier;
    let row = inserted_folder_row(account_id, rid, created, c);
    let d1 = sql_insert_folder(db, account_id, rid, created, c);
    let d2 = UDbV { fold: sql_upsert_all(d1.fold, rid, rows), ..d1 };
    let d3 = created_folder(db, account_id, rid, created, c, rows, events);
    let ev = match events { Some(e) => e, None => Seq::<RowV>::empty() };
    lemma_fresh_rid_unreferenced_f(db, rid);
    assert(d1.fold.folders.contains_key(f) && rid_of(d1.fold, f) == rid);
    assert(secrets_of(d1.fold, rid) =~= secrets_of(db.fold, rid));
    lemma_upsert_all(d1.fold, f, rid, rows);
    assert(d3.fold == d2.fold);
    assert(d2.fold.folders == d1.fold.folders);
    assert forall|a: Seq<char>, b: Seq<char>| d3.fold.folders.contains_key(a) && d3.fold.folders.contains_key(b)
        && (#[trigger] d3.fold.folders[a]).row_id == (#[trigger] d3.fold.folders[b]).row_id implies a == b by {
        if a != f { assert(db.fold.folders.contains_key(a) && db.fold.folders[a] == d3.fold.folders[a]); }
        if b != f { assert(db.fold.folders.contains_key(b) && db.fold.folders[b] == d3.fold.folders[b]); }
    }
    if events is Some {
        lemma_insert(d2.ev, Tbl::FolderEvents, rid, ev, Tbl::FolderEvents, rid);
        assert(Seq::<DbRow>::empty() + new_rows(Tbl::FolderEvents, rid, ev) =~= new_rows(Tbl::FolderEvents, rid, ev));
        assert forall|t: Tbl, o: int| !(t == Tbl::FolderEvents && o == rid) implies #[trigger] own(d3.ev, t, o) == own(db.ev, t, o) by {
            lemma_insert(d2.ev, Tbl::FolderEvents, rid, ev, t, o);
        }
    } else {
        assert(new_rows(Tbl::FolderEvents, rid, ev) =~= Seq::<DbRow>::empty());
    }
    if kv_not_elsewhere(db.fold, rid, cols_kv(rows)) {
        assert forall|i: int| 0 <= i < cols_kv(rows).len() implies id_not_elsewhere(d1.fold, rid, (#[trigger] cols_kv(rows)[i]).0) by {
            assert(id_not_elsewhere(db.fold, rid, cols_kv(rows)[i].0));
        }
        assert(db.fold.folders.remove(f) =~= d1.fold.folders.remove(f));
        assert(others_same(db.fold, d1.fold, f, f, rid));
        lemma_others_same_trans(db.fold, d1.fold, d2.fold, f, f, f, rid);
    }
    assert(d3.fold.folders[f].row_id == rid);
    assert forall|r: int| folder_rid_exists(db.fold, r) implies folder_rid_exists(d3.fold, r) by {
        let g = choose|g: Seq<char>| db.fold.folders.contains_key(g) && (#[trigger] db.fold.folders[g]).row_id == r;
        assert(g != f);
        assert(d3.fold.folders.contains_key(g) && d3.fold.folders[g].row_id == r);
    }
    assert(folder_rid_exists(d3.fold, rid));
    assert forall|k: Seq<char>| d3.fold.secrets.contains_key(k) implies folder_rid_exists(d3.fold, (#[trigger] d3.fold.secrets[k]).folder_id) by {
        if d3.fold.secrets[k].folder_id != rid {
            assert(d1.fold.secrets.contains_key(k) && d1.fold.secrets[k].folder_id == d3.fold.secrets[k].folder_id);
            assert(folder_rid_exists(db.fold, db.fold.secrets[k].folder_id));
        }
    }
    assert forall|i: int| 0 <= i < d3.ev.len() && (#[trigger] d3.ev[i]).tbl == Tbl::FolderEvents implies folder_rid_exists(d3.fold, d3.ev[i].owner) by {
        if i < db.ev.len() {
            assert(d3.ev[i] == db.ev[i]);
            assert(folder_rid_exists(db.fold, db.ev[i].owner));
        } else {
            assert(events is Some);
            assert(d3.ev[i] == new_rows(Tbl::FolderEvents, rid, ev)[i - db.ev.len()]);
        }
    }
}
/// a folder the target already holds keeps its row, its secret rows and its event rows when ANOTHER new folder is added
/// whose secret identifiers are not its own
pub proof fn lemma_folder_ok_kept(a: UDbV, aid: int, rid: int, g: FolderDataV, evs: Seq<RowV>, aid2: int, rid2: int, created2: Seq<char>, c2: FolderColsV, rows2: Seq<SecretColsV>, ev2: Option<Seq<RowV>>)
    requires folder_ok(a, aid, rid, g, evs), rid_fresh(a.fold, rid2), !a.fold.folders.contains_key(c2.identifier), sec_disjoint(g.secrets, rows2),
    ensures folder_ok(created_folder(a, aid2, rid2, created2, c2, rows2, ev2), aid, rid, g, evs),
{
    let f = g.cols.identifier;
    let d1 = sql_insert_folder(a, aid2, rid2, created2, c2);
    let d2 = UDbV { fold: sql_upsert_all(d1.fold, rid2, rows2), ..d1 };
    let d3 = created_folder(a, aid2, rid2, created2, c2, rows2, ev2);
    assert(a.fold.folders[f].row_id == rid);
    assert(rid != rid2);
    assert(secrets_of(d1.fold, rid) =~= secrets_of(a.fold, rid));
    assert forall|i: int| 0 <= i < rows2.len() implies !secret_in(d1.fold, rid, (#[trigger] rows2[i]).identifier) by {
        let k = rows2[i].identifier;
        lemma_kv_keys(g.secrets, k);
        if secret_in(d1.fold, rid, k) {
            assert(secrets_of(a.fold, rid).contains_key(k));
            let j = choose|j: int| 0 <= j < g.secrets.len() && (#[trigger] g.secrets[j]).identifier == k;
            assert(g.secrets[j].identifier != rows2[i].identifier);
        }
    }
    lemma_upsert_all_other(d1.fold, rid2, rows2, rid);
    assert(d3.fold == d2.fold);
    if ev2 is Some {
        lemma_insert(d2.ev, Tbl::FolderEvents, rid2, ev2->Some_0, Tbl::FolderEvents, rid);
    }
}
/// `folder_ok` depends on the folder tables and the folder's own event rows only
pub proof fn lemma_folder_ok_same(a: UDbV, b: UDbV, aid: int, rid: int, g: FolderDataV, evs: Seq<RowV>)
    requires folder_ok(a, aid, rid, g, evs), b.fold.folders == a.fold.folders, b.fold.secrets == a.fold.secrets,
        own(b.ev, Tbl::FolderEvents, rid) == own(a.ev, Tbl::FolderEvents, rid),
    ensures folder_ok(b, aid, rid, g, evs),
{
    assert(secrets_of(b.fold, rid) =~= secrets_of(a.fold, rid));
}

// ---- the loop over the user folders -------------------------------------------------------------------------------
/// every user folder's secret identifiers are disjoint from those of `g`
pub open spec fn disjoint_from_all(g: Seq<SecretColsV>, gs: Seq<FolderDataV>) -> bool {
    forall|j: int| 0 <= j < gs.len() ==> sec_disjoint(g, (#[trigger] gs[j]).secrets)
}
/// two folders with different identifiers share no secret identifier (what reading them from ONE database gives)
pub open spec fn disjoint_if_distinct(a: FolderDataV, b: FolderDataV) -> bool {
    a.cols.identifier != b.cols.identifier ==> sec_disjoint(a.secrets, b.secrets)
}
pub open spec fn pairwise_disjoint(gs: Seq<FolderDataV>) -> bool {
    forall|i: int, j: int| 0 <= i < j < gs.len() ==> disjoint_if_distinct(#[trigger] gs[i], #[trigger] gs[j])
}
pub open spec fn all_kv_not_elsewhere(db: VDbV, rids: Seq<int>, gs: Seq<FolderDataV>) -> bool {
    forall|j: int| 0 <= j < gs.len() ==> kv_not_elsewhere(db, rids[j], cols_kv((#[trigger] gs[j]).secrets))
}
/// rows of folders that were in `a` (folder rows; secret rows under a folder id of `a` other than the new ones)
pub open spec fn old_folders_kept(a: UDbV, b: UDbV) -> bool {
    forall|k: Seq<char>| #![trigger a.fold.folders.contains_key(k)] #![trigger b.fold.folders[k]] a.fold.folders.contains_key(k) ==> b.fold.folders.contains_key(k) && b.fold.folders[k] == a.fold.folders[k]
}
/// the secret rows of every folder id other than the listed new ones are the same in `a` and `b`
pub open spec fn old_secrets_kept(a: VDbV, b: VDbV, news: Seq<int>) -> bool {
    &&& forall|k: Seq<char>| #![trigger a.secrets[k]] a.secrets.contains_key(k) && !news.contains(a.secrets[k].folder_id) ==> b.secrets.contains_key(k) && b.secrets[k] == a.secrets[k]
    &&& forall|k: Seq<char>| #![trigger b.secrets[k]] b.secrets.contains_key(k) && !news.contains(b.secrets[k].folder_id) ==> a.secrets.contains_key(k) && a.secrets[k] == b.secrets[k]
}
pub proof fn lemma_add_folders(db: UDbV, aid: int, rids: Seq<int>, gs: Seq<FolderDataV>)
    requires fk_f(db), db_wf(db.fold), rids.len() == gs.len(), chain_ok(db, aid, rids, gs), pairwise_disjoint(gs),
    ensures ({
        let d = add_folders(db, aid, rids, gs);
        &&& fk_f(d) && db_wf(d.fold)
        &&& forall|j: int| 0 <= j < gs.len() ==> folder_ok(d, aid, rids[j], #[trigger] gs[j], gs[j].events)
        &&& forall|j: int| 0 <= j < gs.len() ==> rid_fresh(db.fold, #[trigger] rids[j]) && !db.fold.folders.contains_key(gs[j].cols.identifier)
        &&& old_folders_kept(db, d)
        &&& forall|k: Seq<char>| #![trigger d.fold.folders.contains_key(k)] d.fold.folders.contains_key(k) ==> db.fold.folders.contains_key(k) || exists|j: int| 0 <= j < gs.len() && (#[trigger] gs[j]).cols.identifier == k
        &&& forall|t: Tbl, o: int| !(t == Tbl::FolderEvents && rids.contains(o)) ==> #[trigger] own(d.ev, t, o) == own(db.ev, t, o)
        &&& all_kv_not_elsewhere(db.fold, rids, gs) ==> old_secrets_kept(db.fold, d.fold, rids)
        &&& d.fold.rest == db.fold.rest && d.accounts == db.accounts && d.login == db.login && d.device == db.device
    }),
    decreases gs.len(),
{
    if gs.len() == 0 {
    } else {
        let pr = rids.drop_last(); let pg = gs.drop_last();
        let n = gs.len() - 1;
        let p = add_folders(db, aid, pr, pg);
        let g = gs.last(); let rid = rids.last();
        assert forall|i: int, j: int| 0 <= i < j < pg.len() implies disjoint_if_distinct(#[trigger] pg[i], #[trigger] pg[j]) by {
            assert(pg[i] == gs[i] && pg[j] == gs[j]);
        }
        lemma_add_folders(db, aid, pr, pg);
        let d = add_folders(db, aid, rids, gs);
        lemma_created_folder_f(p, aid, rid, g.created, g.cols, g.secrets, Some(g.events));
        assert(g == (FolderDataV { created: g.created, cols: g.cols, secrets: g.secrets, events: g.events }));
        assert forall|j: int| 0 <= j < gs.len() implies folder_ok(d, aid, rids[j], #[trigger] gs[j], gs[j].events) by {
            if j < n {
                assert(pg[j] == gs[j] && pr[j] == rids[j]);
                assert(folder_ok(p, aid, pr[j], pg[j], pg[j].events));
                assert(p.fold.folders.contains_key(gs[j].cols.identifier));
                assert(disjoint_if_distinct(gs[j], gs[n]));
                assert(sec_disjoint(gs[j].secrets, gs[n].secrets));
                lemma_folder_ok_kept(p, aid, rids[j], gs[j], gs[j].events, aid, rid, g.created, g.cols, g.secrets, Some(g.events));
            }
        }
        assert forall|j: int| 0 <= j < gs.len() implies rid_fresh(db.fold, #[trigger] rids[j]) && !db.fold.folders.contains_key(gs[j].cols.identifier) by {
            if j < n { assert(pg[j] == gs[j] && pr[j] == rids[j]); }
        }
        assert forall|k: Seq<char>| #![trigger d.fold.folders.contains_key(k)] d.fold.folders.contains_key(k) implies db.fold.folders.contains_key(k) || exists|j: int| 0 <= j < gs.len() && (#[trigger] gs[j]).cols.identifier == k by {
            if k == g.cols.identifier { assert(gs[n].cols.identifier == k); }
            else {
                assert(p.fold.folders.contains_key(k));
                if !db.fold.folders.contains_key(k) {
                    let j = choose|j: int| 0 <= j < pg.len() && (#[trigger] pg[j]).cols.identifier == k;
                    assert(gs[j] == pg[j]);
                }
            }
        }
        assert forall|t: Tbl, o: int| !(t == Tbl::FolderEvents && rids.contains(o)) implies #[trigger] own(d.ev, t, o) == own(db.ev, t, o) by {
            assert(rids[n] == rid);
            if t == Tbl::FolderEvents && pr.contains(o) { let i = choose|i: int| 0 <= i < pr.len() && pr[i] == o; assert(rids[i] == o); }
            assert(own(p.ev, t, o) == own(db.ev, t, o));
        }
        if all_kv_not_elsewhere(db.fold, rids, gs) {
            assert forall|j: int| 0 <= j < pg.len() implies kv_not_elsewhere(db.fold, pr[j], cols_kv((#[trigger] pg[j]).secrets)) by {
                assert(pg[j] == gs[j] && pr[j] == rids[j]);
            }
            // no row of `g` is in a folder of `p` other than `rid`: not in an old folder of `db` (hypothesis), not in an
            // earlier new folder (their rows are their own, disjoint from g's)
            assert(kv_not_elsewhere(db.fold, rids[n], cols_kv(gs[n].secrets)));
            assert forall|i: int| 0 <= i < cols_kv(g.secrets).len() implies id_not_elsewhere(p.fold, rid, (#[trigger] cols_kv(g.secrets)[i]).0) by {
                let k = cols_kv(g.secrets)[i].0;
                assert(k == g.secrets[i].identifier);
                assert(id_not_elsewhere(db.fold, rid, cols_kv(g.secrets)[i].0));
                if p.fold.secrets.contains_key(k) && p.fold.secrets[k].folder_id != rid {
                    let r = p.fold.secrets[k].folder_id;
                    if pr.contains(r) {
                        let j = choose|j: int| 0 <= j < pr.len() && pr[j] == r;
                        assert(folder_ok(p, aid, pr[j], pg[j], pg[j].events));
                        assert(secrets_of(p.fold, r).contains_key(k));
                        lemma_kv_keys(pg[j].secrets, k);
                        let m = choose|m: int| 0 <= m < pg[j].secrets.len() && (#[trigger] pg[j].secrets[m]).identifier == k;
                        assert(pg[j] == gs[j]);
                        assert(p.fold.folders.contains_key(gs[j].cols.identifier));
                        assert(disjoint_if_distinct(gs[j], gs[n]));
                        assert(sec_disjoint(gs[j].secrets, gs[n].secrets));
                        assert(gs[j].secrets[m].identifier != gs[n].secrets[i].identifier);
                    } else {
                        assert(db.fold.secrets.contains_key(k) && db.fold.secrets[k] == p.fold.secrets[k]);
                    }
                }
            }
            assert(others_same(p.fold, d.fold, g.cols.identifier, g.cols.identifier, rid));
            assert forall|k: Seq<char>| #![trigger db.fold.secrets[k]] db.fold.secrets.contains_key(k) && !rids.contains(db.fold.secrets[k].folder_id) implies d.fold.secrets.contains_key(k) && d.fold.secrets[k] == db.fold.secrets[k] by {
                let r = db.fold.secrets[k].folder_id;
                if pr.contains(r) { let i = choose|i: int| 0 <= i < pr.len() && pr[i] == r; assert(rids[i] == r); }
                assert(rids[n] == rid);
                assert(p.fold.secrets.contains_key(k) && p.fold.secrets[k] == db.fold.secrets[k]);
            }
            assert forall|k: Seq<char>| #![trigger d.fold.secrets[k]] d.fold.secrets.contains_key(k) && !rids.contains(d.fold.secrets[k].folder_id) implies db.fold.secrets.contains_key(k) && db.fold.secrets[k] == d.fold.secrets[k] by {
                let r = d.fold.secrets[k].folder_id;
                assert(rids[n] == rid);
                assert(r != rid);
                assert(p.fold.secrets.contains_key(k) && p.fold.secrets[k] == d.fold.secrets[k]);
                if pr.contains(r) { let i = choose|i: int| 0 <= i < pr.len() && pr[i] == r; assert(rids[i] == r); }
            }
        }
    }
}

// ---- equal rows, equal logs, equal commit roots (C19-style) -----------------------------------------------------
/// event rows copied value for value read back as the same log: same records, same commit hashes in the same
/// order, hence the same Merkle root (`mk::merkle_root`, prelude/tree_merkle.rs)
pub proof fn lemma_copied_rows_equal_roots(src: Seq<DbRow>, dst: Seq<DbRow>)
    requires rowvals(dst) == rowvals(src),
    ensures recs_of(dst) == recs_of(src), commits_of(recs_of(dst)) == commits_of(recs_of(src)),
        mk::merkle_root(commits_of(recs_of(dst))) == mk::merkle_root(commits_of(recs_of(src))),
{
    assert(dst.len() == rowvals(dst).len() && src.len() == rowvals(src).len());
    assert forall|i: int| 0 <= i < dst.len() implies #[trigger] recs_of(dst)[i] == recs_of(src)[i] by {
        assert(rowvals(dst)[i] == rowvals(src)[i]);
        assert(rowvals(dst)[i] == rowval(dst[i]) && rowvals(src)[i] == rowval(src[i]));
    }
    assert(recs_of(dst) =~= recs_of(src));
}

// ---- secret rows loaded from a folder, written to a folder ----------------------------------------------------------
/// `rows` are exactly the secret rows of folder `rid` of `db` (any order)
pub open spec fn rows_are_secrets(rows: Seq<SecretColsV>, db: VDbV, rid: int) -> bool {
    &&& forall|i: int| 0 <= i < rows.len() ==> secret_in(db, rid, (#[trigger] rows[i]).identifier)
            && rows[i].commit == db.secrets[rows[i].identifier].commit && rows[i].meta == db.secrets[rows[i].identifier].meta
            && rows[i].secret == db.secrets[rows[i].identifier].secret
    &&& forall|k: Seq<char>| secret_in(db, rid, k) ==> exists|i: int| 0 <= i < rows.len() && (#[trigger] rows[i]).identifier == k
}
pub proof fn lemma_ins_all_sub(m: IMap<Seq<char>, SecV>, kv: Seq<(Seq<char>, SecV)>, k: Seq<char>)
    requires forall|i: int| 0 <= i < kv.len() ==> m.contains_key((#[trigger] kv[i]).0) && m[kv[i].0] == kv[i].1,
    ensures ins_all(IMap::<Seq<char>, SecV>::empty(), kv).contains_key(k) ==> m.contains_key(k) && ins_all(IMap::<Seq<char>, SecV>::empty(), kv)[k] == m[k],
    decreases kv.len(),
{
    if kv.len() > 0 {
        let p = kv.drop_last();
        assert forall|i: int| 0 <= i < p.len() implies m.contains_key((#[trigger] p[i]).0) && m[p[i].0] == p[i].1 by { assert(p[i] == kv[i]); }
        lemma_ins_all_sub(m, p, k);
        assert(m.contains_key(kv[kv.len() - 1].0));
    }
}
/// written back under any folder id, rows loaded from folder `rid` of the source give that folder's rows
pub proof fn lemma_loaded_rows_are_folder(rows: Seq<SecretColsV>, db: VDbV, rid: int)
    requires rows_are_secrets(rows, db, rid),
    ensures ins_all(IMap::<Seq<char>, SecV>::empty(), cols_kv(rows)) == secrets_of(db, rid),
{
    let m = secrets_of(db, rid);
    let kv = cols_kv(rows);
    let r = ins_all(IMap::<Seq<char>, SecV>::empty(), kv);
    assert forall|i: int| 0 <= i < kv.len() implies m.contains_key((#[trigger] kv[i]).0) && m[kv[i].0] == kv[i].1 by {
        assert(secret_in(db, rid, rows[i].identifier));
    }
    assert forall|k: Seq<char>| #![trigger r.contains_key(k)] #![trigger m.contains_key(k)] r.contains_key(k) == m.contains_key(k) && (r.contains_key(k) ==> r[k] == m[k]) by {
        lemma_ins_all_sub(m, kv, k);
        lemma_kv_keys(rows, k);
        if m.contains_key(k) {
            assert(secret_in(db, rid, k));
            let i = choose|i: int| 0 <= i < rows.len() && (#[trigger] rows[i]).identifier == k;
        }
    }
    assert(r =~= m);
}
/// rows loaded from two DIFFERENT folders of one database share no identifier (`identifier` is UNIQUE in the table)
pub proof fn lemma_loaded_rows_disjoint(a: Seq<SecretColsV>, b: Seq<SecretColsV>, db: VDbV, ra: int, rb: int)
    requires rows_are_secrets(a, db, ra), rows_are_secrets(b, db, rb), ra != rb,
    ensures sec_disjoint(a, b),
{
    assert forall|i: int, j: int| 0 <= i < a.len() && 0 <= j < b.len() implies (#[trigger] a[i]).identifier != (#[trigger] b[j]).identifier by {
        assert(secret_in(db, ra, a[i].identifier));
        assert(secret_in(db, rb, b[j].identifier));
    }
}

// ---- the whole transaction of `write_import_data_source` ----------------------------------------------------------------
/// the data of ONE account as the importer holds it in memory between reading and writing
pub ghost struct ImportV {
    pub ident: Seq<char>, pub name: Seq<char>,
    pub account_events: Seq<RowV>,
    pub login: FolderDataV,
    pub device: Option<FolderDataV>,
    pub users: Seq<FolderDataV>,
    pub device_events: Seq<RowV>,
    pub file_events: Seq<RowV>,
}
/// the row ids SQLite assigned in the TARGET: the account, the login folder, the device folder, the user folders
pub ghost struct ImportIds { pub aid: int, pub lrid: int, pub drid: int, pub rids: Seq<int> }
/// folders read from one database: two of them with different identifiers share no secret identifier
pub open spec fn data_wf(v: ImportV) -> bool {
    &&& pairwise_disjoint(v.users)
    &&& forall|j: int| 0 <= j < v.users.len() ==> disjoint_if_distinct(v.login, #[trigger] v.users[j])
    &&& v.device matches Some(g) ==> disjoint_if_distinct(v.login, g) && forall|j: int| 0 <= j < v.users.len() ==> disjoint_if_distinct(g, #[trigger] v.users[j])
}
pub open spec fn tx_acct(d0: UDbV, ids: ImportIds, v: ImportV) -> UDbV { ins_ev(st_account(d0, ids.aid, v.ident, v.name), Tbl::AccountEvents, ids.aid, v.account_events) }
pub open spec fn tx_login(d0: UDbV, ids: ImportIds, v: ImportV) -> UDbV { st_login(tx_acct(d0, ids, v), ids.aid, ids.lrid, v.login) }
pub open spec fn tx_device(d0: UDbV, ids: ImportIds, v: ImportV) -> UDbV {
    match v.device { Some(g) => st_device(tx_login(d0, ids, v), ids.aid, ids.drid, g), None => tx_login(d0, ids, v) }
}
pub open spec fn tx_users(d0: UDbV, ids: ImportIds, v: ImportV) -> UDbV { add_folders(tx_device(d0, ids, v), ids.aid, ids.rids, v.users) }
/// the working state of the transaction after the last statement that writes a table this unit interprets
pub open spec fn tx_devlog(d0: UDbV, ids: ImportIds, v: ImportV) -> UDbV { ins_ev(tx_users(d0, ids, v), Tbl::DeviceEvents, ids.aid, v.device_events) }
pub open spec fn import_tx(d0: UDbV, ids: ImportIds, v: ImportV) -> UDbV { ins_ev(tx_devlog(d0, ids, v), Tbl::FileEvents, ids.aid, v.file_events) }
/// what `AccountEntity::insert` / `FolderEntity::insert_folder` established when they ran: every id is new, every
/// folder identifier is new
pub open spec fn import_chain(d0: UDbV, ids: ImportIds, v: ImportV) -> bool {
    &&& account_rid_fresh(d0.accounts, ids.aid)
    &&& rid_fresh(d0.fold, ids.lrid) && !d0.fold.folders.contains_key(v.login.cols.identifier)
    &&& v.device matches Some(g) ==> rid_fresh(tx_login(d0, ids, v).fold, ids.drid) && !tx_login(d0, ids, v).fold.folders.contains_key(g.cols.identifier)
    &&& ids.rids.len() == v.users.len()
    &&& chain_ok(tx_device(d0, ids, v), ids.aid, ids.rids, v.users)
}
/// (table, owner) pairs whose event rows the transaction writes
pub open spec fn touched(ids: ImportIds, v: ImportV, t: Tbl, o: int) -> bool {
    ||| t != Tbl::FolderEvents && o == ids.aid
    ||| t == Tbl::FolderEvents && (o == ids.lrid || (v.device is Some && o == ids.drid) || ids.rids.contains(o))
}
/// the folder ids the transaction creates
pub open spec fn new_rids(ids: ImportIds, v: ImportV) -> Seq<int> {
    (if v.device is Some { seq![ids.lrid, ids.drid] } else { seq![ids.lrid] }) + ids.rids
}
/// no secret identifier of the imported account is held by a folder the target had before
pub open spec fn import_kv_not_elsewhere(d0: UDbV, ids: ImportIds, v: ImportV) -> bool {
    &&& kv_not_elsewhere(d0.fold, ids.lrid, cols_kv(v.login.secrets))
    &&& v.device matches Some(g) ==> kv_not_elsewhere(d0.fold, ids.drid, cols_kv(g.secrets))
    &&& all_kv_not_elsewhere(d0.fold, ids.rids, v.users)
}
#[verifier::opaque]
pub open spec fn f_account(d0: UDbV, d1: UDbV, ids: ImportIds, v: ImportV) -> bool {
    d1.accounts == d0.accounts.push(AccountRowV { row_id: ids.aid, identifier: v.ident, name: v.name }) && account_rid_fresh(d0.accounts, ids.aid)
}
#[verifier::opaque]
pub open spec fn f_login(d0: UDbV, d1: UDbV, ids: ImportIds, v: ImportV) -> bool {
    folder_ok(d1, ids.aid, ids.lrid, v.login, v.login.events) && d1.login == d0.login.push((ids.aid, ids.lrid)) && rid_fresh(d0.fold, ids.lrid)
}
/// the device folder: row, secret rows and folder event rows under the new id, registered
#[verifier::opaque]
pub open spec fn f_device(d0: UDbV, d1: UDbV, ids: ImportIds, v: ImportV) -> bool {
    match v.device {
        Some(g) => folder_ok(d1, ids.aid, ids.drid, g, g.events) && d1.device == d0.device.push((ids.aid, ids.drid)) && rid_fresh(d0.fold, ids.drid),
        None => d1.device == d0.device,
    }
}
#[verifier::opaque]
pub open spec fn f_users(d0: UDbV, d1: UDbV, ids: ImportIds, v: ImportV) -> bool {
    ids.rids.len() == v.users.len() && forall|j: int| 0 <= j < v.users.len() ==> folder_ok(d1, ids.aid, ids.rids[j], #[trigger] v.users[j], v.users[j].events) && rid_fresh(d0.fold, ids.rids[j])
}
#[verifier::opaque]
pub open spec fn f_logs(d0: UDbV, d1: UDbV, ids: ImportIds, v: ImportV) -> bool {
    own(d1.ev, Tbl::AccountEvents, ids.aid) == new_rows(Tbl::AccountEvents, ids.aid, v.account_events)
    && own(d1.ev, Tbl::FileEvents, ids.aid) == new_rows(Tbl::FileEvents, ids.aid, v.file_events)
}
/// the account's DEVICE log (the table `device_events`, owner = the new account id): exactly the source's rows, in order
#[verifier::opaque]
pub open spec fn f_devlog(d0: UDbV, d1: UDbV, ids: ImportIds, v: ImportV) -> bool {
    own(d1.ev, Tbl::DeviceEvents, ids.aid) == new_rows(Tbl::DeviceEvents, ids.aid, v.device_events)
}
pub open spec fn imported_ident(v: ImportV, k: Seq<char>) -> bool {
    k == v.login.cols.identifier || (v.device matches Some(g) && k == g.cols.identifier) || exists|j: int| 0 <= j < v.users.len() && (#[trigger] v.users[j]).cols.identifier == k
}
pub open spec fn f_frame(d0: UDbV, d1: UDbV, ids: ImportIds, v: ImportV) -> bool {
    &&& old_folders_kept(d0, d1)
    &&& forall|k: Seq<char>| #![trigger d1.fold.folders.contains_key(k)] d1.fold.folders.contains_key(k) ==> d0.fold.folders.contains_key(k) || imported_ident(v, k)
    &&& forall|t: Tbl, o: int| !touched(ids, v, t, o) ==> #[trigger] own(d1.ev, t, o) == own(d0.ev, t, o)
    &&& import_kv_not_elsewhere(d0, ids, v) ==> old_secrets_kept(d0.fold, d1.fold, new_rids(ids, v))
    &&& d1.fold.rest == d0.fold.rest
    &&& fk_f(d1) && db_wf(d1.fold)
}
pub open spec fn import_facts(d0: UDbV, d1: UDbV, ids: ImportIds, v: ImportV) -> bool {
    f_account(d0, d1, ids, v) && f_login(d0, d1, ids, v) && f_device(d0, d1, ids, v) && f_users(d0, d1, ids, v) && f_logs(d0, d1, ids, v) && f_devlog(d0, d1, ids, v) && f_frame(d0, d1, ids, v)
}
/// the facts do not look at `fold.rest` (preferences, servers, system messages, ...), except that it is unchanged
pub proof fn lemma_facts_rest(d0: UDbV, a: UDbV, b: UDbV, ids: ImportIds, v: ImportV)
    requires import_facts(d0, a, ids, v), b == (UDbV { fold: VDbV { rest: b.fold.rest, ..a.fold }, ..a }),
    ensures f_account(d0, b, ids, v), f_login(d0, b, ids, v), f_device(d0, b, ids, v), f_users(d0, b, ids, v), f_logs(d0, b, ids, v), f_devlog(d0, b, ids, v),
        old_folders_kept(d0, b),
        forall|k: Seq<char>| #![trigger b.fold.folders.contains_key(k)] b.fold.folders.contains_key(k) ==> d0.fold.folders.contains_key(k) || imported_ident(v, k),
        forall|t: Tbl, o: int| !touched(ids, v, t, o) ==> #[trigger] own(b.ev, t, o) == own(d0.ev, t, o),
        import_kv_not_elsewhere(d0, ids, v) ==> old_secrets_kept(d0.fold, b.fold, new_rids(ids, v)),
        fk_f(b) && db_wf(b.fold),
{
    reveal(f_account); reveal(f_login); reveal(f_device); reveal(f_users); reveal(f_logs); reveal(f_devlog);
    lemma_folder_ok_same(a, b, ids.aid, ids.lrid, v.login, v.login.events);
    if v.device is Some { lemma_folder_ok_same(a, b, ids.aid, ids.drid, v.device->Some_0, v.device->Some_0.events); }
    assert forall|j: int| 0 <= j < v.users.len() implies folder_ok(b, ids.aid, ids.rids[j], #[trigger] v.users[j], v.users[j].events) by {
        lemma_folder_ok_same(a, b, ids.aid, ids.rids[j], v.users[j], v.users[j].events);
    }
    assert forall|r: int| folder_rid_exists(a.fold, r) implies folder_rid_exists(b.fold, r) by {
        let g = choose|g: Seq<char>| a.fold.folders.contains_key(g) && (#[trigger] a.fold.folders[g]).row_id == r;
        assert(b.fold.folders.contains_key(g) && b.fold.folders[g].row_id == r);
    }
    assert forall|k: Seq<char>| b.fold.secrets.contains_key(k) implies folder_rid_exists(b.fold, (#[trigger] b.fold.secrets[k]).folder_id) by {
        assert(folder_rid_exists(a.fold, a.fold.secrets[k].folder_id));
    }
    assert forall|i: int| 0 <= i < b.ev.len() && (#[trigger] b.ev[i]).tbl == Tbl::FolderEvents implies folder_rid_exists(b.fold, b.ev[i].owner) by {
        assert(folder_rid_exists(a.fold, a.ev[i].owner));
    }
}
/// an INSERT of event rows that are not folder events: folder-side foreign keys, folder tables and every folder's facts stay
pub proof fn lemma_ins_ev_nonfolder(a: UDbV, t: Tbl, o: int, rows: Seq<RowV>)
    requires t != Tbl::FolderEvents, fk_f(a),
    ensures ({ let b = ins_ev(a, t, o, rows);
        &&& fk_f(b)
        &&& own(b.ev, t, o) == own(a.ev, t, o) + new_rows(t, o, rows)
        &&& forall|t2: Tbl, o2: int| !(t2 == t && o2 == o) ==> #[trigger] own(b.ev, t2, o2) == own(a.ev, t2, o2)
    }),
{
    let b = ins_ev(a, t, o, rows);
    lemma_insert(a.ev, t, o, rows, t, o);
    assert forall|t2: Tbl, o2: int| !(t2 == t && o2 == o) implies #[trigger] own(b.ev, t2, o2) == own(a.ev, t2, o2) by {
        lemma_insert(a.ev, t, o, rows, t2, o2);
    }
    assert forall|i: int| 0 <= i < b.ev.len() && (#[trigger] b.ev[i]).tbl == Tbl::FolderEvents implies folder_rid_exists(b.fold, b.ev[i].owner) by {
        if i < a.ev.len() {
            assert(b.ev[i] == a.ev[i]);
            assert(folder_rid_exists(a.fold, a.ev[i].owner));
        } else {
            assert(b.ev[i] == new_rows(t, o, rows)[i - a.ev.len()]);
        }
    }
}
/// a folder the target holds keeps its facts through the loop over the user folders
pub proof fn lemma_add_folders_keeps(db: UDbV, aid: int, rids: Seq<int>, gs: Seq<FolderDataV>, aid0: int, rid0: int, g0: FolderDataV, evs0: Seq<RowV>)
    requires fk_f(db), db_wf(db.fold), rids.len() == gs.len(), chain_ok(db, aid, rids, gs), pairwise_disjoint(gs),
        folder_ok(db, aid0, rid0, g0, evs0), forall|j: int| 0 <= j < gs.len() ==> disjoint_if_distinct(g0, #[trigger] gs[j]),
    ensures folder_ok(add_folders(db, aid, rids, gs), aid0, rid0, g0, evs0),
    decreases gs.len(),
{
    if gs.len() > 0 {
        let pr = rids.drop_last(); let pg = gs.drop_last();
        let n = gs.len() - 1;
        let p = add_folders(db, aid, pr, pg);
        let g = gs.last();
        assert forall|i: int, j: int| 0 <= i < j < pg.len() implies disjoint_if_distinct(#[trigger] pg[i], #[trigger] pg[j]) by {
            assert(pg[i] == gs[i] && pg[j] == gs[j]);
        }
        assert forall|j: int| 0 <= j < pg.len() implies disjoint_if_distinct(g0, #[trigger] pg[j]) by { assert(pg[j] == gs[j]); }
        lemma_add_folders_keeps(db, aid, pr, pg, aid0, rid0, g0, evs0);
        assert(p.fold.folders.contains_key(g0.cols.identifier));
        assert(disjoint_if_distinct(g0, gs[n]));
        lemma_folder_ok_kept(p, aid0, rid0, g0, evs0, aid, rids.last(), g.created, g.cols, g.secrets, Some(g.events));
    }
}
pub proof fn lemma_import(d0: UDbV, ids: ImportIds, v: ImportV)
    requires db_fk(d0), db_wf(d0.fold), data_wf(v), import_chain(d0, ids, v),
    ensures import_facts(d0, import_tx(d0, ids, v), ids, v),
{
    reveal(f_account); reveal(f_login); reveal(f_device); reveal(f_users); reveal(f_logs); reveal(f_devlog);
    let aid = ids.aid;
    let s1 = st_account(d0, aid, v.ident, v.name);
    let s2 = tx_acct(d0, ids, v);
    lemma_fk_split(d0);
    assert(fk_f(s1));
    lemma_fresh_account_unreferenced(d0, aid, Tbl::AccountEvents);
    lemma_fresh_account_unreferenced(d0, aid, Tbl::FileEvents);
    lemma_ins_ev_nonfolder(s1, Tbl::AccountEvents, aid, v.account_events);
    assert(Seq::<DbRow>::empty() + new_rows(Tbl::AccountEvents, aid, v.account_events) =~= new_rows(Tbl::AccountEvents, aid, v.account_events));
    // login folder
    let gl = v.login;
    let a3 = add_folder(s2, aid, ids.lrid, gl);
    lemma_created_folder_f(s2, aid, ids.lrid, gl.created, gl.cols, gl.secrets, Some(gl.events));
    assert(gl == (FolderDataV { created: gl.created, cols: gl.cols, secrets: gl.secrets, events: gl.events }));
    let s3 = tx_login(d0, ids, v);
    lemma_folder_ok_same(a3, s3, aid, ids.lrid, gl, gl.events);
    assert(fk_f(s3) && db_wf(s3.fold));
    // device folder
    let s4 = tx_device(d0, ids, v);
    if v.device is Some {
        let g = v.device->Some_0;
        let a4 = add_folder(s3, aid, ids.drid, g);
        lemma_created_folder_f(s3, aid, ids.drid, g.created, g.cols, g.secrets, Some(g.events));
        assert(g == (FolderDataV { created: g.created, cols: g.cols, secrets: g.secrets, events: g.events }));
        assert(s3.fold.folders.contains_key(gl.cols.identifier));
        assert(disjoint_if_distinct(gl, g));
        lemma_folder_ok_kept(s3, aid, ids.lrid, gl, gl.events, aid, ids.drid, g.created, g.cols, g.secrets, Some(g.events));
        lemma_folder_ok_same(a4, s4, aid, ids.lrid, gl, gl.events);
        lemma_folder_ok_same(a4, s4, aid, ids.drid, g, g.events);
        assert(fk_f(s4) && db_wf(s4.fold));
        assert(rid_fresh(d0.fold, ids.drid)) by {
            assert forall|k: Seq<char>| d0.fold.folders.contains_key(k) implies (#[trigger] d0.fold.folders[k]).row_id != ids.drid by {
                assert(s3.fold.folders.contains_key(k) && s3.fold.folders[k] == d0.fold.folders[k]);
            }
        }
    }
    assert(fk_f(s4) && db_wf(s4.fold));
    // user folders
    let s5 = tx_users(d0, ids, v);
    lemma_add_folders(s4, aid, ids.rids, v.users);
    assert(s4.fold.folders.contains_key(gl.cols.identifier));
    lemma_add_folders_keeps(s4, aid, ids.rids, v.users, aid, ids.lrid, gl, gl.events);
    if v.device is Some {
        let g = v.device->Some_0;
        lemma_add_folders_keeps(s4, aid, ids.rids, v.users, aid, ids.drid, g, g.events);
    }
    // the account's device log, file events
    let s5b = tx_devlog(d0, ids, v);
    let s6 = import_tx(d0, ids, v);
    lemma_fresh_account_unreferenced(d0, aid, Tbl::DeviceEvents);
    lemma_ins_ev_nonfolder(s5, Tbl::DeviceEvents, aid, v.device_events);
    lemma_ins_ev_nonfolder(s5b, Tbl::FileEvents, aid, v.file_events);
    assert(Seq::<DbRow>::empty() + new_rows(Tbl::DeviceEvents, aid, v.device_events) =~= new_rows(Tbl::DeviceEvents, aid, v.device_events));
    assert(Seq::<DbRow>::empty() + new_rows(Tbl::FileEvents, aid, v.file_events) =~= new_rows(Tbl::FileEvents, aid, v.file_events));
    lemma_folder_ok_same(s5, s6, aid, ids.lrid, gl, gl.events);
    if v.device is Some { lemma_folder_ok_same(s5, s6, aid, ids.drid, v.device->Some_0, v.device->Some_0.events); }
    assert forall|j: int| 0 <= j < v.users.len() implies folder_ok(s6, aid, ids.rids[j], #[trigger] v.users[j], v.users[j].events) && rid_fresh(d0.fold, ids.rids[j]) by {
        lemma_folder_ok_same(s5, s6, aid, ids.rids[j], v.users[j], v.users[j].events);
        assert(rid_fresh(s4.fold, ids.rids[j]));
        assert forall|k: Seq<char>| d0.fold.folders.contains_key(k) implies (#[trigger] d0.fold.folders[k]).row_id != ids.rids[j] by {
            assert(s4.fold.folders.contains_key(k) && s4.fold.folders[k] == d0.fold.folders[k]);
        }
    }
    // frames
    assert(old_folders_kept(d0, s6)) by {
        assert forall|k: Seq<char>| #![trigger d0.fold.folders.contains_key(k)] #![trigger s6.fold.folders[k]] d0.fold.folders.contains_key(k) implies s6.fold.folders.contains_key(k) && s6.fold.folders[k] == d0.fold.folders[k] by {
            assert(s3.fold.folders.contains_key(k) && s3.fold.folders[k] == d0.fold.folders[k]);
            assert(s4.fold.folders.contains_key(k) && s4.fold.folders[k] == d0.fold.folders[k]);
            assert(s5.fold.folders.contains_key(k) && s5.fold.folders[k] == s4.fold.folders[k]);
        }
    }
    assert forall|k: Seq<char>| #![trigger s6.fold.folders.contains_key(k)] s6.fold.folders.contains_key(k) implies d0.fold.folders.contains_key(k) || imported_ident(v, k) by {
        assert(s5.fold.folders.contains_key(k));
        if !s4.fold.folders.contains_key(k) {
            let j = choose|j: int| 0 <= j < v.users.len() && (#[trigger] v.users[j]).cols.identifier == k;
        }
    }
    assert forall|t: Tbl, o: int| !touched(ids, v, t, o) implies #[trigger] own(s6.ev, t, o) == own(d0.ev, t, o) by {
        assert(own(s2.ev, t, o) == own(d0.ev, t, o));
        assert(own(s3.ev, t, o) == own(s2.ev, t, o));
        assert(own(s4.ev, t, o) == own(s3.ev, t, o));
        assert(own(s5.ev, t, o) == own(s4.ev, t, o));
        assert(own(s5b.ev, t, o) == own(s5.ev, t, o));
    }
    if import_kv_not_elsewhere(d0, ids, v) {
        lemma_import_secrets_frame(d0, ids, v);
    }
}
/// the secret rows of the folders the target had before, when no imported secret identifier is held by one of them
pub proof fn lemma_import_secrets_frame(d0: UDbV, ids: ImportIds, v: ImportV)
    requires db_fk(d0), db_wf(d0.fold), data_wf(v), import_chain(d0, ids, v), import_kv_not_elsewhere(d0, ids, v),
    ensures old_secrets_kept(d0.fold, import_tx(d0, ids, v).fold, new_rids(ids, v)),
{
    let aid = ids.aid;
    let s2 = tx_acct(d0, ids, v);
    let gl = v.login;
    lemma_fk_split(d0);
    lemma_ins_ev_nonfolder(st_account(d0, aid, v.ident, v.name), Tbl::AccountEvents, aid, v.account_events);
    lemma_created_folder_f(s2, aid, ids.lrid, gl.created, gl.cols, gl.secrets, Some(gl.events));
    let s3 = tx_login(d0, ids, v);
    let s4 = tx_device(d0, ids, v);
    let news = new_rids(ids, v);
    assert(news[0] == ids.lrid);
    // d0 -> s3: others_same w.r.t. lrid
    assert(others_same(d0.fold, s3.fold, gl.cols.identifier, gl.cols.identifier, ids.lrid));
    if v.device is Some {
        let g = v.device->Some_0;
        assert(news[1] == ids.drid);
        lemma_created_folder_f(s3, aid, ids.drid, g.created, g.cols, g.secrets, Some(g.events));
        // rows of g are not in another folder of s3: not in an old folder (hypothesis), not in the login folder (disjoint)
        assert forall|i: int| 0 <= i < cols_kv(g.secrets).len() implies id_not_elsewhere(s3.fold, ids.drid, (#[trigger] cols_kv(g.secrets)[i]).0) by {
            let k = cols_kv(g.secrets)[i].0;
            assert(k == g.secrets[i].identifier);
            assert(id_not_elsewhere(d0.fold, ids.drid, cols_kv(g.secrets)[i].0));
            if s3.fold.secrets.contains_key(k) && s3.fold.secrets[k].folder_id != ids.drid {
                if s3.fold.secrets[k].folder_id == ids.lrid {
                    assert(secrets_of(s3.fold, ids.lrid).contains_key(k));
                    lemma_kv_keys(gl.secrets, k);
                    let m = choose|m: int| 0 <= m < gl.secrets.len() && (#[trigger] gl.secrets[m]).identifier == k;
                    assert(s3.fold.folders.contains_key(gl.cols.identifier));
                    assert(disjoint_if_distinct(gl, g));
                    assert(gl.secrets[m].identifier != g.secrets[i].identifier);
                } else {
                    assert(d0.fold.secrets.contains_key(k) && d0.fold.secrets[k] == s3.fold.secrets[k]);
                }
            }
        }
        assert(others_same(s3.fold, s4.fold, g.cols.identifier, g.cols.identifier, ids.drid));
    }
    assert(fk_f(s4) && db_wf(s4.fold));
    // s4 -> s5: the loop; its hypothesis relative to s4
    assert forall|j: int| 0 <= j < v.users.len() implies kv_not_elsewhere(s4.fold, ids.rids[j], cols_kv((#[trigger] v.users[j]).secrets)) by {
        let gj = v.users[j];
        assert(kv_not_elsewhere(d0.fold, ids.rids[j], cols_kv(v.users[j].secrets)));
        assert forall|i: int| 0 <= i < cols_kv(gj.secrets).len() implies id_not_elsewhere(s4.fold, ids.rids[j], (#[trigger] cols_kv(gj.secrets)[i]).0) by {
            let k = cols_kv(gj.secrets)[i].0;
            assert(k == gj.secrets[i].identifier);
            assert(id_not_elsewhere(d0.fold, ids.rids[j], cols_kv(gj.secrets)[i].0));
            if s4.fold.secrets.contains_key(k) && s4.fold.secrets[k].folder_id != ids.rids[j] {
                let r = s4.fold.secrets[k].folder_id;
                lemma_import_login_device_ok(d0, ids, v);
                lemma_add_folders(s4, aid, ids.rids, v.users);
                if r == ids.lrid {
                    assert(secrets_of(s4.fold, ids.lrid).contains_key(k));
                    lemma_kv_keys(gl.secrets, k);
                    let m = choose|m: int| 0 <= m < gl.secrets.len() && (#[trigger] gl.secrets[m]).identifier == k;
                    assert(s4.fold.folders.contains_key(gl.cols.identifier));
                    assert(!s4.fold.folders.contains_key(gj.cols.identifier));
                    assert(disjoint_if_distinct(gl, v.users[j]));
                    assert(gl.secrets[m].identifier != gj.secrets[i].identifier);
                } else if v.device is Some && r == ids.drid {
                    let g = v.device->Some_0;
                    assert(secrets_of(s4.fold, ids.drid).contains_key(k));
                    lemma_kv_keys(g.secrets, k);
                    let m = choose|m: int| 0 <= m < g.secrets.len() && (#[trigger] g.secrets[m]).identifier == k;
                    assert(s4.fold.folders.contains_key(g.cols.identifier));
                    assert(!s4.fold.folders.contains_key(gj.cols.identifier));
                    assert(disjoint_if_distinct(g, v.users[j]));
                    assert(g.secrets[m].identifier != gj.secrets[i].identifier);
                } else {
                    assert(s3.fold.secrets.contains_key(k) && s3.fold.secrets[k] == s4.fold.secrets[k]);
                    assert(d0.fold.secrets.contains_key(k) && d0.fold.secrets[k] == s3.fold.secrets[k]);
                }
            }
        }
    }
    lemma_add_folders(s4, aid, ids.rids, v.users);
    let s5 = tx_users(d0, ids, v);
    let s6 = import_tx(d0, ids, v);
    assert(s6.fold == s5.fold);
    lemma_import_login_device_ok(d0, ids, v);
    assert forall|r: int| #![auto] ids.rids.contains(r) implies news.contains(r) by {
        let i = choose|i: int| 0 <= i < ids.rids.len() && ids.rids[i] == r;
        let off = if v.device is Some { 2int } else { 1int };
        assert(news[off + i] == r);
    }
    assert forall|r: int| #![auto] news.contains(r) implies r == ids.lrid || (v.device is Some && r == ids.drid) || ids.rids.contains(r) by {
        let i = choose|i: int| 0 <= i < news.len() && news[i] == r;
        let off = if v.device is Some { 2int } else { 1int };
        if i >= off { assert(ids.rids[i - off] == r); }
    }
    assert forall|k: Seq<char>| #![trigger d0.fold.secrets[k]] d0.fold.secrets.contains_key(k) && !news.contains(d0.fold.secrets[k].folder_id) implies s6.fold.secrets.contains_key(k) && s6.fold.secrets[k] == d0.fold.secrets[k] by {
        assert(s3.fold.secrets.contains_key(k) && s3.fold.secrets[k] == d0.fold.secrets[k]);
        assert(s4.fold.secrets.contains_key(k) && s4.fold.secrets[k] == d0.fold.secrets[k]);
        assert(!ids.rids.contains(s4.fold.secrets[k].folder_id));
    }
    assert forall|k: Seq<char>| #![trigger s6.fold.secrets[k]] s6.fold.secrets.contains_key(k) && !news.contains(s6.fold.secrets[k].folder_id) implies d0.fold.secrets.contains_key(k) && d0.fold.secrets[k] == s6.fold.secrets[k] by {
        assert(!ids.rids.contains(s5.fold.secrets[k].folder_id));
        assert(s4.fold.secrets.contains_key(k) && s4.fold.secrets[k] == s5.fold.secrets[k]);
        assert(s3.fold.secrets.contains_key(k) && s3.fold.secrets[k] == s4.fold.secrets[k]);
        assert(d0.fold.secrets.contains_key(k) && d0.fold.secrets[k] == s3.fold.secrets[k]);
    }
}
/// the login folder and the device folder hold exactly their own secret rows before the loop over the user folders
pub proof fn lemma_import_login_device_ok(d0: UDbV, ids: ImportIds, v: ImportV)
    requires db_fk(d0), db_wf(d0.fold), data_wf(v), import_chain(d0, ids, v),
    ensures ({ let s4 = tx_device(d0, ids, v);
        &&& fk_f(s4) && db_wf(s4.fold)
        &&& folder_ok(s4, ids.aid, ids.lrid, v.login, v.login.events)
        &&& v.device matches Some(g) ==> folder_ok(s4, ids.aid, ids.drid, g, g.events)
    }),
{
    let aid = ids.aid;
    let s2 = tx_acct(d0, ids, v);
    let gl = v.login;
    lemma_fk_split(d0);
    lemma_ins_ev_nonfolder(st_account(d0, aid, v.ident, v.name), Tbl::AccountEvents, aid, v.account_events);
    let a3 = add_folder(s2, aid, ids.lrid, gl);
    lemma_created_folder_f(s2, aid, ids.lrid, gl.created, gl.cols, gl.secrets, Some(gl.events));
    assert(gl == (FolderDataV { created: gl.created, cols: gl.cols, secrets: gl.secrets, events: gl.events }));
    let s3 = tx_login(d0, ids, v);
    lemma_folder_ok_same(a3, s3, aid, ids.lrid, gl, gl.events);
    let s4 = tx_device(d0, ids, v);
    if v.device is Some {
        let g = v.device->Some_0;
        let a4 = add_folder(s3, aid, ids.drid, g);
        lemma_created_folder_f(s3, aid, ids.drid, g.created, g.cols, g.secrets, Some(g.events));
        assert(g == (FolderDataV { created: g.created, cols: g.cols, secrets: g.secrets, events: g.events }));
        assert(s3.fold.folders.contains_key(gl.cols.identifier));
        assert(disjoint_if_distinct(gl, g));
        lemma_folder_ok_kept(s3, aid, ids.lrid, gl, gl.events, aid, ids.drid, g.created, g.cols, g.secrets, Some(g.events));
        lemma_folder_ok_same(a4, s4, aid, ids.lrid, gl, gl.events);
        lemma_folder_ok_same(a4, s4, aid, ids.drid, g, g.events);
    }
}

/// the ids of the imported account in the target, read back from the target: the account row is the last one of
/// `accounts`, each folder is found under its identifier
pub open spec fn ids_of(d1: UDbV, v: ImportV) -> ImportIds {
    ImportIds {
        aid: d1.accounts.last().row_id,
        lrid: rid_of(d1.fold, v.login.cols.identifier),
        drid: match v.device { Some(g) => rid_of(d1.fold, g.cols.identifier), None => 0 },
        rids: Seq::new(v.users.len(), |j: int| rid_of(d1.fold, v.users[j].cols.identifier)),
    }
}
/// "nothing of the accounts and folders the target had before changes", event rows: every log of a folder / an account
/// of `d0` has the same rows in `d1`
#[verifier::opaque]
pub open spec fn old_logs_kept(d0: UDbV, d1: UDbV) -> bool {
    forall|t: Tbl, o: int| (t == Tbl::FolderEvents ==> folder_rid_exists(d0.fold, o)) && (t != Tbl::FolderEvents ==> account_rid_exists(d0.accounts, o))
        ==> #[trigger] own(d1.ev, t, o) == own(d0.ev, t, o)
}
pub proof fn lemma_old_logs_kept(d0: UDbV, d1: UDbV, ids: ImportIds, v: ImportV)
    requires f_account(d0, d1, ids, v), f_login(d0, d1, ids, v), f_device(d0, d1, ids, v), f_users(d0, d1, ids, v),
        forall|t: Tbl, o: int| !touched(ids, v, t, o) ==> #[trigger] own(d1.ev, t, o) == own(d0.ev, t, o),
    ensures old_logs_kept(d0, d1),
{
    reveal(f_account); reveal(f_login); reveal(f_device); reveal(f_users); reveal(f_logs); reveal(f_devlog);
    reveal(old_logs_kept);
    assert forall|t: Tbl, o: int| (t == Tbl::FolderEvents ==> folder_rid_exists(d0.fold, o)) && (t != Tbl::FolderEvents ==> account_rid_exists(d0.accounts, o))
        implies #[trigger] own(d1.ev, t, o) == own(d0.ev, t, o) by {
        if t == Tbl::FolderEvents {
            let g = choose|g: Seq<char>| d0.fold.folders.contains_key(g) && (#[trigger] d0.fold.folders[g]).row_id == o;
            if ids.rids.contains(o) { let j = choose|j: int| 0 <= j < ids.rids.len() && ids.rids[j] == o; assert(rid_fresh(d0.fold, ids.rids[j])); let _ = v.users[j]; }
            assert(!touched(ids, v, t, o));
        } else {
            let i = choose|i: int| 0 <= i < d0.accounts.len() && (#[trigger] d0.accounts[i]).row_id == o;
            assert(o != ids.aid);
            assert(!touched(ids, v, t, o));
        }
    }
}

/// the ids read back from the target are the ids the transaction used
pub proof fn lemma_ids_of(d0: UDbV, d1: UDbV, ids: ImportIds, v: ImportV)
    requires f_account(d0, d1, ids, v), f_login(d0, d1, ids, v), f_device(d0, d1, ids, v), f_users(d0, d1, ids, v), v.device is None ==> ids.drid == 0,
    ensures ids_of(d1, v) == ids,
{
    reveal(f_account); reveal(f_login); reveal(f_device); reveal(f_users);
    assert forall|j: int| 0 <= j < v.users.len() implies rid_of(d1.fold, v.users[j].cols.identifier) == #[trigger] ids.rids[j] by {
        assert(folder_ok(d1, ids.aid, ids.rids[j], v.users[j], v.users[j].events));
    }
    assert(ids_of(d1, v).rids =~= ids.rids);
}
/// the device folder's event rows are folder event rows under its new id
pub proof fn lemma_device_events(d0: UDbV, d1: UDbV, ids: ImportIds, v: ImportV)
    requires f_device(d0, d1, ids, v),
    ensures v.device matches Some(g) ==> own(d1.ev, Tbl::FolderEvents, ids.drid) == new_rows(Tbl::FolderEvents, ids.drid, g.events),
{
    reveal(f_device);
}
