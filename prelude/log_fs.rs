// ===========================================================================
// prelude/log_fs.rs — the GHOST FILE SYSTEM behind the `sos_vfs` calls of
// crates/filesystem/src/event_log.rs and formats/file_identity.rs.
// Included inside `mod pre` of unit `log`, after prelude/binary_stream.rs.
// Every `external_body` here is an ASSUMPTION.
//
// Sources read:
//   crates/vfs/src/os.rs          `pub use tokio::fs::*` (sos_vfs IS tokio::fs on the baseline target)
//   tokio 1.48.0                  src/fs/{file.rs, open_options.rs, copy.rs, rename.rs,
//                                 remove_file.rs, metadata.rs}, src/io/util/{async_read_ext,
//                                 async_write_ext, async_seek_ext}.rs
//   std (1.9x)                    fs::OpenOptions / File::set_len / io::Write::write_all docs
//   async-fd-lock 0.2.0           src/{lib.rs, error.rs, read_guard.rs, write_guard.rs}
//
// MODEL.  The file system is a ghost map  path -> bytes  (`Fs@`).  Rust has no
// global state a contract could mention, so the map is THREADED: rule R19
// (declared per site in units/log.vrs) gives every function that reaches
// sos_vfs a parameter `fs: &mut Fs` and passes it at each sos_vfs call.
//   * no partial writes, no crashes: an operation either takes effect
//     completely or returns Err and leaves the map unchanged (C13 out of scope);
//   * directories, permissions, links, other processes: not modelled;
//   * **SNAP**: a handle opened for reading yields the bytes the file had when
//     it was opened (`FileV::snap`).  Exact as long as the path is not written
//     while the handle is read.  In the code under contract the only write
//     while a read handle is alive is `set_len` in `rewind`, directly followed
//     by `return` (the handle is never read again).
// ===========================================================================

pub type PathV = Seq<char>;
pub type FsV = Map<PathV, Seq<u8>>;

#[verifier::external_body]
pub struct Fs { _p: () }
impl View for Fs {
    type V = FsV;
    uninterp spec fn view(&self) -> FsV;
}

// ---- paths -------------------------------------------------------------------------
/// std::path::PathBuf: an owned path; its view is the path text
#[verifier::external_body]
#[derive(Debug)]
pub struct PathBuf { _p: () }
impl View for PathBuf {
    type V = PathV;
    uninterp spec fn view(&self) -> PathV;
}
impl Clone for PathBuf {
    #[verifier::external_body]
    fn clone(&self) -> (r: Self)
        ensures r@ == self@,
    { unimplemented!() }
}
/// std::path::Path (unsized in std; only ever used behind `&`)
#[verifier::external_body]
pub struct Path { _p: () }
impl View for Path {
    type V = PathV;
    uninterp spec fn view(&self) -> PathV;
}
/// `PathBuf::set_extension`: the path with its extension replaced
pub uninterp spec fn with_extension(p: PathV, ext: Seq<char>) -> PathV;
impl PathBuf {
    #[verifier::external_body]
    pub fn set_extension(&mut self, ext: String) -> (r: bool)
        ensures final(self)@ == with_extension(old(self)@, ext@),
    { unimplemented!() }
}
impl Path {
    #[verifier::external_body]
    pub fn to_path_buf(&self) -> (r: PathBuf)
        ensures r@ == self@,
    { unimplemented!() }
    /// std::path::Path::with_extension: "creates an owned PathBuf like self but with
    /// the given extension" (= clone + set_extension, std/src/path.rs)
    #[verifier::external_body]
    pub fn with_extension(&self, ext: String) -> (r: PathBuf)
        ensures r@ == with_extension(self@, ext@),
    { unimplemented!() }
}
/// further std::path::PathBuf methods (std/src/path.rs; `PathBuf: Deref<Target = Path>`),
/// so that an edit that uses another spelling of the same operations still composes
impl PathBuf {
    /// `Path::with_extension` through deref
    #[verifier::external_body]
    pub fn with_extension(&self, ext: String) -> (r: PathBuf)
        ensures r@ == with_extension(self@, ext@),
    { unimplemented!() }
    /// `PathBuf::as_path`: the same path, borrowed
    #[verifier::external_body]
    pub fn as_path(&self) -> (r: &Path)
        ensures r@ == self@,
    { unimplemented!() }
    /// `Path::to_path_buf` through deref
    #[verifier::external_body]
    pub fn to_path_buf(&self) -> (r: PathBuf)
        ensures r@ == self@,
    { unimplemented!() }
}
/// R15: `AsRef<Path>` (std) under the name `AsRefP<Path>`: Verus gives std's
/// `AsRef::as_ref` no specification; this is the same interface with the std
/// meaning "the same path".
pub trait AsRefP<T> {
    spec fn pathv(&self) -> PathV;
    fn as_ref(&self) -> (r: &Path)
        ensures r@ == self.pathv();
}
impl AsRefP<Path> for &PathBuf {
    open spec fn pathv(&self) -> PathV { (*self)@ }
    #[verifier::external_body]
    fn as_ref(&self) -> (r: &Path) { unimplemented!() }
}
impl AsRefP<Path> for &Path {
    open spec fn pathv(&self) -> PathV { (*self)@ }
    #[verifier::external_body]
    fn as_ref(&self) -> (r: &Path) { unimplemented!() }
}
impl AsRefP<Path> for PathBuf {
    open spec fn pathv(&self) -> PathV { self@ }
    #[verifier::external_body]
    fn as_ref(&self) -> (r: &Path) { unimplemented!() }
}

// ---- file handles ------------------------------------------------------------------
/// an open file: where it points, what it read at open (SNAP), its cursor, its mode
pub ghost struct FileV { pub path: PathV, pub snap: Seq<u8>, pub pos: nat, pub append: bool, pub writable: bool }

/// sos_vfs::File = tokio::fs::File
#[verifier::external_body]
pub struct File { _p: () }
impl View for File {
    type V = FileV;
    uninterp spec fn view(&self) -> FileV;
}
/// std::fs::Metadata — only `len()`
#[verifier::external_body]
pub struct Metadata { _p: () }
impl Metadata {
    pub uninterp spec fn len_v(&self) -> nat;
    #[verifier::external_body]
    pub fn len(&self) -> (r: u64)
        ensures r as nat == self.len_v(),
    { unimplemented!() }
}

impl File {
    /// `File::open(path)`: read-only; fails when the file does not exist
    #[verifier::external_body]
    pub fn open<P: AsRefP<Path>>(path: P, fs: &Fs) -> (r: Result<File>)
        ensures
            r.is_ok() ==> fs@.dom().contains(path.pathv())
                && r.unwrap()@ == (FileV { path: path.pathv(), snap: fs@[path.pathv()], pos: 0, append: false, writable: false }),
    { unimplemented!() }

    /// `file.metadata().await?.len()`: length of the file (SNAP)
    #[verifier::external_body]
    pub fn metadata(&self) -> (r: Result<Metadata>)
        ensures r.is_ok() ==> r.unwrap().len_v() == self@.snap.len(),
    { unimplemented!() }

    /// AsyncSeekExt::seek — only `SeekFrom::Start` is used by the code under contract
    #[verifier::external_body]
    pub fn seek(&mut self, to: SeekFrom) -> (r: Result<u64>)
        ensures
            r.is_ok() && to is Start ==> final(self)@ == (FileV { pos: to->Start_0 as nat, ..old(self)@ }),
            final(self)@.path == old(self)@.path && final(self)@.snap == old(self)@.snap
                && final(self)@.append == old(self)@.append && final(self)@.writable == old(self)@.writable,
    { unimplemented!() }

    /// AsyncSeekExt::stream_position (= `seek(SeekFrom::Current(0))`): the cursor, nothing changes
    #[verifier::external_body]
    pub fn stream_position(&mut self) -> (r: Result<u64>)
        ensures
            final(self)@ == old(self)@,
            r.is_ok() ==> r.unwrap() as nat == old(self)@.pos,
    { unimplemented!() }

    /// AsyncReadExt::read_exact into a fixed array: all `N` bytes or Err (UnexpectedEof)
    #[verifier::external_body]
    pub fn read_exact<const N: usize>(&mut self, buf: &mut [u8; N]) -> (r: Result<usize>)
        ensures
            r.is_ok() ==> old(self)@.pos + N <= old(self)@.snap.len()
                && final(buf)@ == old(self)@.snap.subrange(old(self)@.pos as int, old(self)@.pos + N as int)
                && final(self)@ == (FileV { pos: old(self)@.pos + N as nat, ..old(self)@ }),
            final(self)@.path == old(self)@.path && final(self)@.snap == old(self)@.snap,
    { unimplemented!() }

    /// async_fd_lock::LockRead::lock_read — advisory lock; R9: contention is not
    /// modelled, the guard hands the file through
    #[verifier::external_body]
    pub fn lock_read(self) -> (r: LockReadResult<File>)
        ensures
            r matches Ok(g) ==> g.file@ == self@,
            r matches Err(e) ==> e.file@ == self@,
    { unimplemented!() }

    /// async_fd_lock::LockWrite::lock_write
    #[verifier::external_body]
    pub fn lock_write(self) -> (r: LockWriteResult<File>)
        ensures
            r matches Ok(g) ==> g.file@ == self@,
            r matches Err(e) ==> e.file@ == self@,
    { unimplemented!() }
}

/// async-fd-lock src/error.rs
pub struct LockError<T> { pub file: T, pub error: Error }
pub type LockReadResult<T> = core::result::Result<RwLockReadGuard<T>, LockError<T>>;
pub type LockWriteResult<T> = core::result::Result<RwLockWriteGuard<T>, LockError<T>>;

/// async-fd-lock read_guard.rs / write_guard.rs: the guards own the file and
/// delegate AsyncRead / AsyncWrite / AsyncSeek to it (R9).
pub struct RwLockReadGuard<T> { pub file: T }
pub struct RwLockWriteGuard<T> { pub file: T }

impl RwLockReadGuard<File> {
    /// delegated `seek`
    #[verifier::external_body]
    pub fn seek(&mut self, to: SeekFrom) -> (r: Result<u64>)
        ensures
            r.is_ok() && to is Start ==> final(self).file@ == (FileV { pos: to->Start_0 as nat, ..old(self).file@ }),
            final(self).file@.path == old(self).file@.path && final(self).file@.snap == old(self).file@.snap,
    { unimplemented!() }

    /// delegated `read_exact(&mut buf)` with `buf: Vec<u8>`: fills the whole
    /// buffer or fails (UnexpectedEof); the length of the buffer is not changed
    #[verifier::external_body]
    pub fn read_exact(&mut self, buf: &mut Vec<u8>) -> (r: Result<usize>)
        ensures
            final(buf)@.len() == old(buf)@.len(),
            r.is_ok() ==> old(self).file@.pos + old(buf)@.len() <= old(self).file@.snap.len()
                && final(buf)@ == old(self).file@.snap.subrange(old(self).file@.pos as int, old(self).file@.pos + old(buf)@.len() as int),
            final(self).file@.path == old(self).file@.path && final(self).file@.snap == old(self).file@.snap,
    { unimplemented!() }
}

impl RwLockWriteGuard<File> {
    /// delegated AsyncWriteExt::write_all: at the end of the file in append
    /// mode, at the cursor otherwise (overwrite / extend = `splice`); all or nothing
    #[verifier::external_body]
    pub fn write_all<B: BytesLike>(&mut self, data: B, fs: &mut Fs) -> (r: Result<()>)
        ensures
            r.is_err() ==> final(fs)@ == old(fs)@ && final(self).file@ == old(self).file@,
            r.is_ok() ==> old(self).file@.writable,
            r.is_ok() && old(fs)@.dom().contains(old(self).file@.path) ==> {
                let p = old(self).file@.path;
                let cur = old(fs)@[p];
                let new = if old(self).file@.append { cur + data.bytes() } else { splice(cur, old(self).file@.pos, data.bytes()) };
                &&& final(fs)@ == old(fs)@.insert(p, new)
                &&& final(self).file@ == (FileV { pos: if old(self).file@.append { new.len() } else { old(self).file@.pos + data.bytes().len() }, ..old(self).file@ })
            },
    { unimplemented!() }

    /// delegated `flush`: nothing the model can see
    #[verifier::external_body]
    pub fn flush(&mut self) -> (r: Result<()>)
        ensures final(self).file@ == old(self).file@,
    { unimplemented!() }

    /// R9/R12 (declared): `guard.inner_mut().set_len(n)` — `File::set_len`:
    /// truncates, or extends with zero bytes; all or nothing
    #[verifier::external_body]
    pub fn set_len(&mut self, size: u64, fs: &mut Fs) -> (r: Result<()>)
        ensures
            final(self).file@ == old(self).file@,
            r.is_err() ==> final(fs)@ == old(fs)@,
            r.is_ok() ==> old(self).file@.writable,
            r.is_ok() && old(fs)@.dom().contains(old(self).file@.path) ==> {
                let p = old(self).file@.path;
                let cur = old(fs)@[p];
                final(fs)@ == old(fs)@.insert(p, if size as nat <= cur.len() { cur.subrange(0, size as int) } else { cur + Seq::new((size as nat - cur.len()) as nat, |i: int| 0u8) })
            },
    { unimplemented!() }
}

// ---- OpenOptions ---------------------------------------------------------------------
/// tokio::fs::OpenOptions.  std/tokio builders take and return `&mut Self`;
/// every call site chains them on a temporary, so the stand-in passes the
/// options by value (same expression text, same meaning).
pub struct OpenOptions { pub read: bool, pub write: bool, pub append: bool, pub truncate: bool, pub create: bool, pub create_new: bool }
impl OpenOptions {
    pub fn new() -> (r: Self)
        ensures r == (OpenOptions { read: false, write: false, append: false, truncate: false, create: false, create_new: false }),
    { OpenOptions { read: false, write: false, append: false, truncate: false, create: false, create_new: false } }
    pub fn read(self, b: bool) -> (r: Self) ensures r == (OpenOptions { read: b, ..self }), { OpenOptions { read: b, ..self } }
    pub fn write(self, b: bool) -> (r: Self) ensures r == (OpenOptions { write: b, ..self }), { OpenOptions { write: b, ..self } }
    pub fn append(self, b: bool) -> (r: Self) ensures r == (OpenOptions { append: b, ..self }), { OpenOptions { append: b, ..self } }
    pub fn truncate(self, b: bool) -> (r: Self) ensures r == (OpenOptions { truncate: b, ..self }), { OpenOptions { truncate: b, ..self } }
    pub fn create(self, b: bool) -> (r: Self) ensures r == (OpenOptions { create: b, ..self }), { OpenOptions { create: b, ..self } }
    /// std::fs::OpenOptions::create_new: "create a new file, failing if it already exists"
    pub fn create_new(self, b: bool) -> (r: Self) ensures r == (OpenOptions { create_new: b, ..self }), { OpenOptions { create_new: b, ..self } }

    /// std::fs::OpenOptions::open: an existing file keeps its content unless
    /// `truncate`; a missing file is created (empty) only with `create` (or
    /// `create_new`, which in turn fails on an existing file), otherwise the
    /// call fails; all or nothing
    #[verifier::external_body]
    pub fn open<P: AsRefP<Path>>(self, path: P, fs: &mut Fs) -> (r: Result<File>)
        ensures
            r.is_err() ==> final(fs)@ == old(fs)@,
            r.is_ok() ==> {
                let p = path.pathv();
                let existed = old(fs)@.dom().contains(p);
                &&& (existed || self.create || self.create_new)
                &&& !(existed && self.create_new)
                &&& final(fs)@ == (if !existed || self.truncate { old(fs)@.insert(p, Seq::<u8>::empty()) } else { old(fs)@ })
                &&& r.unwrap()@ == (FileV { path: p, snap: final(fs)@[p], pos: 0, append: self.append, writable: self.write || self.append })
            },
    { unimplemented!() }
}

// ---- free functions of sos_vfs (= tokio::fs) ---------------------------------------------
/// `vfs::metadata(path).await?.len()`
#[verifier::external_body]
pub fn metadata<P: AsRefP<Path>>(path: P, fs: &Fs) -> (r: Result<Metadata>)
    ensures r.is_ok() ==> fs@.dom().contains(path.pathv()) && r.unwrap().len_v() == fs@[path.pathv()].len(),
{ unimplemented!() }

/// `vfs::copy(from, to)`: `to` is created or replaced with the content of `from`
/// (nothing is promised when both are the same path)
#[verifier::external_body]
pub fn copy<P: AsRefP<Path>, Q: AsRefP<Path>>(from: P, to: Q, fs: &mut Fs) -> (r: Result<u64>)
    ensures
        r.is_err() ==> final(fs)@ == old(fs)@,
        r.is_ok() ==> old(fs)@.dom().contains(from.pathv()),
        r.is_ok() && from.pathv() != to.pathv() ==> final(fs)@ == old(fs)@.insert(to.pathv(), old(fs)@[from.pathv()]),
        forall|q: PathV| q != to.pathv() ==> (#[trigger] final(fs)@.dom().contains(q) <==> old(fs)@.dom().contains(q)) && final(fs)@[q] == old(fs)@[q],
{ unimplemented!() }

/// `vfs::remove_file(path)`
#[verifier::external_body]
pub fn remove_file<P: AsRefP<Path>>(path: P, fs: &mut Fs) -> (r: Result<()>)
    ensures
        r.is_err() ==> final(fs)@ == old(fs)@,
        r.is_ok() ==> old(fs)@.dom().contains(path.pathv()) && final(fs)@ == old(fs)@.remove(path.pathv()),
{ unimplemented!() }

/// `vfs::rename(from, to)`: `to` is replaced
#[verifier::external_body]
pub fn rename<P: AsRefP<Path>, Q: AsRefP<Path>>(from: P, to: Q, fs: &mut Fs) -> (r: Result<()>)
    ensures
        r.is_err() ==> final(fs)@ == old(fs)@,
        r.is_ok() ==> old(fs)@.dom().contains(from.pathv())
            && final(fs)@ == old(fs)@.remove(from.pathv()).insert(to.pathv(), old(fs)@[from.pathv()]),
{ unimplemented!() }
