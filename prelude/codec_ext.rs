// ===========================================================================
// prelude/codec_ext.rs — further dependency stand-ins used by the codec units
// ===========================================================================

// ---- rs_merkle::MerkleProof<Sha256> serialisation (rs_merkle-1.5.0
// src/merkle_proof.rs to_bytes/from_bytes, src/proof_serializers/
// direct_hashes_order.rs): a proof is its list of 32-byte hashes; to_bytes is
// their concatenation; from_bytes accepts exactly multiples of 32 bytes.
pub struct Sha256 {}
#[verifier::external_body]
#[verifier::reject_recursive_types(T)]
pub struct MerkleProof<T> { _p: core::marker::PhantomData<T> }
impl<T> View for MerkleProof<T> {
    type V = Seq<u8>;     // concatenated proof hashes
    uninterp spec fn view(&self) -> Seq<u8>;
}
#[derive(Debug)]
pub struct MerkleError { pub _p: () }
pub open spec fn flatten32(h: Seq<[u8; 32]>) -> Seq<u8>
    decreases h.len(),
{
    if h.len() == 0 { Seq::<u8>::empty() } else { h[0]@ + flatten32(h.subrange(1, h.len() as int)) }
}
impl<T> MerkleProof<T> {
    #[verifier::external_body]
    pub fn to_bytes(&self) -> (r: Vec<u8>)
        ensures r@ == self@, self@.len() % 32 == 0,
    { unimplemented!() }
    #[verifier::external_body]
    pub fn from_bytes(b: &[u8]) -> (r: core::result::Result<MerkleProof<T>, MerkleError>)
        ensures r.is_ok() <==> b@.len() % 32 == 0, r.is_ok() ==> r.unwrap()@ == b@,
    { unimplemented!() }
    #[verifier::external_body]
    pub fn new(hashes: Vec<[u8; 32]>) -> (r: MerkleProof<T>)
        ensures r@ == flatten32(hashes@),
    { unimplemented!() }
}

// ---- binary_stream's own impls for usize / Vec<usize> (binary-stream-10.0.0
// src/futures/mod.rs: impl_encode_decode!(usize, read_usize, write_usize) — a
// macro expansion, 8 bytes little endian on the 64-bit targets of the baseline;
// impl<T> Encodable/Decodable for Vec<T>: u32 count then the items, decode
// PUSHES onto the receiver).
pub open spec fn enc_usize(x: usize) -> Seq<u8> { le64(x as u64) }
pub open spec fn dec_usize(s: Seq<u8>) -> Option<(usize, Seq<u8>)> {
    match r_u64(s) { None => None, Some((x, t)) => Some((x as usize, t)) }
}
pub open spec fn enc_usize_items(v: Seq<usize>) -> Seq<u8>
    decreases v.len(),
{
    if v.len() == 0 { Seq::<u8>::empty() } else { enc_usize(v[0]) + enc_usize_items(v.subrange(1, v.len() as int)) }
}
pub open spec fn dec_usize_items(s: Seq<u8>, n: nat) -> Option<(Seq<usize>, Seq<u8>)>
    decreases n,
{
    if n == 0 { Some((Seq::<usize>::empty(), s)) } else {
        match dec_usize(s) {
            None => None,
            Some((x, t)) => match dec_usize_items(t, (n - 1) as nat) {
                None => None,
                Some((xs, u)) => Some((seq![x] + xs, u)),
            },
        }
    }
}
pub open spec fn enc_vec_usize(v: Seq<usize>) -> Seq<u8> { le32(v.len() as u32) + enc_usize_items(v) }
pub open spec fn dec_vec_usize(s: Seq<u8>) -> Option<(Seq<usize>, Seq<u8>)> {
    match r_u32(s) { None => None, Some((n, t)) => dec_usize_items(t, n as nat) }
}

impl Encodable for usize {
    type EV = usize;
    open spec fn eview(&self) -> usize { *self }
    open spec fn enc_of(v: usize) -> Seq<u8> { enc_usize(v) }
    open spec fn enc_valid(v: usize) -> bool { true }
    #[verifier::external_body]
    fn encode<W: AsyncWrite + AsyncSeek + Unpin + Send>(&self, writer: &mut BinaryWriter<W>) -> (r: Result<()>) { unimplemented!() }
}
impl Decodable for usize {
    type DV = usize;
    open spec fn dview(&self) -> usize { *self }
    open spec fn dec_of(s: Seq<u8>) -> Option<(usize, Seq<u8>)> { dec_usize(s) }
    open spec fn dec_ready(&self) -> bool { true }
    #[verifier::external_body]
    fn decode<R: AsyncRead + AsyncSeek + Unpin + Send>(&mut self, reader: &mut BinaryReader<R>) -> (r: Result<()>) { unimplemented!() }
}
impl Encodable for Vec<usize> {
    type EV = Seq<usize>;
    open spec fn eview(&self) -> Seq<usize> { self@ }
    open spec fn enc_of(v: Seq<usize>) -> Seq<u8> { enc_vec_usize(v) }
    /// `self.len() as u32` is not guarded by the library
    open spec fn enc_valid(v: Seq<usize>) -> bool { true }
    #[verifier::external_body]
    fn encode<W: AsyncWrite + AsyncSeek + Unpin + Send>(&self, writer: &mut BinaryWriter<W>) -> (r: Result<()>) { unimplemented!() }
}
impl Decodable for Vec<usize> {
    type DV = Seq<usize>;
    open spec fn dview(&self) -> Seq<usize> { self@ }
    open spec fn dec_of(s: Seq<u8>) -> Option<(Seq<usize>, Seq<u8>)> { dec_vec_usize(s) }
    /// decode pushes onto the receiver: the result is the decoded list only for an empty receiver
    open spec fn dec_ready(&self) -> bool { self@.len() == 0 }
    #[verifier::external_body]
    fn decode<R: AsyncRead + AsyncSeek + Unpin + Send>(&mut self, reader: &mut BinaryReader<R>) -> (r: Result<()>) { unimplemented!() }
}

// ---- serde_json for TrustedDevice (DeviceEvent::Trust payload) -----------------
/// sos_core::device::TrustedDevice — carried opaquely; its JSON form is an
/// uninterpreted function.  Assumption JSON: from_slice(to_vec(d)) == d.
#[verifier::external_body]
pub struct TrustedDevice { _p: () }
impl Clone for TrustedDevice {
    #[verifier::external_body]
    fn clone(&self) -> (r: Self)
        ensures r@ == self@,
    { unimplemented!() }
}
pub ghost struct TrustedDeviceV { pub json: Seq<u8> }
impl View for TrustedDevice {
    type V = TrustedDeviceV;
    uninterp spec fn view(&self) -> TrustedDeviceV;
}
pub uninterp spec fn json_parse(b: Seq<u8>) -> Option<TrustedDeviceV>;
pub broadcast axiom fn axiom_json_roundtrip(d: TrustedDeviceV)
    ensures #[trigger] json_parse(d.json) == Some(d);
#[derive(Debug)]
pub struct JsonError { pub _p: () }
impl core::convert::From<JsonError> for Error {
    #[verifier::external_body]
    fn from(e: JsonError) -> Error { unimplemented!() }
}
#[verifier::external_body]
pub fn json_to_vec(d: &TrustedDevice) -> (r: core::result::Result<Vec<u8>, JsonError>)
    ensures r.is_ok() ==> r.unwrap()@ == d@.json,
{ unimplemented!() }
#[verifier::external_body]
pub fn json_from_slice(b: &[u8]) -> (r: core::result::Result<TrustedDevice, JsonError>)
    ensures r.is_ok() <==> json_parse(b@).is_some(), r.is_ok() ==> Some(r.unwrap()@) == json_parse(b@),
{ unimplemented!() }
