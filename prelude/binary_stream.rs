// ===========================================================================
// prelude/binary_stream.rs — stand-in for binary_stream::futures (v10.0.0,
// src/futures/mod.rs) with Options { endian: Little, max_buffer_size: 16 MiB }
// (sos_core::encoding::encoding_options).  Model: a byte sequence and a cursor.
// Unchecked: I/O failures of the underlying stream other than end-of-data;
// short writes of AsyncWriteExt::write (none for BufWriter<Cursor<Vec<u8>>>).
// ===========================================================================

pub trait AsyncRead {}
pub trait AsyncWrite {}
pub trait AsyncSeek {}

pub spec const MAX_BUFFER_SIZE: nat = 16777216;

/// binary_stream::{Endian, Options} (lib.rs): plain data
pub enum Endian { Big, Little }
pub struct Options { pub endian: Endian, pub max_buffer_size: Option<usize> }

pub enum SeekFrom { Start(u64), End(i64), Current(i64) }

pub ghost struct Stream { pub bytes: Seq<u8>, pub pos: nat }

/// overwrite-at-cursor, extending at the end (std::io::Cursor<Vec<u8>> write)
#[verifier::opaque]
pub open spec fn splice(b: Seq<u8>, pos: nat, d: Seq<u8>) -> Seq<u8> {
    if pos + d.len() >= b.len() {
        b.subrange(0, pos as int) + d
    } else {
        b.subrange(0, pos as int) + d + b.subrange((pos + d.len()) as int, b.len() as int)
    }
}

pub open spec fn wr(s: Stream, d: Seq<u8>) -> Stream {
    Stream { bytes: splice(s.bytes, s.pos, d), pos: s.pos + d.len() }
}

impl Stream {
    pub open spec fn wf(self) -> bool { self.pos <= self.bytes.len() }
    pub open spec fn rest(self) -> Seq<u8> { self.bytes.subrange(self.pos as int, self.bytes.len() as int) }
    pub open spec fn has(self, n: nat) -> bool { self.pos + n <= self.bytes.len() }
    pub open spec fn take(self, n: nat) -> Seq<u8> { self.bytes.subrange(self.pos as int, (self.pos + n) as int) }
    pub open spec fn adv(self, n: nat) -> Stream { Stream { bytes: self.bytes, pos: self.pos + n } }
}

#[verifier::external_body]
#[verifier::reject_recursive_types(W)]
pub struct BinaryWriter<W> { _w: core::marker::PhantomData<W> }

impl<W> View for BinaryWriter<W> {
    type V = Stream;
    uninterp spec fn view(&self) -> Stream;
}

impl<W> BinaryWriter<W> {
    #[verifier::external_body]
    pub fn stream_position(&mut self) -> (r: Result<u64>)
        requires old(self)@.wf(),
        ensures final(self)@ == old(self)@, r.is_ok() ==> r.unwrap() == old(self)@.pos,
    { unimplemented!() }

    #[verifier::external_body]
    pub fn seek(&mut self, to: SeekFrom) -> (r: Result<u64>)
        requires old(self)@.wf(), to is Start, to->Start_0 <= old(self)@.bytes.len(),
        ensures r.is_ok() ==> final(self)@.wf(), r.is_ok() ==> final(self)@ == (Stream { bytes: old(self)@.bytes, pos: to->Start_0 as nat }),
    { unimplemented!() }

    #[verifier::external_body]
    pub fn write_u8(&mut self, v: u8) -> (r: Result<usize>)
        requires old(self)@.wf(),
        ensures r.is_ok() ==> final(self)@.wf(), r.is_ok() ==> final(self)@ == wr(old(self)@, seq![v]),
    { unimplemented!() }

    #[verifier::external_body]
    pub fn write_bool(&mut self, v: bool) -> (r: Result<usize>)
        requires old(self)@.wf(),
        ensures r.is_ok() ==> final(self)@.wf(), r.is_ok() ==> final(self)@ == wr(old(self)@, seq![if v { 1u8 } else { 0u8 }]),
    { unimplemented!() }

    #[verifier::external_body]
    pub fn write_u16(&mut self, v: u16) -> (r: Result<usize>)
        requires old(self)@.wf(),
        ensures r.is_ok() ==> final(self)@.wf(), r.is_ok() ==> final(self)@ == wr(old(self)@, le16(v)),
    { unimplemented!() }

    #[verifier::external_body]
    pub fn write_u32(&mut self, v: u32) -> (r: Result<usize>)
        requires old(self)@.wf(),
        ensures r.is_ok() ==> final(self)@.wf(), r.is_ok() ==> final(self)@ == wr(old(self)@, le32(v)),
    { unimplemented!() }

    #[verifier::external_body]
    pub fn write_u64(&mut self, v: u64) -> (r: Result<usize>)
        requires old(self)@.wf(),
        ensures r.is_ok() ==> final(self)@.wf(), r.is_ok() ==> final(self)@ == wr(old(self)@, le64(v)),
    { unimplemented!() }

    #[verifier::external_body]
    pub fn write_i64(&mut self, v: i64) -> (r: Result<usize>)
        requires old(self)@.wf(),
        ensures r.is_ok() ==> final(self)@.wf(), r.is_ok() ==> final(self)@ == wr(old(self)@, le64(v as u64)),
    { unimplemented!() }

    /// guard_size!: refuses more than 16 MiB
    #[verifier::external_body]
    pub fn write_bytes<B: BytesLike>(&mut self, data: B) -> (r: Result<usize>)
        requires old(self)@.wf(),
        ensures
            r.is_ok() ==> final(self)@.wf(),
            r.is_ok() ==> final(self)@ == wr(old(self)@, data.bytes()) && data.bytes().len() <= MAX_BUFFER_SIZE,
    { unimplemented!() }

    #[verifier::external_body]
    pub fn write_string<S: StrLike>(&mut self, value: S) -> (r: Result<usize>)
        requires old(self)@.wf(),
        ensures
            r.is_ok() ==> final(self)@.wf(),
            r.is_ok() ==> final(self)@ == wr(old(self)@, le32(utf8(value.chars()).len() as u32) + utf8(value.chars()))
                && utf8(value.chars()).len() <= MAX_BUFFER_SIZE,
    { unimplemented!() }
}

/// `B: AsRef<[u8]>` arguments of write_bytes
pub trait BytesLike {
    spec fn bytes(&self) -> Seq<u8>;
}
impl BytesLike for &Vec<u8> { open spec fn bytes(&self) -> Seq<u8> { (*self)@ } }
impl BytesLike for &[u8] { open spec fn bytes(&self) -> Seq<u8> { (*self)@ } }
impl<const N: usize> BytesLike for &[u8; N] { open spec fn bytes(&self) -> Seq<u8> { (*self)@ } }
impl<const N: usize> BytesLike for [u8; N] { open spec fn bytes(&self) -> Seq<u8> { self@ } }

/// `S: AsRef<str>` arguments of write_string
pub trait StrLike {
    spec fn chars(&self) -> Seq<char>;
}
impl StrLike for &String { open spec fn chars(&self) -> Seq<char> { (*self)@ } }
impl StrLike for &str { open spec fn chars(&self) -> Seq<char> { (*self)@ } }

// ---- functional reading primitives over the unread input -------------------
pub open spec fn take_n(s: Seq<u8>, n: nat) -> Option<(Seq<u8>, Seq<u8>)> {
    if s.len() >= n { Some((s.subrange(0, n as int), s.subrange(n as int, s.len() as int))) } else { None }
}
pub open spec fn r_u8(s: Seq<u8>) -> Option<(u8, Seq<u8>)> {
    match take_n(s, 1) { Some((b, t)) => Some((b[0], t)), None => None }
}
pub open spec fn r_bool(s: Seq<u8>) -> Option<(bool, Seq<u8>)> {
    match take_n(s, 1) { Some((b, t)) => Some((b[0] > 0, t)), None => None }
}
pub open spec fn r_u16(s: Seq<u8>) -> Option<(u16, Seq<u8>)> {
    match take_n(s, 2) { Some((b, t)) => Some((de16(b), t)), None => None }
}
pub open spec fn r_u32(s: Seq<u8>) -> Option<(u32, Seq<u8>)> {
    match take_n(s, 4) { Some((b, t)) => Some((de32(b), t)), None => None }
}
pub open spec fn r_u64(s: Seq<u8>) -> Option<(u64, Seq<u8>)> {
    match take_n(s, 8) { Some((b, t)) => Some((de64(b), t)), None => None }
}
pub open spec fn r_i64(s: Seq<u8>) -> Option<(i64, Seq<u8>)> {
    match take_n(s, 8) { Some((b, t)) => Some((de64(b) as i64, t)), None => None }
}
/// read_bytes: guard_size! (16 MiB) then read_exact
pub open spec fn r_bytes(s: Seq<u8>, n: nat) -> Option<(Seq<u8>, Seq<u8>)> {
    if n > MAX_BUFFER_SIZE { None } else { take_n(s, n) }
}
/// read_string: u32 length, guard_size!, read_exact, String::from_utf8
pub open spec fn r_string(s: Seq<u8>) -> Option<(Seq<char>, Seq<u8>)> {
    match r_u32(s) {
        None => None,
        Some((n, t)) => match r_bytes(t, n as nat) {
            None => None,
            Some((b, u)) => match utf8_dec(b) { None => None, Some(cs) => Some((cs, u)) },
        },
    }
}

pub broadcast proof fn lemma_take_n_concat(a: Seq<u8>, b: Seq<u8>)
    ensures #[trigger] take_n(a + b, a.len()) == Some((a, b)),
{
    assert((a + b).subrange(0, a.len() as int) =~= a);
    assert((a + b).subrange(a.len() as int, (a + b).len() as int) =~= b);
}

#[verifier::external_body]
#[verifier::reject_recursive_types(R)]
pub struct BinaryReader<R> { _r: core::marker::PhantomData<R> }

impl<R> View for BinaryReader<R> {
    type V = Stream;
    uninterp spec fn view(&self) -> Stream;
}

/// effect of a successful read that leaves `t` unread
pub open spec fn rd(old: Stream, new: Stream, t: Seq<u8>) -> bool {
    new.bytes == old.bytes && new.wf() && new.rest() == t && new.pos == old.pos + (old.rest().len() - t.len())
        && t.len() <= old.rest().len()
}

impl<R> BinaryReader<R> {
    #[verifier::external_body]
    pub fn stream_position(&mut self) -> (r: Result<u64>)
        requires old(self)@.wf(),
        ensures final(self)@ == old(self)@, r.is_ok(), r.unwrap() == old(self)@.pos,
    { unimplemented!() }

    #[verifier::external_body]
    pub fn len(&mut self) -> (r: Result<u64>)
        requires old(self)@.wf(),
        ensures final(self)@ == old(self)@, r.is_ok(), r.unwrap() == old(self)@.bytes.len(),
    { unimplemented!() }

    #[verifier::external_body]
    pub fn seek(&mut self, to: SeekFrom) -> (r: Result<u64>)
        requires old(self)@.wf(), to is Start, to->Start_0 <= old(self)@.bytes.len(),
        ensures r.is_ok() ==> final(self)@.wf(), r.is_ok() ==> final(self)@ == (Stream { bytes: old(self)@.bytes, pos: to->Start_0 as nat }),
    { unimplemented!() }

    #[verifier::external_body]
    pub fn read_u8(&mut self) -> (r: Result<u8>)
        requires old(self)@.wf(),
        ensures
            r.is_ok() <==> r_u8(old(self)@.rest()).is_some(),
            r.is_ok() ==> r_u8(old(self)@.rest()).unwrap().0 == r.unwrap() && rd(old(self)@, final(self)@, r_u8(old(self)@.rest()).unwrap().1),
            final(self)@.bytes == old(self)@.bytes, final(self)@.wf(),
    { unimplemented!() }

    #[verifier::external_body]
    pub fn read_bool(&mut self) -> (r: Result<bool>)
        requires old(self)@.wf(),
        ensures
            r.is_ok() <==> r_bool(old(self)@.rest()).is_some(),
            r.is_ok() ==> r_bool(old(self)@.rest()).unwrap().0 == r.unwrap() && rd(old(self)@, final(self)@, r_bool(old(self)@.rest()).unwrap().1),
            final(self)@.bytes == old(self)@.bytes, final(self)@.wf(),
    { unimplemented!() }

    #[verifier::external_body]
    pub fn read_u16(&mut self) -> (r: Result<u16>)
        requires old(self)@.wf(),
        ensures
            r.is_ok() <==> r_u16(old(self)@.rest()).is_some(),
            r.is_ok() ==> r_u16(old(self)@.rest()).unwrap().0 == r.unwrap() && rd(old(self)@, final(self)@, r_u16(old(self)@.rest()).unwrap().1),
            final(self)@.bytes == old(self)@.bytes, final(self)@.wf(),
    { unimplemented!() }

    #[verifier::external_body]
    pub fn read_u32(&mut self) -> (r: Result<u32>)
        requires old(self)@.wf(),
        ensures
            r.is_ok() <==> r_u32(old(self)@.rest()).is_some(),
            r.is_ok() ==> r_u32(old(self)@.rest()).unwrap().0 == r.unwrap() && rd(old(self)@, final(self)@, r_u32(old(self)@.rest()).unwrap().1),
            final(self)@.bytes == old(self)@.bytes, final(self)@.wf(),
    { unimplemented!() }

    #[verifier::external_body]
    pub fn read_u64(&mut self) -> (r: Result<u64>)
        requires old(self)@.wf(),
        ensures
            r.is_ok() <==> r_u64(old(self)@.rest()).is_some(),
            r.is_ok() ==> r_u64(old(self)@.rest()).unwrap().0 == r.unwrap() && rd(old(self)@, final(self)@, r_u64(old(self)@.rest()).unwrap().1),
            final(self)@.bytes == old(self)@.bytes, final(self)@.wf(),
    { unimplemented!() }

    #[verifier::external_body]
    pub fn read_i64(&mut self) -> (r: Result<i64>)
        requires old(self)@.wf(),
        ensures
            r.is_ok() <==> r_i64(old(self)@.rest()).is_some(),
            r.is_ok() ==> r_i64(old(self)@.rest()).unwrap().0 == r.unwrap() && rd(old(self)@, final(self)@, r_i64(old(self)@.rest()).unwrap().1),
            final(self)@.bytes == old(self)@.bytes, final(self)@.wf(),
    { unimplemented!() }

    /// guard_size! then vec![0; n] then read_exact
    #[verifier::external_body]
    pub fn read_bytes(&mut self, length: usize) -> (r: Result<Vec<u8>>)
        requires old(self)@.wf(),
        ensures
            r.is_ok() <==> r_bytes(old(self)@.rest(), length as nat).is_some(),
            r.is_ok() ==> r_bytes(old(self)@.rest(), length as nat).unwrap().0 == r.unwrap()@ && r.unwrap()@.len() == length
                && rd(old(self)@, final(self)@, r_bytes(old(self)@.rest(), length as nat).unwrap().1),
            final(self)@.bytes == old(self)@.bytes, final(self)@.wf(),
    { unimplemented!() }

    /// u32 length, guard_size!, read_exact, String::from_utf8
    #[verifier::external_body]
    pub fn read_string(&mut self) -> (r: Result<String>)
        requires old(self)@.wf(),
        ensures
            r.is_ok() <==> r_string(old(self)@.rest()).is_some(),
            r.is_ok() ==> r_string(old(self)@.rest()).unwrap().0 == r.unwrap()@ && rd(old(self)@, final(self)@, r_string(old(self)@.rest()).unwrap().1),
            final(self)@.bytes == old(self)@.bytes, final(self)@.wf(),
    { unimplemented!() }
}

// ---- the two codec traits, with the C14/C15 contract -----------------------
// enc():   the encoding *function* (determinism = the real encoder equals it)
// dec(s):  the decoding function on the unread input: value view + bytes used
pub trait Encodable {
    type EV;
    spec fn eview(&self) -> Self::EV;
    spec fn enc_of(v: Self::EV) -> Seq<u8>;
    spec fn enc_valid(v: Self::EV) -> bool;

    fn encode<W: AsyncWrite + AsyncSeek + Unpin + Send>(&self, writer: &mut BinaryWriter<W>) -> (r: Result<()>)
        requires old(writer)@.wf(),
        ensures
            r.is_ok() ==> final(writer)@.wf(),
            r.is_ok() ==> final(writer)@ == wr(old(writer)@, Self::enc_of(self.eview())), /*@TL:Encodable::encode:encode_writes_exactly_enc_fn*/
            r.is_ok() ==> Self::enc_valid(self.eview()); /*@TL:Encodable::encode:encode_ok_only_for_valid*/
}

pub trait Decodable {
    type DV;
    spec fn dview(&self) -> Self::DV;
    /// decoding function on the unread input: (value view, input left unread)
    spec fn dec_of(s: Seq<u8>) -> Option<(Self::DV, Seq<u8>)>;
    /// what `decode` needs of the receiver before the call (Vec<T> appends)
    spec fn dec_ready(&self) -> bool;

    fn decode<R: AsyncRead + AsyncSeek + Unpin + Send>(&mut self, reader: &mut BinaryReader<R>) -> (r: Result<()>)
        requires old(reader)@.wf(), old(self).dec_ready(),
        ensures
            final(reader)@.wf(), final(reader)@.bytes == old(reader)@.bytes,
            r.is_ok() <==> Self::dec_of(old(reader)@.rest()).is_some(), /*@TL:Decodable::decode:decode_accepts_exactly_dec_fn*/
            r.is_ok() ==> Self::dec_of(old(reader)@.rest()).unwrap().0 == final(self).dview() /*@TL:Decodable::decode:decode_value_is_dec_fn*/
                && rd(old(reader)@, final(reader)@, Self::dec_of(old(reader)@.rest()).unwrap().1);
}

pub broadcast proof fn lemma_wr_wr(s: Stream, a: Seq<u8>, b: Seq<u8>)
    requires s.wf(),
    ensures #[trigger] wr(wr(s, a), b) == wr(s, a + b),
{
    reveal(splice);
    assert(wr(wr(s, a), b).bytes =~= wr(s, a + b).bytes);
}

/// back-patching: overwriting the first |a| bytes of what was just written
pub proof fn lemma_backpatch(s: Stream, a: Seq<u8>, b: Seq<u8>, a2: Seq<u8>)
    requires s.wf(), a.len() == a2.len(),
    ensures
        wr(Stream { bytes: wr(s, a + b).bytes, pos: s.pos }, a2).bytes == wr(s, a2 + b).bytes,
        wr(s, a + b).bytes.len() >= s.pos + a.len() + b.len(),
{
    reveal(splice);
    assert(wr(Stream { bytes: wr(s, a + b).bytes, pos: s.pos }, a2).bytes =~= wr(s, a2 + b).bytes);
}

pub broadcast proof fn lemma_wr_len(s: Stream, d: Seq<u8>)
    requires s.wf(),
    ensures (#[trigger] wr(s, d)).bytes.len() == (if s.pos + d.len() >= s.bytes.len() { s.pos + d.len() } else { s.bytes.len() }),
{
    reveal(splice);
}

/// writing at the end of the stream appends
pub proof fn lemma_wr_at_end(s: Stream, d: Seq<u8>)
    requires s.pos == s.bytes.len(),
    ensures wr(s, d).bytes == s.bytes + d, wr(s, d).pos == wr(s, d).bytes.len(),
{
    reveal(splice);
    assert(wr(s, d).bytes =~= s.bytes + d);
}

pub broadcast group group_binary_stream { lemma_take_n_concat, lemma_wr_wr, lemma_wr_len, axiom_utf8_roundtrip, axiom_utf8_dec_sound }
