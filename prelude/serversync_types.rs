// ===========================================================================
// prelude/serversync_types.rs — stand-ins of unit `serversync` for everything the
// server-side merge code (crates/storage/server/src/sync.rs, the default methods of
// `ForceMerge` in crates/sync/src/traits.rs, `diff_log` / `event_diff` of
// server_helpers.rs) calls but that lives outside the unit.  Every `external_body`
// and every bodiless trait method contract below is an ASSUMPTION (trusted base);
// each names the source that was read.  Included at TOP LEVEL after
// prelude/merge_spec.rs (vocabulary `Rec`, `rv`, `commits`, `is_last_pos` shared with
// unit `merge`).  Parts marked (merge_types) are the text of prelude/merge_types.rs
// (plus, in the accessor contracts, the `store()` frame and the `write_fails` oracle).
// Second wave: the vault store `ServerV` (`store()`), spec decoding `Decodable::dec_spec`,
// `vault_of` (head-only vault a log replays to), the oracles `BackendEventLog::io_fails` /
// `StorageEventLogs::write_fails` ("an error has a cause": uninterpreted, only ever used as
// `Err ==> oracle`, so they assume nothing about when the environment fails).
// ===========================================================================

// ---- opaque error types -------------------------------------------------------
/// sos_backend::Error (crates/backend/src/error.rs) — opaque (merge_types)
#[derive(Debug)]
pub struct BackendError { pub _p: () }
/// sos_core::Error (crates/core/src/error.rs) — opaque (merge_types)
#[derive(Debug)]
pub struct CoreError { pub _p: () }
/// sos_sync::Error (crates/sync/src/error.rs) — opaque
#[derive(Debug)]
pub struct SyncError { pub _p: () }
/// sos_backend::StorageError (crates/backend/src/error.rs): the variant the code constructs
pub enum StorageError { FolderNotFound(VaultId) }
/// sos_server_storage::Error (crates/storage/server/src/error.rs) — opaque; the `From`
/// impls are the `#[from]` variants its `?` sites use
#[derive(Debug)]
pub struct Error { pub _p: () }
impl Error {
    /// error.rs:28 tuple variant `VaultIdentifierMismatch(VaultId, VaultId)` (the error type is opaque here)
    #[allow(non_snake_case)]
    pub fn VaultIdentifierMismatch(_a: VaultId, _b: VaultId) -> Error { Error { _p: () } }
}
impl From<CoreError> for Error { fn from(_e: CoreError) -> Error { Error { _p: () } } }
impl From<BackendError> for Error { fn from(_e: BackendError) -> Error { Error { _p: () } } }
impl From<SyncError> for Error { fn from(_e: SyncError) -> Error { Error { _p: () } } }
impl From<StorageError> for Error { fn from(_e: StorageError) -> Error { Error { _p: () } } }
impl From<CoreError> for BackendError { fn from(_e: CoreError) -> BackendError { BackendError { _p: () } } }
/// crates/storage/server/src/lib.rs: `pub type Result<T> = std::result::Result<T, Error>`
pub type Result<T> = core::result::Result<T, Error>;
pub mod sos_backend { pub type Error = super::BackendError; pub use super::StorageError; }
pub mod sos_core { pub type Error = super::CoreError; }

// ---- event types ------------------------------------------------------------------
// AccountEvent and WriteEvent are matched on by the code under contract: their real
// enums are extracted in the unit.  DeviceEvent / FileEvent are phantoms (records
// travel encoded): unit structs (merge_types).
#[derive(Default)] pub struct DeviceEvent { pub _p: () }
#[derive(Default)] pub struct FileEvent { pub _p: () }
/// binary_stream::futures::{Encodable, Decodable}: used as bounds here.  `dec_spec(b)`: what
/// `decode::<Self>(b)` (crates/core/src/encoding) answers for the bytes `b` — a pure function of
/// the bytes (None: they do not decode).  Uninterpreted per event type.
pub trait Encodable {}
pub trait Decodable: Sized { spec fn dec_spec(b: Seq<u8>) -> Option<Self>; }
impl Encodable for WriteEvent {} impl Decodable for WriteEvent { uninterp spec fn dec_spec(b: Seq<u8>) -> Option<WriteEvent>; }
impl Encodable for AccountEvent {} impl Decodable for AccountEvent { uninterp spec fn dec_spec(b: Seq<u8>) -> Option<AccountEvent>; }
impl Encodable for DeviceEvent {} impl Decodable for DeviceEvent { uninterp spec fn dec_spec(b: Seq<u8>) -> Option<DeviceEvent>; }
impl Encodable for FileEvent {} impl Decodable for FileEvent { uninterp spec fn dec_spec(b: Seq<u8>) -> Option<FileEvent>; }
/// every row of `p` decodes as an `E`
pub open spec fn all_decode<E: Decodable>(p: Seq<Rec>) -> bool { forall|i: int| 0 <= i < p.len() ==> (#[trigger] E::dec_spec(p[i].event)) is Some }
/// the decoded events of the rows `p`, in order (meaningful under `all_decode`)
pub open spec fn decs<E: Decodable>(p: Seq<Rec>) -> Seq<E> { Seq::new(p.len(), |i: int| E::dec_spec(p[i].event)->Some_0) }
/// sos_core::crypto::AeadPack, sos_core::VaultCommit (payloads of WriteEvent variants the
/// code under contract never inspects) — opaque
#[verifier::external_body] pub struct AeadPack { _p: () }
#[verifier::external_body] pub struct VaultCommit { _p: () }
/// sos_vault::Vault (built by the reducer, handed to `write_vault`) — opaque; its view: the
/// header fields the server-side storage calls address (`id`: `Summary::id`, `name`, `flags`) and
/// everything else (`rest`: cipher, kdf, meta, entries) as one abstract value
#[verifier::external_body] pub struct Vault { _p: () }
#[verifier::external_body] pub struct VaultRest { _p: () }
pub ghost struct VaultV { pub id: VaultId, pub name: Seq<char>, pub flags: VaultFlags, pub rest: VaultRest }
impl View for Vault { type V = VaultV; uninterp spec fn view(&self) -> VaultV; }
impl Vault {
    /// vault.rs `Vault::id`: `self.header.summary.id`
    #[verifier::external_body]
    pub fn id(&self) -> (r: &VaultId) ensures *r == self@.id { unimplemented!() }
}
/// `decode::<Vault>(b)` (crates/vault/src/encoding): None when the bytes do not decode
pub uninterp spec fn vault_dec(b: Seq<u8>) -> Option<VaultV>;
/// `Vault::from(vault.header().clone())` (FolderReducer::split, crates/reducers/src/folder.rs:47):
/// same header, no entries (unit fold [split_head])
pub uninterp spec fn rest_head(r: VaultRest) -> VaultRest;
pub open spec fn head_only(v: VaultV) -> VaultV { VaultV { rest: rest_head(v.rest), ..v } }
/// THE head-only vault a non-empty folder log replays to: `FolderReducer::new().reduce(log)?
/// .build(false)?` (crates/reducers/src/folder.rs; unit fold [reduce_is_replay]
/// [build_without_secrets] [build_head_applied]: the CreateVault buffer of the first row with the
/// last SetVaultName / SetVaultFlags / SetVaultMeta applied) — a function of the rows
/// (the events are the decoded event bytes of the rows, in order).  Uninterpreted here.
pub uninterp spec fn vault_of(log: Seq<Rec>) -> VaultV;

// ---- the vault store of the account (C02 / C05: what is PERSISTED besides the logs) -----------
/// Abstract state of the server-side account storage besides its event logs
/// (crates/storage/server/src/filesystem.rs layout; database.rs keeps the same data in the
/// `folders` table): `login`: the identity vault (`paths.identity_vault()` / login folder row),
/// whose name IS the account name; `vaults`: the stored head-only vault of every folder
/// (`paths.vault_path(id)` / folder row `id`); `folders`: the key set of the in-memory map of folder
/// event logs (`self.folders`).
pub ghost struct ServerV { pub login: Option<VaultV>, pub vaults: Map<VaultId, VaultV>, pub folders: Set<VaultId> }
/// frames: every stored vault but `id` / every folder-map key but `id` is as before
pub open spec fn vaults_same_but(o: ServerV, f: ServerV, id: VaultId) -> bool {
    vaults_same_but2(o, f, id, id)
}
pub open spec fn vaults_same_but2(o: ServerV, f: ServerV, id: VaultId, id2: VaultId) -> bool {
    forall|k: VaultId| #![trigger f.vaults.contains_key(k)] #![trigger f.vaults[k]] k != id && k != id2 ==>
        f.vaults.contains_key(k) == o.vaults.contains_key(k) && (f.vaults.contains_key(k) ==> f.vaults[k] == o.vaults[k])
}
pub open spec fn folders_same_but(o: ServerV, f: ServerV, id: VaultId) -> bool {
    forall|k: VaultId| k != id ==> #[trigger] f.folders.contains(k) == o.folders.contains(k)
}
/// `VaultWriter::set_vault_flags` / `set_vault_name` on the stored vault `id` (unit vaultfile
/// [set_flags_view] [set_name_view]: the header field is rewritten, nothing else).  A vault that is not
/// stored: the file system refuses (Err: no file), the database updates no row (Ok, nothing changes).
pub open spec fn set_flags(s: ServerV, id: VaultId, f: VaultFlags) -> ServerV {
    if s.vaults.contains_key(id) { ServerV { vaults: s.vaults.insert(id, VaultV { flags: f, ..s.vaults[id] }), ..s } } else { s }
}
pub open spec fn set_name(s: ServerV, id: VaultId, n: Seq<char>) -> ServerV {
    if s.vaults.contains_key(id) { ServerV { vaults: s.vaults.insert(id, VaultV { name: n, ..s.vaults[id] }), ..s } } else { s }
}
/// `rename_account`: the name of the login vault (and the account row) is rewritten
pub open spec fn set_account_name(s: ServerV, n: Seq<char>) -> ServerV {
    match s.login { Some(v) => ServerV { login: Some(VaultV { name: n, ..v }), ..s }, None => s }
}
/// `import_folder(id, buffer)`: the head of the decoded vault is stored under `id` and the folder has an
/// in-memory log entry
pub open spec fn import_vault(s: ServerV, id: VaultId, b: Seq<u8>) -> ServerV {
    ServerV { vaults: s.vaults.insert(id, head_only(vault_dec(b)->Some_0)), folders: s.folders.insert(id), ..s }
}
/// `delete_folder(id)`: vault and log removed from the store, entry removed from the map
pub open spec fn drop_folder(s: ServerV, id: VaultId) -> ServerV {
    ServerV { vaults: s.vaults.remove(id), folders: s.folders.remove(id), ..s }
}

/// `Default for CommitProof` (crates/core/src/commit/proof.rs:206 `impl Default`): zero root, no
/// proof hashes, length 0, no indices; only compared against
pub open spec fn default_proof() -> CommitProofV {
    CommitProofV { root: Seq::new(32, |i: int| 0u8), hashes: Seq::empty(), length: 0, indices: Seq::empty() }
}
impl Default for CommitProof {
    #[verifier::external_body]
    fn default() -> (r: CommitProof)
        ensures r@ == default_proof(),
    { unimplemented!() }
}
/// `impl PartialEq for CommitProof` (proof.rs:131): root, proof hashes, length and
/// indices are compared — i.e. the views (text of prelude/log_tree.rs)
impl vstd::std_specs::cmp::PartialEqSpecImpl for CommitProof {
    open spec fn obeys_eq_spec() -> bool { true }
    open spec fn eq_spec(&self, other: &CommitProof) -> bool { self@ == other@ }
}
impl PartialEq for CommitProof {
    #[verifier::external_body]
    fn eq(&self, other: &CommitProof) -> bool { unimplemented!() }
}
/// `#[derive(PartialEq)]` on uuid::Uuid (VaultId): the 16 bytes
impl vstd::std_specs::cmp::PartialEqSpecImpl for Uuid {
    open spec fn obeys_eq_spec() -> bool { true }
    open spec fn eq_spec(&self, other: &Uuid) -> bool { self.0@ == other.0@ }
}
impl PartialEq for Uuid {
    #[verifier::external_body]
    fn eq(&self, other: &Uuid) -> bool { self.0 == other.0 }
}

// ---- MergeOutcome -------------------------------------------------------------------
/// sos_sync::TrackedChanges (crates/sync/src/types.rs): normalised change lists for the
/// UI; nothing the properties talk about.  The element sets are opaque.  The
/// constructors DECODE the events of the patch (`into_events`) and fail when one does
/// not decode.
#[verifier::external_body] pub struct TrackedSet { _p: () }
impl Default for TrackedSet { #[verifier::external_body] fn default() -> TrackedSet { unimplemented!() } }
#[derive(Default)]
pub struct TrackedChanges { pub identity: TrackedSet, pub device: TrackedSet, pub account: TrackedSet, pub files: TrackedSet, pub folders: TrackedSet }
impl TrackedChanges {
    #[verifier::external_body]
    pub fn new_folder_records(value: &Patch<WriteEvent>) -> (r: core::result::Result<TrackedSet, SyncError>) { unimplemented!() }
    #[verifier::external_body]
    pub fn new_account_records(value: &Patch<AccountEvent>) -> (r: core::result::Result<TrackedSet, SyncError>) { unimplemented!() }
    #[verifier::external_body]
    pub fn new_account_events(events: Vec<AccountEvent>) -> (r: core::result::Result<TrackedSet, SyncError>) { unimplemented!() }
    #[verifier::external_body]
    pub fn new_device_records(value: &Patch<DeviceEvent>) -> (r: core::result::Result<TrackedSet, SyncError>) { unimplemented!() }
    /// `new_file_records` (types.rs:366): `value.into_events::<FileEvent>()?` then `new_file_events`,
    /// which has no failing path: Err only when a record does not decode
    #[verifier::external_body]
    pub fn new_file_records(value: &Patch<FileEvent>) -> (r: core::result::Result<TrackedSet, SyncError>)
        ensures r.is_err() ==> !all_decode::<FileEvent>(rv(value.0@)),
    { unimplemented!() }
    /// `add_tracked_folder_changes`: inserts into `self.folders` when not empty
    #[verifier::external_body]
    pub fn add_tracked_folder_changes(&mut self, folder_id: &VaultId, changes: TrackedSet) { unimplemented!() }
}
/// sos_sync::MergeOutcome (crates/sync/src/types.rs): `changes` is the counter C05 talks
/// about; `tracked` as above (R15: spelled `tracked_` — `tracked` is a Verus keyword) (`external_files` is not touched by the code under contract)
#[derive(Default)]
pub struct MergeOutcome { pub changes: u64, pub tracked_: TrackedChanges }

/// std::collections::HashSet<VaultId> as built by `merge_account` (the set of deleted
/// folders): only `new` and `insert` are used
#[verifier::external_body]
#[verifier::reject_recursive_types(K)]
pub struct HashSet<K> { _p: core::marker::PhantomData<K> }
impl<K> HashSet<K> {
    #[verifier::external_body]
    pub fn new() -> (r: HashSet<K>) { unimplemented!() }
    #[verifier::external_body]
    pub fn insert(&mut self, k: K) -> (r: bool) { unimplemented!() }
}

// ---- CommitProof / CommitTree: contracts PROVED in units/tree.vrs (merge_types) ------------
pub ghost struct CommitProofV {
    pub root: Seq<u8>,
    pub hashes: Seq<Seq<u8>>,
    pub length: nat,
    pub indices: Seq<usize>,
}
impl View for CommitProof {
    type V = CommitProofV;
    open spec fn view(&self) -> CommitProofV {
        CommitProofV { root: self.root.0@, hashes: self.proof@, length: self.length as nat, indices: self.indices@ }
    }
}
pub open spec fn is_proof_of(p: CommitProofV, src: Seq<Seq<u8>>, i: nat) -> bool {
    &&& i < src.len()
    &&& merkle_root(src) == Some(p.root)
    &&& p.length == src.len()
    &&& p.indices.len() == 1 && p.indices[0] as nat == i
    &&& p.hashes == proof_hashes(src, i)
}
pub open spec fn is_head_proof_of(p: CommitProofV, src: Seq<Seq<u8>>) -> bool {
    src.len() > 0 && is_proof_of(p, src, (src.len() - 1) as nat)
}
/// crates/core/src/commit/tree.rs `CommitTree` — committed leaf sequence `lv()`
#[verifier::external_body]
pub struct CommitTree { _p: () }
impl CommitTree {
    pub uninterp spec fn lv(&self) -> Seq<Seq<u8>>;
    /// tree unit [is_empty_iff_no_committed_leaf]
    #[verifier::external_body]
    pub fn is_empty(&self) -> (r: bool)
        ensures r == (self.lv().len() == 0),
    { unimplemented!() }
    /// tree unit [head_err_iff_empty], [head_is_proof_of_last_leaf]
    #[verifier::external_body]
    pub fn head(&self) -> (r: core::result::Result<CommitProof, CoreError>)
        ensures
            r.is_err() <==> self.lv().len() == 0,
            r.is_ok() ==> is_head_proof_of(r.unwrap()@, self.lv()),
    { unimplemented!() }
}

// ---- locks (R9) (merge_types) ----------------------------------------------------------------
/// R9: `Arc<tokio::sync::RwLock<T>>` — `read()` gives `&T`, `write()` gives `&mut T`.
/// Assumption: nobody else mutates `T` while the caller holds the guard; what other
/// tasks do between two acquisitions is C09 and not covered.
pub struct VRwLock<T> { pub inner: T }
impl<T> VRwLock<T> {
    #[verifier::external_body]
    pub fn write(&mut self) -> (g: &mut T)
        ensures *g == old(self).inner, final(self).inner == *final(g),
    { &mut self.inner }
    #[verifier::external_body]
    pub fn read(&self) -> (g: &T)
        ensures *g == self.inner,
    { &self.inner }
}

// ---- event log ------------------------------------------------------------------------
/// sos_backend::BackendEventLog<T> (crates/backend/src/event_log.rs: dispatches to
/// crates/filesystem/src/event_log.rs `FileSystemEventLog` or
/// crates/database/src/event_log.rs `DatabaseEventLog`).  Abstract state: the rows in log
/// order (merge_types).  The contracts below are the C06/C07 labels of units `log`
/// (file system) and `dblog` (database), named at each stand-in; here they are ASSUMED.
/// I/O failures in the middle of an operation (C13) are not modelled.
#[verifier::external_body]
#[verifier::reject_recursive_types(T)]
pub struct BackendEventLog<T> { _p: core::marker::PhantomData<T> }
pub type FolderEventLog = BackendEventLog<WriteEvent>;
pub type AccountEventLog = BackendEventLog<AccountEvent>;
pub type DeviceEventLog = BackendEventLog<DeviceEvent>;
pub type FileEventLog = BackendEventLog<FileEvent>;

/// the LAST position of commit `c` in `s` (arbitrary when absent) (merge_types)
pub open spec fn last_pos(s: Seq<Rec>, c: Seq<u8>) -> int { choose|k: int| is_last_pos(s, c, k) }

impl<T> BackendEventLog<T> {
    pub uninterp spec fn recs(&self) -> Seq<Rec>;
    /// ORACLE of the environment (new here, for the "an error has a cause" clauses): whether the
    /// storage below this handle fails the NEXT appending write made through it (I/O error, SQL
    /// error).  Uninterpreted; consumed by `patch_unchecked` only, which says: it fails ONLY then.
    pub uninterp spec fn io_fails(&self) -> bool;

    /// `tree()`: the in-memory commit tree holds exactly the commit hashes of the rows
    /// (LOG_INV of C06; log / dblog `inv`) (merge_types)
    #[verifier::external_body]
    pub fn tree(&self) -> (r: &CommitTree)
        ensures r.lv() == commits(self.recs()),
    { unimplemented!() }

    /// `patch_checked(checkpoint, patch)` — log / dblog [applied_iff_equal]
    /// [conflict_changes_nothing] [failure_changes_nothing]: `CommitTree::compare` answers
    /// `Equal` exactly when the roots agree (tree unit [compare_matches_code_level_spec]);
    /// then the patch rows are appended and `Success(head)` is returned; otherwise
    /// `Conflict` and nothing is written
    #[verifier::external_body]
    pub fn patch_checked(&mut self, commit_proof: &CommitProof, patch: &Patch<T>) -> (r: core::result::Result<CheckedPatch, BackendError>)
        ensures
            match r {
                Ok(CheckedPatch::Success(p)) => final(self).recs() == old(self).recs() + rv(patch.0@)
                    && merkle_root(commits(old(self).recs())) == Some(commit_proof@.root)
                    && is_head_proof_of(p@, commits(final(self).recs())),
                Ok(CheckedPatch::Conflict { head, contains }) => final(self).recs() == old(self).recs()
                    && merkle_root(commits(old(self).recs())) != Some(commit_proof@.root),
                Err(_) => final(self).recs() == old(self).recs(),
            },
    { unimplemented!() }

    /// `patch_unchecked(patch)` — log / dblog [append_exact] [failure_changes_nothing]; every `?` of
    /// `apply_records` (crates/filesystem/src/event_log.rs, crates/database/src/event_log.rs) is a
    /// read / write / SQL error of the storage: Err only when `io_fails()`
    #[verifier::external_body]
    pub fn patch_unchecked(&mut self, patch: &Patch<T>) -> (r: core::result::Result<(), BackendError>)
        ensures
            r.is_ok() ==> final(self).recs() == old(self).recs() + rv(patch.0@),
            r.is_err() ==> final(self).recs() == old(self).recs(),
            r.is_err() ==> old(self).io_fails(),
    { unimplemented!() }

    /// `replace_all_events(diff)` — the SPECIFIED contract, log / dblog [replace_ok]
    /// [replace_refused_unchanged].  Both labels FAIL in those units on the current code
    /// (D4: database replaces before verifying, D13: file system, empty patch): what is
    /// proved for the callers in this unit is RELATIVE to this contract (modular).
    #[verifier::external_body]
    pub fn replace_all_events(&mut self, diff: &Diff<T>) -> (r: core::result::Result<(), BackendError>)
        ensures
            r.is_ok() ==> final(self).recs() == rv(diff.patch.0@) && is_head_proof_of(diff.checkpoint@, commits(final(self).recs())),
            r.is_err() ==> final(self).recs() == old(self).recs(),
    { unimplemented!() }

    /// `diff_records(Some(commit))` — log / dblog [diff_is_suffix_in_order] (merge_types)
    #[verifier::external_body]
    pub fn diff_records(&self, commit: Option<&CommitHash>) -> (r: core::result::Result<Vec<EventRecord>, BackendError>)
        ensures
            match (r, commit) {
                (Ok(v), Some(c)) => {
                    let k = last_pos(self.recs(), c.0@);
                    is_last_pos(self.recs(), c.0@, k) && rv(v@) == self.recs().skip(k + 1)
                },
                (Ok(v), None) => rv(v@) == self.recs(),
                (Err(_), _) => true,
            },
    { unimplemented!() }
}

// ---- reducers ---------------------------------------------------------------------------------
/// the trusted-device set a device log reduces to: `dev_fold(devs(items))` of unit `fold`
/// (label [revoked_not_trusted] of `DeviceReducer::reduce`), as a function of the rows
/// (the events are the decoded event bytes of the rows, in order).  Uninterpreted here.
pub ghost struct DevicesV { pub d: Seq<Seq<u8>> }
pub uninterp spec fn reduce_of(log: Seq<Rec>) -> DevicesV;
/// indexmap::IndexSet<TrustedDevice> — opaque; `dv()` is its content
#[verifier::external_body]
pub struct DeviceSet { _p: () }
impl DeviceSet { pub uninterp spec fn dv(&self) -> DevicesV; }
/// sos_reducers::DeviceReducer (crates/reducers/src/device.rs) — contract PROVED in
/// units/fold.vrs: [reduce_reads_whole_log] [revoked_not_trusted]
pub struct DeviceReducer<'a> { pub log: &'a DeviceEventLog }
impl<'a> DeviceReducer<'a> {
    pub fn new(log: &'a DeviceEventLog) -> (r: DeviceReducer<'a>)
        ensures r.log == log,
    { DeviceReducer { log } }
    #[verifier::external_body]
    pub fn reduce(self) -> (r: core::result::Result<DeviceSet, Error>)
        ensures r matches Ok(d) ==> d.dv() == reduce_of(self.log.recs()),
    { unimplemented!() }
}
/// sos_reducers::FolderReducer (crates/reducers/src/folder.rs): `new().reduce(log)` replays
/// the log, `.build(false)` makes the head-only vault.  Reads only.  `rows()`: the rows that were
/// replayed into it (unit fold [reduce_reads_clean_prefix] with no `until_commit`: the whole log);
/// `build(false)` of a non-empty replay is `vault_of` those rows (unit fold [reduce_is_replay]
/// [build_without_secrets]; an EMPTY replay builds `Vault::default()`, which has a random id).
#[verifier::external_body]
pub struct FolderReducer { _p: () }
impl FolderReducer {
    pub uninterp spec fn rows(&self) -> Seq<Rec>;
    #[verifier::external_body]
    pub fn new() -> (r: FolderReducer)
        ensures r.rows() == Seq::<Rec>::empty(),
    { unimplemented!() }
    #[verifier::external_body]
    pub fn reduce<T>(self, log: &BackendEventLog<T>) -> (r: core::result::Result<FolderReducer, Error>)
        ensures r matches Ok(x) ==> x.rows() == log.recs(),
    { unimplemented!() }
    #[verifier::external_body]
    pub fn build(self, include_secrets: bool) -> (r: core::result::Result<Vault, Error>)
        ensures r matches Ok(v) ==> (!include_secrets && self.rows().len() > 0 ==> v@ == vault_of(self.rows())),
    { unimplemented!() }
}

// ---- records ---------------------------------------------------------------------------------
impl EventRecord {
    /// crates/core/src/events/record.rs:63 `decode_event`: `decode(&self.3)` — decodes the event bytes
    #[verifier::external_body]
    pub fn decode_event<T: Default + Decodable>(&self) -> (r: core::result::Result<T, CoreError>)
        ensures
            r matches Ok(e) ==> T::dec_spec(self.3@) == Some(e),
            r is Err ==> T::dec_spec(self.3@) is None,
    { unimplemented!() }
}
impl<T> Patch<T> {
    /// crates/core/src/events/patch.rs:57 `into_events`: `decode_event` of every record, in order;
    /// the first one that does not decode is the error
    #[verifier::external_body]
    pub fn into_events<E: Default + Decodable + Encodable>(&self) -> (r: core::result::Result<Vec<E>, CoreError>)
        ensures
            r matches Ok(v) ==> all_decode::<E>(rv(self.0@)) && v@ == decs::<E>(rv(self.0@)),
            r is Err ==> !all_decode::<E>(rv(self.0@)),
    { unimplemented!() }
}

// ---- storage ---------------------------------------------------------------------------------
/// sos_sync::StorageEventLogs (crates/sync/src/traits.rs) (merge_types).  Ghost state:
/// the rows of every log (`logv`) and the ghost set of logs that were asked for
/// (`touched`).  R9: the real accessors take `&self` and return `Arc<RwLock<Log>>`
/// clones; here they take `&mut self` and lend the lock, so that what is written through
/// the guard is the storage's new state.  New here: `cache()` — the trusted-device cache
/// of the server storage (`devices` field; `list_device_keys` of unit `auth` reads it) —
/// is part of the ghost state so that the accessors can say they leave it alone.  Likewise
/// `store()`: the vault store and folder map of the server storage (`ServerV`), which no accessor
/// changes.  `write_fails(t)`: ORACLE of the environment — the next appending write to log `t`
/// does not go through (the handle cannot be had, or the storage below it fails the write:
/// `BackendEventLog::io_fails` of the handle that is lent); an accessor fails ONLY then.
pub trait StorageEventLogs: Sized {
    type Error: core::fmt::Debug + From<CoreError> + From<BackendError> + From<SyncError>;
    spec fn logv(&self, t: EventLogType) -> Seq<Rec>;
    spec fn touched(&self) -> Set<EventLogType>;
    spec fn cache(&self) -> DevicesV;
    spec fn store(&self) -> ServerV;
    spec fn write_fails(&self, t: EventLogType) -> bool;

    fn identity_log(&mut self) -> (r: core::result::Result<&mut VRwLock<FolderEventLog>, Self::Error>)
        ensures
            final(self).touched() == old(self).touched().insert(EventLogType::Identity), final(self).cache() == old(self).cache(),
            forall|u: EventLogType| u != EventLogType::Identity ==> #[trigger] final(self).logv(u) == old(self).logv(u),
            match r {
                Ok(l) => l.inner.recs() == old(self).logv(EventLogType::Identity) && final(self).logv(EventLogType::Identity) == final(l).inner.recs()
                    && l.inner.io_fails() == old(self).write_fails(EventLogType::Identity),
                Err(_) => final(self).logv(EventLogType::Identity) == old(self).logv(EventLogType::Identity) && old(self).write_fails(EventLogType::Identity),
            },
            final(self).store() == old(self).store();
    fn account_log(&mut self) -> (r: core::result::Result<&mut VRwLock<AccountEventLog>, Self::Error>)
        ensures
            final(self).touched() == old(self).touched().insert(EventLogType::Account), final(self).cache() == old(self).cache(),
            forall|u: EventLogType| u != EventLogType::Account ==> #[trigger] final(self).logv(u) == old(self).logv(u),
            match r {
                Ok(l) => l.inner.recs() == old(self).logv(EventLogType::Account) && final(self).logv(EventLogType::Account) == final(l).inner.recs()
                    && l.inner.io_fails() == old(self).write_fails(EventLogType::Account),
                Err(_) => final(self).logv(EventLogType::Account) == old(self).logv(EventLogType::Account) && old(self).write_fails(EventLogType::Account),
            },
            final(self).store() == old(self).store();
    fn device_log(&mut self) -> (r: core::result::Result<&mut VRwLock<DeviceEventLog>, Self::Error>)
        ensures
            final(self).touched() == old(self).touched().insert(EventLogType::Device), final(self).cache() == old(self).cache(),
            forall|u: EventLogType| u != EventLogType::Device ==> #[trigger] final(self).logv(u) == old(self).logv(u),
            match r {
                Ok(l) => l.inner.recs() == old(self).logv(EventLogType::Device) && final(self).logv(EventLogType::Device) == final(l).inner.recs()
                    && l.inner.io_fails() == old(self).write_fails(EventLogType::Device),
                Err(_) => final(self).logv(EventLogType::Device) == old(self).logv(EventLogType::Device) && old(self).write_fails(EventLogType::Device),
            },
            final(self).store() == old(self).store();
    fn file_log(&mut self) -> (r: core::result::Result<&mut VRwLock<FileEventLog>, Self::Error>)
        ensures
            final(self).touched() == old(self).touched().insert(EventLogType::Files), final(self).cache() == old(self).cache(),
            forall|u: EventLogType| u != EventLogType::Files ==> #[trigger] final(self).logv(u) == old(self).logv(u),
            match r {
                Ok(l) => l.inner.recs() == old(self).logv(EventLogType::Files) && final(self).logv(EventLogType::Files) == final(l).inner.recs()
                    && l.inner.io_fails() == old(self).write_fails(EventLogType::Files),
                Err(_) => final(self).logv(EventLogType::Files) == old(self).logv(EventLogType::Files) && old(self).write_fails(EventLogType::Files),
            },
            final(self).store() == old(self).store();
    fn folder_log(&mut self, id: &VaultId) -> (r: core::result::Result<&mut VRwLock<FolderEventLog>, Self::Error>)
        ensures
            final(self).touched() == old(self).touched().insert(EventLogType::Folder(*id)), final(self).cache() == old(self).cache(),
            forall|u: EventLogType| u != EventLogType::Folder(*id) ==> #[trigger] final(self).logv(u) == old(self).logv(u),
            match r {
                Ok(l) => l.inner.recs() == old(self).logv(EventLogType::Folder(*id)) && final(self).logv(EventLogType::Folder(*id)) == final(l).inner.recs()
                    && l.inner.io_fails() == old(self).write_fails(EventLogType::Folder(*id)),
                Err(_) => final(self).logv(EventLogType::Folder(*id)) == old(self).logv(EventLogType::Folder(*id)) && old(self).write_fails(EventLogType::Folder(*id)),
            },
            final(self).store() == old(self).store();
}

/// the in-memory folder map `HashMap<VaultId, Arc<RwLock<FolderEventLog>>>` of the server
/// storage (R9: lent, like the other logs).  `logs()`: the rows of each folder log in
/// the map; `asked()`: ghost set of folder logs handed out through it.
#[verifier::external_body]
pub struct VFolders { _p: () }
impl VFolders {
    pub uninterp spec fn logs(&self) -> Map<VaultId, Seq<Rec>>;
    pub uninterp spec fn asked(&self) -> Set<EventLogType>;
    /// std `HashMap::get_mut`
    #[verifier::external_body]
    pub fn get_mut(&mut self, id: &VaultId) -> (r: Option<&mut VRwLock<FolderEventLog>>)
        ensures
            final(self).asked() == old(self).asked().insert(EventLogType::Folder(*id)),
            final(self).logs().dom() == old(self).logs().dom(),
            match r {
                Some(l) => old(self).logs().contains_key(*id) && l.inner.recs() == old(self).logs()[*id]
                    && final(self).logs() == old(self).logs().insert(*id, final(l).inner.recs()),
                None => !old(self).logs().contains_key(*id) && final(self).logs() == old(self).logs(),
            },
    { unimplemented!() }
    /// std `HashMap::insert` (R9: `Arc::new(RwLock::new(log))` is `VRwLock { inner: log }`)
    #[verifier::external_body]
    pub fn insert(&mut self, id: VaultId, log: VRwLock<FolderEventLog>)
        ensures final(self).logs() == old(self).logs().insert(id, log.inner.recs()), final(self).asked() == old(self).asked(),
    { unimplemented!() }
}
/// R12: `$m.keys().find(|&fid| $body).cloned()` on the folder map: std `Iterator::find` +
/// `Option::cloned`: some key on which the closure answers true (the first in iteration
/// order), or None when there is none
#[verifier::external_body]
pub fn vkeys_find_cloned<F: Fn(&VaultId) -> bool>(m: &VFolders, f: F) -> (r: Option<VaultId>)
    requires forall|k: &VaultId| #[trigger] f.requires((k,)),
    ensures
        r matches Some(k) ==> m.logs().contains_key(k) && f.ensures((&k,), true),
        r is None ==> forall|k: VaultId| m.logs().contains_key(k) ==> #[trigger] f.ensures((&k,), false),
        // the same fact, triggered on the key lookup
        r is None ==> forall|k: VaultId| #[trigger] m.logs().contains_key(k) ==> f.ensures((&k,), false),
{ unimplemented!() }

/// crate::ServerAccountStorage (crates/storage/server/src/traits.rs), the methods the
/// merge code uses; implementations read: crates/storage/server/src/{database,filesystem}.rs.
/// The real trait has no supertrait; every implementor also implements
/// StorageEventLogs, which is made a supertrait here so that the contracts can speak about
/// the logs.  A folder log `Folder(id)` IS the entry `id` of the folder map
/// (`folder_log(id)` = `self.folders.get(id)` in both implementations).
pub trait ServerAccountStorage: StorageEventLogs {
    /// `fn set_devices(&mut self, devices) { self.devices = devices; }`
    fn set_devices(&mut self, devices: DeviceSet)
        ensures
            final(self).cache() == devices.dv(), final(self).touched() == old(self).touched(),
            forall|u: EventLogType| #[trigger] final(self).logv(u) == old(self).logv(u),
            final(self).store() == old(self).store();
    /// `&self.folders`
    fn folders(&self) -> (r: &VFolders)
        ensures
            forall|u: EventLogType| u is Folder && r.logs().contains_key(u->Folder_0) ==> r.logs()[u->Folder_0] == #[trigger] self.logv(u),
            r.logs().dom() == self.store().folders;
    /// `&mut self.folders`: the folder logs in the map are lent; what is written through the
    /// map is the storage's new state for those folder logs; the key set of the map is the
    /// `folders` component of the store; nothing else changes
    fn folders_mut(&mut self) -> (r: &mut VFolders)
        ensures
            r.asked() == Set::<EventLogType>::empty(),
            forall|u: EventLogType| u is Folder && r.logs().contains_key(u->Folder_0) ==> r.logs()[u->Folder_0] == #[trigger] old(self).logv(u),
            forall|u: EventLogType| #[trigger] final(self).logv(u) == (
                if u is Folder && final(r).logs().contains_key(u->Folder_0) { final(r).logs()[u->Folder_0] }
                else if u is Folder && r.logs().contains_key(u->Folder_0) { Seq::<Rec>::empty() }
                else { old(self).logv(u) }),
            final(self).touched() == old(self).touched().union(final(r).asked()),
            final(self).cache() == old(self).cache(),
            r.logs().dom() == old(self).store().folders,
            final(self).store() == (ServerV { folders: final(r).logs().dom(), ..old(self).store() });
    /// `rename_account` (R9: `&self` in the source; it writes to the vault store, which is ghost
    /// state of the storage here).  filesystem.rs:225: `VaultFileWriter::new(paths.identity_vault())
    /// .set_vault_name(name)`; database.rs:268: the same on the login folder row, then the accounts
    /// row.  Renames the login folder / account row; no event log is written.  On Err the login
    /// vault may or may not have been renamed.
    fn rename_account(&mut self, name: &str) -> (r: Result<()>)
        ensures
            forall|u: EventLogType| #[trigger] final(self).logv(u) == old(self).logv(u),
            final(self).touched() == old(self).touched(), final(self).cache() == old(self).cache(),
            r is Ok ==> final(self).store() == set_account_name(old(self).store(), name@),
            final(self).store().vaults == old(self).store().vaults && final(self).store().folders == old(self).store().folders;
    /// `write_vault` (R9: `&self` in the source).  SPECIFIED contract (traits.rs:46 "Write a vault to
    /// storage"): filesystem.rs:237 `vfs::write(paths.vault_path(vault.id()), encode(vault))` — the
    /// vault is stored under ITS OWN id; database.rs:307 `update_folder(vault.id(), row)` (an UPDATE:
    /// a folder row that does not exist is not created).  On Err the entry may be damaged.
    fn write_vault(&mut self, vault: &Vault) -> (r: Result<()>)
        ensures
            forall|u: EventLogType| #[trigger] final(self).logv(u) == old(self).logv(u),
            final(self).touched() == old(self).touched(), final(self).cache() == old(self).cache(),
            r is Ok ==> final(self).store() == (ServerV { vaults: old(self).store().vaults.insert(vault@.id, vault@), ..old(self).store() }),
            final(self).store().login == old(self).store().login && final(self).store().folders == old(self).store().folders,
            vaults_same_but(old(self).store(), final(self).store(), vault@.id);
    /// `write_login_vault` (R9: `&self` in the source).  filesystem.rs:250
    /// `vfs::write(paths.identity_vault(), encode(vault))`; database.rs:333 `upsert_login_folder`
    fn write_login_vault(&mut self, vault: &Vault) -> (r: Result<()>)
        ensures
            forall|u: EventLogType| #[trigger] final(self).logv(u) == old(self).logv(u),
            final(self).touched() == old(self).touched(), final(self).cache() == old(self).cache(),
            r is Ok ==> final(self).store() == (ServerV { login: Some(vault@), ..old(self).store() }),
            final(self).store().vaults == old(self).store().vaults && final(self).store().folders == old(self).store().folders;
    /// `read_vault` / `read_login_vault` (traits.rs:44,51): read the stored vault; `&self`, no log is touched
    fn read_vault(&self, folder_id: &VaultId) -> (r: Result<Vault>);
    fn read_login_vault(&self) -> (r: Result<Vault>);
    /// `delete_account` (traits.rs:109): removes the account with all its logs — NO promise is made
    /// about any log, the store or the cache afterwards (weakest contract)
    fn delete_account(&mut self) -> (r: Result<()>);
    /// `set_folder_flags` (R9: `&self` in the source).  filesystem.rs:281 / database.rs:370:
    /// `VaultWriter::new(target, folder_id).set_vault_flags(flags)`, see `set_flags`.  On Err the
    /// stored vault `folder_id` may be damaged.
    fn set_folder_flags(&mut self, folder_id: &VaultId, flags: VaultFlags) -> (r: Result<()>)
        ensures
            forall|u: EventLogType| #[trigger] final(self).logv(u) == old(self).logv(u),
            final(self).touched() == old(self).touched(), final(self).cache() == old(self).cache(),
            r is Ok ==> final(self).store() == set_flags(old(self).store(), *folder_id, flags),
            final(self).store().login == old(self).store().login && final(self).store().folders == old(self).store().folders,
            vaults_same_but(old(self).store(), final(self).store(), *folder_id);
    /// `replace_folder` (R9: `&self` in the source; it rewrites the folder's stored events
    /// through a NEW event-log handle: `FolderEventLog::new_folder(..)`,
    /// `event_log.replace_all_events(diff)`, reduce + build(false) the vault, returns the handle
    /// and that vault).  Contract: that of `replace_all_events` (see there: specified, relative) for
    /// the folder's log; later steps may fail after the events were replaced.  The vault that is
    /// returned is `vault_of` the replaced log (see `FolderReducer`).  Store: filesystem.rs:257 does
    /// not write it; database.rs:343 also replaces the secret rows of `folder_id`
    /// (`replace_all_secrets`): only the stored vault `folder_id` may change.
    fn replace_folder(&mut self, folder_id: &VaultId, diff: &FolderDiff) -> (r: Result<(FolderEventLog, Vault)>)
        ensures
            forall|u: EventLogType| u != EventLogType::Folder(*folder_id) ==> #[trigger] final(self).logv(u) == old(self).logv(u),
            final(self).touched() == old(self).touched(), final(self).cache() == old(self).cache(),
            r matches Ok(x) ==> x.0.recs() == rv(diff.patch.0@) && is_head_proof_of(diff.checkpoint@, commits(x.0.recs()))
                && final(self).logv(EventLogType::Folder(*folder_id)) == rv(diff.patch.0@)
                && x.1@ == vault_of(x.0.recs()),
            final(self).store().login == old(self).store().login && final(self).store().folders == old(self).store().folders,
            vaults_same_but(old(self).store(), final(self).store(), *folder_id);
    /// creates / overwrites the folder `id` from an encoded vault (its log is cleared and refilled).
    /// filesystem.rs:355 / database.rs:451: `decode(buffer)?`, `FolderReducer::split`, `id != vault.id()`
    /// is refused (VaultIdentifierMismatch), the head-only vault is written under `id`,
    /// `create_folder_entry(id)` puts the log into the folder map.  On Err the vault `id` may have been
    /// written and the entry made.
    fn import_folder(&mut self, id: &VaultId, buffer: &[u8]) -> (r: Result<()>)
        ensures
            forall|u: EventLogType| u != EventLogType::Folder(*id) ==> #[trigger] final(self).logv(u) == old(self).logv(u),
            final(self).touched() == old(self).touched(), final(self).cache() == old(self).cache(),
            r is Ok ==> vault_dec(buffer@) is Some && (vault_dec(buffer@)->Some_0).id == *id
                && final(self).store() == import_vault(old(self).store(), *id, buffer@),
            final(self).store().login == old(self).store().login,
            vaults_same_but(old(self).store(), final(self).store(), *id),
            folders_same_but(old(self).store(), final(self).store(), *id);
    /// filesystem.rs:411 / database.rs:537: `VaultWriter::new(target, id).set_vault_name(name)`, see
    /// `set_name`; no event log is written
    fn rename_folder(&mut self, id: &VaultId, name: &str) -> (r: Result<()>)
        ensures
            forall|u: EventLogType| u != EventLogType::Folder(*id) ==> #[trigger] final(self).logv(u) == old(self).logv(u),
            final(self).touched() == old(self).touched(), final(self).cache() == old(self).cache(),
            r is Ok ==> final(self).store() == set_name(old(self).store(), *id, name@),
            final(self).store().login == old(self).store().login && final(self).store().folders == old(self).store().folders,
            vaults_same_but(old(self).store(), final(self).store(), *id);
    /// filesystem.rs:430 / database.rs:508: `remove_vault_file(id)` (vault and event log), then
    /// `self.folders.remove(id)`.  On Err (a later step: files folder, audit) both may be gone already.
    fn delete_folder(&mut self, id: &VaultId) -> (r: Result<()>)
        ensures
            forall|u: EventLogType| u != EventLogType::Folder(*id) ==> #[trigger] final(self).logv(u) == old(self).logv(u),
            final(self).touched() == old(self).touched(), final(self).cache() == old(self).cache(),
            r is Ok ==> final(self).store() == drop_folder(old(self).store(), *id),
            final(self).store().login == old(self).store().login,
            vaults_same_but(old(self).store(), final(self).store(), *id),
            folders_same_but(old(self).store(), final(self).store(), *id);
}

/// when does `patch_checked(checkpoint, patch)` on a log with rows `l` apply the patch
/// (merge_types): roots agree; for the file log `merge_files` applies unchecked when the
/// log is still empty and the diff is an initial one
pub open spec fn patch_applies(l: Seq<Rec>, cp: CommitProofV, t: EventLogType) -> bool {
    merkle_root(commits(l)) == Some(cp.root) || (t == EventLogType::Files && l.len() == 0)
}
/// THE contract the five `Merge::merge_*` functions are ASSUMED to have in unit `merge`
/// (prelude/merge_types.rs `merge_post`, same text): in this unit it is PROVED for the
/// server-side implementations, split into labels.
pub open spec fn merge_post<S: StorageEventLogs>(o: S, f: S, t: EventLogType, cp: CommitProofV, patch: Seq<Rec>, res: Option<CheckedPatch>, acct: bool) -> bool {
    &&& f.touched() == o.touched().insert(t)
    &&& forall|u: EventLogType| u != t && !(acct && u is Folder) ==> #[trigger] f.logv(u) == o.logv(u)
    &&& match res {
            Some(CheckedPatch::Success(_)) => f.logv(t) == o.logv(t) + patch && patch_applies(o.logv(t), cp, t),
            Some(CheckedPatch::Conflict { .. }) => f.logv(t) == o.logv(t) && merkle_root(commits(o.logv(t))) != Some(cp.root),
            None => f.logv(t) == o.logv(t) || f.logv(t) == o.logv(t) + patch,
        }
}
pub open spec fn ok_of<A, E>(r: core::result::Result<A, E>) -> Option<A> {
    match r { Ok(a) => Some(a), Err(_) => None }
}
/// the counter does not overflow (entry precondition of every merge function: `u64 +=`)
pub open spec fn counter_fits(outcome: MergeOutcome, n: nat) -> bool { outcome.changes + n <= u64::MAX }

/// sos_sync::Merge (crates/sync/src/traits.rs), the five required methods
pub trait Merge: StorageEventLogs {
    fn merge_identity(&mut self, diff: FolderDiff, outcome: &mut MergeOutcome) -> (r: core::result::Result<CheckedPatch, Self::Error>)
        requires counter_fits(*old(outcome), diff.patch.0@.len());
    fn merge_account(&mut self, diff: AccountDiff, outcome: &mut MergeOutcome) -> (r: core::result::Result<(CheckedPatch, HashSet<VaultId>), Self::Error>)
        requires counter_fits(*old(outcome), diff.patch.0@.len());
    fn merge_device(&mut self, diff: DeviceDiff, outcome: &mut MergeOutcome) -> (r: core::result::Result<CheckedPatch, Self::Error>)
        requires counter_fits(*old(outcome), diff.patch.0@.len());
    fn merge_files(&mut self, diff: FileDiff, outcome: &mut MergeOutcome) -> (r: core::result::Result<CheckedPatch, Self::Error>)
        requires counter_fits(*old(outcome), diff.patch.0@.len());
    fn merge_folder(&mut self, folder_id: &VaultId, diff: FolderDiff, outcome: &mut MergeOutcome) -> (r: core::result::Result<(CheckedPatch, Vec<WriteEvent>), Self::Error>)
        requires counter_fits(*old(outcome), diff.patch.0@.len());
}
/// sos_sync::SyncStorage: only used as a bound here
pub trait SyncStorage: Merge {}
