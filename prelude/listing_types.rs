// ===========================================================================
// prelude/listing_types.rs — stand-ins of unit `listing` (crates/external_files/src/file_helpers.rs
// `list_secret_files`): a directory as a GHOST sequence of entries (the tree does not change while
// the function runs, no other process writes; same reading as prelude/files_fs.rs), std paths as far
// as the function looks at them, indexmap's IndexSet, and the parser of blob names.
// Everything `external_body` / `uninterp` here is an ASSUMPTION; each names the source read.
// ===========================================================================

/// insertion into an insertion-ordered set: a value already present is ignored (indexmap-2.x src/set.rs `insert`)
pub open spec fn iset_insert<T>(s: Seq<T>, x: T) -> Seq<T> { if s.contains(x) { s } else { s.push(x) } }

/// indexmap::IndexSet<T>: hash set that keeps insertion order; the view is over ELEMENT VIEWS, which assumes that
/// `Eq`/`Hash` of the element type agree with equality of the views (ExternalFileName derives them over `[u8; 32]`)
#[verifier::external_body]
#[verifier::reject_recursive_types(T)]
pub struct IndexSet<T> { _p: core::marker::PhantomData<T> }
impl<T: View> View for IndexSet<T> {
    type V = Seq<T::V>;
    uninterp spec fn view(&self) -> Seq<T::V>;
}
impl<T: View> IndexSet<T> {
    #[verifier::external_body]
    pub fn new() -> (r: IndexSet<T>)
        ensures r@ == Seq::<T::V>::empty(),
    { unimplemented!() }
    #[verifier::external_body]
    pub fn insert(&mut self, x: T) -> (b: bool)
        ensures final(self)@ == iset_insert(old(self)@, x@), b == !old(self)@.contains(x@),
    { unimplemented!() }
}

// ---- errors -------------------------------------------------------------------------------------
/// `std::io::Error` — opaque
pub struct IoError { pub _p: () }
#[verifier::external]
impl core::fmt::Debug for IoError { fn fmt(&self, f: &mut core::fmt::Formatter<'_>) -> core::fmt::Result { Ok(()) } }
/// `sos_external_files::Error` (crates/external_files/src/error.rs): `#[from] std::io::Error` + catch-all
pub enum ExtFilesError { Io(IoError), Other }
#[verifier::external]
impl core::fmt::Debug for ExtFilesError { fn fmt(&self, f: &mut core::fmt::Formatter<'_>) -> core::fmt::Result { Ok(()) } }
impl From<IoError> for ExtFilesError { #[verifier::external_body] fn from(e: IoError) -> ExtFilesError { ExtFilesError::Io(e) } }
pub type ExtResult<T> = core::result::Result<T, ExtFilesError>;
/// `sos_core::Error` as far as `ExternalFileName::from_str` makes it — opaque
pub struct CoreError { pub _p: () }
#[verifier::external]
impl core::fmt::Debug for CoreError { fn fmt(&self, f: &mut core::fmt::Formatter<'_>) -> core::fmt::Result { Ok(()) } }

// ---- directory entries ------------------------------------------------------------------------------
/// what `list_secret_files` can see of one directory entry: the final path component (std `Path::file_name`;
/// `None` only for a path ending in `..`, which `read_dir` never yields) and whether it is a regular file
/// (`Path::is_file`, follows symlinks)
pub struct EntryV { pub name: Option<Seq<char>>, pub is_file: bool, pub is_dir: bool, pub path: Seq<char> }

/// std `Path::file_stem` as a function of the file name (library/std/src/path.rs): the name up to the LAST `.`;
/// the whole name if there is no `.` or the only one is leading.  Left uninterpreted (no axiom: nothing equates it with the name).
pub uninterp spec fn stem_of(name: Seq<char>) -> Seq<char>;
/// std `Path::extension`: the part after the last `.` (None where the stem is the whole name)
pub uninterp spec fn ext_of(name: Seq<char>) -> Option<Seq<char>>;

/// `std::ffi::OsStr` as handed out by `Path::file_name` / `file_stem` / `extension`, viewed as its text
#[verifier::external_body]
pub struct OsStr { _p: () }
impl View for OsStr { type V = Seq<char>; uninterp spec fn view(&self) -> Seq<char>; }

/// std::path::PathBuf of a directory entry or a directory
#[verifier::external_body]
pub struct PathBuf { _p: () }
impl View for PathBuf { type V = Seq<char>; uninterp spec fn view(&self) -> Seq<char>; }
impl PathBuf {
    /// the entry this path was produced for (ghost; arbitrary for other paths)
    pub uninterp spec fn entry(&self) -> EntryV;
    /// `Path::is_file` (reads the file system: R20 ambient state frozen during the call)
    #[verifier::external_body]
    pub fn is_file(&self) -> (b: bool) ensures b == self.entry().is_file, { unimplemented!() }
    /// `Path::is_dir`
    #[verifier::external_body]
    pub fn is_dir(&self) -> (b: bool) ensures b == self.entry().is_dir, { unimplemented!() }
    /// `Path::file_name`: the final component
    #[verifier::external_body]
    pub fn file_name(&self) -> (r: Option<&OsStr>)
        ensures r.is_some() == self.entry().name.is_some(), r.is_some() ==> r.unwrap()@ == self.entry().name.unwrap(),
    { unimplemented!() }
    /// `Path::file_stem`: the final component without its extension
    #[verifier::external_body]
    pub fn file_stem(&self) -> (r: Option<&OsStr>)
        ensures r.is_some() == self.entry().name.is_some(), r.is_some() ==> r.unwrap()@ == stem_of(self.entry().name.unwrap()),
    { unimplemented!() }
    /// `Path::extension`
    #[verifier::external_body]
    pub fn extension(&self) -> (r: Option<&OsStr>)
        ensures r.is_some() ==> self.entry().name.is_some() && Some(r.unwrap()@) == ext_of(self.entry().name.unwrap()),
    { unimplemented!() }
}

/// the entries of the directory at a path, in the order `read_dir` yields them (ghost; arbitrary order)
pub uninterp spec fn dir_entries(p: Seq<char>) -> Seq<EntryV>;

/// tokio `fs::DirEntry` (sos_vfs re-export)
#[verifier::external_body]
pub struct DirEntry { _p: () }
impl DirEntry {
    pub uninterp spec fn ev(&self) -> EntryV;
    /// `DirEntry::path`: the full path of the entry
    #[verifier::external_body]
    pub fn path(&self) -> (r: PathBuf) ensures r.entry() == self.ev(), r@ == self.ev().path, { unimplemented!() }
}
/// tokio `fs::ReadDir`: the entries not yet yielded
#[verifier::external_body]
pub struct ReadDir { _p: () }
impl ReadDir {
    pub uninterp spec fn all(&self) -> Seq<EntryV>;
    pub uninterp spec fn pos(&self) -> int;
    /// `ReadDir::next_entry` (tokio/src/fs/read_dir.rs): the next entry, `None` at the end; an I/O error may end the walk anywhere
    #[verifier::external_body]
    pub fn next_entry(&mut self) -> (r: core::result::Result<Option<DirEntry>, IoError>)
        requires 0 <= old(self).pos() <= old(self).all().len(),
        ensures final(self).all() == old(self).all(),
            r matches Ok(Some(e)) ==> (old(self).pos() < old(self).all().len() && e.ev() == old(self).all()[old(self).pos()] && final(self).pos() == old(self).pos() + 1),
            r matches Ok(None) ==> (old(self).pos() == old(self).all().len() && final(self).pos() == old(self).pos()),
    { unimplemented!() }
}
/// R12 `vfs::read_dir($p)` (tokio `fs::read_dir`): Err unless `$p` is a readable directory
#[verifier::external_body]
pub fn vread_dir(p: &PathBuf) -> (r: core::result::Result<ReadDir, IoError>)
    ensures r matches Ok(d) ==> (d.all() == dir_entries(p@) && d.pos() == 0),
{ unimplemented!() }

// ---- blob names ---------------------------------------------------------------------------------------
/// hex decoding (crate hex 0.4 `decode`), uninterpreted as in prelude/files_hash.rs
pub uninterp spec fn hex_dec(s: Seq<char>) -> Option<Seq<u8>>;
/// what `impl FromStr for ExternalFileName` (crates/core/src/file.rs) accepts and returns — this contract is PROVED on the
/// real `from_str` in unit files (labels [from_str_accepts_exactly_hex_of_32_bytes], [from_str_value]); restated here
pub open spec fn parse_name(s: Seq<char>) -> Option<Seq<u8>> {
    if hex_dec(s).is_some() && hex_dec(s).unwrap().len() == 32 { hex_dec(s) } else { None }
}
/// R12 `$x.to_string_lossy().as_ref().parse::<ExternalFileName>()` -> `parse_external_file_name($x)`:
/// `OsStr::to_string_lossy` is the text of a UTF-8 name (a non-UTF-8 name gets U+FFFD, which is not a hex digit: never parses)
#[verifier::external_body]
pub fn parse_external_file_name(x: &OsStr) -> (r: core::result::Result<ExternalFileName, CoreError>)
    ensures r.is_ok() == parse_name(x@).is_some(), r.is_ok() ==> r.unwrap()@ == parse_name(x@).unwrap(),
{ unimplemented!() }
/// R12 `$x.to_string_lossy().as_ref()` in the warning of a skipped file: dropped with the tracing call (R2)

// ---- the secret directories of a folder (list_folder) -----------------------------------------------------
/// whether something exists at a path (tokio `fs::try_exists`; ghost, frozen during the call)
pub uninterp spec fn path_exists(p: Seq<char>) -> bool;
/// R12 `vfs::try_exists($p)`
#[verifier::external_body]
pub fn vtry_exists(p: &PathBuf) -> (r: core::result::Result<bool, IoError>)
    ensures r matches Ok(b) ==> b == path_exists(p@),
{ unimplemented!() }
/// `SecretId` = uuid::Uuid (uuid 1.x), viewed as its 16 bytes
#[verifier::external_body]
pub struct SecretId { _p: () }
impl View for SecretId { type V = Seq<u8>; uninterp spec fn view(&self) -> Seq<u8>; }
/// `Uuid::from_str` (uuid 1.x src/parser.rs): which texts are uuids and their bytes — uninterpreted
pub uninterp spec fn parse_uuid(s: Seq<char>) -> Option<Seq<u8>>;
pub struct UuidError { pub _p: () }
#[verifier::external]
impl core::fmt::Debug for UuidError { fn fmt(&self, f: &mut core::fmt::Formatter<'_>) -> core::fmt::Result { Ok(()) } }
/// R12 `$x.to_string_lossy().as_ref().parse::<SecretId>()` -> `parse_secret_id($x)`
#[verifier::external_body]
pub fn parse_secret_id(x: &OsStr) -> (r: core::result::Result<SecretId, UuidError>)
    ensures r.is_ok() == parse_uuid(x@).is_some(), r.is_ok() ==> r.unwrap()@ == parse_uuid(x@).unwrap(),
{ unimplemented!() }
