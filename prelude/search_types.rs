// ===========================================================================
// prelude/search_types.rs — stand-ins for the dependencies of
// crates/search/src/search.rs (unit `search`, property C20).
// Every `external_body` / `assume_specification` / `axiom fn` below is an
// ASSUMPTION; the comment above it names the source that was read.
// ===========================================================================

// ---- uuid::Uuid (uuid-1.18.1 src/lib.rs: `pub struct Uuid(Bytes)`, Bytes = [u8; 16],
// derives Clone, Copy, Eq, Hash, Ord, PartialEq, PartialOrd) ------------------
// Same shape as prelude/types.rs; here with equality, which the index needs.
#[derive(Clone, Copy, Default)]
pub struct Uuid(pub [u8; 16]);
pub type SecretId = Uuid;   // crates/core/src/lib.rs:51
pub type VaultId = Uuid;    // crates/core/src/lib.rs:48
impl View for Uuid {
    type V = Uuid;
    open spec fn view(&self) -> Uuid { *self }
}
/// derived `PartialEq` on `Uuid([u8;16])`: byte-wise equality
impl PartialEq for Uuid {
    #[verifier::external_body]
    fn eq(&self, other: &Self) -> (r: bool)
        ensures r == (*self == *other),
    { self.0 == other.0 }
}
impl Eq for Uuid {}
impl vstd::std_specs::cmp::PartialEqSpecImpl for Uuid {
    open spec fn obeys_eq_spec() -> bool { true }
    open spec fn eq_spec(&self, other: &Uuid) -> bool { *self == *other }
}

// ---- std::string / std::borrow ----------------------------------------------
/// `str::to_lowercase` (alloc/src/str.rs): a function of the characters only.
pub uninterp spec fn lowercase(s: Seq<char>) -> Seq<char>;
pub assume_specification[ str::to_lowercase ](s: &str) -> (r: String)
    ensures r@ == lowercase(s@);

/// `impl<T: Clone> ToOwned for T` (alloc/src/borrow.rs): `to_owned` is `clone`.
pub assume_specification<T: Clone>[ <T as std::borrow::ToOwned>::to_owned ](t: &T) -> (r: T)
    ensures call_ensures(T::clone, (t,), r);

// ---- std::collections::HashMap ------------------------------------------------
// std 1.98 library/std/src/collections/hash/map.rs.  The view is a map over the
// *views* of the keys: for the key types used here (Uuid, u8, String) `Eq`/`Hash`
// agree with equality of the view (bytes / value / character sequence).
#[verifier::external_body]
#[verifier::reject_recursive_types(K)]
#[verifier::reject_recursive_types(V)]
pub struct HashMap<K, V> { inner: std::collections::HashMap<u64, (K, V)> }
impl<K: View, V> View for HashMap<K, V> {
    type V = Map<K::V, V>;
    uninterp spec fn view(&self) -> Map<K::V, V>;
}
impl<K: View, V> Default for HashMap<K, V> {
    /// `HashMap::default()` is the empty map
    #[verifier::external_body]
    fn default() -> (r: Self)
        ensures r@ == Map::<K::V, V>::empty(),
    { unimplemented!() }
}
impl<K: View, V> HashMap<K, V> {
    /// `HashMap::get`
    #[verifier::external_body]
    pub fn get<'a>(&'a self, k: &K) -> (r: Option<&'a V>)
        ensures r == (if self@.contains_key(k@) { Some(&self@[k@]) } else { None }),
    { unimplemented!() }
    /// `HashMap::remove`
    #[verifier::external_body]
    pub fn remove(&mut self, k: &K) -> (r: Option<V>)
        ensures
            final(self)@ == old(self)@.remove(k@),
            r == (if old(self)@.contains_key(k@) { Some(old(self)@[k@]) } else { None }),
    { unimplemented!() }
    // The rest of the commonly used map API (same source), so that an edit of the
    // extracted code that switches to another method still composes.
    /// `HashMap::insert`: the previous value is returned
    #[verifier::external_body]
    pub fn insert(&mut self, k: K, v: V) -> (r: Option<V>)
        ensures
            final(self)@ == old(self)@.insert(k@, v),
            r == (if old(self)@.contains_key(k@) { Some(old(self)@[k@]) } else { None }),
    { unimplemented!() }
    /// `HashMap::contains_key`
    #[verifier::external_body]
    pub fn contains_key(&self, k: &K) -> (r: bool)
        ensures r == self@.contains_key(k@),
    { unimplemented!() }
    /// `HashMap::len` — the number of entries (it fits a usize)
    #[verifier::external_body]
    pub fn len(&self) -> (r: usize)
        ensures r == self@.len(),
    { unimplemented!() }
    /// `HashMap::is_empty`
    #[verifier::external_body]
    pub fn is_empty(&self) -> (r: bool)
        ensures r == (self@ =~= Map::<K::V, V>::empty()),
    { unimplemented!() }
    /// `HashMap::clear`
    #[verifier::external_body]
    pub fn clear(&mut self)
        ensures final(self)@ == Map::<K::V, V>::empty(),
    { unimplemented!() }
}

/// R12: `$m.entry($k).and_modify($f).or_insert($v);` (result unused).  The closure
/// `$f` (it takes the stored value by `&mut`) stays extracted code; this contract
/// only quantifies over ITS pre-/post-condition.  std meaning (map.rs
/// `Entry::and_modify`, `Entry::or_insert`): occupied -> the closure is applied
/// once to the stored value; vacant -> `$v` is inserted; no other key changes.
#[verifier::external_body]
pub fn hm_entry_and_modify_or_insert<K: View, V, F: FnOnce(&mut V)>(m: &mut HashMap<K, V>, k: K, f: F, v: V)
    requires
        old(m)@.contains_key(k@) ==> (forall|c: &mut V| *c == old(m)@[k@] ==> #[trigger] f.requires((c,))),
    ensures
        old(m)@.contains_key(k@) ==> (exists|c: &mut V| *c == old(m)@[k@] && *final(c) == final(m)@[k@] && #[trigger] f.ensures((c,), ()))
            && final(m)@ == old(m)@.insert(k@, final(m)@[k@]),
        !old(m)@.contains_key(k@) ==> final(m)@ == old(m)@.insert(k@, v),
{ unimplemented!() }

// ---- std::collections::HashSet ------------------------------------------------
// std 1.98 library/std/src/collections/hash/set.rs; view = set of element views.
#[verifier::external_body]
#[verifier::reject_recursive_types(T)]
pub struct HashSet<T> { inner: std::collections::HashMap<u64, T> }
impl<T: View> View for HashSet<T> {
    type V = Set<T::V>;
    uninterp spec fn view(&self) -> Set<T::V>;
}
impl<T: View> HashSet<T> {
    // commonly used set API (std hash/set.rs), so that an edit of the extracted
    // code that uses another method still composes
    /// `HashSet::contains`
    #[verifier::external_body]
    pub fn contains(&self, x: &T) -> (r: bool)
        ensures r == self@.contains(x@),
    { unimplemented!() }
    /// `HashSet::insert`: true iff the value was not present
    #[verifier::external_body]
    pub fn insert(&mut self, x: T) -> (r: bool)
        ensures final(self)@ == old(self)@.insert(x@), r == !old(self)@.contains(x@),
    { unimplemented!() }
    /// `HashSet::remove`: true iff the value was present
    #[verifier::external_body]
    pub fn remove(&mut self, x: &T) -> (r: bool)
        ensures final(self)@ == old(self)@.remove(x@), r == old(self)@.contains(x@),
    { unimplemented!() }
    /// `HashSet::len`
    #[verifier::external_body]
    pub fn len(&self) -> (r: usize)
        ensures r == self@.len(),
    { unimplemented!() }
    /// `HashSet::is_empty`
    #[verifier::external_body]
    pub fn is_empty(&self) -> (r: bool)
        ensures r == (self@ =~= Set::<T::V>::empty()),
    { unimplemented!() }
}
impl<T: View> Clone for HashSet<T> {
    /// `HashSet::clone`: same elements
    #[verifier::external_body]
    fn clone(&self) -> (r: Self)
        ensures r@ == self@,
    { unimplemented!() }
}
/// R12: `for $x in $set` / `for $x in &$set` over a `HashSet` is rewritten to
/// `for $x in it: hs_iter($set)`.  std meaning of `hash_set::Iter`: every element
/// exactly once, in an unspecified order.
pub open spec fn ref_views<T: View>(s: Seq<&T>) -> Seq<T::V> { s.map_values(|t: &T| t@) }
#[verifier::external_body]
pub fn hs_iter<'a, T: View>(s: &'a HashSet<T>) -> (r: Vec<&'a T>)
    ensures
        ref_views(r@).no_duplicates(),
        forall|i: int| 0 <= i < r@.len() ==> s@.contains(#[trigger] ref_views(r@)[i]),
        forall|x: T::V| #[trigger] s@.contains(x) ==> exists|i: int| 0 <= i < r@.len() && #[trigger] ref_views(r@)[i] == x,
{ unimplemented!() }

// ---- std::collections::BTreeMap -----------------------------------------------
// alloc 1.98 library/alloc/src/collections/btree/map.rs.  View: map from key
// *views* to the stored values.  `DocumentKey` derives `Ord`/`Eq` over
// (String, Uuid, Uuid), which agrees with equality of its view.  The order of
// iteration is not exposed (no contract below depends on it).
#[verifier::external_body]
#[verifier::reject_recursive_types(K)]
#[verifier::reject_recursive_types(V)]
pub struct BTreeMap<K, V> { inner: std::collections::HashMap<u64, (K, V)> }
impl<K: View, V> View for BTreeMap<K, V> {
    type V = Map<K::V, V>;
    uninterp spec fn view(&self) -> Map<K::V, V>;
}
impl<K: View, V> Default for BTreeMap<K, V> {
    /// `BTreeMap::default()` is the empty map
    #[verifier::external_body]
    fn default() -> (r: Self)
        ensures r@ == Map::<K::V, V>::empty(),
    { unimplemented!() }
}
impl<K: View, V> BTreeMap<K, V> {
    /// `BTreeMap::len` — the number of entries (it fits a usize)
    #[verifier::external_body]
    pub fn len(&self) -> (r: usize)
        ensures r == self@.len(),
    { unimplemented!() }
    /// `BTreeMap::contains_key`
    #[verifier::external_body]
    pub fn contains_key(&self, k: &K) -> (r: bool)
        ensures r == self@.contains_key(k@),
    { unimplemented!() }
    /// `BTreeMap::remove`
    #[verifier::external_body]
    pub fn remove(&mut self, k: &K) -> (r: Option<V>)
        ensures
            final(self)@ == old(self)@.remove(k@),
            r == (if old(self)@.contains_key(k@) { Some(old(self)@[k@]) } else { None }),
    { unimplemented!() }
    /// `BTreeMap::get`
    #[verifier::external_body]
    pub fn get<'a>(&'a self, k: &K) -> (r: Option<&'a V>)
        ensures r == (if self@.contains_key(k@) { Some(&self@[k@]) } else { None }),
    { unimplemented!() }
    /// `BTreeMap::insert`: the previous value is returned
    #[verifier::external_body]
    pub fn insert(&mut self, k: K, v: V) -> (r: Option<V>)
        ensures
            final(self)@ == old(self)@.insert(k@, v),
            r == (if old(self)@.contains_key(k@) { Some(old(self)@[k@]) } else { None }),
    { unimplemented!() }
    /// `BTreeMap::is_empty`
    #[verifier::external_body]
    pub fn is_empty(&self) -> (r: bool)
        ensures r == (self@.len() == 0),
    { unimplemented!() }
    /// `BTreeMap::clear`
    #[verifier::external_body]
    pub fn clear(&mut self)
        ensures final(self)@ == Map::<K::V, V>::empty(),
    { unimplemented!() }
    /// R12: `$m.entry($k).or_insert($v)` (btree/map/entry.rs): the stored value
    /// if the key is present, otherwise `$v` is inserted; a `&mut` to the value in
    /// the map is returned (the map's final value follows what is written through
    /// it).  A fresh insertion that returns implies the map had room for one more
    /// entry (its length is a usize).
    #[verifier::external_body]
    pub fn entry_or_insert(&mut self, k: K, v: V) -> (r: &mut V)
        ensures
            *r == (if old(self)@.contains_key(k@) { old(self)@[k@] } else { v }),
            final(self)@ == old(self)@.insert(k@, *final(r)),
            !old(self)@.contains_key(k@) ==> old(self)@.len() < usize::MAX,
    { unimplemented!() }
}

/// "closure `f` answers `b` on some key whose view is `kv`"
pub open spec fn key_pred<K: View, F: Fn(&K) -> bool>(f: F, kv: K::V, b: bool) -> bool {
    exists|k: K| k@ == kv && #[trigger] f.ensures((&k,), b)
}

/// R12: `$m.values().find($p)` — `Iterator::find`: `Some` of a stored value on
/// which `$p` answered true, `None` only if `$p` answered false on every value.
/// (std additionally returns the *first* such value in key order; not exposed.)
#[verifier::external_body]
pub fn bt_values_find<'a, K: View, V, F: Fn(&V) -> bool>(m: &'a BTreeMap<K, V>, f: F) -> (r: Option<&'a V>)
    requires
        forall|v: &V| #[trigger] f.requires((v,)),
    ensures
        match r {
            Some(v) => exists|k: K::V| #[trigger] m@.contains_key(k) && m@[k] == *v && f.ensures((v,), true),
            None => forall|k: K::V| #[trigger] m@.contains_key(k) ==> f.ensures((&m@[k],), false),
        },
{ unimplemented!() }

/// R12: `$m.keys().find($p)` — as above, over the keys.
#[verifier::external_body]
pub fn bt_keys_find<'a, K: View, V, F: Fn(&K) -> bool>(m: &'a BTreeMap<K, V>, f: F) -> (r: Option<&'a K>)
    requires
        forall|k: &K| #[trigger] f.requires((k,)),
    ensures
        match r {
            Some(k) => m@.contains_key(k@) && f.ensures((k,), true),
            None => forall|kv: K::V| #[trigger] m@.contains_key(kv) ==> key_pred(f, kv, false),
        },
{ unimplemented!() }

/// R12: `$m.keys().filter($p).cloned().collect::<Vec<K>>()` — exactly the keys on
/// which `$p` answered true, each once (keys of a map are distinct).
#[verifier::external_body]
pub fn bt_keys_filter_cloned<K: View + Clone, V, F: Fn(&K) -> bool>(m: &BTreeMap<K, V>, f: F) -> (r: Vec<K>)
    requires
        forall|k: &K| #[trigger] f.requires((k,)),
    ensures
        forall|i: int, j: int| 0 <= i < j < r@.len() ==> (#[trigger] r@[i])@ != (#[trigger] r@[j])@,
        forall|i: int| 0 <= i < r@.len() ==> m@.contains_key((#[trigger] r@[i])@) && key_pred(f, r@[i]@, true),
        forall|kv: K::V| #[trigger] m@.contains_key(kv) ==>
            (exists|i: int| 0 <= i < r@.len() && (#[trigger] r@[i])@ == kv) || key_pred(f, kv, false),
{ unimplemented!() }

/// R12: `$m.keys().cloned().collect::<Vec<K>>()` — every key exactly once.
#[verifier::external_body]
pub fn bt_keys_cloned<K: View + Clone, V>(m: &BTreeMap<K, V>) -> (r: Vec<K>)
    ensures
        forall|i: int, j: int| 0 <= i < j < r@.len() ==> (#[trigger] r@[i])@ != (#[trigger] r@[j])@,
        forall|i: int| 0 <= i < r@.len() ==> m@.contains_key((#[trigger] r@[i])@),
        forall|kv: K::V| #[trigger] m@.contains_key(kv) ==> exists|i: int| 0 <= i < r@.len() && (#[trigger] r@[i])@ == kv,
{ unimplemented!() }

// ---- probly_search::Index (probly-search-2.0.1 src/index.rs) ------------------
// Only "which keys are indexed" is modelled: the key set of `Index::docs`.
// Terms, field statistics, the inverted-index arena and ranking are not.
#[verifier::external_body]
#[verifier::reject_recursive_types(T)]
pub struct Index<T> { inner: Vec<T> }
impl<T> View for Index<T> {
    type V = Set<T>;
    uninterp spec fn view(&self) -> Set<T>;
}
impl<T> Index<T> {
    /// `Index::new(fields_num)`: `docs: HashMap::new()`
    #[verifier::external_body]
    pub fn new(fields_num: usize) -> (r: Self)
        ensures r@ == Set::<T>::empty(),
    { unimplemented!() }
    /// R12: `add_document(&[accessors..], tokenizer, key, doc)` with the field
    /// accessors and the tokenizer dropped: `docs.insert(key, ..)` (index.rs:121).
    #[verifier::external_body]
    pub fn add_document_keyed<D>(&mut self, key: T, doc: &D)
        ensures final(self)@ == old(self)@.insert(key),
    { unimplemented!() }
    /// `remove_document(key)`: `docs.remove(&key)` iff present (index.rs:168-196)
    #[verifier::external_body]
    pub fn remove_document(&mut self, key: T)
        ensures final(self)@ == old(self)@.remove(key),
    { unimplemented!() }
    /// `vacuum()`: purges inverted-index pointers of removed keys; `docs` untouched (index.rs:199-204)
    #[verifier::external_body]
    pub fn vacuum(&mut self)
        ensures final(self)@ == old(self)@,
    { unimplemented!() }
}

// ---- sos_vault::secret (crates/vault/src/secret.rs) -----------------------------
// SecretType, its `kind::*` codes and `From<&SecretType> for u8` are the
// repository's text (extracted); SecretMeta is reduced to the four fields the
// index reads (flags, urn, owner_id, date_created, last_updated are dropped);
// its accessors are extracted from the repository.
//@extract crates/vault/src/secret.rs :: const ACCOUNT
//@end
//@extract crates/vault/src/secret.rs :: const NOTE
//@end
//@extract crates/vault/src/secret.rs :: const LIST
//@end
//@extract crates/vault/src/secret.rs :: const FILE
//@end
//@extract crates/vault/src/secret.rs :: const PEM
//@end
//@extract crates/vault/src/secret.rs :: const PAGE
//@end
//@extract crates/vault/src/secret.rs :: const IDENTIFICATION
//@end
//@extract crates/vault/src/secret.rs :: const SIGNER
//@end
//@extract crates/vault/src/secret.rs :: const CONTACT
//@end
//@extract crates/vault/src/secret.rs :: const TOTP
//@end
//@extract crates/vault/src/secret.rs :: const CARD
//@end
//@extract crates/vault/src/secret.rs :: const BANK
//@end
//@extract crates/vault/src/secret.rs :: const LINK
//@end
//@extract crates/vault/src/secret.rs :: const PASSWORD
//@end
//@extract crates/vault/src/secret.rs :: const AGE
//@end
//@extract crates/vault/src/secret.rs :: enum SecretType
//@end
//@extract crates/vault/src/secret.rs :: impl From<&SecretType> for u8
//@  serves C20
//@  fn from
//@    twin pub open spec fn secret_type_code(value: &SecretType) -> u8
//@    ensures [from_is_twin] r == secret_type_code(value)
//@end
impl vstd::std_specs::convert::FromSpecImpl<&SecretType> for u8 {
    open spec fn obeys_from_spec() -> bool { true }
    open spec fn from_spec(v: &SecretType) -> u8 { secret_type_code(v) }
}

pub ghost struct MetaV {
    pub label: Seq<char>,
    pub tags: Set<Seq<char>>,
    pub kind: SecretType,
    pub favorite: bool,
}
/// stand-in for `sos_vault::secret::SecretMeta` (fields the index reads)
pub struct SecretMeta {
    pub kind: SecretType,
    pub label: String,
    pub tags: HashSet<String>,
    pub favorite: bool,
}
impl View for SecretMeta {
    type V = MetaV;
    open spec fn view(&self) -> MetaV {
        MetaV { label: self.label@, tags: self.tags@, kind: self.kind, favorite: self.favorite }
    }
}
impl Clone for SecretMeta {
    /// `#[derive(Clone)]` on SecretMeta: field-wise clone
    #[verifier::external_body]
    fn clone(&self) -> (r: Self)
        ensures r@ == self@,
    { unimplemented!() }
}
//@extract crates/vault/src/secret.rs :: impl SecretMeta
//@  serves C20
//@  fn label
//@    ensures [label_is_field] r@ == self.label@
//@  fn kind
//@    ensures [kind_is_field] *r == self.kind
//@  fn tags
//@    ensures [tags_is_field] *r == self.tags
//@  fn favorite
//@    ensures [favorite_is_field] r == self.favorite
//@end

/// `sos_vault::secret::Secret` — the decrypted secret; opaque here.
#[verifier::external_body]
pub struct Secret { _p: () }
/// `ExtraFields` (crates/search/src/search.rs:279): comment / contact type /
/// websites copied out of the secret; not part of C20's document view.  Opaque.
#[verifier::external_body]
pub struct ExtraFields { _p: () }
impl Clone for ExtraFields {
    /// `#[derive(Clone)]` on ExtraFields (search.rs:279); opaque, so no contract
    #[verifier::external_body]
    fn clone(&self) -> (r: Self) { unimplemented!() }
}
impl From<&Secret> for ExtraFields {
    /// search.rs:288 `impl From<&Secret> for ExtraFields` — a pure function of the secret
    #[verifier::external_body]
    fn from(value: &Secret) -> (r: ExtraFields) { unimplemented!() }
}
