// ===========================================================================
// prelude/fold_vault.rs — stand-ins used by the `fold` unit that depend on
// extracted core types (AeadPack, VaultCommit, WriteEvent, EventRecord,
// CommitHash): sos_vault::{Vault, Header}, sos_core::{decode, EventLog, Patch}.
// Included in its own module (`mod vpre { use super::*; .. }`) after those types.
// Everything `external_body` / `axiom` / `assume_specification` here is an
// ASSUMPTION.  Source read: crates/vault/src/vault.rs,
// crates/vault/src/encoding/vault.rs, crates/core/src/encoding/mod.rs,
// crates/core/src/events/{event_log,patch,record}.rs.
// ===========================================================================

/// `impl View for Uuid` (prelude/types.rs gives the struct): its 16 bytes
impl View for Uuid {
    type V = Seq<u8>;
    open spec fn view(&self) -> Seq<u8> { self.0@ }
}

/// header fields the folder view does not talk about (version, id, cipher,
/// kdf, auth {salt, seed}, shared_access): an abstract value that the
/// accessors below leave unchanged
#[verifier::external_body]
pub ghost struct HeadOther { _p: () }

/// view of `Header`: summary.name, summary.flags, meta, and the rest
pub ghost struct HeadV { pub name: Seq<char>, pub flags: u64, pub meta: Option<AeadPackV>, pub other: HeadOther }
/// view of `Vault`: header + `contents.data` in IndexMap order
pub ghost struct VaultV { pub head: HeadV, pub secrets: Seq<(Seq<u8>, VaultCommitV)> }

/// the vault decoding *function* (`impl Decodable for Vault`: header, then rows
/// until the end of input inserted into the map) on a whole buffer
pub uninterp spec fn vault_dec(b: Seq<u8>) -> Option<VaultV>;
/// the vault encoding function; None where the encoder refuses (16 MiB guards)
pub uninterp spec fn vault_enc(v: VaultV) -> Option<Seq<u8>>;

/// Assumption VAULT-RT (C14 for a head-only Vault, to be discharged by the
/// codec unit once Header/Summary/Auth/SharedAccess are under contract):
/// what `encode` produced for a vault without rows decodes to the same vault.
pub broadcast axiom fn axiom_vault_head_roundtrip(v: VaultV)
    requires v.secrets.len() == 0,
    ensures (#[trigger] vault_enc(v)) matches Some(b) ==> vault_dec(b) == Some(v);

/// what `sos_core::decode::<T>` computes for T, on views
pub trait Decoded: View + Sized {
    spec fn dec_view(b: Seq<u8>) -> Option<<Self as View>::V>;
}

/// `sos_core::decode` (crates/core/src/encoding/mod.rs:41): binary_stream
/// `decode(buffer, options)` = `T::default()` then `T::decode` on a reader over
/// the buffer; any io error becomes sos_core::Error
#[verifier::external_body]
pub fn decode<T: Decoded>(buffer: &[u8]) -> (r: core::result::Result<T, CoreError>)
    ensures
        r is Ok <==> T::dec_view(buffer@) is Some,
        r is Ok ==> Some(r->Ok_0@) == T::dec_view(buffer@),
{ unimplemented!() }

/// `sos_vault::Header` (vault.rs:313)
#[verifier::external_body]
pub struct Header { _p: () }
impl View for Header {
    type V = HeadV;
    uninterp spec fn view(&self) -> HeadV;
}
impl Clone for Header {
    /// `#[derive(Clone)]`
    #[verifier::external_body]
    fn clone(&self) -> (r: Header)
        ensures r@ == self@,
    { unimplemented!() }
}
impl Header {
    /// vault.rs:393 `self.meta = meta;`
    #[verifier::external_body]
    pub fn set_meta(&mut self, meta: Option<AeadPack>)
        ensures
            final(self)@ == (HeadV { meta: match meta { Some(m) => Some(m@), None => None }, ..old(self)@ }),
    { unimplemented!() }
}

/// `sos_vault::Vault` (vault.rs:544) = { header, contents: { data: IndexMap<SecretId, VaultCommit> } }
#[verifier::external_body]
pub struct Vault { _p: () }
impl View for Vault {
    type V = VaultV;
    uninterp spec fn view(&self) -> VaultV;
}
impl Decoded for Vault {
    open spec fn dec_view(b: Seq<u8>) -> Option<VaultV> { vault_dec(b) }
}
/// `contents.data` is an IndexMap: one row per id
pub broadcast axiom fn axiom_vault_distinct(v: Vault)
    ensures m_distinct((#[trigger] v@).secrets);

pub open spec fn head_only(v: VaultV) -> VaultV { VaultV { head: v.head, secrets: Seq::empty() } }

impl Default for Vault {
    /// `#[derive(Default)]`; Summary::default draws a fresh id: nothing is promised
    #[verifier::external_body]
    fn default() -> (r: Vault) { unimplemented!() }
}
impl From<Header> for Vault {
    /// vault.rs:944 `Vault { header, contents: Default::default() }`
    #[verifier::external_body]
    fn from(header: Header) -> (r: Vault)
        ensures r@ == (VaultV { head: header@, secrets: Seq::empty() }),
    { unimplemented!() }
}
impl Vault {
    /// vault.rs:897 `&self.header`
    #[verifier::external_body]
    pub fn header(&self) -> (r: &Header)
        ensures r@ == self@.head,
    { unimplemented!() }

    /// vault.rs:902 `&mut self.header`
    #[verifier::external_body]
    pub fn header_mut(&mut self) -> (r: &mut Header)
        ensures
            r@ == old(self)@.head,
            final(self)@ == (VaultV { head: final(r)@, secrets: old(self)@.secrets }),
    { unimplemented!() }

    /// vault.rs:867 -> Header::flags_mut -> Summary::flags_mut `&mut self.flags`
    #[verifier::external_body]
    pub fn flags_mut(&mut self) -> (r: &mut VaultFlags)
        ensures
            r.b == old(self)@.head.flags,
            final(self)@ == (VaultV { head: HeadV { flags: final(r).b, ..old(self)@.head }, secrets: old(self)@.secrets }),
    { unimplemented!() }

    /// vault.rs:882 -> Header::set_name -> Summary::set_name `self.name = name;`
    #[verifier::external_body]
    pub fn set_name(&mut self, name: String)
        ensures
            final(self)@ == (VaultV { head: HeadV { name: name@, ..old(self)@.head }, secrets: old(self)@.secrets }),
    { unimplemented!() }

    /// vault.rs:698 `self.contents.data.insert(id, entry);` (IndexMap::insert)
    #[verifier::external_body]
    pub fn insert_entry(&mut self, id: SecretId, entry: VaultCommit)
        ensures
            final(self)@ == (VaultV { head: old(self)@.head, secrets: m_insert(old(self)@.secrets, id@, entry@) }),
    { unimplemented!() }

    /// vault.rs:815 `self.contents.data.len()` (bound: see IndexMap::len)
    #[verifier::external_body]
    pub fn len(&self) -> (r: usize)
        ensures r == self@.secrets.len(), r < usize::MAX,
    { unimplemented!() }

    /// vault.rs:820 `self.len() == 0`
    #[verifier::external_body]
    pub fn is_empty(&self) -> (r: bool)
        ensures r <==> self@.secrets.len() == 0,
    { unimplemented!() }

    /// vault.rs:827: encodes the vault itself when it has no rows, otherwise a
    /// vault made of a clone of its header only; `Ok(WriteEvent::CreateVault(buffer))`
    #[verifier::external_body]
    pub fn into_event(&self) -> (r: core::result::Result<WriteEvent, VaultError>)
        ensures
            r is Ok ==> vault_enc(head_only(self@)) is Some
                && r->Ok_0@ == WriteEventV::CreateVault(vault_enc(head_only(self@))->Some_0),
    { unimplemented!() }
}

/// `impl IntoIterator for Vault` (vault.rs:959): `self.contents.data.into_iter()`
impl IntoIterator for Vault {
    type Item = (SecretId, VaultCommit);
    type IntoIter = IndexMapIntoIter<SecretId, VaultCommit>;
    #[verifier::external_body]
    fn into_iter(self) -> (r: IndexMapIntoIter<SecretId, VaultCommit>)
        ensures kv_views(r.rest()) == self@.secrets,
    { unimplemented!() }
}

// ---- event log ---------------------------------------------------------------
/// `sos_core::events::Patch<T>` (patch.rs:27): a list of records
#[verifier::external_body]
#[verifier::reject_recursive_types(T)]
pub struct Patch<T> { _p: core::marker::PhantomData<T> }
impl<T> Patch<T> {
    pub uninterp spec fn records(&self) -> Seq<EventRecord>;
    /// patch.rs:46 `self.0.iter()`: the records in order
    #[verifier::external_body]
    pub fn iter(&self) -> (r: RecordIter<'_>)
        ensures r.rest() == self.records().map_values(|x: EventRecord| &x),
    { unimplemented!() }
}
/// the `impl Iterator<Item = &EventRecord>` returned by `Patch::iter` (a slice iterator)
#[verifier::external_body]
pub struct RecordIter<'a> { _p: core::marker::PhantomData<&'a EventRecord> }
impl<'a> RecordIter<'a> {
    /// records not yet yielded
    pub uninterp spec fn rest(&self) -> Seq<&'a EventRecord>;
}
impl<'a> Iterator for RecordIter<'a> {
    type Item = &'a EventRecord;
    /// contract inherited from vstd's Iterator specification (`IteratorSpec`)
    #[verifier::external_body]
    fn next(&mut self) -> (r: Option<&'a EventRecord>)
    { unimplemented!() }
}
impl<'a> vstd::std_specs::iter::IteratorSpecImpl for RecordIter<'a> {
    open spec fn obeys_prophetic_iter_laws(&self) -> bool { true }
    #[verifier::prophetic]
    open spec fn remaining(&self) -> Seq<&'a EventRecord> { self.rest() }
    #[verifier::prophetic]
    open spec fn will_return_none(&self) -> bool { true }
    open spec fn decrease(&self) -> Option<nat> { Some(self.rest().len()) }
    open spec fn peek(&self, i: int) -> Option<&'a EventRecord> {
        if 0 <= i < self.rest().len() { Some(self.rest()[i]) } else { None }
    }
}

/// `EventRecord::decode_event::<T>` (record.rs:63): `decode(&self.3)`
impl EventRecord {
    #[verifier::external_body]
    pub fn decode_event<T: Decoded>(&self) -> (r: core::result::Result<T, CoreError>)
        ensures
            r is Ok <==> T::dec_view(self.3@) is Some,
            r is Ok ==> Some(r->Ok_0@) == T::dec_view(self.3@),
    { unimplemented!() }
}

/// `sos_core::events::EventLog<T>` (event_log.rs:15), the two methods the
/// reducers call.  `items()` is the persisted log as the forward stream shows
/// it: one element per row in order, `Ok((record, decoded event))`, or the
/// error met when reading/decoding that row.
pub trait EventLog<T> {
    type Error: std::error::Error + std::fmt::Debug + From<CoreError>;

    spec fn items(&self) -> Seq<core::result::Result<(EventRecord, T), Self::Error>>;
    /// the records `diff_events(commit)` returns (the rows after `commit`)
    spec fn diff_records(&self, commit: Option<CommitHash>) -> Seq<EventRecord>;

    /// event_log.rs:57; "yields the log's records/events in order"
    fn event_stream(&self, reverse: bool) -> (r: VStream<core::result::Result<(EventRecord, T), Self::Error>>)
        ensures
            !reverse ==> r.items() == self.items() && r.pos() == 0;

    /// event_log.rs:87
    fn diff_events(&self, commit: Option<&CommitHash>) -> (r: core::result::Result<Patch<T>, Self::Error>)
        ensures
            r is Ok ==> r->Ok_0.records() == self.diff_records(match commit { Some(c) => Some(*c), None => None });
}

/// `#[derive(Default)]` on FolderReducer: every field is its type's default
/// (Option: None, IndexMap: empty).  ASSUMPTION (derive expansion is not
/// verified text).
pub assume_specification [<FolderReducer as Default>::default] () -> (r: FolderReducer)
    ensures r.fresh() && r.until_s() is None;

