// ===========================================================================
// prelude/files_fs.rs — paths and the GHOST FILE SYSTEM of the units `files`
// (C17) and `integrity` (C16).  Included inside `mod pre` after base.rs,
// binary_stream.rs and files_hash.rs.
//
// R20 (declared in the unit files, logged per site): the ambient file system
// of the process is made explicit.  A function under contract gains the
// parameter `fs: &mut Fs` (or `&Fs` when it only reads) and every call that
// touches the file system receives `fs` as an additional first argument.
// Nothing else of the call text changes.
//
// Model: `files: Map<path, content>` for regular files, `dirs: Set<path>` for
// directories.  No partial writes, no crashes (C13 is not applicable), no other
// process or task changes the tree while the function under contract runs
// (on the server `file_operation_lock` serialises operations per file; what
// happens between two requests is C09).  Errors: a failing call leaves every
// path other than the one it was asked to change untouched.
// Every `external_body`, `uninterp spec fn` and `axiom` below is an ASSUMPTION.
// ===========================================================================

// ---- std::path ------------------------------------------------------------------
/// std::path::Path / PathBuf (library/std/src/path.rs): viewed as the text of
/// the path.  `Path` is unsized in std and only used behind `&`; the stand-in
/// is an opaque sized type used the same way.
#[verifier::external_body]
pub struct Path { _p: () }
#[verifier::external_body]
pub struct PathBuf { _p: () }
impl View for Path {
    type V = Seq<char>;
    uninterp spec fn view(&self) -> Seq<char>;
}
impl View for PathBuf {
    type V = Seq<char>;
    uninterp spec fn view(&self) -> Seq<char>;
}

/// `Path::join(name)`: the path extended by one component (uninterpreted).
pub uninterp spec fn path_join(dir: Seq<char>, name: Seq<char>) -> Seq<char>;
/// `PathBuf::set_extension(ext)` (uninterpreted in general, see PATH-EXT).
pub uninterp spec fn path_set_ext(p: Seq<char>, ext: Seq<char>) -> Seq<char>;

/// a single normal component: non-empty, no separator
pub open spec fn plain_name(n: Seq<char>) -> bool {
    n.len() > 0 && !n.contains('/') && !n.contains('\\')
}

/// Assumption PATH-JOIN: joining a directory with two different plain file
/// names gives two different paths (std `Path::join` appends a separator and
/// the component verbatim when the component is relative).
pub axiom fn axiom_path_join_injective(dir: Seq<char>, a: Seq<char>, b: Seq<char>)
    requires plain_name(a), plain_name(b), path_join(dir, a) == path_join(dir, b),
    ensures a == b;

/// Assumption PATH-EXT: std `PathBuf::set_extension(ext)` on a path whose file
/// name is a plain component WITHOUT a dot, with a non-empty extension without
/// separator: the file name becomes `name.ext` (std docs: "if self.extension()
/// is None, the extension is added").
pub axiom fn axiom_set_ext_of_dotless(dir: Seq<char>, name: Seq<char>, ext: Seq<char>)
    requires plain_name(name), !name.contains('.'), plain_name(ext),
    ensures
        path_set_ext(path_join(dir, name), ext) == path_join(dir, name + seq!['.'] + ext),
        plain_name(name + seq!['.'] + ext);

/// anything usable as a path argument (`impl AsRef<Path>` of tokio::fs / sos_vfs)
pub trait PathLike {
    spec fn pv(&self) -> Seq<char>;
}
impl PathLike for &PathBuf { open spec fn pv(&self) -> Seq<char> { (*self)@ } }
impl PathLike for PathBuf { open spec fn pv(&self) -> Seq<char> { self@ } }
impl PathLike for &Path { open spec fn pv(&self) -> Seq<char> { (*self)@ } }

/// R7b: the bound `AsRef<Path>` on a type parameter is replaced by this trait so
/// that `x.as_ref()` has a specification (Verus has none for a method of the
/// external trait `AsRef` called on a type parameter).  Same method, same type.
pub trait AsRefPath {
    spec fn pv(&self) -> Seq<char>;
    fn as_ref(&self) -> (r: &Path)
        ensures r@ == self.pv();
}
impl AsRefPath for PathBuf {
    open spec fn pv(&self) -> Seq<char> { self@ }
    #[verifier::external_body]
    fn as_ref(&self) -> (r: &Path) { unimplemented!() }
}
impl AsRefPath for &Path {
    open spec fn pv(&self) -> Seq<char> { (*self)@ }
    #[verifier::external_body]
    fn as_ref(&self) -> (r: &Path) { unimplemented!() }
}
/// R7b: likewise for `impl AsRef<[u8]>`
pub trait AsRefBytes {
    spec fn bv(&self) -> Seq<u8>;
    fn as_ref(&self) -> (r: &[u8])
        ensures r@ == self.bv();
}
impl AsRefBytes for Vec<u8> {
    open spec fn bv(&self) -> Seq<u8> { self@ }
    #[verifier::external_body]
    fn as_ref(&self) -> (r: &[u8]) { unimplemented!() }
}

impl PathBuf {
    /// `PathBuf::from(&Path)`
    #[verifier::external_body]
    pub fn from(p: &Path) -> (r: PathBuf)
        ensures r@ == p@,
    { unimplemented!() }

    #[verifier::external_body]
    pub fn join(&self, name: String) -> (r: PathBuf)
        ensures r@ == path_join(self@, name@),
    { unimplemented!() }

    #[verifier::external_body]
    pub fn set_extension(&mut self, ext: &str) -> (r: bool)
        ensures final(self)@ == path_set_ext(old(self)@, ext@),
    { unimplemented!() }

    /// `Path::with_extension(ext)` (std docs: "Creates an owned PathBuf like
    /// self but with the given extension. See PathBuf::set_extension").
    #[verifier::external_body]
    pub fn with_extension(&self, ext: &str) -> (r: PathBuf)
        ensures r@ == path_set_ext(self@, ext@),
    { unimplemented!() }

    /// `PathBuf::push(name)` (std docs of `Path::join`: "Creates an owned
    /// PathBuf with path adjoined to self. See PathBuf::push").
    #[verifier::external_body]
    pub fn push(&mut self, name: String)
        ensures final(self)@ == path_join(old(self)@, name@),
    { unimplemented!() }

    /// `PathBuf::as_path` / `Path::to_path_buf`: the same path
    #[verifier::external_body]
    pub fn as_path(&self) -> (r: &Path)
        ensures r@ == self@,
    { unimplemented!() }
}
impl Path {
    #[verifier::external_body]
    pub fn to_path_buf(&self) -> (r: PathBuf)
        ensures r@ == self@,
    { unimplemented!() }
}
impl Clone for PathBuf {
    #[verifier::external_body]
    fn clone(&self) -> (r: Self)
        ensures r@ == self@,
    { unimplemented!() }
}

// ---- the ghost file system ----------------------------------------------------------
pub ghost struct FsV {
    pub files: Map<Seq<char>, Seq<u8>>,
    pub dirs: Set<Seq<char>>,
}
#[verifier::external_body]
pub struct Fs { _p: () }
impl View for Fs {
    type V = FsV;
    uninterp spec fn view(&self) -> FsV;
}
pub open spec fn fs_exists(v: FsV, p: Seq<char>) -> bool {
    v.files.contains_key(p) || v.dirs.contains(p)
}
/// every regular file other than `p` is the same in `a` and `b`
pub open spec fn files_same_except(a: FsV, b: FsV, p: Seq<char>) -> bool {
    forall|q: Seq<char>| q != p ==> (
        (#[trigger] a.files.contains_key(q) <==> b.files.contains_key(q))
        && (a.files.contains_key(q) ==> a.files[q] == b.files[q]))
}
/// every regular file other than `p1`, `p2` is the same in `a` and `b`
pub open spec fn files_same_except2(a: FsV, b: FsV, p1: Seq<char>, p2: Seq<char>) -> bool {
    forall|q: Seq<char>| q != p1 && q != p2 ==> (
        (#[trigger] a.files.contains_key(q) <==> b.files.contains_key(q))
        && (a.files.contains_key(q) ==> a.files[q] == b.files[q]))
}

/// an open file: its path, the cursor, and (for reading) the content it had
/// when it was opened
pub ghost struct FileV { pub path: Seq<char>, pub pos: nat, pub snap: Seq<u8> }

/// tokio::fs::File == sos_vfs::File on the baseline targets
/// (crates/vfs/src/lib.rs re-exports tokio::fs outside wasm32 / mem-fs).
#[verifier::external_body]
pub struct File { _p: () }
impl View for File {
    type V = FileV;
    uninterp spec fn view(&self) -> FileV;
}
impl File {
    /// tokio-1.x src/fs/file.rs `File::create`: creates or truncates.
    #[verifier::external_body]
    pub fn create<P: PathLike>(fs: &mut Fs, path: P) -> (r: Result<File>)
        ensures
            files_same_except(old(fs)@, final(fs)@, path.pv()),
            final(fs)@.dirs == old(fs)@.dirs,
            r.is_ok() ==> final(fs)@.files.contains_key(path.pv())
                && final(fs)@.files[path.pv()] == Seq::<u8>::empty()
                && r.unwrap()@ == (FileV { path: path.pv(), pos: 0, snap: Seq::<u8>::empty() }),
    { unimplemented!() }

    /// `File::sync_all` / `sync_data`: durability only — no effect on the
    /// logical content in this model (no crashes, see the header).
    #[verifier::external_body]
    pub fn sync_all(&self) -> (r: Result<()>)
    { unimplemented!() }
    #[verifier::external_body]
    pub fn sync_data(&self) -> (r: Result<()>)
    { unimplemented!() }

    /// `File::open`: read-only; Ok only for an existing regular file.
    #[verifier::external_body]
    pub fn open<P: PathLike>(fs: &Fs, path: P) -> (r: Result<File>)
        ensures
            r.is_ok() ==> fs@.files.contains_key(path.pv())
                && r.unwrap()@ == (FileV { path: path.pv(), pos: 0, snap: fs@.files[path.pv()] }),
    { unimplemented!() }
}

/// std::fs::Metadata: only `len()`
#[verifier::external_body]
pub struct Metadata { _p: () }
impl Metadata {
    pub uninterp spec fn len_spec(&self) -> nat;
    #[verifier::external_body]
    pub fn len(&self) -> (r: u64)
        ensures r == self.len_spec(),
    { unimplemented!() }
}

/// tokio::io::BufWriter<File> (tokio-1.x src/io/util/buf_writer.rs) with
/// `AsyncWriteExt::{write_all, flush}`.  Buffering is TRANSPARENT in this
/// model: the logical content of the file is what is on disk followed by what
/// is in the writer's buffer; the two coincide after a successful `flush`.
/// `write_all` writes at the cursor (std::fs semantics: overwrite, extend at
/// the end) and advances it.
#[verifier::external_body]
#[verifier::reject_recursive_types(W)]
pub struct BufWriter<W> { _w: core::marker::PhantomData<W> }
impl View for BufWriter<File> {
    type V = FileV;
    uninterp spec fn view(&self) -> FileV;
}
impl BufWriter<File> {
    #[verifier::external_body]
    pub fn new(file: File) -> (r: BufWriter<File>)
        ensures r@ == file@,
    { unimplemented!() }

    #[verifier::external_body]
    pub fn write_all<B: BytesLike>(&mut self, fs: &mut Fs, data: B) -> (r: Result<()>)
        requires old(fs)@.files.contains_key(old(self)@.path),
        ensures
            files_same_except(old(fs)@, final(fs)@, old(self)@.path),
            final(fs)@.dirs == old(fs)@.dirs,
            final(self)@.path == old(self)@.path,
            r.is_ok() ==> final(fs)@.files.contains_key(old(self)@.path)
                && final(fs)@.files[old(self)@.path] == splice(old(fs)@.files[old(self)@.path], old(self)@.pos, data.bytes())
                && final(self)@.pos == old(self)@.pos + data.bytes().len(),
    { unimplemented!() }

    /// no effect on the logical content (see above); may fail
    #[verifier::external_body]
    pub fn flush(&mut self) -> (r: Result<()>)
        ensures final(self)@ == old(self)@,
    { unimplemented!() }

    /// `AsyncWriteExt::shutdown`: flushes, then shuts the writer down; like
    /// `flush` no effect on the logical content; may fail
    #[verifier::external_body]
    pub fn shutdown(&mut self) -> (r: Result<()>)
        ensures final(self)@ == old(self)@,
    { unimplemented!() }
}

/// tokio_util::io::ReaderStream<File> (tokio-util-0.7 src/io/reader_stream.rs):
/// yields the content of the file from the cursor as a sequence of non-empty
/// chunks, then None.  Ghost model: a fixed chunking of the content the file
/// had when it was opened, and a cursor.  `Some(Err(_))` may occur at any time.
#[verifier::external_body]
pub struct ReaderStream { _p: () }
pub ghost struct ChunksV { pub chunks: Seq<Seq<u8>>, pub pos: nat }
impl View for ReaderStream {
    type V = ChunksV;
    uninterp spec fn view(&self) -> ChunksV;
}
impl ReaderStream {
    #[verifier::external_body]
    pub fn new(file: File) -> (r: ReaderStream)
        requires file@.pos == 0,
        ensures r@.pos == 0, concat(r@.chunks) == file@.snap,
    { unimplemented!() }

    /// `StreamExt::next`
    #[verifier::external_body]
    pub fn next(&mut self) -> (r: Option<Result<Bytes>>)
        requires old(self)@.pos <= old(self)@.chunks.len(),
        ensures
            final(self)@.chunks == old(self)@.chunks,
            final(self)@.pos <= final(self)@.chunks.len(),
            r.is_none() ==> old(self)@.pos == old(self)@.chunks.len() && final(self)@.pos == old(self)@.pos,
            r matches Some(Ok(c)) ==> old(self)@.pos < old(self)@.chunks.len()
                && c@ == old(self)@.chunks[old(self)@.pos as int]
                && final(self)@.pos == old(self)@.pos + 1,
            r matches Some(Err(_)) ==> final(self)@.pos == old(self)@.pos,
    { unimplemented!() }
}

/// bytes-1.11.0 `Bytes`: an immutable byte string.
#[verifier::external_body]
pub struct Bytes { _p: () }
impl View for Bytes {
    type V = Seq<u8>;
    uninterp spec fn view(&self) -> Seq<u8>;
}
impl Bytes {
    #[verifier::external_body]
    pub fn len(&self) -> (r: usize)
        ensures r == self@.len(),
    { unimplemented!() }
}
impl Bytes {
    #[verifier::external_body]
    pub fn is_empty(&self) -> (r: bool)
        ensures r == (self@.len() == 0),
    { unimplemented!() }
    /// `Bytes: Deref<Target = [u8]>`, `<[u8]>::to_vec`
    #[verifier::external_body]
    pub fn to_vec(&self) -> (r: Vec<u8>)
        ensures r@ == self@,
    { unimplemented!() }
}
impl BytesLike for &Bytes { open spec fn bytes(&self) -> Seq<u8> { (*self)@ } }
impl BytesLike for Bytes { open spec fn bytes(&self) -> Seq<u8> { self@ } }

/// tokio::fs free functions (tokio-1.x src/fs/{try_exists,create_dir_all,rename}.rs)
pub mod tokio {
    pub mod fs {
        use vstd::prelude::*;
        use super::super::{Fs, PathLike, Result, fs_exists, Metadata, BytesLike, files_same_except};

        /// Ok(b): `b` tells whether the path exists (file or directory)
        #[verifier::external_body]
        pub fn try_exists<P: PathLike>(fs: &Fs, path: P) -> (r: Result<bool>)
            ensures r.is_ok() ==> r.unwrap() == fs_exists(fs@, path.pv()),
        { unimplemented!() }

        /// creates directories only; regular files are untouched
        #[verifier::external_body]
        pub fn create_dir_all<P: PathLike>(fs: &mut Fs, path: P) -> (r: Result<()>)
            ensures
                final(fs)@.files == old(fs)@.files,
                old(fs)@.dirs.subset_of(final(fs)@.dirs),
        { unimplemented!() }

        /// rename(2): atomic; Ok moves the regular file `from` to `to`
        /// (replacing it); Err changes nothing.
        #[verifier::external_body]
        pub fn rename<P: PathLike, Q: PathLike>(fs: &mut Fs, from: P, to: Q) -> (r: Result<()>)
            requires old(fs)@.files.contains_key(from.pv()),
            ensures
                r.is_err() ==> final(fs)@ == old(fs)@,
                r.is_ok() ==> final(fs)@.dirs == old(fs)@.dirs
                    && final(fs)@.files == old(fs)@.files.remove(from.pv()).insert(to.pv(), old(fs)@.files[from.pv()]),
        { unimplemented!() }

        /// metadata of an existing regular file: its length
        #[verifier::external_body]
        pub fn metadata<P: PathLike>(fs: &Fs, path: P) -> (r: Result<Metadata>)
            ensures r.is_ok() && fs@.files.contains_key(path.pv()) ==> r.unwrap().len_spec() == fs@.files[path.pv()].len(),
        { unimplemented!() }

        /// unlink(2): Ok removes the regular file; Err changes nothing
        /// (tokio-1.x src/fs/remove_file.rs -> std::fs::remove_file).
        #[verifier::external_body]
        pub fn remove_file<P: PathLike>(fs: &mut Fs, path: P) -> (r: Result<()>)
            ensures
                r.is_err() ==> final(fs)@ == old(fs)@,
                r.is_ok() ==> old(fs)@.files.contains_key(path.pv()) && final(fs)@.dirs == old(fs)@.dirs
                    && final(fs)@.files == old(fs)@.files.remove(path.pv()),
        { unimplemented!() }

        /// std::fs::copy: "copies the contents of one file to another ...
        /// will overwrite the contents of `to`"; NOT atomic: on Err `to`
        /// may hold anything; `from` and every other file are untouched.
        #[verifier::external_body]
        pub fn copy<P: PathLike, Q: PathLike>(fs: &mut Fs, from: P, to: Q) -> (r: Result<u64>)
            ensures
                files_same_except(old(fs)@, final(fs)@, to.pv()),
                final(fs)@.dirs == old(fs)@.dirs,
                r.is_ok() ==> old(fs)@.files.contains_key(from.pv()) && final(fs)@.files.contains_key(to.pv())
                    && final(fs)@.files[to.pv()] == old(fs)@.files[from.pv()]
                    && r.unwrap() == old(fs)@.files[from.pv()].len(),
        { unimplemented!() }

        /// std::fs::read: the whole content of an existing regular file
        #[verifier::external_body]
        pub fn read<P: PathLike>(fs: &Fs, path: P) -> (r: Result<Vec<u8>>)
            ensures r.is_ok() ==> fs@.files.contains_key(path.pv()) && r.unwrap()@ == fs@.files[path.pv()],
        { unimplemented!() }

        /// std::fs::write: "creates a file if it does not exist, and will
        /// entirely replace its contents if it does"; NOT atomic: on Err the
        /// file may hold anything; every other file is untouched.
        #[verifier::external_body]
        pub fn write<P: PathLike, B: BytesLike>(fs: &mut Fs, path: P, contents: B) -> (r: Result<()>)
            ensures
                files_same_except(old(fs)@, final(fs)@, path.pv()),
                final(fs)@.dirs == old(fs)@.dirs,
                r.is_ok() ==> final(fs)@.files.contains_key(path.pv()) && final(fs)@.files[path.pv()] == contents.bytes(),
        { unimplemented!() }
    }
}
/// `use sos_vfs as vfs;` — the same functions (crates/vfs/src/lib.rs)
pub mod vfs {
    pub use super::tokio::fs::{try_exists, create_dir_all, rename, metadata, remove_file, copy, read, write};
    pub use super::File;
}

// ---- tokio OpenOptions / async_fd_lock guard as used by sos_filesystem::write_exclusive ----------
/// tokio OpenOptions / async_fd_lock write guard as used by write_exclusive
#[verifier::external_body]
pub struct OpenOptions { _p: () }
impl OpenOptions {
    pub uninterp spec fn o_create(&self) -> bool;
    pub uninterp spec fn o_truncate(&self) -> bool;
    pub uninterp spec fn o_write(&self) -> bool;
    pub uninterp spec fn o_append(&self) -> bool;
    pub uninterp spec fn o_create_new(&self) -> bool;
    #[verifier::external_body]
    pub fn new() -> (r: OpenOptions)
        ensures !r.o_create() && !r.o_truncate() && !r.o_write() && !r.o_append() && !r.o_create_new(),
    { unimplemented!() }
    #[verifier::external_body]
    pub fn create(self, v: bool) -> (r: OpenOptions)
        ensures r.o_create() == v && r.o_truncate() == self.o_truncate() && r.o_write() == self.o_write()
            && r.o_append() == self.o_append() && r.o_create_new() == self.o_create_new(),
    { unimplemented!() }
    #[verifier::external_body]
    pub fn truncate(self, v: bool) -> (r: OpenOptions)
        ensures r.o_create() == self.o_create() && r.o_truncate() == v && r.o_write() == self.o_write()
            && r.o_append() == self.o_append() && r.o_create_new() == self.o_create_new(),
    { unimplemented!() }
    #[verifier::external_body]
    pub fn read(self, v: bool) -> (r: OpenOptions)
        ensures r.o_create() == self.o_create() && r.o_truncate() == self.o_truncate() && r.o_write() == self.o_write()
            && r.o_append() == self.o_append() && r.o_create_new() == self.o_create_new(),
    { unimplemented!() }
    #[verifier::external_body]
    pub fn write(self, v: bool) -> (r: OpenOptions)
        ensures r.o_create() == self.o_create() && r.o_truncate() == self.o_truncate() && r.o_write() == v
            && r.o_append() == self.o_append() && r.o_create_new() == self.o_create_new(),
    { unimplemented!() }
    /// std::fs::OpenOptions::append / create_new: recorded only; `open` below
    /// promises nothing about content or cursor once either is set (append:
    /// writes go to the end whatever the cursor; create_new: fails on an
    /// existing file and ignores create/truncate).
    #[verifier::external_body]
    pub fn append(self, v: bool) -> (r: OpenOptions)
        ensures r.o_create() == self.o_create() && r.o_truncate() == self.o_truncate() && r.o_write() == self.o_write()
            && r.o_append() == v && r.o_create_new() == self.o_create_new(),
    { unimplemented!() }
    #[verifier::external_body]
    pub fn create_new(self, v: bool) -> (r: OpenOptions)
        ensures r.o_create() == self.o_create() && r.o_truncate() == self.o_truncate() && r.o_write() == self.o_write()
            && r.o_append() == self.o_append() && r.o_create_new() == v,
    { unimplemented!() }
    /// std::fs::OpenOptions::open: with create+write the file exists
    /// afterwards; with truncate it is then empty, without it keeps its content.
    #[verifier::external_body]
    pub fn open<P: PathLike>(self, fs: &mut Fs, path: P) -> (r: Result<File>)
        ensures
            files_same_except(old(fs)@, final(fs)@, path.pv()),
            final(fs)@.dirs == old(fs)@.dirs,
            r.is_ok() && self.o_create() && self.o_write() && !self.o_append() && !self.o_create_new() ==> final(fs)@.files.contains_key(path.pv())
                && final(fs)@.files[path.pv()] == (if self.o_truncate() || !old(fs)@.files.contains_key(path.pv()) { Seq::<u8>::empty() } else { old(fs)@.files[path.pv()] })
                && r.unwrap()@.path == path.pv() && r.unwrap()@.pos == 0,
    { unimplemented!() }
}
#[derive(Debug)]
pub struct LockError { pub error: Error }
/// async_fd_lock RwLockWriteGuard<File>: the locked file itself
#[verifier::external_body]
pub struct WriteGuard { _p: () }
impl View for WriteGuard {
    type V = FileV;
    uninterp spec fn view(&self) -> FileV;
}
impl File {
    #[verifier::external_body]
    pub fn lock_write(self) -> (r: core::result::Result<WriteGuard, LockError>)
        ensures r.is_ok() ==> r.unwrap()@ == self@,
    { unimplemented!() }
}
impl WriteGuard {
    /// AsyncWriteExt::write_all on the file: at the cursor, overwrite/extend
    #[verifier::external_body]
    pub fn write_all(&mut self, fs: &mut Fs, data: &[u8]) -> (r: Result<()>)
        requires old(fs)@.files.contains_key(old(self)@.path),
        ensures
            files_same_except(old(fs)@, final(fs)@, old(self)@.path),
            final(fs)@.dirs == old(fs)@.dirs,
            final(self)@.path == old(self)@.path,
            r.is_ok() ==> final(fs)@.files.contains_key(old(self)@.path)
                && final(fs)@.files[old(self)@.path] == splice(old(fs)@.files[old(self)@.path], old(self)@.pos, data@)
                && final(self)@.pos == old(self)@.pos + data@.len(),
    { unimplemented!() }
    #[verifier::external_body]
    pub fn flush(&mut self) -> (r: Result<()>)
        ensures final(self)@ == old(self)@,
    { unimplemented!() }
}

