// ===========================================================================
// prelude/archive_top.rs — stand-ins of unit `archive` included at the TOP
// LEVEL of units/archive.vrs (error enums with their `#[from]` conversions).
// Every `external_body` and `uninterp spec fn` below is an ASSUMPTION.
// ===========================================================================

/// crates/filesystem/src/archive/error.rs `Error` (a thiserror enum): the
/// variants the extracted code constructs and the `#[from]` conversions its
/// `?` sites use.
pub enum ArchiveError {
    NotFile(PathBuf),
    NoArchiveAccount(String),
    ArchiveAccountIdMismatch,
    ArchiveChecksumMismatch(String),
    NoArchiveManifest,
    NoArchiveVault(PathBuf),
    ArchiveAccountAlreadyExists(String),
    TryFromSlice(TryFromSliceError),
    Io(Error),
    Core(CoreError),
    ZipArchive(ZipError),
    Vault(VaultError),
    Hex(FromHexError),
    Json(JsonError),
    FileSystem(FsError),
    Uuid(UuidParseError),
}
/// sos_filesystem::Error / uuid::Error (opaque)
#[derive(Debug)]
pub struct FsError { pub _p: () }
#[derive(Debug)]
pub struct UuidParseError { pub _p: () }
pub type ArchiveResult<T> = core::result::Result<T, ArchiveError>;
#[verifier::external]
impl core::fmt::Debug for ArchiveError {
    fn fmt(&self, f: &mut core::fmt::Formatter<'_>) -> core::fmt::Result { f.write_str("ArchiveError") }
}
impl FromSpecImpl<Error> for ArchiveError {
    open spec fn obeys_from_spec() -> bool { true }
    open spec fn from_spec(e: Error) -> ArchiveError { ArchiveError::Io(e) }
}
impl From<Error> for ArchiveError { fn from(e: Error) -> (r: ArchiveError) { ArchiveError::Io(e) } }
impl FromSpecImpl<TryFromSliceError> for ArchiveError {
    open spec fn obeys_from_spec() -> bool { true }
    open spec fn from_spec(e: TryFromSliceError) -> ArchiveError { ArchiveError::TryFromSlice(e) }
}
impl From<TryFromSliceError> for ArchiveError { fn from(e: TryFromSliceError) -> (r: ArchiveError) { ArchiveError::TryFromSlice(e) } }
impl FromSpecImpl<CoreError> for ArchiveError {
    open spec fn obeys_from_spec() -> bool { true }
    open spec fn from_spec(e: CoreError) -> ArchiveError { ArchiveError::Core(e) }
}
impl From<CoreError> for ArchiveError { fn from(e: CoreError) -> (r: ArchiveError) { ArchiveError::Core(e) } }
impl FromSpecImpl<ZipError> for ArchiveError {
    open spec fn obeys_from_spec() -> bool { true }
    open spec fn from_spec(e: ZipError) -> ArchiveError { ArchiveError::ZipArchive(e) }
}
impl From<ZipError> for ArchiveError { fn from(e: ZipError) -> (r: ArchiveError) { ArchiveError::ZipArchive(e) } }
impl FromSpecImpl<VaultError> for ArchiveError {
    open spec fn obeys_from_spec() -> bool { true }
    open spec fn from_spec(e: VaultError) -> ArchiveError { ArchiveError::Vault(e) }
}
impl From<VaultError> for ArchiveError { fn from(e: VaultError) -> (r: ArchiveError) { ArchiveError::Vault(e) } }
impl FromSpecImpl<FromHexError> for ArchiveError {
    open spec fn obeys_from_spec() -> bool { true }
    open spec fn from_spec(e: FromHexError) -> ArchiveError { ArchiveError::Hex(e) }
}
impl From<FromHexError> for ArchiveError { fn from(e: FromHexError) -> (r: ArchiveError) { ArchiveError::Hex(e) } }

/// crates/filesystem/src/archive/types.rs:8 `pub(crate) type ArchiveItem = (Summary, Vec<u8>);`
pub type ArchiveItem = (Summary, Vec<u8>);

// ---- stand-ins that name the extracted manifest types -----------------------------------------
impl ManifestJson for ManifestVersion1 {
    uninterp spec fn from_json(b: Seq<u8>) -> Option<ManifestVersion1>;
}

/// sos_core::Paths (crates/core/src/paths.rs, read): the per-account accessors
/// `assert!(!self.is_global())` — they PANIC on a global `Paths`; that is their
/// precondition here.  The path each accessor returns is an uninterpreted
/// function of the `Paths` value (PathBuf joins of the documents directory, the
/// account id and constants).
#[verifier::external_body]
pub struct Paths { _p: () }
impl Paths {
    pub uninterp spec fn is_global_spec(&self) -> bool;
    pub uninterp spec fn files_dir_spec(&self) -> Seq<char>;
    /// crates/core/src/paths.rs:133 `with_account_id`: a fresh `Paths` for the
    /// account (`new_with_prefix(.., Some(account_id), ..)`), never global
    #[verifier::external_body]
    pub fn with_account_id(&self, account_id: &AccountId) -> (r: Arc<Paths>)
        ensures !r.is_global_spec(),
    { unimplemented!() }
}

/// crates/filesystem/src/archive/import.rs:235 `extract_files` — NOT under
/// contract (zip entry iteration, `sanitize_file_path` = regex, OsStr path
/// components: out of the verifier's reach; this is the third sentence of C18).
/// Callee stand-in that assumes NOTHING about the file system (any files may
/// have been created or overwritten when it returns, with Ok or with Err); the
/// only thing assumed is that reading does not change the archive (ZIP-DET).
#[verifier::external_body]
pub fn extract_files(fs: &mut Fs, reader: &mut ZipReader<BufReader<File>>, paths: &Paths) -> (r: ArchiveResult<()>)
    ensures final(reader)@ == old(reader)@,
{ unimplemented!() }

impl ToStringSpec for AccountId {
    uninterp spec fn display(&self) -> Seq<char>;
    #[verifier::external_body]
    fn to_string(&self) -> (r: String) { unimplemented!() }
}

