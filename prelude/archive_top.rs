// ===========================================================================
// prelude/archive_top.rs — stand-ins of unit `archive` included at the TOP
// LEVEL of units/archive.vrs (error enums with their `#[from]` conversions).
// Every `external_body` and `uninterp spec fn` below is an ASSUMPTION.
// ===========================================================================

/// crates/filesystem/src/archive/error.rs `Error` (a thiserror enum): the
/// variants the extracted code constructs and the `#[from]` conversions its
/// `?` sites use.
pub enum ArchiveError {
    NotFile(PathBuf),
    NoArchiveAccount(String),
    ArchiveAccountIdMismatch,
    ArchiveChecksumMismatch(String),
    NoArchiveManifest,
    NoArchiveVault(PathBuf),
    ArchiveAccountAlreadyExists(String),
    TryFromSlice(TryFromSliceError),
    Io(Error),
    Core(CoreError),
    ZipArchive(ZipError),
    Vault(VaultError),
    Hex(FromHexError),
    Json(JsonError),
    FileSystem(FsError),
    Uuid(UuidParseError),
}
/// sos_filesystem::Error / uuid::Error (opaque)
#[derive(Debug)]
pub struct FsError { pub _p: () }
#[derive(Debug)]
pub struct UuidParseError { pub _p: () }
pub type ArchiveResult<T> = core::result::Result<T, ArchiveError>;
#[verifier::external]
impl core::fmt::Debug for ArchiveError {
    fn fmt(&self, f: &mut core::fmt::Formatter<'_>) -> core::fmt::Result { f.write_str("ArchiveError") }
}
impl FromSpecImpl<Error> for ArchiveError {
    open spec fn obeys_from_spec() -> bool { true }
    open spec fn from_spec(e: Error) -> ArchiveError { ArchiveError::Io(e) }
}
impl From<Error> for ArchiveError { fn from(e: Error) -> (r: ArchiveError) { ArchiveError::Io(e) } }
impl FromSpecImpl<TryFromSliceError> for ArchiveError {
    open spec fn obeys_from_spec() -> bool { true }
    open spec fn from_spec(e: TryFromSliceError) -> ArchiveError { ArchiveError::TryFromSlice(e) }
}
impl From<TryFromSliceError> for ArchiveError { fn from(e: TryFromSliceError) -> (r: ArchiveError) { ArchiveError::TryFromSlice(e) } }
impl FromSpecImpl<CoreError> for ArchiveError {
    open spec fn obeys_from_spec() -> bool { true }
    open spec fn from_spec(e: CoreError) -> ArchiveError { ArchiveError::Core(e) }
}
impl From<CoreError> for ArchiveError { fn from(e: CoreError) -> (r: ArchiveError) { ArchiveError::Core(e) } }
impl FromSpecImpl<ZipError> for ArchiveError {
    open spec fn obeys_from_spec() -> bool { true }
    open spec fn from_spec(e: ZipError) -> ArchiveError { ArchiveError::ZipArchive(e) }
}
impl From<ZipError> for ArchiveError { fn from(e: ZipError) -> (r: ArchiveError) { ArchiveError::ZipArchive(e) } }
impl FromSpecImpl<VaultError> for ArchiveError {
    open spec fn obeys_from_spec() -> bool { true }
    open spec fn from_spec(e: VaultError) -> ArchiveError { ArchiveError::Vault(e) }
}
impl From<VaultError> for ArchiveError { fn from(e: VaultError) -> (r: ArchiveError) { ArchiveError::Vault(e) } }
impl FromSpecImpl<FromHexError> for ArchiveError {
    open spec fn obeys_from_spec() -> bool { true }
    open spec fn from_spec(e: FromHexError) -> ArchiveError { ArchiveError::Hex(e) }
}
impl From<FromHexError> for ArchiveError { fn from(e: FromHexError) -> (r: ArchiveError) { ArchiveError::Hex(e) } }

/// crates/filesystem/src/archive/types.rs:8 `pub(crate) type ArchiveItem = (Summary, Vec<u8>);`
pub type ArchiveItem = (Summary, Vec<u8>);

// ---- stand-ins that name the extracted manifest types -----------------------------------------
impl ManifestJson for ManifestVersion1 {
    uninterp spec fn from_json(b: Seq<u8>) -> Option<ManifestVersion1>;
}

/// sos_core::Paths (crates/core/src/paths.rs, read): the per-account accessors
/// `assert!(!self.is_global())` — they PANIC on a global `Paths`; that is their
/// precondition here.  The path each accessor returns is an uninterpreted
/// function of the `Paths` value (PathBuf joins of the documents directory, the
/// account id and constants).
#[verifier::external_body]
pub struct Paths { _p: () }
impl Paths {
    pub uninterp spec fn is_global_spec(&self) -> bool;
    pub uninterp spec fn files_dir_spec(&self) -> Seq<char>;
    /// crates/core/src/paths.rs:133 `with_account_id`: a fresh `Paths` for the
    /// account (`new_with_prefix(.., Some(account_id), ..)`), never global
    /// the `Paths` value `with_account_id` builds: a function of `self` (server flag, documents
    /// directory) and the account id
    pub uninterp spec fn with_account_id_spec(&self, account_id: AccountId) -> Paths;
    #[verifier::external_body]
    pub fn with_account_id(&self, account_id: &AccountId) -> (r: Arc<Paths>)
        ensures !r.is_global_spec(), *r == self.with_account_id_spec(*account_id),
    { unimplemented!() }
}

/// crates/filesystem/src/archive/import.rs:235 `extract_files` — body NOT under
/// contract (zip entry iteration, `sanitize_file_path` = regex, OsStr path
/// components: out of the verifier's reach; this is the third sentence of C18).
/// Callee stand-in, contract read off the source (import.rs:235-289):
///   for every index of the central directory in order: skip directory entries
///   (`entry.dir()`: the name ends in '/'); `path = sanitize_file_path(name)`;
///   if its first component is FILES_DIR and the second parses as a VaultId, the
///   components after the first are joined to `relative`, `destination =
///   paths.files_dir().join(relative)`, missing parent directories are created,
///   `File::create(destination)` and the entry content is copied into it.
/// `blob_relative(name)` = that `relative` (None: the entry is skipped) is an
/// UNINTERPRETED function of the entry name: NOTHING is assumed about where the
/// destination lies (path escape is not claimed here).  A later entry with the
/// same destination overwrites an earlier one.  On Err any of the destinations
/// may hold anything; no other regular file changes; directories only grow.
/// Reading does not change the archive (ZIP-DET).
pub uninterp spec fn blob_relative(name: Seq<char>) -> Option<Seq<char>>;
pub open spec fn blob_target(files_dir: Seq<char>, name: Seq<char>) -> Option<Seq<char>> {
    match blob_relative(name) { Some(rel) => Some(path_join(files_dir, rel)), None => None }
}
/// `q` is the destination of some entry of the listing
pub open spec fn is_blob_target(files_dir: Seq<char>, l: Seq<(Seq<char>, Seq<u8>)>, q: Seq<char>) -> bool {
    exists|i: int| 0 <= i < l.len() && blob_target(files_dir, (#[trigger] l[i]).0) == Some(q)
}
/// no later entry of the listing has the destination of entry `i`
pub open spec fn blob_is_last(files_dir: Seq<char>, l: Seq<(Seq<char>, Seq<u8>)>, i: int) -> bool {
    forall|j: int| i < j < l.len() ==> blob_target(files_dir, (#[trigger] l[j]).0) != blob_target(files_dir, l[i].0)
}
/// entry `i` of the listing (if it is an attachment blob and not overwritten later) is on disk with the archive's bytes
pub open spec fn blob_written(f: FsV, files_dir: Seq<char>, l: Seq<(Seq<char>, Seq<u8>)>, i: int) -> bool {
    blob_target(files_dir, l[i].0) matches Some(d) ==> (blob_is_last(files_dir, l, i) ==> f.files.contains_key(d) && f.files[d] == l[i].1)
}
/// every attachment blob of the listing is on disk below `files_dir` with the archive's bytes
pub open spec fn blobs_written(f: FsV, files_dir: Seq<char>, l: Seq<(Seq<char>, Seq<u8>)>) -> bool {
    forall|i: int| 0 <= i < l.len() ==> #[trigger] blob_written(f, files_dir, l, i)
}
/// between `a` and `b` only blob destinations of the listing changed; directories only grew
pub open spec fn blobs_frame(a: FsV, b: FsV, files_dir: Seq<char>, l: Seq<(Seq<char>, Seq<u8>)>) -> bool {
    &&& a.dirs.subset_of(b.dirs)
    &&& forall|q: Seq<char>| !is_blob_target(files_dir, l, q) ==> (#[trigger] a.files.contains_key(q) <==> b.files.contains_key(q)) && (a.files.contains_key(q) ==> a.files[q] == b.files[q])
}
#[verifier::external_body]
pub fn extract_files(fs: &mut Fs, reader: &mut ZipReader<BufReader<File>>, paths: &Paths) -> (r: ArchiveResult<()>)
    // import.rs:264 `paths.files_dir()` asserts !is_global (paths.rs:375)
    requires !paths.is_global_spec(), /*@PL:paths_not_global*/
    ensures
        final(reader)@ == old(reader)@,
        blobs_frame(old(fs)@, final(fs)@, paths.files_dir_spec(), old(reader)@.listing),
        r is Ok ==> blobs_written(final(fs)@, paths.files_dir_spec(), old(reader)@.listing),
{ unimplemented!() }

impl ToStringSpec for AccountId {
    uninterp spec fn display(&self) -> Seq<char>;
    #[verifier::external_body]
    fn to_string(&self) -> (r: String) { unimplemented!() }
}

