// ===========================================================================
// prelude/log_tree.rs — `sos_core::commit::CommitTree` as a STAND-IN for unit
// `log`.  Every contract below is the conjunction of clauses PROVED for the
// real code in units/tree.vrs (the label is quoted at each clause); the
// spec vocabulary (CommitProofV, Cmp, is_head_proof_of, compare_spec, ...) is
// COPIED from units/tree.vrs and rests on prelude/tree_merkle.rs.  Included at
// TOP LEVEL of the unit.  The real type definitions are extracted.
// Labels of tree.vrs that are listed known findings (compare:
// contains_iff_strict_prefix, unknown_otherwise) are NOT used.
// ===========================================================================

/// crates/core/src/commit/mod.rs: `pub type TreeHash = <Sha256 as Hasher>::Hash;`
pub type TreeHash = [u8; 32];

//@extract crates/core/src/commit/proof.rs :: struct CommitHash
//@end
/// `#[derive(Eq, PartialEq)]` on `pub struct CommitHash(pub TreeHash)`: field-wise
/// equality of the 32 bytes (same text as prelude/tree_derives.rs)
impl vstd::std_specs::cmp::PartialEqSpecImpl for CommitHash {
    open spec fn obeys_eq_spec() -> bool { true }
    open spec fn eq_spec(&self, other: &CommitHash) -> bool { self.0@ == other.0@ }
}
impl PartialEq for CommitHash {
    #[verifier::external_body]
    fn eq(&self, other: &CommitHash) -> bool { self.0 == other.0 }
}
/// `impl fmt::Debug for CommitHash` (proof.rs:17): formatting only
#[verifier::external]
impl core::fmt::Debug for CommitHash {
    fn fmt(&self, f: &mut core::fmt::Formatter<'_>) -> core::fmt::Result { Ok(()) }
}
//@extract crates/core/src/commit/proof.rs :: impl AsRef<TreeHash> for CommitHash
//@  serves C06 C07
//@  fn as_ref
//@    ensures [as_ref_is_field] *r == self.0
//@end
//@extract crates/core/src/commit/proof.rs :: enum Comparison
//@end
//@extract crates/core/src/commit/proof.rs :: struct CommitProof
//@end
//@extract crates/core/src/commit/mod.rs :: struct CommitSpan
//@end

// ---- copied from units/tree.vrs: specification vocabulary of C08 ------------------
pub ghost struct CommitProofV {
    pub root: Seq<u8>,
    pub hashes: Seq<Seq<u8>>,
    pub length: nat,
    pub indices: Seq<usize>,
}
impl View for CommitProof {
    type V = CommitProofV;
    open spec fn view(&self) -> CommitProofV {
        CommitProofV { root: self.root.0@, hashes: self.proof@, length: self.length as nat, indices: self.indices@ }
    }
}
pub ghost enum Cmp { Equal, Contains(Seq<usize>), Unknown }
pub open spec fn cmp_view(c: Comparison) -> Cmp {
    match c {
        Comparison::Equal => Cmp::Equal,
        Comparison::Contains(v) => Cmp::Contains(v@),
        Comparison::Unknown => Cmp::Unknown,
    }
}
pub open spec fn last_opt(l: Seq<Seq<u8>>) -> Option<Seq<u8>> {
    if l.len() > 0 { Some(l.last()) } else { None }
}
pub open spec fn is_proof_of(p: CommitProofV, src: Seq<Seq<u8>>, i: nat) -> bool {
    &&& i < src.len()
    &&& merkle_root(src) == Some(p.root)
    &&& p.length == src.len()
    &&& p.indices.len() == 1 && p.indices[0] as nat == i
    &&& p.hashes == proof_hashes(src, i)
}
pub open spec fn is_head_proof_of(p: CommitProofV, src: Seq<Seq<u8>>) -> bool {
    src.len() > 0 && is_proof_of(p, src, (src.len() - 1) as nat)
}
pub open spec fn is_strict_prefix(a: Seq<Seq<u8>>, b: Seq<Seq<u8>>) -> bool {
    a.len() < b.len() && b.take(a.len() as int) == a
}
pub open spec fn compare_spec(local: Seq<Seq<u8>>, p: CommitProofV) -> Cmp {
    if merkle_root(local) == Some(p.root) { Cmp::Equal } else {
        let g = gather(local, p.indices);
        if g.len() == p.indices.len() && verify_spec(p.hashes, p.root, p.indices, g, p.length) {
            Cmp::Contains(p.indices)
        } else { Cmp::Unknown }
    }
}

/// `impl PartialEq for CommitProof` (crates/core/src/commit/proof.rs:131):
/// root, proof hashes, length and indices are compared — i.e. the views.
impl vstd::std_specs::cmp::PartialEqSpecImpl for CommitProof {
    open spec fn obeys_eq_spec() -> bool { true }
    open spec fn eq_spec(&self, other: &CommitProof) -> bool { self@ == other@ }
}
impl PartialEq for CommitProof {
    #[verifier::external_body]
    fn eq(&self, other: &CommitProof) -> bool { unimplemented!() }
}

/// sos_core::Error — the two variants the commit tree produces (as in units/tree.vrs)
#[derive(Debug)]
pub enum CoreError { NoRootCommit, NoLastCommit, Io(pre::Error) }
pub type CoreResult<T> = core::result::Result<T, CoreError>;

// ---- the stand-in ---------------------------------------------------------------------
/// crates/core/src/commit/tree.rs `pub struct CommitTree` — abstract state as in
/// units/tree.vrs: committed leaves `lv`, uncommitted leaves `pending`,
/// `last_v`/`maybe_v` the two cached hashes; `inv()` is TREE_INV.
#[verifier::external_body]
pub struct CommitTree { _p: () }

impl CommitTree {
    pub uninterp spec fn lv(&self) -> Seq<Seq<u8>>;
    pub uninterp spec fn pending(&self) -> Seq<Seq<u8>>;
    pub uninterp spec fn history(&self) -> Seq<Seq<Seq<u8>>>;
    pub uninterp spec fn last_v(&self) -> Option<Seq<u8>>;
    pub uninterp spec fn maybe_v(&self) -> Option<Seq<u8>>;
    /// TREE_INV (text of units/tree.vrs)
    pub open spec fn inv(&self) -> bool {
        &&& self.last_v() == last_opt(self.lv())
        &&& (self.pending().len() > 0 ==> self.maybe_v() == Some(self.pending().last()))
        &&& (self.pending().len() == 0 ==> self.maybe_v() is None)
    }

    /// tree.vrs [new_is_empty] [new_establishes_tree_inv]
    #[verifier::external_body]
    pub fn new() -> (r: CommitTree)
        ensures
            r.lv() == Seq::<Seq<u8>>::empty() && r.pending() == Seq::<Seq<u8>>::empty() && r.history() == Seq::<Seq<Seq<u8>>>::empty(),
            r.inv(),
    { unimplemented!() }

    /// tree.vrs [hash_is_H]
    #[verifier::external_body]
    pub fn hash(data: &[u8]) -> (r: TreeHash)
        ensures r@ == H(data@),
    { unimplemented!() }

    /// tree.vrs [len_is_committed_leaf_count]
    #[verifier::external_body]
    pub fn len(&self) -> (r: usize)
        ensures r == self.lv().len(),
    { unimplemented!() }

    /// tree.vrs [append_extends_pending] [append_keeps_tree_inv]; the returned
    /// `&mut Self` ([append_returns_self]) is discarded at every call site of
    /// this unit, so the stand-in returns `()`.
    #[verifier::external_body]
    pub fn append(&mut self, hashes: &mut Vec<TreeHash>)
        ensures
            final(self).pending() == old(self).pending() + dview(old(hashes)@) && final(self).lv() == old(self).lv()
                && final(self).history() == old(self).history() && final(self).last_v() == old(self).last_v() && final(hashes)@.len() == 0,
            old(self).inv() && (old(hashes)@.len() > 0 || old(self).pending().len() == 0) ==> final(self).inv(),
    { unimplemented!() }

    /// tree.vrs [commit_moves_pending] [commit_history] [commit_keeps_tree_inv]
    #[verifier::external_body]
    pub fn commit(&mut self)
        ensures
            final(self).lv() == old(self).lv() + old(self).pending() && final(self).pending() == Seq::<Seq<u8>>::empty(),
            final(self).history() == (if old(self).pending().len() > 0 { old(self).history().push(old(self).lv()) } else { old(self).history() }),
            old(self).inv() ==> final(self).inv(),
    { unimplemented!() }

    /// tree.vrs [leaves_some_iff_nonempty] [leaves_are_committed_leaves]
    #[verifier::external_body]
    pub fn leaves(&self) -> (r: Option<Vec<TreeHash>>)
        ensures
            r.is_some() <==> self.lv().len() > 0,
            r.is_some() ==> dview(r.unwrap()@) == self.lv(),
    { unimplemented!() }

    /// tree.vrs [root_none_iff_empty] [root_is_merkle_root]
    #[verifier::external_body]
    pub fn root(&self) -> (r: Option<CommitHash>)
        ensures
            r.is_none() <==> self.lv().len() == 0,
            r.is_some() ==> merkle_root(self.lv()) == Some(r.unwrap().0@),
    { unimplemented!() }

    /// tree.vrs [last_commit_is_field] [last_commit_is_last_leaf]
    #[verifier::external_body]
    pub fn last_commit(&self) -> (r: Option<CommitHash>)
        ensures
            (match r { Some(h) => Some(h.0@), None => None }) == self.last_v(),
            self.inv() ==> (match r { Some(h) => Some(h.0@), None => None }) == last_opt(self.lv()),
    { unimplemented!() }

    /// tree.vrs [proof_err_iff_empty] [proof_fields] [proof_of_one_index]
    #[verifier::external_body]
    pub fn proof(&self, leaf_indices: &[usize]) -> (r: CoreResult<CommitProof>)
        ensures
            r.is_err() <==> self.lv().len() == 0,
            r.is_ok() ==> merkle_root(self.lv()) == Some(r.unwrap()@.root) && r.unwrap()@.length == self.lv().len() && r.unwrap()@.indices == leaf_indices@,
            r.is_ok() && leaf_indices@.len() == 1 && leaf_indices@[0] < self.lv().len() ==> is_proof_of(r.unwrap()@, self.lv(), leaf_indices@[0] as nat),
    { unimplemented!() }

    /// tree.vrs [head_err_iff_empty] [head_is_proof_of_last_leaf]
    #[verifier::external_body]
    pub fn head(&self) -> (r: CoreResult<CommitProof>)
        ensures
            r.is_err() <==> self.lv().len() == 0,
            r.is_ok() ==> is_head_proof_of(r.unwrap()@, self.lv()),
    { unimplemented!() }

    /// tree.vrs [equal_iff_same_seq] [contains_means_same_leaf_at_index]
    /// [compare_err_iff_local_empty] [compare_matches_code_level_spec]
    #[verifier::external_body]
    pub fn compare(&self, proof: &CommitProof) -> (r: CoreResult<Comparison>)
        ensures
            forall|other: Seq<Seq<u8>>| #![trigger is_head_proof_of(proof@, other)]
                leaves_wf(self.lv()) && leaves_wf(other) && is_head_proof_of(proof@, other)
                ==> ((r matches Ok(Comparison::Equal)) <==> other == self.lv()),
            forall|other: Seq<Seq<u8>>| #![trigger is_head_proof_of(proof@, other)]
                leaves_wf(self.lv()) && leaves_wf(other) && is_head_proof_of(proof@, other)
                ==> (r matches Ok(Comparison::Contains(v)) ==> v@.len() == 1 && v@[0] + 1 == other.len() && other.len() <= self.lv().len()
                     && other != self.lv() && self.lv()[v@[0] as int] == other[v@[0] as int]),
            r.is_err() <==> self.lv().len() == 0,
            r.is_ok() ==> cmp_view(r.unwrap()) == compare_spec(self.lv(), proof@),
    { unimplemented!() }
}
