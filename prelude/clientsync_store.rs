// ===========================================================================
// prelude/clientsync_store.rs — stand-ins of unit `clientsync` for the client storage
// layer (crates/storage/client/src/{traits.rs, lib.rs, files/file_manager.rs},
// crates/vault/src/vault.rs Summary, std HashMap) as far as the extracted functions of
// secret_storage.rs / traits.rs / sync.rs / search.rs use them.  Everything `external_body` /
// bodiless trait method contract here is an ASSUMPTION; each names the source read.
// Included at top level inside `mod cpre`, after clientsync_ap.rs and clientsync_index.rs,
// and after the extracted `Folder`, `SecretRow`, `AccountSearch`.
// ===========================================================================

/// traits.rs:51 `pub(crate) mod private { #[derive(Copy, Clone)] pub struct Internal; }` — sealing token
#[derive(Clone, Copy)]
pub struct Internal;

/// `uuid::Uuid` equality: derived `PartialEq` on the 16 bytes
impl PartialEq for Uuid {
    #[verifier::external_body]
    fn eq(&self, other: &Self) -> (r: bool)
        ensures r == (self@ == other@),
    { self.0 == other.0 }
}
impl vstd::std_specs::cmp::PartialEqSpecImpl for Uuid {
    open spec fn obeys_eq_spec() -> bool { true }
    open spec fn eq_spec(&self, other: &Uuid) -> bool { self@ == other@ }
}

/// the folder id stored in the part of the header the folder view does not talk about
/// (`header.summary.id`, vault.rs)
pub uninterp spec fn head_id(o: HeadOther) -> Seq<u8>;
pub open spec fn vault_id(v: VaultV) -> Seq<u8> { head_id(v.head.other) }

/// `sos_vault::Summary` (vault.rs:172): version, id, name, cipher, kdf, flags — only the id is read here
#[verifier::external_body]
pub struct Summary { _p: () }
impl Summary {
    pub uninterp spec fn sid(&self) -> Seq<u8>;
    /// vault.rs `Summary::id`: `&self.id`
    #[verifier::external_body]
    pub fn id(&self) -> (r: &VaultId)
        ensures r@ == self.sid(),
    { unimplemented!() }
}
impl Clone for Summary {
    /// `#[derive(Clone)]`
    #[verifier::external_body]
    fn clone(&self) -> (r: Summary) ensures r == *self, { unimplemented!() }
}
impl Summary {
    /// the bits of the `flags` field
    pub uninterp spec fn sflags(&self) -> u64;
    /// vault.rs:273 `Summary::flags`: `&self.flags`
    #[verifier::external_body]
    pub fn flags(&self) -> (r: &VaultFlags)
        ensures r.b == self.sflags(),
    { unimplemented!() }
    /// the summary of an archive folder (`VaultFlags::ARCHIVE` = 0b100, crates/core/src/lib.rs:123)
    pub open spec fn archived(&self) -> bool { self.sflags() & 4 == 4 }
}
impl VaultFlags {
    /// crates/core/src/lib.rs:167 `self.contains(VaultFlags::ARCHIVE)` (bitflags `contains`: all bits of `other`
    /// set, as `VaultFlags::contains` of prelude/types.rs)
    #[verifier::external_body]
    pub fn is_archive(&self) -> (r: bool)
        ensures r == (self.b & 4 == 4),
    { unimplemented!() }
}
/// the account's archive folder: the FIRST folder of the list whose flags say archive, if any
pub open spec fn account_archive(s: Seq<Summary>) -> Option<Seq<u8>>
    decreases s.len(),
{
    if s.len() == 0 { None } else if s[0].archived() { Some(s[0].sid()) } else { account_archive(s.drop_first()) }
}
/// `a` is the id of the first folder of the list whose flags say archive / there is none
pub open spec fn first_archive(s: Seq<Summary>, a: Option<Seq<u8>>) -> bool {
    match a {
        Some(id) => exists|i: int| 0 <= i < s.len() && (#[trigger] s[i]).archived() && s[i].sid() == id && forall|j: int| 0 <= j < i ==> !(#[trigger] s[j]).archived(),
        None => forall|j: int| 0 <= j < s.len() ==> !(#[trigger] s[j]).archived(),
    }
}
pub proof fn lemma_first_archive(s: Seq<Summary>, a: Option<Seq<u8>>)
    ensures first_archive(s, a) ==> account_archive(s) == a,
{
    if first_archive(s, a) {
        match a {
            Some(id) => {
                let i = choose|i: int| 0 <= i < s.len() && (#[trigger] s[i]).archived() && s[i].sid() == id && forall|j: int| 0 <= j < i ==> !(#[trigger] s[j]).archived();
                lemma_account_archive(s, i);
            }
            None => { lemma_account_archive(s, s.len() as int); }
        }
    }
}
pub proof fn lemma_account_archive(s: Seq<Summary>, i: int)
    requires 0 <= i <= s.len(), forall|j: int| 0 <= j < i ==> !(#[trigger] s[j]).archived(),
    ensures
        i < s.len() && s[i].archived() ==> account_archive(s) == Some(s[i].sid()),
        i == s.len() ==> account_archive(s) is None,
    decreases s.len(),
{
    if s.len() > 0 && i > 0 {
        assert(!s[0].archived());
        let t = s.drop_first();
        assert forall|j: int| 0 <= j < i - 1 implies !(#[trigger] t[j]).archived() by { assert(t[j] == s[j + 1]); }
        lemma_account_archive(t, i - 1);
        if i < s.len() { assert(t[i - 1] == s[i]); }
    }
}

// ---- std::collections::HashMap<VaultId, Folder> --------------------------------------------
/// std `HashMap` (library/std/src/collections/hash/map.rs); view: map from key VIEWS to values
/// (`Uuid`: `Eq`/`Hash` derived on the 16 bytes, i.e. on the view)
#[verifier::external_body]
#[verifier::reject_recursive_types(K)]
#[verifier::reject_recursive_types(V)]
pub struct HashMap<K, V> { _p: core::marker::PhantomData<(K, V)> }
impl<K: View, V> View for HashMap<K, V> {
    type V = Map<K::V, V>;
    uninterp spec fn view(&self) -> Map<K::V, V>;
}
impl<K: View, V> HashMap<K, V> {
    /// `HashMap::get`
    #[verifier::external_body]
    pub fn get(&self, k: &K) -> (r: Option<&V>)
        ensures r == (if self@.contains_key(k@) { Some(&self@[k@]) } else { None }),
    { unimplemented!() }
    /// `HashMap::get_mut`: a mutable reference to the stored value; whatever is written through
    /// it is the entry's new value, no other entry changes
    #[verifier::external_body]
    pub fn get_mut(&mut self, k: &K) -> (r: Option<&mut V>)
        ensures
            r is Some <==> old(self)@.contains_key(k@),
            r matches Some(v) ==> *v == old(self)@[k@] && final(self)@ == old(self)@.insert(k@, *final(v)),
            r is None ==> final(self)@ == old(self)@,
    { unimplemented!() }
    /// `HashMap::insert`: "If the map did have this key present, the value is updated, and the old value is returned"
    #[verifier::external_body]
    pub fn insert(&mut self, k: K, v: V) -> (r: Option<V>)
        ensures final(self)@ == old(self)@.insert(k@, v),
    { unimplemented!() }
    /// `HashMap::contains_key`
    #[verifier::external_body]
    pub fn contains_key(&self, k: &K) -> (r: bool)
        ensures r == self@.contains_key(k@),
    { unimplemented!() }
    /// `HashMap::remove`: "Removes a key from the map, returning the value at the key if the key was previously in the map"
    #[verifier::external_body]
    pub fn remove(&mut self, k: &K) -> (r: Option<V>)
        ensures
            final(self)@ == old(self)@.remove(k@),
            r == (if old(self)@.contains_key(k@) { Some(old(self)@[k@]) } else { None }),
    { unimplemented!() }
}

// ---- external files (feature "files") ---------------------------------------------------------
/// `sos_external_files::FileMutationEvent` — opaque
#[verifier::external_body]
pub struct FileMutationEvent { _p: () }
/// `tokio::sync::mpsc::Sender<FileProgress>` — opaque
#[verifier::external_body]
pub struct FileProgressSender { _p: () }
/// crates/storage/client/src/lib.rs:79 `struct AccessOptions` with the channel type made opaque
pub struct AccessOptions {
    pub folder: Option<VaultId>,
    pub destination: Option<VaultId>,
    pub file_progress: Option<FileProgressSender>,
}
/// crates/storage/client/src/files/file_manager.rs `ExternalFileManager`: encrypted file blobs
/// and the file event log; it holds neither folders nor the search index.
#[verifier::external_body]
pub struct ExternalFileManager { _p: () }
impl ExternalFileManager {
    /// file_manager.rs:149 -> `write_update_checksum` (:410): `id = *secret_data.id()` (:421),
    /// `new_meta = secret_data.meta().clone()` (:514), `Some((id, SecretRow::new(id, new_meta,
    /// new_secret)))` (:542): the row to write back has the same id and the same meta data
    #[verifier::external_body]
    pub fn create_files(&mut self, summary: &Summary, secret_data: SecretRow, file_progress: &mut Option<FileProgressSender>)
        -> (r: ClResult<(Vec<FileMutationEvent>, Option<(SecretId, SecretRow)>)>)
        ensures r matches Ok((_, Some((wid, wrow)))) ==> wid@ == secret_data.id@ && wrow.id@ == secret_data.id@ && wrow.meta@ == secret_data.meta@,
    { unimplemented!() }
    /// file_manager.rs:160 `update_files`: the write-back row comes from `write_update_checksum(new_summary, new_secret, ..)`
    #[verifier::external_body]
    pub fn update_files(&mut self, old_summary: &Summary, new_summary: &Summary, old_secret: &SecretRow, new_secret: SecretRow, file_progress: &mut Option<FileProgressSender>)
        -> (r: ClResult<(Vec<FileMutationEvent>, Option<(SecretId, SecretRow)>)>)
        ensures r matches Ok((_, Some((wid, wrow)))) ==> wid@ == new_secret.id@ && wrow.id@ == new_secret.id@ && wrow.meta@ == new_secret.meta@,
    { unimplemented!() }
    /// file_manager.rs:232 `delete_files`
    #[verifier::external_body]
    pub fn delete_files(&self, summary: &Summary, secret_data: &SecretRow, targets: Option<Vec<&Secret>>, file_progress: &mut Option<FileProgressSender>)
        -> (r: ClResult<Vec<FileMutationEvent>>)
    { unimplemented!() }
    /// file_manager.rs:44 `append_file_mutation_events`: appends to the file event log
    #[verifier::external_body]
    pub fn append_file_mutation_events(&mut self, events: &[FileMutationEvent]) -> (r: ClResult<()>)
    { unimplemented!() }
}
/// `Vec<T>::as_slice` via deref coercion `&Vec<T> -> &[T]` at the call `append_file_mutation_events(&result.file_events)`

// ---- the storage traits (crates/storage/client/src/traits.rs) -----------------------------------
/// ghost state of a client storage: the in-memory folders (`folders()`), and the search index
/// (`search_index()` = `Option<AccountSearch>`, an `Arc<RwLock<SearchIndex>>`).  Declared on the
/// base trait so that every accessor can state what it leaves unchanged.
pub trait ClientBaseStorage {
    spec fn fmap(&self) -> Map<Seq<u8>, Folder>;
    spec fn idx(&self) -> Option<SearchIndex>;
    /// the in-memory folder summaries (`summaries(Internal)`)
    spec fn summ(&self) -> Seq<Summary>;
    /// the vaults persisted in the backend (vault files / folder rows), by folder id
    spec fn stored(&self) -> Map<Seq<u8>, VaultV>;
    /// traits.rs:86: Err(NotAuthenticated) unless a user is signed in
    fn guard_authenticated(&self, _t: Internal) -> (r: ClResult<()>);
    /// traits.rs:62
    fn account_id(&self) -> (r: &AccountId);
    /// traits.rs:68: the signed-in identity is a field of its own
    fn authenticated_user_mut(&mut self) -> (r: Option<&mut Identity>)
        ensures final(self).fmap() == old(self).fmap(), final(self).idx() == old(self).idx(), final(self).summ() == old(self).summ(), final(self).stored() == old(self).stored();
}
pub trait ClientFolderStorage: ClientBaseStorage {
    /// traits.rs:243
    fn folders(&self) -> (r: &HashMap<VaultId, Folder>)
        ensures r@ == self.fmap();
    /// traits.rs:246
    fn folders_mut(&mut self) -> (r: &mut HashMap<VaultId, Folder>)
        ensures r@ == old(self).fmap(), final(self).fmap() == final(r)@, final(self).idx() == old(self).idx(),
            final(self).summ() == old(self).summ(), final(self).stored() == old(self).stored();
    /// traits.rs:267 `fn list_folders(&self) -> &[Summary] { self.summaries(Internal).as_slice() }`.  R9: the slice
    /// is handed out as a snapshot that is not tied to the borrow of `self` — in the real code it is, and
    /// the search index can still be written while it is held (`initialize_search_index`) because the index
    /// sits behind its own `Arc<RwLock<..>>`; here the index is lent from `&mut self` (see `search_index`),
    /// which the borrow checker would refuse while a `&self` slice is alive.
    fn list_folders(&self) -> (r: &'static [Summary])
        ensures r@ == self.summ();
    /// traits.rs:272
    fn current_folder(&self) -> (r: Option<Summary>);
    /// traits.rs:287 `self.summaries(Internal).iter().find(predicate)`: `Iterator::find` returns an
    /// element on which the predicate answered true (bound `FnMut` read as `Fn`: the closures passed
    /// capture by shared reference only)
    fn find<F: Fn(&&Summary) -> bool>(&self, predicate: F) -> (r: Option<&Summary>)
        requires forall|s: &&Summary| #[trigger] predicate.requires((s,)),
        ensures
            r matches Some(s) ==> predicate.ensures((&s,), true) && self.summ().contains(*s),
            r is None ==> forall|i: int| 0 <= i < self.summ().len() ==> predicate.ensures((&&#[trigger] self.summ()[i],), false);
    /// traits.rs:411 `remove_folder_entry`: closes the folder if it is the open one,
    /// `self.folders_mut().remove(folder_id)`, `self.remove_summary(folder_id, Internal)`, `Ok(())`
    fn remove_folder_entry(&mut self, folder_id: &VaultId, _t: Internal) -> (r: ClResult<()>)
        ensures
            r is Ok, final(self).idx() == old(self).idx(), final(self).stored() == old(self).stored(),
            final(self).fmap() == old(self).fmap().remove(folder_id@),
            forall|s: Summary| #[trigger] final(self).summ().contains(s) ==> old(self).summ().contains(s) && s.sid() != folder_id@;
    /// traits.rs:348 `create_folder_entry(vault, reset_events, creation_time, Internal)`:
    /// `new_folder(&vault)` opens the folder persisted under `vault.id()` (file system:
    /// `Folder::from_path(vault_path(id))` decodes the vault FILE; database: `Folder::new` loads
    /// the folder rows) with a locked access point; with `reset_events` the event log is cleared
    /// and re-filled with the records of `FolderReducer::split(vault)` (fold unit
    /// [split_is_replay]; `EventRecord::encode_event` + the stream's decoder: C14 round trip);
    /// then `folders_mut().insert(folder_id, folder)`.
    fn create_folder_entry(&mut self, vault: Vault, reset_events: bool, creation_time: Option<&UtcDateTime>, _t: Internal) -> (r: ClResult<()>)
        ensures
            final(self).idx() == old(self).idx(), final(self).summ() == old(self).summ(), final(self).stored() == old(self).stored(),
            r is Ok ==> ({ let fid = vault_id(vault@); let f = final(self).fmap()[fid];
                final(self).fmap() == old(self).fmap().insert(fid, f) && !f.ap().unlocked()
                && (old(self).stored().contains_key(fid) ==> f.ap().vv() == old(self).stored()[fid])
                && (reset_events ==> replay(evs(f.log().rows())) == vault_view(vault@)) });
}
/// traits.rs:175 `ClientVaultStorage`
pub trait ClientVaultStorage: ClientBaseStorage {
    /// traits.rs:178: persists the vault (file system: encodes it to the vault file; database:
    /// upserts the folder row and replaces its secret rows)
    fn write_vault(&mut self, vault: &Vault, _t: Internal) -> (r: ClResult<()>)
        ensures
            final(self).fmap() == old(self).fmap(), final(self).idx() == old(self).idx(), final(self).summ() == old(self).summ(),
            r is Ok ==> final(self).stored() == old(self).stored().insert(vault_id(vault@), vault@);
    /// traits.rs:194: deletes the persisted vault (and its event log) of the folder
    fn remove_vault(&mut self, folder_id: &VaultId, _t: Internal) -> (r: ClResult<()>)
        ensures final(self).fmap() == old(self).fmap(), final(self).idx() == old(self).idx(), final(self).summ() == old(self).summ(),
            r is Ok ==> final(self).stored() == old(self).stored().remove(folder_id@),
            r is Err ==> final(self).stored() == old(self).stored() || final(self).stored() == old(self).stored().remove(folder_id@);
    /// traits.rs:212
    fn summaries_mut(&mut self, _t: Internal) -> (r: &mut Vec<Summary>)
        ensures r@ == old(self).summ(), final(self).summ() == final(r)@,
            final(self).fmap() == old(self).fmap(), final(self).idx() == old(self).idx(), final(self).stored() == old(self).stored();
    /// traits.rs:216 `summaries.push(summary); summaries.sort();`: the same summaries plus the new one
    fn add_summary(&mut self, summary: Summary, token: Internal)
        ensures
            final(self).fmap() == old(self).fmap(), final(self).idx() == old(self).idx(), final(self).stored() == old(self).stored(),
            final(self).summ().len() == old(self).summ().len() + 1,
            forall|s: Summary| #[trigger] final(self).summ().contains(s) <==> (old(self).summ().contains(s) || s == summary);
}
// ---- sos_sync (crates/sync/src/types.rs) -----------------------------------------------------
/// `sos_sync::Error` — opaque
#[derive(Debug)]
pub struct SyncError { pub _p: () }
impl From<SyncError> for ClientError {
    /// `#[from] sos_sync::Error`
    #[verifier::external_body]
    fn from(_e: SyncError) -> ClientError { ClientError::Other }
}
/// `IndexSet<TrackedFolderChange>` — what a UI is told about a merge; opaque
#[verifier::external_body]
pub struct TrackedFolderChanges { _p: () }
/// types.rs:213 `TrackedChanges` — opaque (none of the properties talks about it)
#[verifier::external_body]
pub struct TrackedChanges { _p: () }
impl TrackedChanges {
    /// types.rs:245: decodes the patch and normalises the events; no effect on storage
    #[verifier::external_body]
    pub fn new_folder_records(value: &Patch<WriteEvent>) -> (r: core::result::Result<TrackedFolderChanges, SyncError>) { unimplemented!() }
    /// types.rs:234
    #[verifier::external_body]
    pub fn add_tracked_folder_changes(&mut self, folder_id: &VaultId, changes: TrackedFolderChanges) { unimplemented!() }
}
/// types.rs:177 `MergeOutcome`: the two fields the extracted code touches (`tracked` is a Verus
/// keyword: the field is spelled `tracked_changes` here and renamed (R15) in the extracted text)
pub struct MergeOutcome { pub changes: u64, pub tracked_changes: TrackedChanges }
impl<T> Patch<T> {
    /// crates/core/src/events/patch.rs:37 `self.0.len()`
    #[verifier::external_body]
    pub fn len(&self) -> (r: usize)
        ensures r == self.records().len(),
    { unimplemented!() }
}

// ---- sos_vault::Vault accessors used by traits.rs --------------------------------------------
impl Vault {
    /// vault.rs `id()`: `&self.header.summary.id`
    #[verifier::external_body]
    pub fn id(&self) -> (r: &VaultId)
        ensures r@ == vault_id(self@),
    { unimplemented!() }
    /// vault.rs:857 `&self.header.summary`
    #[verifier::external_body]
    pub fn summary(&self) -> (r: &Summary)
        ensures r.sid() == vault_id(self@),
    { unimplemented!() }
}
impl Clone for Vault {
    /// `#[derive(Clone)]`: header and contents cloned
    #[verifier::external_body]
    fn clone(&self) -> (r: Vault) ensures r@ == self@, { unimplemented!() }
}
/// R7b: the bound `impl AsRef<[u8]> + Send` (vstd does not declare `AsRef`); std meaning at the
/// types it is used with (`&[u8]`, `&Vec<u8>`: the bytes themselves)
pub trait BytesRef {
    spec fn bytes(&self) -> Seq<u8>;
    fn as_ref(&self) -> (r: &[u8])
        ensures r@ == self.bytes();
}
impl BytesRef for &[u8] {
    open spec fn bytes(&self) -> Seq<u8> { (**self)@ }
    fn as_ref(&self) -> (r: &[u8]) { *self }
}
impl BytesRef for &Vec<u8> {
    open spec fn bytes(&self) -> Seq<u8> { (**self)@ }
    fn as_ref(&self) -> (r: &[u8]) { self.as_slice() }
}
/// R12: `$v.iter_mut().find($p)` on a `Vec<Summary>`: a mutable reference to the first element on
/// which `$p` answers true (`Iterator::find`), `None` if it answers false on all; what is
/// written through the reference replaces that element
#[verifier::external_body]
pub fn vfind_mut<'a, F: Fn(&Summary) -> bool>(v: &'a mut Vec<Summary>, p: F) -> (r: Option<&'a mut Summary>)
    requires forall|s: &Summary| #[trigger] p.requires((s,)),
    ensures
        r is None ==> final(v)@ == old(v)@ && forall|i: int| 0 <= i < old(v)@.len() ==> p.ensures((&#[trigger] old(v)@[i],), false),
        r matches Some(e) ==> exists|i: int| 0 <= i < old(v)@.len() && #[trigger] old(v)@[i] == *e && p.ensures((&old(v)@[i],), true) && final(v)@ == old(v)@.update(i, *final(e)),
{ unimplemented!() }

// ---- account level plumbing used by delete_folder / import_folder ------------------------------
/// `sos_core::AccountId` (crates/core/src/account.rs:14): 20 bytes
#[derive(Clone, Copy)]
pub struct AccountId(pub [u8; 20]);
/// `sos_core::events::FileEvent` — opaque here
#[verifier::external_body]
pub struct FileEvent { _p: () }
/// `sos_login::Identity` (crates/login/src/identity.rs): the signed-in user with the folder
/// passwords; it holds no folder of the storage and not the search index
#[verifier::external_body]
pub struct Identity { _p: () }
/// `sos_login::Error` — opaque
#[derive(Debug)]
pub struct LoginError { pub _p: () }
impl From<LoginError> for ClientError {
    /// `#[from] sos_login::Error`
    #[verifier::external_body]
    fn from(_e: LoginError) -> ClientError { ClientError::Other }
}
impl Identity {
    /// identity.rs:230 `remove_folder_password`
    #[verifier::external_body]
    pub fn remove_folder_password(&mut self, folder_id: &VaultId) -> (r: core::result::Result<(), LoginError>) { unimplemented!() }
}
impl ExternalFileManager {
    /// file_manager.rs:116 `delete_folder_files`: removes the encrypted blobs of the folder
    #[verifier::external_body]
    pub fn delete_folder_files(&self, folder_id: &VaultId) -> (r: ClResult<Vec<FileEvent>>) { unimplemented!() }
}
/// `sos_backend::FileEventLog` / `AccountEventLog` — other logs of the account; no property of this unit talks about them
#[verifier::external_body]
pub struct FileEventLog { _p: () }
impl FileEventLog {
    #[verifier::external_body]
    pub fn apply(&mut self, events: &[FileEvent]) -> (r: BkResult<()>) { unimplemented!() }
}
#[verifier::external_body]
pub struct AccountEventLog { _p: () }
impl AccountEventLog {
    #[verifier::external_body]
    pub fn apply(&mut self, events: &[AccountEvent]) -> (r: BkResult<()>) { unimplemented!() }
}
/// `sos_audit::AuditEvent` — opaque
#[verifier::external_body]
pub struct AuditEvent { _p: () }
impl From<(&AccountId, &AccountEvent)> for AuditEvent {
    /// crates/audit/src/event.rs:191
    #[verifier::external_body]
    fn from(value: (&AccountId, &AccountEvent)) -> AuditEvent { unimplemented!() }
}
impl vstd::std_specs::convert::FromSpecImpl<(&AccountId, &AccountEvent)> for AuditEvent {
    open spec fn obeys_from_spec() -> bool { false }
    open spec fn from_spec(v: (&AccountId, &AccountEvent)) -> AuditEvent { arbitrary() }
}
/// crates/backend/src/audit.rs:26 `append_audit_events`: hands the events to the audit providers
#[verifier::external_body]
pub fn append_audit_events(events: &[AuditEvent]) -> (r: BkResult<()>) { unimplemented!() }
/// R12: `for x in $v.drain(..)` (`Vec::drain(..)`: yields every element in order and leaves the
/// vector empty) is rewritten to `for x in it: vdrain(&mut $v)`
#[verifier::external_body]
pub fn vdrain<T>(v: &mut Vec<T>) -> (r: Vec<T>)
    ensures r@ == old(v)@, final(v)@.len() == 0,
{ unimplemented!() }
/// `<[T]>::to_vec` (alloc/src/slice.rs): "Copies `self` into a new `Vec`" — every element cloned, in order
pub assume_specification<T: Clone> [<[T]>::to_vec] (s: &[T]) -> (r: Vec<T>)
    ensures r@.len() == s@.len(), forall|i: int| 0 <= i < s@.len() ==> call_ensures(T::clone, (&s@[i],), #[trigger] r@[i]);
/// R12: `for (k, v) in &$m` on a `HashMap` (`hash_map::Iter`: "An iterator visiting all key-value pairs in
/// arbitrary order", every entry exactly once) is rewritten to `for (k, v) in it: vpairs(&$m)`
#[verifier::external_body]
pub fn vpairs<K: View, V>(m: &HashMap<K, V>) -> (r: Vec<(&K, &V)>)
    ensures
        forall|i: int| 0 <= i < r@.len() ==> m@.contains_key((#[trigger] r@[i]).0@) && m@[r@[i].0@] == *r@[i].1,
        forall|i: int, j: int| 0 <= i < j < r@.len() ==> (#[trigger] r@[i]).0@ != (#[trigger] r@[j]).0@,
        forall|k: K::V| #[trigger] m@.contains_key(k) ==> exists|i: int| 0 <= i < r@.len() && (#[trigger] r@[i]).0@ == k,
{ unimplemented!() }
/// `impl<T: Clone> ToOwned for [T]` (alloc/src/slice.rs): `to_owned` = `to_vec`, the same elements
pub assume_specification<T: Clone> [<[T] as std::borrow::ToOwned>::to_owned] (s: &[T]) -> (r: Vec<T>)
    ensures r@.len() == s@.len(), forall|i: int| 0 <= i < s@.len() ==> call_ensures(T::clone, (&s@[i],), #[trigger] r@[i]);
