// ===========================================================================
// prelude/tree_merkle.rs — stand-in for rs_merkle 1.5.0 (MerkleTree<Sha256>,
// MerkleProof<Sha256>, algorithms::Sha256) and the R12 helpers of unit `tree`.
//
// Sources read (crate rs_merkle, version 1.5.0):
//   src/merkle_tree.rs      MerkleTree::{new, from_leaves, root, proof, insert,
//                           append, commit, rollback, leaves, leaves_len,
//                           helper_node_tuples, uncommitted_diff}
//   src/partial_tree.rs     PartialTree::{build_tree, merge_unverified, root}
//   src/merkle_proof.rs     MerkleProof::{new, verify, root, proof_hashes}
//   src/utils/indices.rs    tree_depth, uneven_layers, proof_indices_by_layers,
//                           sibling_indices, parent_indices
//   src/hasher.rs           Hasher::concat_and_hash  (right == None => left, unhashed)
//   src/algorithms/sha256.rs
// Every `external_body` / `axiom` below is an ASSUMPTION (trusted base).
// ===========================================================================

// ---- digests and the hash function ----------------------------------------
// A hash value is a `[u8; 32]`; its spec view is the `Seq<u8>` of its bytes.
// SHA-256 itself is uninterpreted.
pub uninterp spec fn H(s: Seq<u8>) -> Seq<u8>;

/// **Axiom CR** — collision resistance idealised as injectivity.  NOT
/// broadcast: only lemmas that call it (and say so) depend on it.
pub axiom fn axiom_CR(a: Seq<u8>, b: Seq<u8>)
    requires H(a) == H(b),
    ensures a == b;

/// **Axiom LEN** — a SHA-256 output has 32 bytes (true of the real function;
/// needed to split `l ++ r` at the node boundary).  Together with CR this is
/// the usual idealisation (no proof may count the 2^256 values).  NOT
/// broadcast: only the lemmas that call it depend on it.
pub axiom fn axiom_H_len(a: Seq<u8>)
    ensures H(a).len() == 32;

/// "is the byte string of some encoded event" (what the event log hashes
/// into a leaf); uninterpreted here, the log unit instantiates it.
pub uninterp spec fn is_encoded_event(e: Seq<u8>) -> bool;
pub open spec fn is_digest(d: Seq<u8>) -> bool { exists|p: Seq<u8>| d == H(p) }
/// a leaf of a commit tree: the hash of an encoded event
pub open spec fn is_event_digest(d: Seq<u8>) -> bool {
    exists|e: Seq<u8>| is_encoded_event(e) && d == H(e)
}
pub open spec fn leaves_wf(l: Seq<Seq<u8>>) -> bool {
    forall|i: int| 0 <= i < l.len() ==> is_event_digest(#[trigger] l[i])
}

/// **Assumption DS** — domain separation that rs_merkle does not provide
/// (leaf and inner hashes are both plain SHA-256): no encoded event is the
/// concatenation of two digests.  Listed separately from CR.
pub axiom fn axiom_DS(x: Seq<u8>, y: Seq<u8>)
    requires is_digest(x), is_digest(y),
    ensures !is_encoded_event(x + y);

/// exec view helper: a vector of hashes as a sequence of byte sequences
pub open spec fn dview(v: Seq<[u8; 32]>) -> Seq<Seq<u8>> {
    Seq::new(v.len(), |i: int| v[i]@)
}
pub open spec fn oview(o: Option<[u8; 32]>) -> Option<Seq<u8>> {
    match o { Some(a) => Some(a@), None => None }
}

// ---- the tree rs_merkle builds ----------------------------------------------
/// One layer up (partial_tree.rs `build_tree`, hasher.rs `concat_and_hash`):
/// pairs hashed left to right, an odd last node promoted unhashed.
pub open spec fn up(l: Seq<Seq<u8>>) -> Seq<Seq<u8>> {
    Seq::new(((l.len() + 1) / 2) as nat, |i: int|
        if 2 * i + 1 < l.len() { H(l[2 * i] + l[2 * i + 1]) } else { l[2 * i] })
}
/// merkle_tree.rs `root()`: the single node of the top layer; None for no leaves.
pub open spec fn merkle_root(l: Seq<Seq<u8>>) -> Option<Seq<u8>>
    decreases l.len(),
{
    if l.len() == 0 { None }
    else if l.len() == 1 { Some(l[0]) }
    else { merkle_root(up(l)) }
}
/// utils/indices.rs `tree_depth`: bit length of the leaf count
pub open spec fn tree_depth(n: nat) -> nat
    decreases n,
{
    if n == 0 { 0 } else { 1 + tree_depth(n / 2) }
}

/// merkle_tree.rs `helper_node_tuples` for ONE index `j` of layer `cur`, over
/// `layers_left` layers: per layer the sibling `j^1` if that node exists.
pub open spec fn proof_hashes_from(cur: Seq<Seq<u8>>, j: nat, layers_left: nat) -> Seq<Seq<u8>>
    decreases layers_left,
{
    if layers_left == 0 { Seq::empty() } else {
        let s: nat = if j % 2 == 0 { j + 1 } else { (j - 1) as nat };
        let rest = proof_hashes_from(up(cur), j / 2, (layers_left - 1) as nat);
        if s < cur.len() { seq![cur[s as int]] + rest } else { rest }
    }
}
/// `MerkleTree::proof(&[i])` of a tree with committed leaves `l` (it walks all
/// `tree_depth(n) + 1` stored layers).
pub open spec fn proof_hashes(l: Seq<Seq<u8>>, i: nat) -> Seq<Seq<u8>> {
    if l.len() == 0 { Seq::empty() } else { proof_hashes_from(l, i, tree_depth(l.len()) + 1) }
}

/// merkle_proof.rs `root()` for ONE index: `depth_left` rounds; in a layer of
/// `cnt` nodes the node `j` has no sibling iff `cnt` is odd and `j == cnt-1`
/// (indices.rs `uneven_layers` / `proof_indices_by_layers`); otherwise the
/// next proof hash is consumed (Err when there is none); left/right by index
/// order; superfluous proof hashes are ignored.
pub open spec fn rfp(hs: Seq<Seq<u8>>, j: nat, node: Seq<u8>, cnt: nat, depth_left: nat) -> Option<Seq<u8>>
    decreases depth_left,
{
    if depth_left == 0 { Some(node) }
    else if cnt % 2 == 1 && j + 1 == cnt {
        rfp(hs, j / 2, node, (cnt + 1) / 2, (depth_left - 1) as nat)
    } else if hs.len() == 0 { None }
    else {
        let parent = if j % 2 == 0 { H(node + hs[0]) } else { H(hs[0] + node) };
        rfp(hs.skip(1), j / 2, parent, (cnt + 1) / 2, (depth_left - 1) as nat)
    }
}
/// `MerkleProof::root(&[i], &[leaf], total)`; `total == 0` gives an empty
/// partial tree, hence Err.
pub open spec fn root_from_proof(hs: Seq<Seq<u8>>, i: nat, leaf: Seq<u8>, total: nat) -> Option<Seq<u8>> {
    if total == 0 { None } else { rfp(hs, i, leaf, total, tree_depth(total)) }
}

/// multi-index proofs: nothing is promised beyond "verify returned a bool"
pub uninterp spec fn verify_multi(hs: Seq<Seq<u8>>, root: Seq<u8>, idx: Seq<usize>, leaves: Seq<Seq<u8>>, total: nat) -> bool;

/// `MerkleProof::verify`
pub open spec fn verify_spec(hs: Seq<Seq<u8>>, root: Seq<u8>, idx: Seq<usize>, leaves: Seq<Seq<u8>>, total: nat) -> bool {
    if idx.len() != leaves.len() { false }          // Error::leaves_indices_count_mismatch
    else if idx.len() == 0 { false }                // empty partial tree has no root
    else if idx.len() == 1 { root_from_proof(hs, idx[0] as nat, leaves[0], total) == Some(root) }
    else { verify_multi(hs, root, idx, leaves, total) }
}

// ---- algorithms::Sha256 -----------------------------------------------------
pub struct Sha256 { pub _p: () }
impl Sha256 {
    /// src/algorithms/sha256.rs: `Sha256::hash(data)` = SHA-256 of the bytes
    #[verifier::external_body]
    pub fn hash(data: &[u8]) -> (r: [u8; 32])
        ensures r@ == H(data@),
    { unimplemented!() }
}

// ---- MerkleTree -------------------------------------------------------------
/// committed leaves, uncommitted leaves, and for `rollback` the stack of
/// leaf sequences as they were before each (non-empty) commit
/// (merkle_tree.rs `history`: one diff per commit that had leaves).
pub ghost struct MerkleTreeV {
    pub leaves: Seq<Seq<u8>>,
    pub uncommitted: Seq<Seq<u8>>,
    pub history: Seq<Seq<Seq<u8>>>,
}

#[verifier::external_body]
#[verifier::reject_recursive_types(T)]
pub struct MerkleTree<T> { _p: core::marker::PhantomData<T> }

impl<T> View for MerkleTree<T> {
    type V = MerkleTreeV;
    uninterp spec fn view(&self) -> MerkleTreeV;
}

impl<T> Default for MerkleTree<T> {
    /// merkle_tree.rs: `Default::default() = Self::new()`
    #[verifier::external_body]
    fn default() -> (r: Self)
        ensures r@ == (MerkleTreeV { leaves: Seq::empty(), uncommitted: Seq::empty(), history: Seq::empty() }),
    { unimplemented!() }
}

impl<T> MerkleTree<T> {
    #[verifier::external_body]
    pub fn new() -> (r: Self)
        ensures r@ == (MerkleTreeV { leaves: Seq::empty(), uncommitted: Seq::empty(), history: Seq::empty() }),
    { unimplemented!() }

    /// `new` + `append` + `commit`
    #[verifier::external_body]
    pub fn from_leaves(leaves: &[[u8; 32]]) -> (r: Self)
        ensures
            r@.leaves == dview(leaves@),
            r@.uncommitted == Seq::<Seq<u8>>::empty(),
            r@.history == (if leaves@.len() == 0 { Seq::<Seq<Seq<u8>>>::empty() } else { seq![Seq::<Seq<u8>>::empty()] }),
    { unimplemented!() }

    /// (rs_merkle returns `&mut Self` for chaining; every call site in /repo
    /// discards it, so the stand-in returns `()`)
    #[verifier::external_body]
    pub fn insert(&mut self, leaf: [u8; 32])
        ensures final(self)@ == (MerkleTreeV { uncommitted: old(self)@.uncommitted.push(leaf@), ..old(self)@ }),
    { unimplemented!() }

    /// `Vec::append`: moves all hashes, leaves the argument empty
    /// (return value `&mut Self` dropped as for `insert`)
    #[verifier::external_body]
    pub fn append(&mut self, leaves: &mut Vec<[u8; 32]>)
        ensures
            final(self)@ == (MerkleTreeV { uncommitted: old(self)@.uncommitted + dview(old(leaves)@), ..old(self)@ }),
            final(leaves)@.len() == 0,
    { unimplemented!() }

    /// nothing happens when there are no uncommitted leaves
    #[verifier::external_body]
    pub fn commit(&mut self)
        ensures
            old(self)@.uncommitted.len() == 0 ==> final(self)@ == old(self)@,
            old(self)@.uncommitted.len() > 0 ==> final(self)@ == (MerkleTreeV {
                leaves: old(self)@.leaves + old(self)@.uncommitted,
                uncommitted: Seq::empty(),
                history: old(self)@.history.push(old(self)@.leaves),
            }),
    { unimplemented!() }

    /// drops the last commit; the uncommitted leaves are NOT touched
    #[verifier::external_body]
    pub fn rollback(&mut self)
        ensures
            final(self)@.uncommitted == old(self)@.uncommitted,
            old(self)@.history.len() == 0 ==> final(self)@.leaves == Seq::<Seq<u8>>::empty() && final(self)@.history == old(self)@.history,
            old(self)@.history.len() > 0 ==> final(self)@.leaves == old(self)@.history.last()
                && final(self)@.history == old(self)@.history.drop_last(),
    { unimplemented!() }

    #[verifier::external_body]
    pub fn root(&self) -> (r: Option<[u8; 32]>)
        ensures oview(r) == merkle_root(self@.leaves),
    { unimplemented!() }

    /// None when nothing is committed
    #[verifier::external_body]
    pub fn leaves(&self) -> (r: Option<Vec<[u8; 32]>>)
        ensures
            r.is_some() <==> self@.leaves.len() > 0,
            r.is_some() ==> dview(r.unwrap()@) == self@.leaves,
    { unimplemented!() }

    #[verifier::external_body]
    pub fn leaves_len(&self) -> (r: usize)
        ensures r == self@.leaves.len(),
    { unimplemented!() }

    /// specified for one in-range index only
    #[verifier::external_body]
    pub fn proof(&self, leaf_indices: &[usize]) -> (r: MerkleProof<T>)
        ensures
            leaf_indices@.len() == 1 && leaf_indices@[0] < self@.leaves.len()
                ==> r@ == proof_hashes(self@.leaves, leaf_indices@[0] as nat),
    { unimplemented!() }
}

// ---- MerkleProof ------------------------------------------------------------
#[verifier::external_body]
#[verifier::reject_recursive_types(T)]
pub struct MerkleProof<T> { _p: core::marker::PhantomData<T> }

impl<T> View for MerkleProof<T> {
    type V = Seq<Seq<u8>>;      // proof_hashes
    uninterp spec fn view(&self) -> Seq<Seq<u8>>;
}

impl<T> MerkleProof<T> {
    #[verifier::external_body]
    pub fn new(proof_hashes: Vec<[u8; 32]>) -> (r: Self)
        ensures r@ == dview(proof_hashes@),
    { unimplemented!() }

    #[verifier::external_body]
    pub fn proof_hashes(&self) -> (r: &[[u8; 32]])
        ensures dview(r@) == self@,
    { unimplemented!() }

    #[verifier::external_body]
    pub fn verify(&self, root: [u8; 32], leaf_indices: &[usize], leaf_hashes: &[[u8; 32]], total_leaves_count: usize) -> (r: bool)
        ensures r == verify_spec(self@, root@, leaf_indices@, dview(leaf_hashes@), total_leaves_count as nat),
    { unimplemented!() }
}

// ---- R12 helpers (std meaning) ------------------------------------------------
/// the `ls[i]` for the `i < ls.len()`, in the order of `idx`
pub open spec fn gather<T>(ls: Seq<T>, idx: Seq<usize>) -> Seq<T>
    decreases idx.len(),
{
    if idx.len() == 0 { Seq::empty() } else {
        let rest = gather(ls, idx.drop_first());
        if idx[0] < ls.len() { seq![ls[idx[0] as int]] + rest } else { rest }
    }
}

/// R12: `$idx.iter().filter_map(|i| $ls.get(*i).cloned()).collect::<Vec<_>>()` and
/// `$idx.iter().filter_map(|i| $ls.get(*i)).copied().collect::<Vec<_>>()`
#[verifier::external_body]
pub fn vgather<T: Copy>(ls: &[T], idx: &[usize]) -> (r: Vec<T>)
    ensures r@ == gather(ls@, idx@),
{
    idx.iter().filter_map(|i| ls.get(*i).cloned()).collect::<Vec<_>>()
}

// ---- `$idx.iter().filter_map($closure)[.copied()].collect::<Vec<_>>()` with the
// closure kept as extracted code ------------------------------------------------
/// `<[T]>::get(i)` as a value (std: `Some(&s[i])` iff `i < s.len()`)
pub open spec fn get_spec<T>(ls: Seq<T>, i: usize) -> Option<T> {
    if i < ls.len() { Some(ls[i as int]) } else { None }
}
/// value of an `Option<&T>`
pub open spec fn oref_val<T>(o: Option<&T>) -> Option<T> { match o { Some(x) => Some(*x), None => None } }
/// the `Some` payloads, in order (what `filter_map` keeps)
pub open spec fn flat<T>(os: Seq<Option<T>>) -> Seq<T>
    decreases os.len(),
{
    if os.len() == 0 { Seq::empty() } else {
        let rest = flat(os.drop_first());
        match os[0] { Some(x) => seq![x] + rest, None => rest }
    }
}
pub open spec fn flat_ref<T>(os: Seq<Option<&T>>) -> Seq<T>
    decreases os.len(),
{
    if os.len() == 0 { Seq::empty() } else {
        let rest = flat_ref(os.drop_first());
        match os[0] { Some(x) => seq![*x] + rest, None => rest }
    }
}

/// R12: `$idx.iter().filter_map($f).collect::<Vec<_>>()` — std meaning
/// (iter/adapters/filter_map.rs): `$f` is called once per element, in order; the
/// `Some` payloads are collected in that order.  The closure stays extracted
/// code; this contract only quantifies over ITS post-condition.
#[verifier::external_body]
pub fn vfilter_map_collect<U, F: Fn(&usize) -> Option<U>>(idx: &[usize], f: F) -> (r: Vec<U>)
    requires forall|i: &usize| #[trigger] f.requires((i,)),
    ensures exists|os: Seq<Option<U>>| #![trigger flat(os)] os.len() == idx@.len()
        && (forall|k: int| 0 <= k < idx@.len() ==> f.ensures((&idx@[k],), #[trigger] os[k]))
        && r@ == flat(os),
{ idx.iter().filter_map(f).collect::<Vec<_>>() }

/// R12: `$idx.iter().filter_map($f).copied().collect::<Vec<_>>()` — as above, the
/// payloads are references that `.copied()` dereferences.
#[verifier::external_body]
pub fn vfilter_map_copied_collect<'a, T: Copy + 'a, F: Fn(&usize) -> Option<&'a T>>(idx: &[usize], f: F) -> (r: Vec<T>)
    requires forall|i: &usize| #[trigger] f.requires((i,)),
    ensures exists|os: Seq<Option<&T>>| #![trigger flat_ref(os)] os.len() == idx@.len()
        && (forall|k: int| 0 <= k < idx@.len() ==> f.ensures((&idx@[k],), #[trigger] os[k]))
        && r@ == flat_ref(os),
{ idx.iter().filter_map(f).copied().collect::<Vec<_>>() }

/// R12: `$o.cloned()` on an `Option<&T>` at element types that are `Copy`
/// ([u8; 32]): `Option::cloned` maps `Clone::clone`, which for a `Copy` type is
/// the bitwise copy (vstd does not specify `clone` of arrays).
#[verifier::external_body]
pub fn ocloned<T: Copy>(o: Option<&T>) -> (r: Option<T>)
    ensures r == oref_val(o),
{ o.cloned() }

/// a closure that answers `ls.get(i)` per index makes `filter_map` the `gather`
pub proof fn lemma_flat_gather<T>(os: Seq<Option<T>>, ls: Seq<T>, idx: Seq<usize>)
    requires os.len() == idx.len(), forall|k: int| 0 <= k < idx.len() ==> #[trigger] os[k] == get_spec(ls, idx[k]),
    ensures flat(os) == gather(ls, idx),
    decreases idx.len(),
{
    if idx.len() > 0 {
        lemma_flat_gather(os.drop_first(), ls, idx.drop_first());
        assert(os[0] == get_spec(ls, idx[0]));
    }
}
pub proof fn lemma_flat_ref_gather<T>(os: Seq<Option<&T>>, ls: Seq<T>, idx: Seq<usize>)
    requires os.len() == idx.len(), forall|k: int| 0 <= k < idx.len() ==> oref_val(#[trigger] os[k]) == get_spec(ls, idx[k]),
    ensures flat_ref(os) == gather(ls, idx),
    decreases idx.len(),
{
    if idx.len() > 0 {
        lemma_flat_ref_gather(os.drop_first(), ls, idx.drop_first());
        assert(oref_val(os[0]) == get_spec(ls, idx[0]));
    }
}

/// R12: `$s.to_vec()` at element types that are `Copy` (usize, [u8; 32]):
/// a vector holding the same elements
#[verifier::external_body]
pub fn vto_vec<T: Copy>(s: &[T]) -> (r: Vec<T>)
    ensures r@ == s@,
{
    s.to_vec()
}
