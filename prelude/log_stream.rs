// ===========================================================================
// prelude/log_stream.rs — assumed contracts used by unit `stream`
// (crates/filesystem/src/formats/stream.rs).  Included inside `mod pre` AFTER
// prelude/binary_stream.rs.  Every `external_body` here is an ASSUMPTION.
//
// Sources read:
//   binary-stream 10.0.0  src/futures/mod.rs   (stream_length, BinaryReader::new,
//                         BinaryReader::seek = `self.stream.seek(to)`)
//   tokio 1.48.0          src/io/async_read.rs / async_seek.rs (`impl AsyncRead/
//                         AsyncSeek for &mut T`), src/io/util/async_seek_ext.rs,
//                         src/fs/file.rs (File: AsyncRead + AsyncSeek)
//   crates/core/src/encoding/mod.rs:28  encoding_options()
// ===========================================================================

/// crates/core/src/encoding/mod.rs:28 `encoding_options()` is no longer assumed here:
/// unit `stream` EXTRACTS the function and its constant and pins the 16 MiB guard and
/// the little-endian order that are built into the BinaryReader stand-in
/// (`[decode_guard_is_16mib]`, `[layout_is_little_endian]`, as units/frag/codec_base.vrs does).

/// The bytes a seekable read stream (`R: AsyncRead + AsyncSeek`) holds.
/// Reading and seeking never change them.
pub uninterp spec fn rs_bytes<R>(r: R) -> Seq<u8>;

/// positions of a seekable stream are `u64` but `SeekFrom::End/Current` and
/// `off_t` are `i64`: no stream is longer than `i64::MAX` bytes.
pub spec const MAX_STREAM_LEN: nat = 0x7fff_ffff_ffff_ffff;

/// R7 by name resolution: Verus rejects the auto-trait bound `File: Unpin`
/// on a CONCRETE type ("does not recognize this trait bound").  `Unpin` is a
/// marker (pinning; no method, nothing a contract could mention); within this
/// unit the name resolves to this marker trait, implemented for the same
/// types std implements it for (`&mut T` always; tokio's `File`).
pub trait Unpin {}
impl<R> Unpin for &mut R {}
impl Unpin for File {}

/// tokio: `impl<T: ?Sized + AsyncRead + Unpin> AsyncRead for &mut T` (and AsyncSeek)
impl<R: AsyncRead> AsyncRead for &mut R {}
impl<R: AsyncSeek> AsyncSeek for &mut R {}

impl<'a, R> BinaryReader<&'a mut R> {
    /// `BinaryReader::new(&mut stream, options)`: the reader reads the borrowed
    /// stream, wherever its cursor currently is.  A reader only reads and
    /// seeks, so when the borrow ends the stream holds the same bytes.
    /// View convention **SAT**: `reader@.pos` is the cursor of the underlying
    /// stream SATURATED at the end of the data (a cursor beyond the end reads
    /// exactly like a cursor at the end: every read of >= 1 byte fails).
    #[verifier::external_body]
    pub fn new(stream: &'a mut R, options: Options) -> (r: Self)
        ensures
            r@.bytes == rs_bytes(*old(stream)),
            r@.wf(),
            r@.bytes.len() <= MAX_STREAM_LEN,
            rs_bytes(*final(stream)) == rs_bytes(*old(stream)),
    { unimplemented!() }
}

impl<R> BinaryReader<R> {
    /// R12 (per site, declared): `reader.seek(SeekFrom::Start(p))` for an
    /// arbitrary `p`.  tokio/std: seeking to any absolute position succeeds
    /// (also beyond the end of the data) or reports an I/O error; the data is
    /// not changed.  Under view convention SAT the new position is `min(p, len)`.
    /// (The shared `BinaryReader::seek` stand-in demands `p <= len`, which a
    /// reader of arbitrary bytes cannot promise.)
    #[verifier::external_body]
    pub fn seek_start(&mut self, p: u64) -> (r: Result<u64>)
        requires old(self)@.wf(),
        ensures
            final(self)@.bytes == old(self)@.bytes,
            final(self)@.wf(),
            r.is_ok() ==> final(self)@.pos == (if p as nat <= old(self)@.bytes.len() { p as nat } else { old(self)@.bytes.len() }),
            r.is_ok() ==> r.unwrap() == p,
    { unimplemented!() }
}

/// binary-stream src/futures/mod.rs:36: position saved, `seek(End(0))`, position restored
#[verifier::external_body]
pub fn stream_length<S>(stream: &mut S) -> (r: Result<u64>)
    ensures
        rs_bytes(*final(stream)) == rs_bytes(*old(stream)),
        r.is_ok() ==> r.unwrap() as nat == rs_bytes(*old(stream)).len(),
        rs_bytes(*old(stream)).len() <= MAX_STREAM_LEN,
{ unimplemented!() }

/// sos_vfs::File = tokio::fs::File (crates/vfs/src/os.rs): here only as the
/// seekable read stream `FormatStream::new_file` is given.
#[verifier::external_body]
pub struct File { _p: () }
impl AsyncRead for File {}
impl AsyncSeek for File {}
impl File {
    /// AsyncSeekExt::seek: moves the cursor, never the data
    #[verifier::external_body]
    pub fn seek(&mut self, to: SeekFrom) -> (r: Result<u64>)
        ensures rs_bytes(*final(self)) == rs_bytes(*old(self)),
    { unimplemented!() }
}

/// Named C15 obligations (no precondition on the stream content may be used to
/// discharge them): the two subtractions of `FormatStream::read_row_next_back`.
/// (Proved lemmas `P ==> P`; the `ensures` only keeps the implicit overflow
/// check of the same expression from being reported a second time.)
pub proof fn c15_row_pos_minus_4(row_pos: u64)
    requires row_pos >= 4, /*@PL:no_underflow_row_len_pos*/
    ensures row_pos >= 4,
{}
pub proof fn c15_row_start(row_pos: u64, row_len: u32)
    requires row_pos >= row_len as u64 + 8, /*@PL:no_underflow_row_start*/
    ensures row_pos >= row_len as u64 + 8,
{}

/// The same two obligations under the hypothesis `wf` = "the stream is a
/// well-formed row file and the backward cursor sits at the end of one of its
/// rows" (on well-formed files they follow from file_wf).
pub proof fn c15_row_pos_minus_4_wf(wf: bool, row_pos: u64)
    requires wf ==> row_pos >= 4, /*@PL:no_underflow_row_len_pos_on_wf_file*/
{}
pub proof fn c15_row_start_wf(wf: bool, row_pos: u64, row_len: u32)
    requires wf ==> row_pos >= row_len as u64 + 8, /*@PL:no_underflow_row_start_on_wf_file*/
{}
