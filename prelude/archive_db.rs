// ===========================================================================
// prelude/archive_db.rs — stand-ins for the database archive import
// (crates/database/src/archive/import.rs) of unit `archive`.  Included inside
// `mod pre` after archive_zip.rs.
// Every `external_body`, `uninterp spec fn` and `axiom` below is an ASSUMPTION.
// ===========================================================================

pub type IoResult<T> = core::result::Result<T, Error>;

/// std::io::Write (library/std/src/io/mod.rs), as far as the hashing writer uses it.
///   `accepted()`  the bytes this writer has reported as written so far (what reached / will
///                 reach the underlying sink),
///   `observed()`  the byte stream an observer attached to the writer has seen so far (for a
///                 plain sink the same as `accepted()`; for a tee / hashing wrapper what it fed
///                 to its observer).
/// Contract of `write` (std docs: "Writes a buffer into this writer, returning how many bytes
/// were written ... a call represents at most one attempt; Ok(n) guarantees n <= buf.len()"):
/// Ok(n) accepts exactly the first n bytes; an error accepts nothing.  Every provided method
/// (`write_all`, `write_fmt`, ...) composes `write` calls relying on exactly that, so a wrapper
/// must keep `observed()` in step with `accepted()`: this is a clause of the trait contract and
/// hence an OBLIGATION of every extracted implementation.
pub trait Write: Sized {
    spec fn accepted(&self) -> Seq<u8>;
    spec fn observed(&self) -> Seq<u8>;

    fn write(&mut self, buf: &[u8]) -> (r: IoResult<usize>)
        ensures
            r matches Ok(n) ==> n <= buf@.len() && final(self).accepted() == old(self).accepted() + buf@.take(n as int), /*@TL:Write::write:accepts_reported_prefix*/
            r matches Ok(n) ==> n <= buf@.len() && final(self).observed() == old(self).observed() + buf@.take(n as int), /*@TL:Write::write:observer_sees_reported_prefix*/
            r is Err ==> final(self).accepted() == old(self).accepted() && final(self).observed() == old(self).observed(); /*@TL:Write::write:error_accepts_nothing*/

    fn flush(&mut self) -> (r: IoResult<()>)
        ensures final(self).accepted() == old(self).accepted() && final(self).observed() == old(self).observed(); /*@TL:Write::flush:flush_keeps_streams*/

    /// std default method `write_all` (library/std/src/io/mod.rs `default_write_all`, read):
    ///   while !buf.is_empty() { match self.write(buf) {
    ///       Ok(0) => return Err(WriteZero), Ok(n) => buf = &buf[n..],
    ///       Err(ref e) if e.is_interrupted() => {}, Err(e) => return Err(e) } }  Ok(())
    /// Its postcondition follows from `write`'s contract by induction on the remaining buffer.
    #[verifier::external_body]
    fn write_all(&mut self, buf: &[u8]) -> (r: IoResult<()>)
        ensures
            r is Ok ==> final(self).accepted() == old(self).accepted() + buf@
                && final(self).observed() == old(self).observed() + buf@,
    { unimplemented!() }
}

/// R12: `&$s[..$n]` for `$s: &[u8]` (core::slice `Index<RangeTo<usize>>`): the first `$n` bytes; PANICS when
/// `$n > $s.len()` — that is the named call-site obligation [slice_in_bounds].
#[verifier::external_body]
pub fn slice_prefix<'a>(s: &'a [u8], n: usize) -> (r: &'a [u8])
    requires n <= s@.len(), /*@PL:slice_in_bounds*/
    ensures r@ == s@.take(n as int),
{ &s[..n] }

/// digest::Digest (digest-0.10.7 src/digest.rs) as a bound: `update` absorbs the bytes.
pub trait Digest: Sized {
    spec fn absorbed(&self) -> Seq<u8>;
    fn update(&mut self, data: &[u8])
        ensures final(self).absorbed() == old(self).absorbed() + data@;
}
impl Digest for Sha256 {
    open spec fn absorbed(&self) -> Seq<u8> { self@ }
    #[verifier::external_body]
    fn update(&mut self, data: &[u8]) { unimplemented!() }
}

/// std::fs::File behind `NamedTempFile::as_file_mut` (opaque)
#[verifier::external_body]
pub struct StdFile { _p: () }
/// tempfile-3.x `NamedTempFile`: a file in the OS temp directory, deleted on drop.  It is NOT
/// part of the ghost file system `Fs` (which models the account storage).
#[verifier::external_body]
pub struct NamedTempFile { _p: () }
impl NamedTempFile {
    #[verifier::external_body]
    pub fn new() -> (r: IoResult<NamedTempFile>) { unimplemented!() }
    #[verifier::external_body]
    pub fn as_file_mut(&mut self) -> (r: &mut StdFile) { unimplemented!() }
    #[verifier::external_body]
    pub fn path(&self) -> (r: &Path) { unimplemented!() }
}
/// std::io::BufWriter<&mut std::fs::File> (library/std/src/io/buffered/bufwriter.rs): a sink;
/// `write` may be SHORT (for `buf.len() >= capacity` it is one `write(2)` on the file, which the
/// kernel caps at 0x7ffff000 bytes on Linux) and may fail with `Interrupted`.
/// (R15: named `StdBufWriter` here; `BufWriter` in prelude/files_fs.rs is tokio's.)
#[verifier::external_body]
#[verifier::reject_recursive_types(W)]
pub struct StdBufWriter<W> { _w: core::marker::PhantomData<W> }
impl<'a> StdBufWriter<&'a mut StdFile> {
    #[verifier::external_body]
    pub fn new(inner: &'a mut StdFile) -> (r: StdBufWriter<&'a mut StdFile>)
        ensures r.accepted() == Seq::<u8>::empty(),
    { unimplemented!() }
}
impl<'a> Write for StdBufWriter<&'a mut StdFile> {
    uninterp spec fn accepted(&self) -> Seq<u8>;
    open spec fn observed(&self) -> Seq<u8> { self.accepted() }
    #[verifier::external_body]
    fn write(&mut self, buf: &[u8]) -> (r: IoResult<usize>) { unimplemented!() }
    #[verifier::external_body]
    fn flush(&mut self) -> (r: IoResult<()>) { unimplemented!() }
}

/// rusqlite::Connection (rusqlite-0.3x src/lib.rs `Connection::open`: flags READ_WRITE | CREATE —
/// opening CREATES the database file when it does not exist).  The set of databases the process
/// has opened is made explicit (same device as R20 for the file system): `dbw.opened` is the log
/// of paths handed to `Connection::open`.
pub ghost struct DbWorldV { pub opened: Seq<Seq<char>> }
#[verifier::external_body]
pub struct DbWorld { _p: () }
impl View for DbWorld {
    type V = DbWorldV;
    uninterp spec fn view(&self) -> DbWorldV;
}
#[verifier::external_body]
pub struct Connection { _p: () }
#[derive(Debug)]
pub struct SqliteError { pub _p: () }
impl Connection {
    #[verifier::external_body]
    pub fn open<P: PathLike>(dbw: &mut DbWorld, path: P) -> (r: core::result::Result<Connection, SqliteError>)
        ensures final(dbw)@.opened == old(dbw)@.opened.push(path.pv()),
    { unimplemented!() }
}

// R12: `$p.to_owned()` for `$p: &Path` (std `Path::to_owned` = `to_path_buf`) is `PathBuf::from($p)`
// (prelude/files_fs.rs); `$s.to_owned()` for `$s: &str` is `str_to_string` (archive_zip.rs).
