// ===========================================================================
// prelude/vault_rowcodec.rs — unit `vaultfile`: the codecs of a vault row's
// parts (CommitHash, AeadPack, VaultEntry, VaultCommit), extracted from /repo
// and proved here exactly as in unit `codec` (same directives, same lemmas,
// copied from units/frag/codec_base.vrs; repeated because a unit is one
// self-contained Verus file and this unit needs `Clone` contracts on the types).
// Included at top level after prelude/vault_core.rs.
// ===========================================================================
//@extract crates/core/src/commit/proof.rs :: impl AsRef<TreeHash> for CommitHash
//@  serves C01 C02 C12
//@  fn as_ref
//@    ensures [as_ref_is_field] *r == self.0
//@end

pub open spec fn enc_CommitHash(h: Seq<u8>) -> Seq<u8> { h }
pub open spec fn dec_CommitHash(s: Seq<u8>) -> Option<(Seq<u8>, Seq<u8>)> { r_bytes(s, 32) }
pub proof fn lemma_roundtrip_CommitHash(h: Seq<u8>, rest: Seq<u8>)
    requires h.len() == 32,
    ensures dec_CommitHash(enc_CommitHash(h) + rest) == Some((h, rest)),
{}

//@extract crates/core/src/encoding/v1/commit.rs :: impl Encodable for CommitHash
//@  serves C01 C02 C12
//@  inject type EV = Seq<u8>;
//@  inject open spec fn eview(&self) -> Seq<u8> { self.0@ }
//@  inject open spec fn enc_of(v: Seq<u8>) -> Seq<u8> { enc_CommitHash(v) }
//@  inject open spec fn enc_valid(v: Seq<u8>) -> bool { v.len() == 32 }
//@  fn encode
//@end

//@extract crates/core/src/encoding/v1/commit.rs :: impl Decodable for CommitHash
//@  serves C01 C02 C12
//@  inject type DV = Seq<u8>;
//@  inject open spec fn dview(&self) -> Seq<u8> { self.0@ }
//@  inject open spec fn dec_of(s: Seq<u8>) -> Option<(Seq<u8>, Seq<u8>)> { dec_CommitHash(s) }
//@  inject open spec fn dec_ready(&self) -> bool { true }
//@  fn decode
//@end


// ---- Nonce / AeadPack ---------------------------------------------------------

pub open spec fn valid_AeadPack(v: AeadPackV) -> bool {
    v.ct.len() <= MAX_BUFFER_SIZE && match v.nonce { NonceV::N12(b) => b.len() == 12, NonceV::N24(b) => b.len() == 24 }
}
#[verifier::opaque]
pub open spec fn enc_AeadPack(v: AeadPackV) -> Seq<u8> {
    (match v.nonce { NonceV::N12(b) => seq![12u8] + b, NonceV::N24(b) => seq![24u8] + b })
        + le32(v.ct.len() as u32) + v.ct
}
#[verifier::opaque]
pub open spec fn dec_AeadPack(s: Seq<u8>) -> Option<(AeadPackV, Seq<u8>)> {
    match r_u8(s) {
        None => None,
        Some((n, t)) => match r_bytes(t, n as nat) {
            None => None,
            Some((nb, u)) => if !(n == 12 || n == 24) { None } else {
                match r_u32(u) {
                    None => None,
                    Some((len, w)) => match r_bytes(w, len as nat) {
                        None => None,
                        Some((ct, x)) => Some((AeadPackV { nonce: if n == 12 { NonceV::N12(nb) } else { NonceV::N24(nb) }, ct: ct }, x)),
                    },
                }
            },
        },
    }
}
pub proof fn lemma_roundtrip_AeadPack(v: AeadPackV, rest: Seq<u8>)
    requires valid_AeadPack(v),
    ensures dec_AeadPack(enc_AeadPack(v) + rest) == Some((v, rest)),
{
    reveal(enc_AeadPack); reveal(dec_AeadPack);
    lemma_le32(v.ct.len() as u32);
    let l = le32(v.ct.len() as u32);
    match v.nonce {
        NonceV::N12(b) => {
            assert(enc_AeadPack(v) + rest =~= seq![12u8] + (b + (l + (v.ct + rest))));
            assert(r_u8(seq![12u8] + (b + (l + (v.ct + rest)))) == Some((12u8, b + (l + (v.ct + rest))))) by {
                lemma_take_n_concat(seq![12u8], b + (l + (v.ct + rest)));
            }
        }
        NonceV::N24(b) => {
            assert(enc_AeadPack(v) + rest =~= seq![24u8] + (b + (l + (v.ct + rest))));
            assert(r_u8(seq![24u8] + (b + (l + (v.ct + rest)))) == Some((24u8, b + (l + (v.ct + rest))))) by {
                lemma_take_n_concat(seq![24u8], b + (l + (v.ct + rest)));
            }
        }
    }
}

//@extract crates/core/src/encoding/v1/crypto.rs :: impl Encodable for AeadPack
//@  serves C01 C02 C12
//@  inject type EV = AeadPackV;
//@  inject open spec fn eview(&self) -> AeadPackV { self@ }
//@  inject open spec fn enc_of(v: AeadPackV) -> Seq<u8> { enc_AeadPack(v) }
//@  inject open spec fn enc_valid(v: AeadPackV) -> bool { valid_AeadPack(v) }
//@  fn encode
//@    hint start : proof { reveal(enc_AeadPack); }
//@end

//@extract crates/core/src/encoding/v1/crypto.rs :: impl Decodable for AeadPack
//@  serves C01 C02 C12
//@  inject type DV = AeadPackV;
//@  inject open spec fn dview(&self) -> AeadPackV { self@ }
//@  inject open spec fn dec_of(s: Seq<u8>) -> Option<(AeadPackV, Seq<u8>)> { dec_AeadPack(s) }
//@  inject open spec fn dec_ready(&self) -> bool { true }
//@  fn decode
//@    hint start : proof { reveal(dec_AeadPack); }
//@end


// ---- VaultEntry / VaultCommit ---------------------------------------------------

pub open spec fn valid_VaultEntry(v: VaultEntryV) -> bool { valid_AeadPack(v.meta) && valid_AeadPack(v.secret) }
#[verifier::opaque]
pub open spec fn enc_VaultEntry(v: VaultEntryV) -> Seq<u8> { enc_AeadPack(v.meta) + enc_AeadPack(v.secret) }
#[verifier::opaque]
pub open spec fn dec_VaultEntry(s: Seq<u8>) -> Option<(VaultEntryV, Seq<u8>)> {
    match dec_AeadPack(s) {
        None => None,
        Some((m, t)) => match dec_AeadPack(t) {
            None => None,
            Some((x, u)) => Some((VaultEntryV { meta: m, secret: x }, u)),
        },
    }
}
pub proof fn lemma_roundtrip_VaultEntry(v: VaultEntryV, rest: Seq<u8>)
    requires valid_VaultEntry(v),
    ensures dec_VaultEntry(enc_VaultEntry(v) + rest) == Some((v, rest)),
{
    reveal(enc_VaultEntry); reveal(dec_VaultEntry);
    assert(enc_VaultEntry(v) + rest =~= enc_AeadPack(v.meta) + (enc_AeadPack(v.secret) + rest));
    lemma_roundtrip_AeadPack(v.meta, enc_AeadPack(v.secret) + rest);
    lemma_roundtrip_AeadPack(v.secret, rest);
}
/// the row length written by the encoder is the entry length; the decoder ignores it
pub open spec fn valid_VaultCommit(v: VaultCommitV) -> bool { v.commit.len() == 32 && valid_VaultEntry(v.entry) }
#[verifier::opaque]
pub open spec fn enc_VaultCommit(v: VaultCommitV) -> Seq<u8> {
    v.commit + le32(enc_VaultEntry(v.entry).len() as u32) + enc_VaultEntry(v.entry)
}
#[verifier::opaque]
pub open spec fn dec_VaultCommit(s: Seq<u8>) -> Option<(VaultCommitV, Seq<u8>)> {
    match r_bytes(s, 32) {
        None => None,
        Some((c, t)) => match r_u32(t) {
            None => None,
            Some((_len, u)) => match dec_VaultEntry(u) {
                None => None,
                Some((e, w)) => Some((VaultCommitV { commit: c, entry: e }, w)),
            },
        },
    }
}
pub proof fn lemma_roundtrip_VaultCommit(v: VaultCommitV, rest: Seq<u8>)
    requires valid_VaultCommit(v),
    ensures dec_VaultCommit(enc_VaultCommit(v) + rest) == Some((v, rest)),
{
    reveal(enc_VaultCommit); reveal(dec_VaultCommit);
    let l = le32(enc_VaultEntry(v.entry).len() as u32);
    lemma_le32(enc_VaultEntry(v.entry).len() as u32);
    assert(enc_VaultCommit(v) + rest =~= v.commit + (l + (enc_VaultEntry(v.entry) + rest)));
    lemma_roundtrip_VaultEntry(v.entry, rest);
}

//@extract crates/core/src/encoding/v1/vault.rs :: impl Encodable for VaultEntry
//@  serves C01 C02 C12
//@  inject type EV = VaultEntryV;
//@  inject open spec fn eview(&self) -> VaultEntryV { self@ }
//@  inject open spec fn enc_of(v: VaultEntryV) -> Seq<u8> { enc_VaultEntry(v) }
//@  inject open spec fn enc_valid(v: VaultEntryV) -> bool { valid_VaultEntry(v) }
//@  fn encode
//@    hint start : proof { reveal(enc_VaultEntry); }
//@end
//@extract crates/core/src/encoding/v1/vault.rs :: impl Decodable for VaultEntry
//@  serves C01 C02 C12
//@  inject type DV = VaultEntryV;
//@  inject open spec fn dview(&self) -> VaultEntryV { self@ }
//@  inject open spec fn dec_of(s: Seq<u8>) -> Option<(VaultEntryV, Seq<u8>)> { dec_VaultEntry(s) }
//@  inject open spec fn dec_ready(&self) -> bool { true }
//@  fn decode
//@    hint start : proof { reveal(dec_VaultEntry); }
//@end
//@extract crates/core/src/encoding/v1/vault.rs :: impl Encodable for VaultCommit
//@  serves C01 C02 C12
//@  inject type EV = VaultCommitV;
//@  inject open spec fn eview(&self) -> VaultCommitV { self@ }
//@  inject open spec fn enc_of(v: VaultCommitV) -> Seq<u8> { enc_VaultCommit(v) }
//@  inject open spec fn enc_valid(v: VaultCommitV) -> bool { valid_VaultCommit(v) }
//@  fn encode
//@    hint start : proof { reveal(enc_VaultCommit); }
//@    hint before "let size_pos" : let ghost s1 = writer@;
//@    hint before "Ok(()) }" : proof {
//@      | let e = enc_VaultEntry(self.1@);
//@      | lemma_backpatch(s1, le32(0), e, le32(e.len() as u32));
//@      | assert(writer@.bytes == wr(s1, le32(e.len() as u32) + e).bytes);
//@      | assert(writer@ == wr(s1, le32(e.len() as u32) + e));
//@      | assert(self.0.0@ + (le32(e.len() as u32) + e) =~= enc_VaultCommit(self@));
//@      | }
//@end
//@extract crates/core/src/encoding/v1/vault.rs :: impl Decodable for VaultCommit
//@  serves C01 C02 C12
//@  inject type DV = VaultCommitV;
//@  inject open spec fn dview(&self) -> VaultCommitV { self@ }
//@  inject open spec fn dec_of(s: Seq<u8>) -> Option<(VaultCommitV, Seq<u8>)> { dec_VaultCommit(s) }
//@  inject open spec fn dec_ready(&self) -> bool { true }
//@  fn decode
//@    hint start : proof { reveal(dec_VaultCommit); }
//@end


// ---- Cipher / KeyDerivation -------------------------------------------------------
