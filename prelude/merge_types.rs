// ===========================================================================
// prelude/merge_types.rs — stand-ins of unit `merge` for everything the
// extracted auto-merge / server-helper code calls but that lives outside the
// unit.  Every `external_body` (and every bodiless trait method contract) below
// is an ASSUMPTION (trusted base); each names the source that was read.
// Included at top level (it talks about the extracted EventRecord, CommitProof,
// EventLogType, Patch/Diff/CheckedPatch and the protocol request/response types).
// ===========================================================================

// ---- opaque error types -------------------------------------------------------
/// sos_backend::Error (crates/backend/src/error.rs) — opaque
#[derive(Debug)]
pub struct BackendError { pub _p: () }
/// sos_core::Error (crates/core/src/error.rs) — opaque
#[derive(Debug)]
pub struct CoreError { pub _p: () }
impl From<CoreError> for BackendError {
    /// `#[from] sos_core::Error` variant of sos_backend::Error
    #[verifier::external_body]
    fn from(_e: CoreError) -> BackendError { BackendError { _p: () } }
}
pub mod sos_backend { pub type Error = super::BackendError; }
pub mod sos_core { pub type Error = super::CoreError; }

/// sos_protocol::ConflictError (crates/protocol/src/error.rs).  Only `Hard` is
/// constructed by the extracted code; the payload of `Soft` (MaybeConflict, two
/// SyncStatus) is never inspected there and is dropped.
pub enum ConflictError { Soft, Hard }
/// sos_protocol::AsConflict (crates/protocol/src/error.rs): classification of an
/// error value; no contract (the answers are the error type's business)
pub trait AsConflict {
    fn is_conflict(&self) -> bool;
    fn is_hard_conflict(&self) -> bool;
}

// ---- phantom event types --------------------------------------------------------
// The event type parameter of Patch<T>/Diff<T>/BackendEventLog<T> is a phantom in
// all extracted code (records travel encoded); unit structs stand for
// sos_core::events::{WriteEvent, AccountEvent, DeviceEvent, FileEvent}.
#[derive(Default)] pub struct WriteEvent { pub _p: () }
#[derive(Default)] pub struct AccountEvent { pub _p: () }
#[derive(Default)] pub struct DeviceEvent { pub _p: () }
#[derive(Default)] pub struct FileEvent { pub _p: () }
/// binary_stream::futures::{Encodable, Decodable}: only used as bounds here
pub trait Encodable {}
pub trait Decodable {}
impl Encodable for WriteEvent {} impl Decodable for WriteEvent {}
impl Encodable for AccountEvent {} impl Decodable for AccountEvent {}
impl Encodable for DeviceEvent {} impl Decodable for DeviceEvent {}
impl Encodable for FileEvent {} impl Decodable for FileEvent {}

/// sos_sync::MergeOutcome (crates/sync/src/types.rs): counters and tracked
/// changes for the UI; nothing the three properties talk about.  Only
/// `MergeOutcome::default()` and `&mut outcome` occur in the extracted code.
#[derive(Default)]
pub struct MergeOutcome { pub changes: u64 }

/// std::collections::HashSet<VaultId> as returned by `merge_account` (the set of
/// deleted folders; discarded by the extracted code via `.0`)
pub struct VaultIdSet { pub _p: () }

// ---- CommitProof / CommitTree: contracts PROVED in units/tree.vrs --------------
// (spec text copied from units/tree.vrs; labels named at each stand-in)
pub ghost struct CommitProofV {
    pub root: Seq<u8>,
    pub hashes: Seq<Seq<u8>>,
    pub length: nat,
    pub indices: Seq<usize>,
}
impl View for CommitProof {
    type V = CommitProofV;
    open spec fn view(&self) -> CommitProofV {
        CommitProofV { root: self.root.0@, hashes: self.proof@, length: self.length as nat, indices: self.indices@ }
    }
}
/// `p` is what `proof(&[i])` of a tree holding the leaf sequence `src` returns
pub open spec fn is_proof_of(p: CommitProofV, src: Seq<Seq<u8>>, i: nat) -> bool {
    &&& i < src.len()
    &&& merkle_root(src) == Some(p.root)
    &&& p.length == src.len()
    &&& p.indices.len() == 1 && p.indices[0] as nat == i
    &&& p.hashes == proof_hashes(src, i)
}
/// `p` is what `head()` of a tree holding the leaf sequence `src` returns
pub open spec fn is_head_proof_of(p: CommitProofV, src: Seq<Seq<u8>>) -> bool {
    src.len() > 0 && is_proof_of(p, src, (src.len() - 1) as nat)
}

impl CommitProof {
    /// crates/core/src/commit/proof.rs `CommitProof::verify_leaves`; tree unit labels
    /// [verified_means_same_leaf], [proof_verifies_across_lengths],
    /// [verify_leaves_matches_code_level_spec], [returns_gathered_leaves]
    #[verifier::external_body]
    pub fn verify_leaves(&self, leaves: &[TreeHash]) -> (r: (bool, Vec<TreeHash>))
        ensures
            forall|src: Seq<Seq<u8>>, i: nat| #![trigger is_proof_of(self@, src, i)]
                is_proof_of(self@, src, i) && i < leaves@.len() && dview(leaves@)[i as int] == src[i as int] ==> r.0,
            forall|src: Seq<Seq<u8>>, i: nat| #![trigger is_proof_of(self@, src, i)]
                is_proof_of(self@, src, i) && i < leaves@.len() && r.0 ==> dview(leaves@)[i as int] == src[i as int],
            r.0 == verify_spec(self@.hashes, self@.root, self@.indices, gather(dview(leaves@), self@.indices), self@.length as nat),
            dview(r.1@) == gather(dview(leaves@), self@.indices),
    { unimplemented!() }
}
impl CommitProof {
    /// crates/core/src/commit/proof.rs `CommitProof::root`; tree unit label [root_is_field]
    #[verifier::external_body]
    pub fn root(&self) -> (r: &CommitHash)
        ensures *r == self.root,
    { unimplemented!() }
    /// crates/core/src/commit/proof.rs `CommitProof::len`; tree unit label [len_is_field]
    #[verifier::external_body]
    pub fn len(&self) -> (r: usize)
        ensures r == self.length,
    { unimplemented!() }
    /// crates/core/src/commit/proof.rs `CommitProof::is_empty`; tree unit label [is_empty_is_len_zero]
    #[verifier::external_body]
    pub fn is_empty(&self) -> (r: bool)
        ensures r == (self.length == 0),
    { unimplemented!() }
}
impl Clone for CommitProof {
    /// crates/core/src/commit/proof.rs `impl Clone for CommitProof`; tree unit label [clone_keeps_view]
    #[verifier::external_body]
    fn clone(&self) -> (r: CommitProof)
        ensures r@ == self@,
    { unimplemented!() }
}

/// crates/core/src/commit/tree.rs `CommitTree` — committed leaf sequence `lv()`
/// and not yet committed `pending()` (tree unit: `inject`ed spec fns of the same names)
#[verifier::external_body]
pub struct CommitTree { _p: () }
impl CommitTree {
    pub uninterp spec fn lv(&self) -> Seq<Seq<u8>>;
    pub uninterp spec fn pending(&self) -> Seq<Seq<u8>>;
    /// tree unit [new_is_empty]
    #[verifier::external_body]
    pub fn new() -> (r: CommitTree)
        ensures r.lv() == Seq::<Seq<u8>>::empty(), r.pending() == Seq::<Seq<u8>>::empty(),
    { unimplemented!() }
    /// tree unit [append_extends_pending] (the `&mut Self` the real function returns
    /// for chaining is discarded at every call site of this unit)
    #[verifier::external_body]
    pub fn append(&mut self, hashes: &mut Vec<TreeHash>)
        ensures
            final(self).pending() == old(self).pending() + dview(old(hashes)@),
            final(self).lv() == old(self).lv(),
            final(hashes)@.len() == 0,
    { unimplemented!() }
    /// tree unit [commit_moves_pending]
    #[verifier::external_body]
    pub fn commit(&mut self)
        ensures
            final(self).lv() == old(self).lv() + old(self).pending(),
            final(self).pending() == Seq::<Seq<u8>>::empty(),
    { unimplemented!() }
    /// tree unit [len_is_committed_leaf_count]
    #[verifier::external_body]
    pub fn len(&self) -> (r: usize)
        ensures r == self.lv().len(),
    { unimplemented!() }
    /// tree unit [is_empty_iff_no_committed_leaf]
    #[verifier::external_body]
    pub fn is_empty(&self) -> (r: bool)
        ensures r == (self.lv().len() == 0),
    { unimplemented!() }
    /// tree unit [leaves_some_iff_nonempty], [leaves_are_committed_leaves]
    #[verifier::external_body]
    pub fn leaves(&self) -> (r: Option<Vec<TreeHash>>)
        ensures
            r.is_some() <==> self.lv().len() > 0,
            r.is_some() ==> dview(r.unwrap()@) == self.lv(),
    { unimplemented!() }
    /// tree unit [root_none_iff_empty], [root_is_merkle_root]
    #[verifier::external_body]
    pub fn root(&self) -> (r: Option<CommitHash>)
        ensures
            r.is_none() <==> self.lv().len() == 0,
            r.is_some() ==> merkle_root(self.lv()) == Some(r.unwrap().0@),
    { unimplemented!() }
    /// tree unit [insert_pushes_pending] (the `&mut Self` the real function returns for
    /// chaining is discarded, as for `append`)
    #[verifier::external_body]
    pub fn insert(&mut self, hash: TreeHash)
        ensures
            final(self).pending() == old(self).pending().push(hash@),
            final(self).lv() == old(self).lv(),
    { unimplemented!() }
    /// tree unit [proof_err_iff_empty], [proof_fields], [proof_of_one_index]
    #[verifier::external_body]
    pub fn proof(&self, leaf_indices: &[usize]) -> (r: core::result::Result<CommitProof, CoreError>)
        ensures
            r.is_err() <==> self.lv().len() == 0,
            r.is_ok() ==> merkle_root(self.lv()) == Some(r.unwrap()@.root) && r.unwrap()@.length == self.lv().len() && r.unwrap()@.indices == leaf_indices@,
            r.is_ok() && leaf_indices@.len() == 1 && leaf_indices@[0] < self.lv().len() ==> is_proof_of(r.unwrap()@, self.lv(), leaf_indices@[0] as nat),
    { unimplemented!() }
    /// tree unit [head_err_iff_empty], [head_is_proof_of_last_leaf]
    #[verifier::external_body]
    pub fn head(&self) -> (r: core::result::Result<CommitProof, CoreError>)
        ensures
            r.is_err() <==> self.lv().len() == 0,
            r.is_ok() ==> is_head_proof_of(r.unwrap()@, self.lv()),
    { unimplemented!() }
}

// ---- std helpers (R12: exact std meaning) -----------------------------------------
/// `Ord for UtcDateTime` (crates/core/src/date_time.rs: `#[derive(Ord, PartialOrd, ..)]` on
/// the newtype of `OffsetDateTime`; time-0.3 `offset_date_time.rs` compares the UTC instants)
/// as the `Ordering` it answers; agrees with `time_le`/`time_lt` of prelude/merge_spec.rs
pub open spec fn time_ord(a: Instant, b: Instant) -> core::cmp::Ordering {
    if time_lt(a, b) { core::cmp::Ordering::Less } else if a == b { core::cmp::Ordering::Equal } else { core::cmp::Ordering::Greater }
}
impl UtcDateTime {
    /// derived `Ord::cmp` (stand-in as an inherent method: the derive is dropped by R6)
    #[verifier::external_body]
    pub fn cmp(&self, other: &UtcDateTime) -> (o: core::cmp::Ordering)
        ensures o == time_ord(self.0@, other.0@),
    { unimplemented!() }
    /// derived `PartialOrd::partial_cmp` (`Some(self.cmp(other))`)
    #[verifier::external_body]
    pub fn partial_cmp(&self, other: &UtcDateTime) -> (o: Option<core::cmp::Ordering>)
        ensures o == Some(time_ord(self.0@, other.0@)),
    { unimplemented!() }
}
/// R12: `$v.sort_by($cmp)` — `slice::sort_by` is a STABLE sort (std docs: "This sort is
/// stable").  The comparator `$cmp` stays the repository's text: the unit wraps it in a
/// closure whose `ensures` says that it answers the order of the rows' instants
/// (`time_ord`), and Verus checks the real closure body against that.  Meaning under that
/// hypothesis: the result is a permutation of the input (multiset equality), sorted by
/// time, and rows with equal time keep their relative order.
#[verifier::external_body]
pub fn vsort_by<F: Fn(&EventRecord, &EventRecord) -> core::cmp::Ordering>(v: &mut Vec<EventRecord>, f: F)
    requires
        forall|a: &EventRecord, b: &EventRecord| #[trigger] f.requires((a, b)),
        forall|a: &EventRecord, b: &EventRecord, o: core::cmp::Ordering| #[trigger] f.ensures((a, b), o) ==> o == time_ord(a@.time, b@.time),
    ensures
        rv(final(v)@).to_multiset() == rv(old(v)@).to_multiset(),
        time_sorted(rv(final(v)@)),
        is_stable_time_sort_of(rv(final(v)@), rv(old(v)@)),
{ unimplemented!() }
/// R12: `$b.into_iter().filter($p)` with `$b: Vec<EventRecord>`, collected by the
/// `Vec::extend` it is handed to — `Iterator::filter` keeps the items on which the
/// closure answers true, in order.  The predicate `$p` stays the repository's text: the
/// unit wraps it in a closure whose `ensures` says that it answers "the row's commit is
/// not in `cs`" (Verus checks the real body against that); under that hypothesis the
/// kept rows are `drop_commits(b, cs)`.
#[verifier::external_body]
pub fn vfilter_not_in<F: Fn(&EventRecord) -> bool>(b: Vec<EventRecord>, f: F, Ghost(cs): Ghost<ISet<Seq<u8>>>) -> (r: Vec<EventRecord>)
    requires
        forall|x: &EventRecord| #[trigger] f.requires((x,)),
        forall|x: &EventRecord, k: bool| #[trigger] f.ensures((x,), k) ==> k == !cs.contains(x@.commit),
    ensures rv(r@) == drop_commits(rv(b@), cs),
{ unimplemented!() }
/// R12: `$a.extend($b)` with `$b: Vec<EventRecord>` (or the filtered rows above) —
/// `Vec::extend` appends the items in order
#[verifier::external_body]
pub fn vextend_vec(a: &mut Vec<EventRecord>, b: Vec<EventRecord>)
    ensures rv(final(a)@) == rv(old(a)@) + rv(b@), final(a)@.len() == old(a)@.len() + b@.len(),
{ unimplemented!() }
/// R12: `$v.clone()` on `Vec<EventRecord>` (`#[derive(Clone)] struct EventRecord`:
/// field-wise): a vector of equal rows
#[verifier::external_body]
pub fn vclone_records(v: &Vec<EventRecord>) -> (r: Vec<EventRecord>)
    ensures rv(r@) == rv(v@), r@.len() == v@.len(),
{ unimplemented!() }
/// R12: `$xs.iter().map($f).collect::<HashSet<_>>()` — the set of what `$f` answers on the
/// rows (`HashSet<&CommitHash>` for `|r| r.commit()`, `HashSet<CommitHash>` for the by-value
/// spelling `|r| *r.commit()`; `Hash`/`Eq` are derived on the 32 bytes and `&T` hashes and
/// compares as `T`, so both are the same set of byte strings).  The closure `$f` stays the
/// repository's text: the unit wraps it in a closure whose `ensures` says that it answers
/// the row's commit hash (Verus checks the real body against that); under that hypothesis
/// the collected set is the set of commit hashes of the rows.
pub struct CommitSet { pub s: Ghost<ISet<Seq<u8>>> }
#[verifier::external_body]
pub fn vcommit_set_by<F: Fn(&EventRecord) -> CommitHash>(xs: &Vec<EventRecord>, f: F) -> (r: CommitSet)
    requires
        forall|x: &EventRecord| #[trigger] f.requires((x,)),
        forall|x: &EventRecord, h: CommitHash| #[trigger] f.ensures((x,), h) ==> h.0@ == x@.commit,
    ensures r.s@ == commit_set(rv(xs@)),
{
    unimplemented!()
}
impl CommitSet {
    /// `HashSet::is_subset`
    #[verifier::external_body]
    pub fn is_subset(&self, other: &CommitSet) -> (r: bool)
        ensures r == self.s@.subset_of(other.s@),
    { unimplemented!() }
    /// `HashSet::is_superset` ("true if every value of other is in self")
    #[verifier::external_body]
    pub fn is_superset(&self, other: &CommitSet) -> (r: bool)
        ensures r == other.s@.subset_of(self.s@),
    { unimplemented!() }
    /// `HashSet::is_disjoint` ("true if self has no elements in common with other")
    #[verifier::external_body]
    pub fn is_disjoint(&self, other: &CommitSet) -> (r: bool)
        ensures r == self.s@.disjoint(other.s@),
    { unimplemented!() }
    /// `HashSet::contains` (the value is looked up by `Hash`/`Eq` of the 32 bytes)
    #[verifier::external_body]
    pub fn contains(&self, value: &CommitHash) -> (r: bool)
        ensures r == self.s@.contains(value.0@),
    { unimplemented!() }
    /// `HashSet::is_empty`
    #[verifier::external_body]
    pub fn is_empty(&self) -> (r: bool)
        ensures r == (self.s@ == ISet::<Seq<u8>>::empty()),
    { unimplemented!() }
    /// `HashSet::insert` ("returns whether the value was newly inserted")
    #[verifier::external_body]
    pub fn insert(&mut self, value: CommitHash) -> (r: bool)
        ensures final(self).s@ == old(self).s@.insert(value.0@), r == !old(self).s@.contains(value.0@),
    { unimplemented!() }
}
/// R12: `$o.unwrap_or_default()` on `Option<Vec<TreeHash>>`
pub fn vunwrap_or_default(o: Option<Vec<TreeHash>>) -> (r: Vec<TreeHash>)
    ensures r@ == (match o { Some(v) => v@, None => Seq::<TreeHash>::empty() }),
{
    match o { Some(v) => v, None => Vec::new() }
}
/// R12: `$v.last().copied()` on a vector of `Copy` items
#[verifier::external_body]
pub fn vlast_copied<T: Copy>(v: &Vec<T>) -> (r: Option<T>)
    ensures r == (if v@.len() > 0 { Some(v@[v@.len() - 1]) } else { None }),
{ unimplemented!() }
/// R12: `$v.first().copied()` on a vector of `Copy` items
#[verifier::external_body]
pub fn vfirst_copied<T: Copy>(v: &Vec<T>) -> (r: Option<T>)
    ensures r == (if v@.len() > 0 { Some(v@[0]) } else { None }),
{ unimplemented!() }
/// R12: `&$s[$a..=$b]` — the items `a ..= b`; the std slice index PANICS when `b >= len`
/// (or `b == usize::MAX`) or `a > b + 1`: precondition = bounds obligation
#[verifier::external_body]
pub fn vslice_incl<T>(s: &[T], a: usize, b: usize) -> (r: &[T])
    requires a as int <= b as int + 1, (b as int) < s@.len(),
    ensures r@ == s@.subrange(a as int, b as int + 1),
{ unimplemented!() }
/// R12: `&$s[$a..$b]` — the items `a .. b`; the std slice index PANICS when `b > len` or
/// `a > b`: precondition = bounds obligation
#[verifier::external_body]
pub fn vslice_excl<T>(s: &[T], a: usize, b: usize) -> (r: &[T])
    requires a <= b, b <= s@.len(),
    ensures r@ == s@.subrange(a as int, b as int),
{ unimplemented!() }
/// R12: `$s.to_vec()` on a slice of `Copy` items — a vector of the same items
#[verifier::external_body]
pub fn vto_vec<T: Copy>(s: &[T]) -> (r: Vec<T>)
    ensures r@ == s@,
{ unimplemented!() }
/// R12: `for x in $v.iter()` — the references to the items, in order
#[verifier::external_body]
pub fn viter<T>(v: &Vec<T>) -> (r: Vec<&T>)
    ensures r@.len() == v@.len(), forall|i: int| 0 <= i < v@.len() ==> *#[trigger] r@[i] == v@[i],
{ unimplemented!() }
/// R12: `for x in $v.iter().rev()` — the references to the items, last first
#[verifier::external_body]
pub fn viter_rev<T>(v: &Vec<T>) -> (r: Vec<&T>)
    ensures r@.len() == v@.len(), forall|i: int| 0 <= i < v@.len() ==> *#[trigger] r@[i] == v@[v@.len() - 1 - i],
{ unimplemented!() }

// ---- locks (R9) ----------------------------------------------------------------------
/// R9: `Arc<tokio::sync::RwLock<T>>` — `read()` gives `&T`, `write()` gives `&mut T`.
/// Assumption: nobody else mutates `T` while the caller holds the guard; what other
/// tasks do between two acquisitions is C09 and not covered.
pub struct VRwLock<T> { pub inner: T }
impl<T> VRwLock<T> {
    #[verifier::external_body]
    pub fn write(&mut self) -> (g: &mut T)
        ensures *g == old(self).inner, final(self).inner == *final(g),
    { &mut self.inner }
    #[verifier::external_body]
    pub fn read(&self) -> (g: &T)
        ensures *g == self.inner,
    { &self.inner }
}
/// R9: `Arc<tokio::sync::Mutex<T>>` — `lock()` gives `&mut T` (same assumption)
pub struct VMutex<T> { pub inner: T }
impl<T> VMutex<T> {
    #[verifier::external_body]
    pub fn lock(&mut self) -> (g: &mut T)
        ensures *g == old(self).inner, final(self).inner == *final(g),
    { &mut self.inner }
}

// ---- event log ------------------------------------------------------------------------
/// sos_backend::BackendEventLog<T> (crates/backend/src/event_log.rs: dispatches to
/// crates/filesystem/src/event_log.rs `FileSystemEventLog` or
/// crates/database/src/event_log.rs `DatabaseEventLog`; both were read).
/// Abstract state: the rows in log order.  These contracts are the C06/C07
/// obligations of unit `log`; here they are assumed.  I/O failures in the middle of
/// an operation (C13) are not modelled: an `Err` leaves the log as it was.
#[verifier::external_body]
#[verifier::reject_recursive_types(T)]
pub struct BackendEventLog<T> { _p: core::marker::PhantomData<T> }
pub type FolderEventLog = BackendEventLog<WriteEvent>;
pub type AccountEventLog = BackendEventLog<AccountEvent>;
pub type DeviceEventLog = BackendEventLog<DeviceEvent>;
pub type FileEventLog = BackendEventLog<FileEvent>;

/// the LAST position of commit `c` in `s` (arbitrary when absent)
pub open spec fn last_pos(s: Seq<Rec>, c: Seq<u8>) -> int { choose|k: int| is_last_pos(s, c, k) }

impl<T> BackendEventLog<T> {
    pub uninterp spec fn recs(&self) -> Seq<Rec>;

    /// `tree()`: the in-memory commit tree holds exactly the commit hashes of the
    /// rows, in order, all committed (LOG_INV of C06: `load_tree`, `apply_records`,
    /// `rewind` rebuild/extend the tree in step with the rows)
    #[verifier::external_body]
    pub fn tree(&self) -> (r: &CommitTree)
        ensures r.lv() == commits(self.recs()), r.pending() == Seq::<Seq<u8>>::empty(),
    { unimplemented!() }

    /// `rewind(commit)` — file system: iterates `self.iter(true)` (newest first),
    /// pushes every row onto `records` until it meets the row whose commit equals the
    /// target, truncates file and tree after that row, then `records.reverse()` and
    /// returns them; database: the same over `record_stream(true)`, `records.reverse()`
    /// before `Ok(records)`.  Hence: the log keeps the rows up to and including the LAST
    /// row with that commit, and the removed suffix is returned IN LOG ORDER (so that
    /// `apply_records` of it reverts the rewind).  `Err(CommitNotFound)` when no row has
    /// the commit.
    #[verifier::external_body]
    pub fn rewind(&mut self, commit: &CommitHash) -> (r: core::result::Result<Vec<EventRecord>, BackendError>)
        ensures
            match r {
                Ok(v) => {
                    let k = last_pos(old(self).recs(), commit.0@);
                    &&& is_last_pos(old(self).recs(), commit.0@, k)
                    &&& final(self).recs() == old(self).recs().take(k + 1)
                    &&& rv(v@) == old(self).recs().skip(k + 1)
                },
                Err(_) => final(self).recs() == old(self).recs(),
            },
    { unimplemented!() }

    /// `apply_records(records)` — appends the rows in the given order (file system:
    /// one buffer written with `append(true)`, tree `append` + `commit`; database:
    /// `insert_records(.., false)`)
    #[verifier::external_body]
    pub fn apply_records(&mut self, records: Vec<EventRecord>) -> (r: core::result::Result<(), BackendError>)
        ensures
            r.is_ok() ==> final(self).recs() == old(self).recs() + rv(records@),
            r.is_err() ==> final(self).recs() == old(self).recs(),
    { unimplemented!() }

    /// `diff_records(Some(commit))` — the rows after the LAST row with that commit,
    /// in log order (`events.insert(0, ..)` while iterating newest first);
    /// `Err(CommitNotFound)` when no row has the commit; `None`: all rows
    #[verifier::external_body]
    pub fn diff_records(&self, commit: Option<&CommitHash>) -> (r: core::result::Result<Vec<EventRecord>, BackendError>)
        ensures
            match (r, commit) {
                (Ok(v), Some(c)) => {
                    let k = last_pos(self.recs(), c.0@);
                    is_last_pos(self.recs(), c.0@, k) && rv(v@) == self.recs().skip(k + 1)
                },
                (Ok(v), None) => rv(v@) == self.recs(),
                (Err(_), _) => true,
            },
    { unimplemented!() }

    /// `record_stream(reverse)` — yields one item per row (file system: a spawned
    /// reader task feeding a channel, which ends EARLY when reading fails; database:
    /// a row stream).  Only the NUMBER of items matters to `scan_log`.
    #[verifier::external_body]
    pub fn record_stream(&self, reverse: bool) -> (r: RecordStream)
        ensures r.remaining() <= self.recs().len(),
    { unimplemented!() }
}

/// R8: `BoxStream<'_, Result<EventRecord, Error>>` after `pin_mut!` — a ghost count
/// of the items still to come
#[verifier::external_body]
pub struct RecordStream { _p: () }
impl RecordStream {
    pub uninterp spec fn remaining(&self) -> nat;
    /// `StreamExt::next`
    #[verifier::external_body]
    pub fn next(&mut self) -> (r: Option<core::result::Result<EventRecord, BackendError>>)
        ensures
            old(self).remaining() > 0 ==> r.is_some() && final(self).remaining() == old(self).remaining() - 1,
            old(self).remaining() == 0 ==> r.is_none() && final(self).remaining() == 0,
    { unimplemented!() }
}

// ---- storage / account ------------------------------------------------------------------
/// sos_sync::StorageEventLogs (crates/sync/src/traits.rs).  Ghost state: the rows of
/// every log (`logv`) and the ghost set of logs that were asked for (`touched`).
/// R9: the real accessors take `&self` and return `Arc<RwLock<Log>>` clones; here
/// they take `&mut self` and lend the lock, so that what is written through the
/// guard is the storage's new state.
pub trait StorageEventLogs: Sized {
    type Error: core::fmt::Debug + From<CoreError> + From<BackendError>;
    spec fn logv(&self, t: EventLogType) -> Seq<Rec>;
    spec fn touched(&self) -> Set<EventLogType>;

    fn identity_log(&mut self) -> (r: core::result::Result<&mut VRwLock<FolderEventLog>, Self::Error>)
        ensures
            final(self).touched() == old(self).touched().insert(EventLogType::Identity),
            forall|u: EventLogType| u != EventLogType::Identity ==> #[trigger] final(self).logv(u) == old(self).logv(u),
            match r {
                Ok(l) => l.inner.recs() == old(self).logv(EventLogType::Identity) && final(self).logv(EventLogType::Identity) == final(l).inner.recs(),
                Err(_) => final(self).logv(EventLogType::Identity) == old(self).logv(EventLogType::Identity),
            };
    fn account_log(&mut self) -> (r: core::result::Result<&mut VRwLock<AccountEventLog>, Self::Error>)
        ensures
            final(self).touched() == old(self).touched().insert(EventLogType::Account),
            forall|u: EventLogType| u != EventLogType::Account ==> #[trigger] final(self).logv(u) == old(self).logv(u),
            match r {
                Ok(l) => l.inner.recs() == old(self).logv(EventLogType::Account) && final(self).logv(EventLogType::Account) == final(l).inner.recs(),
                Err(_) => final(self).logv(EventLogType::Account) == old(self).logv(EventLogType::Account),
            };
    fn device_log(&mut self) -> (r: core::result::Result<&mut VRwLock<DeviceEventLog>, Self::Error>)
        ensures
            final(self).touched() == old(self).touched().insert(EventLogType::Device),
            forall|u: EventLogType| u != EventLogType::Device ==> #[trigger] final(self).logv(u) == old(self).logv(u),
            match r {
                Ok(l) => l.inner.recs() == old(self).logv(EventLogType::Device) && final(self).logv(EventLogType::Device) == final(l).inner.recs(),
                Err(_) => final(self).logv(EventLogType::Device) == old(self).logv(EventLogType::Device),
            };
    fn file_log(&mut self) -> (r: core::result::Result<&mut VRwLock<FileEventLog>, Self::Error>)
        ensures
            final(self).touched() == old(self).touched().insert(EventLogType::Files),
            forall|u: EventLogType| u != EventLogType::Files ==> #[trigger] final(self).logv(u) == old(self).logv(u),
            match r {
                Ok(l) => l.inner.recs() == old(self).logv(EventLogType::Files) && final(self).logv(EventLogType::Files) == final(l).inner.recs(),
                Err(_) => final(self).logv(EventLogType::Files) == old(self).logv(EventLogType::Files),
            };
    fn folder_log(&mut self, id: &VaultId) -> (r: core::result::Result<&mut VRwLock<FolderEventLog>, Self::Error>)
        ensures
            final(self).touched() == old(self).touched().insert(EventLogType::Folder(*id)),
            forall|u: EventLogType| u != EventLogType::Folder(*id) ==> #[trigger] final(self).logv(u) == old(self).logv(u),
            match r {
                Ok(l) => l.inner.recs() == old(self).logv(EventLogType::Folder(*id)) && final(self).logv(EventLogType::Folder(*id)) == final(l).inner.recs(),
                Err(_) => final(self).logv(EventLogType::Folder(*id)) == old(self).logv(EventLogType::Folder(*id)),
            };
}

/// when does `patch_checked(checkpoint, patch)` on a log with rows `l` apply the
/// patch: `CommitTree::compare` answers `Equal` exactly when the roots agree (tree
/// unit [compare_matches_code_level_spec]).  For the file log both `merge_files`
/// apply unchecked when the log is still empty and the diff is an initial one.
pub open spec fn patch_applies(l: Seq<Rec>, cp: CommitProofV, t: EventLogType) -> bool {
    merkle_root(commits(l)) == Some(cp.root) || (t == EventLogType::Files && l.len() == 0)
}
/// Contract shared by the five `Merge::merge_*` functions, read off
/// crates/storage/client/src/sync.rs and crates/storage/server/src/sync.rs
/// (`impl Merge for SyncImpl<T>`): each calls `patch_checked(&diff.checkpoint,
/// &diff.patch)` on the log of its type (file system / database `patch_checked`:
/// `Equal` => `apply_records(patch)`, `Success(head)`; otherwise `Conflict`, nothing
/// written) and, on `Success`, updates caches.  Work after a successful patch can
/// fail (`decode_event`, `import_folder`, ...): then `Err` is returned with the
/// patch applied.  `merge_account` creates / deletes folders as the account events
/// say, so for it folder logs are not framed (`acct`).
pub open spec fn merge_post<S: StorageEventLogs>(o: S, f: S, t: EventLogType, cp: CommitProofV, patch: Seq<Rec>, res: Option<CheckedPatch>, acct: bool) -> bool {
    &&& f.touched() == o.touched().insert(t)
    &&& forall|u: EventLogType| u != t && !(acct && u is Folder) ==> #[trigger] f.logv(u) == o.logv(u)
    &&& match res {
            Some(CheckedPatch::Success(_)) => f.logv(t) == o.logv(t) + patch && patch_applies(o.logv(t), cp, t),
            Some(CheckedPatch::Conflict { .. }) => f.logv(t) == o.logv(t) && merkle_root(commits(o.logv(t))) != Some(cp.root),
            None => f.logv(t) == o.logv(t) || f.logv(t) == o.logv(t) + patch,
        }
}
pub open spec fn ok_of<A, E>(r: core::result::Result<A, E>) -> Option<A> {
    match r { Ok(a) => Some(a), Err(_) => None }
}
/// sos_sync::Merge (crates/sync/src/traits.rs)
pub trait Merge: StorageEventLogs {
    fn merge_identity(&mut self, diff: FolderDiff, outcome: &mut MergeOutcome) -> (r: core::result::Result<CheckedPatch, Self::Error>)
        ensures merge_post(*old(self), *final(self), EventLogType::Identity, diff.checkpoint@, rv(diff.patch.0@), ok_of(r), false);
    fn merge_account(&mut self, diff: AccountDiff, outcome: &mut MergeOutcome) -> (r: core::result::Result<(CheckedPatch, VaultIdSet), Self::Error>)
        ensures merge_post(*old(self), *final(self), EventLogType::Account, diff.checkpoint@, rv(diff.patch.0@), match r { Ok(x) => Some(x.0), Err(_) => None }, true);
    fn merge_device(&mut self, diff: DeviceDiff, outcome: &mut MergeOutcome) -> (r: core::result::Result<CheckedPatch, Self::Error>)
        ensures merge_post(*old(self), *final(self), EventLogType::Device, diff.checkpoint@, rv(diff.patch.0@), ok_of(r), false);
    fn merge_files(&mut self, diff: FileDiff, outcome: &mut MergeOutcome) -> (r: core::result::Result<CheckedPatch, Self::Error>)
        ensures merge_post(*old(self), *final(self), EventLogType::Files, diff.checkpoint@, rv(diff.patch.0@), ok_of(r), false);
    fn merge_folder(&mut self, folder_id: &VaultId, diff: FolderDiff, outcome: &mut MergeOutcome) -> (r: core::result::Result<(CheckedPatch, Vec<WriteEvent>), Self::Error>)
        ensures merge_post(*old(self), *final(self), EventLogType::Folder(*folder_id), diff.checkpoint@, rv(diff.patch.0@), match r { Ok(x) => Some(x.0), Err(_) => None }, false);
}
/// sos_sync::SyncStorage, sos_account::Account: only used as bounds here
pub trait SyncStorage: Merge {}
pub trait Account {}

// ---- remote ------------------------------------------------------------------------------
/// sos_protocol::SyncClient (crates/protocol/src/traits.rs): the three calls the
/// auto-merge makes.  The answers are UNINTERPRETED: whatever the remote sends is
/// related to the request by an unconstrained predicate, so every contract below
/// holds for all possible answers.
pub trait SyncClient: Sized {
    type Error: core::fmt::Debug;
    spec fn scan_answers(&self, req: ScanRequest, resp: ScanResponse) -> bool;
    spec fn diff_answers(&self, req: DiffRequest, resp: DiffResponse) -> bool;
    spec fn patch_answers(&self, req: PatchRequest, resp: PatchResponse) -> bool;
    fn scan(&self, request: ScanRequest) -> (r: core::result::Result<ScanResponse, Self::Error>)
        ensures r matches Ok(x) ==> self.scan_answers(request, x);
    fn diff(&self, request: DiffRequest) -> (r: core::result::Result<DiffResponse, Self::Error>)
        ensures r matches Ok(x) ==> self.diff_answers(request, x);
    fn patch(&self, request: PatchRequest) -> (r: core::result::Result<PatchResponse, Self::Error>)
        ensures r matches Ok(x) ==> self.patch_answers(request, x);
}

/// crate::RemoteSyncHandler (crates/remote_sync/src/remote.rs), the part the
/// auto-merge uses.  R9: `account()` really returns `Arc<Mutex<Self::Account>>`
/// from `&self`; here it lends the mutex from `&mut self` so that the account state
/// (`acct()`) after the call is what was written through the guard.
pub trait RemoteSyncHandler: Sized {
    type Client: SyncClient;
    type Account: Account + SyncStorage;
    type Error: core::fmt::Debug
        + AsConflict
        + From<ConflictError>
        + From<CoreError>
        + From<BackendError>
        + From<<Self::Account as StorageEventLogs>::Error>
        + From<<Self::Client as SyncClient>::Error>;
    spec fn acct(&self) -> Self::Account;
    spec fn remote(&self) -> Self::Client;
    fn client(&self) -> (r: &Self::Client)
        ensures *r == self.remote();
    fn account(&mut self) -> (r: &mut VMutex<Self::Account>)
        ensures r.inner == old(self).acct(), final(self).acct() == final(r).inner, final(self).remote() == old(self).remote();
}

/// std `#[derive(Clone)]` on ScanRequest (crates/protocol/src/bindings/scan.rs):
/// field-wise; all three fields are `Copy`
impl Clone for ScanRequest {
    #[verifier::external_body]
    fn clone(&self) -> (r: ScanRequest)
        ensures r == *self,
    { ScanRequest { log_type: self.log_type, limit: self.limit, offset: self.offset } }
}
