// ===========================================================================
// prelude/account_acct.rs — stand-ins of unit `account` (module `c01`) for what
// crates/account/src/local_account.rs uses besides the client storage traits: the concrete
// `ClientStorage`, error / event / audit types.  Everything `external_body` / `uninterp` here
// is an ASSUMPTION; each names the source that was read.
// Included at top level inside `mod apre { use super::*; .. }`, after the storage traits.
// ===========================================================================

/// `sos_core::AccountId` (crates/core/src/account.rs: `[u8; 20]` newtype) — opaque, Copy
#[verifier::external_body]
#[derive(Clone, Copy)]
pub struct AccountId { _p: () }
/// `sos_core::Paths` — opaque
#[verifier::external_body]
pub struct Paths { _p: () }
/// `sos_backend::BackendTarget` — opaque
#[verifier::external_body]
pub struct BackendTarget { _p: () }

/// `sos_account::Error` (crates/account/src/error.rs, thiserror enum): the variants constructed
/// by the extracted code, the `#[from]` wrappers met on its `?` paths
pub enum AccountError {
    NoFolderPassword(VaultId),
    NoDefaultFolder,
    NoOpenFolder,
    PemEncoding,
    NoArchive,
    NotArchived,
    AlreadyArchived,
    /// `#[from] sos_core::Error`
    Core(CoreError),
    /// `#[from] sos_core::AuthenticationError`
    Authentication(AuthenticationError),
    /// `#[from] sos_backend::StorageError`
    BackendStorage(StorageError),
    /// `#[from] sos_client_storage::Error`
    Storage(ClientError),
    /// `#[from] sos_backend::Error`
    Backend(BackendError),
    Other,
}
#[verifier::external]
impl core::fmt::Debug for AccountError { fn fmt(&self, f: &mut core::fmt::Formatter<'_>) -> core::fmt::Result { Ok(()) } }
pub type AcResult<T> = core::result::Result<T, AccountError>;
impl From<CoreError> for AccountError {
    #[verifier::external_body]
    fn from(e: CoreError) -> AccountError { AccountError::Core(e) }
}
impl From<AuthenticationError> for AccountError {
    #[verifier::external_body]
    fn from(e: AuthenticationError) -> AccountError { AccountError::Authentication(e) }
}
impl From<StorageError> for AccountError {
    #[verifier::external_body]
    fn from(e: StorageError) -> AccountError { AccountError::BackendStorage(e) }
}
impl From<ClientError> for AccountError {
    #[verifier::external_body]
    fn from(e: ClientError) -> AccountError { AccountError::Storage(e) }
}
impl From<BackendError> for AccountError {
    #[verifier::external_body]
    fn from(e: BackendError) -> AccountError { AccountError::Backend(e) }
}

// ---- the concrete storage (crates/storage/client/src/storage.rs) --------------------------------
/// `sos_client_storage::ClientStorage` (storage.rs: `enum { FileSystem(..), Database(..) }`; every trait
/// method delegates to the variant).  Ghost state: `gst()`.
#[verifier::external_body]
pub struct ClientStorage { _p: () }
impl ClientStorage {
    pub uninterp spec fn gst(&self) -> StoreV;
    pub uninterp spec fn glogin(&self) -> Summary;
}
impl ClientBaseStorage for ClientStorage {
    open spec fn st(&self) -> StoreV { self.gst() }
    open spec fn login_sum(&self) -> Summary { self.glogin() }
    /// storage.rs -> filesystem.rs / database.rs `authenticated_user`: `self.authenticated_user.as_ref()`
    #[verifier::external_body]
    fn authenticated_user(&self) -> (r: Option<&Identity>) { unimplemented!() }
    /// storage.rs -> `&self.account_id`
    #[verifier::external_body]
    fn account_id(&self) -> &AccountId { unimplemented!() }
    /// storage.rs -> `self.authenticated.as_mut()`
    #[verifier::external_body]
    fn authenticated_user_mut(&mut self) -> (r: Option<&mut Identity>) { unimplemented!() }
}
impl ClientVaultStorage for ClientStorage {
    /// storage.rs -> filesystem.rs / database.rs `summaries`: `&self.summaries`
    #[verifier::external_body]
    fn summaries(&self, _t: Internal) -> (r: &Vec<Summary>) { unimplemented!() }
    /// storage.rs -> `&mut self.summaries`
    #[verifier::external_body]
    fn summaries_mut(&mut self, _t: Internal) -> (r: &mut Vec<Summary>) { unimplemented!() }
    /// storage.rs -> filesystem.rs:248 / database.rs `write_vault`
    #[verifier::external_body]
    fn write_vault(&mut self, vault: &Vault, _t: Internal) -> (r: ClResult<Vec<u8>>) { unimplemented!() }
}
impl ClientFolderStorage for ClientStorage {
    /// storage.rs -> `&self.folders`
    #[verifier::external_body]
    fn folders(&self) -> (r: &HashMap<VaultId, Folder>) { unimplemented!() }
    /// storage.rs -> `&mut self.folders`
    #[verifier::external_body]
    fn folders_mut(&mut self) -> (r: &mut HashMap<VaultId, Folder>) { unimplemented!() }
    /// storage.rs:313 -> filesystem.rs:349 / database.rs: `self.current.lock().clone()`
    #[verifier::external_body]
    fn current_folder(&self) -> (r: Option<Summary>) { unimplemented!() }
    /// storage.rs:320 -> filesystem.rs:354 / database.rs (same text)
    #[verifier::external_body]
    fn open_folder(&mut self, folder_id: &VaultId) -> (r: ClResult<ReadEvent>) { unimplemented!() }
    /// storage.rs -> filesystem.rs:326 / database.rs `new_folder`
    #[verifier::external_body]
    fn new_folder(&self, vault: &Vault, _t: Internal) -> (r: ClResult<Folder>) { unimplemented!() }
    /// storage.rs -> filesystem.rs:365 / database.rs `close_folder`
    #[verifier::external_body]
    fn close_folder(&mut self) { unimplemented!() }
    /// storage.rs -> `Ok(self.account_log.clone())`
    #[verifier::external_body]
    fn account_log(&mut self) -> (r: ClResult<&mut VRwLock<AccountEventLog>>) { unimplemented!() }
}
impl ClientAccountStorage for ClientStorage {
    /// storage.rs -> `self.external_file_manager.as_mut()`
    #[verifier::external_body]
    fn external_file_manager_mut(&mut self) -> (r: Option<&mut ExternalFileManager>) { unimplemented!() }
    /// storage.rs -> `self.index.as_ref()`
    #[verifier::external_body]
    fn search_index(&self) -> (r: Option<&AccountSearch>) { unimplemented!() }
    /// storage.rs: the trait's default `delete_folder` (traits.rs:1226; neither backend overrides it)
    #[verifier::external_body]
    fn delete_folder(&mut self, folder_id: &VaultId, apply_event: bool) -> (r: ClResult<Vec<Event>>) { unimplemented!() }
}

// ---- events ---------------------------------------------------------------------------------
/// `sos_core::events::Event` (crates/core/src/events/event.rs): the variants constructed here + catch-all
pub enum Event {
    Read(VaultId, ReadEvent),
    Write(VaultId, WriteEvent),
    MoveSecret(ReadEvent, WriteEvent, WriteEvent),
    Account(AccountEvent),
    Folder(AccountEvent, WriteEvent),
    Other,
}
/// event.rs:64 `impl TryFrom<Event> for (VaultId, WriteEvent)`: `Event::Write(vault_id, event) => Ok((vault_id, event)),
/// _ => panic!("not a write event")` — the panic arm is the precondition (call-site obligation)
#[verifier::external_body]
pub fn event_try_into_write(value: Event) -> (r: core::result::Result<(VaultId, WriteEvent), CoreError>)
    requires value is Write, /*@PL:try_into_write_needs_write_event*/
    ensures r is Ok,
{ unimplemented!() }

// ---- audit (feature "audit") — an append that can fail -----------------------------------------
/// `sos_audit::AuditEvent` — opaque
#[verifier::external_body]
pub struct AuditEvent { _p: () }
/// `sos_core::events::EventKind`: the kind named here + catch-all
pub enum EventKind { MoveSecret, Other }
/// `sos_audit::AuditData`: the variant constructed here + catch-all
pub enum AuditData {
    MoveSecret { from_vault_id: VaultId, to_vault_id: VaultId, from_secret_id: SecretId, to_secret_id: SecretId },
    Other,
}
/// `sos_core::UtcDateTime` — opaque, `Default` = now
#[verifier::external_body]
pub struct UtcDateTime { _p: () }
impl Default for UtcDateTime {
    #[verifier::external_body]
    fn default() -> (r: UtcDateTime) { unimplemented!() }
}
impl AuditEvent {
    /// crates/audit/src/lib.rs `AuditEvent::new`: a record
    #[verifier::external_body]
    pub fn new(date_time: UtcDateTime, event_kind: EventKind, account_id: AccountId, data: Option<AuditData>) -> (r: AuditEvent) { unimplemented!() }
}
impl From<(&AccountId, &Event)> for AuditEvent {
    /// crates/audit/src/lib.rs `impl From<(&AccountId, &Event)> for AuditEvent`: a record
    #[verifier::external_body]
    fn from(value: (&AccountId, &Event)) -> (r: AuditEvent) { unimplemented!() }
}
/// crates/backend/src/audit.rs `append_audit_events`: appends to the configured audit providers; may
/// fail; touches no folder
#[verifier::external_body]
pub fn append_audit_events(events: &[AuditEvent]) -> (r: BkResult<()>) { unimplemented!() }
