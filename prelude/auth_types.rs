// ===========================================================================
// prelude/auth_types.rs — stand-ins for the dependencies of the server's
// authentication path (unit `auth`, property C11 / C15).
// Every `external_body`, `uninterp spec fn` and `assume_specification` below
// is an ASSUMPTION.  Included at the top level of units/auth.vrs (it refers to
// items that are extracted from /repo there: AccountId, DevicePublicKey,
// AccessControlConfig, BinaryEd25519Signature).
// ===========================================================================

// ---- std idioms (R12) -------------------------------------------------------

/// R12: `$s.contains($c)` for `$s: &str`, `$c: char` (core::str::contains with a
/// char pattern): true iff some char of the string equals `$c`.
#[verifier::external_body]
pub fn str_contains_char(s: &str, c: char) -> (r: bool)
    ensures r == s@.contains(c),
{
    s.contains(c)
}

/// R12: `$s.starts_with($c)` / `$s.ends_with($c)` for `$s: &str`, `$c: char`
/// (core::str, char pattern): the first / last char of the string is `$c`.
/// Not used by the repository's code today; offered so that an edit of the
/// delimiter test in `BearerToken::new` still composes (and fails its labels).
#[verifier::external_body]
pub fn str_starts_with_char(s: &str, c: char) -> (r: bool)
    ensures r == (s@.len() > 0 && s@[0] == c),
{
    s.starts_with(c)
}
#[verifier::external_body]
pub fn str_ends_with_char(s: &str, c: char) -> (r: bool)
    ensures r == (s@.len() > 0 && s@[s@.len() - 1] == c),
{
    s.ends_with(c)
}

/// std String::as_bytes: the UTF-8 encoding of the characters (`utf8` is the
/// uninterpreted encoding function of prelude/base.rs).
pub assume_specification [std::string::String::as_bytes] (s: &std::string::String) -> (r: &[u8])
    ensures r@ == utf8(s@);

/// std::collections::HashSet<T> — only what the code under contract uses:
/// membership and by-value iteration.  Model: a mathematical set.
#[verifier::external_body]
#[verifier::reject_recursive_types(T)]
pub struct HashSet<T> { _v: Vec<T> }

impl<T> View for HashSet<T> {
    type V = Set<T>;
    uninterp spec fn view(&self) -> Set<T>;
}

/// `for x in set` (std IntoIterator for HashSet<T>): every element exactly once,
/// in an order the program cannot rely on.  The iterator type is std's
/// vec::IntoIter only so that vstd's for-loop support applies; the three
/// iterator facts are the ones vstd states for Vec::into_iter.
impl<T> IntoIterator for HashSet<T> {
    type Item = T;
    type IntoIter = std::vec::IntoIter<T>;
    #[verifier::external_body]
    fn into_iter(self) -> (r: std::vec::IntoIter<T>)
        ensures
            vstd::std_specs::iter::IteratorSpec::obeys_prophetic_iter_laws(&r),
            vstd::std_specs::iter::IteratorSpec::decrease(&r) is Some,
            forall|x: T| #[trigger] vstd::std_specs::iter::IteratorSpec::remaining(&r).contains(x) <==> self@.contains(x),
            vstd::std_specs::iter::IteratorSpec::remaining(&r).no_duplicates(),
    { unimplemented!() }
}

/// `#[derive(Clone)]` of AccessControlConfig needs it; never called by the code under contract
impl<T> Clone for HashSet<T> {
    #[verifier::external_body]
    fn clone(&self) -> (r: Self)
        ensures r@ == self@,
    { unimplemented!() }
}

/// R12: `$xs.iter().any(|$a| $a == $y)` on a HashSet (std meaning: membership;
/// `==` on AccountId is the derived structural equality).
/// (No longer used by units/auth.vrs: the closure is now kept as extracted
/// code and handed to `iter_any` below.)
#[verifier::external_body]
pub fn vcontains<T>(xs: &HashSet<T>, y: &T) -> (r: bool)
    ensures r == xs@.contains(*y),
{ unimplemented!() }

/// what a predicate closure answers on an element (named so that the
/// quantifiers below have a trigger)
pub open spec fn hs_pred<T, F: Fn(&T) -> bool>(f: F, x: T, b: bool) -> bool {
    f.ensures((&x,), b)
}

/// The commonly used read-only API of std::collections::HashSet over the set
/// model (std documentation: `contains` = membership, `len` = number of
/// elements, `is_empty` = `len() == 0`), and the two iterator idioms
/// `$xs.iter().any($p)` / `$xs.iter().all($p)` (core::iter::Iterator::any /
/// all over `hash_set::Iter`, which yields every element exactly once): `any`
/// answers true iff `$p` answered true on some element, `all` iff `$p` answered
/// true on every element.  `$p` stays the repository's closure; its
/// specification is written in the unit and Verus checks the real body against it.
impl<T> HashSet<T> {
    #[verifier::external_body]
    pub fn contains(&self, y: &T) -> (r: bool)
        ensures r == self@.contains(*y),
    { unimplemented!() }

    #[verifier::external_body]
    pub fn len(&self) -> (r: usize)
        ensures r == self@.len(),
    { unimplemented!() }

    #[verifier::external_body]
    pub fn is_empty(&self) -> (r: bool)
        ensures r == (forall|x: T| !self@.contains(x)),
    { unimplemented!() }

    /// R12: `$xs.iter().any($p)`
    #[verifier::external_body]
    pub fn iter_any<F: Fn(&T) -> bool>(&self, f: F) -> (r: bool)
        requires
            forall|x: &T| #[trigger] f.requires((x,)),
        ensures
            r ==> exists|x: T| #[trigger] self@.contains(x) && hs_pred(f, x, true),
            !r ==> forall|x: T| #[trigger] self@.contains(x) ==> hs_pred(f, x, false),
    { unimplemented!() }

    /// R12: `$xs.iter().all($p)`
    #[verifier::external_body]
    pub fn iter_all<F: Fn(&T) -> bool>(&self, f: F) -> (r: bool)
        requires
            forall|x: &T| #[trigger] f.requires((x,)),
        ensures
            r ==> forall|x: T| #[trigger] self@.contains(x) ==> hs_pred(f, x, true),
            !r ==> exists|x: T| #[trigger] self@.contains(x) && hs_pred(f, x, false),
    { unimplemented!() }
}

/// `#[derive(PartialEq, Eq)]` on `AccountId([u8; 20])` (crates/core/src/account.rs):
/// byte-wise, i.e. structural equality.  Needed now that the `|a| a == account_id`
/// closures of `is_allowed_access` are verified code.
impl PartialEq for AccountId {
    #[verifier::external_body]
    fn eq(&self, other: &Self) -> (r: bool)
        ensures r == (*self == *other),
    { self.0 == other.0 }
}
impl Eq for AccountId {}
impl vstd::std_specs::cmp::PartialEqSpecImpl for AccountId {
    open spec fn obeys_eq_spec() -> bool { true }
    open spec fn eq_spec(&self, other: &AccountId) -> bool { *self == *other }
}

/// std::collections::HashMap<K, V> — only `get`.
#[verifier::external_body]
#[verifier::reject_recursive_types(K)]
#[verifier::reject_recursive_types(V)]
pub struct HashMap<K, V> { _k: Vec<K>, _v: Vec<V> }

impl<K, V> View for HashMap<K, V> {
    type V = Map<K, V>;
    uninterp spec fn view(&self) -> Map<K, V>;
}

impl<K, V> HashMap<K, V> {
    #[verifier::external_body]
    pub fn get(&self, k: &K) -> (r: Option<&V>)
        ensures
            r.is_some() <==> self@.contains_key(*k),
            r.is_some() ==> *r.unwrap() == self@[*k],
    { unimplemented!() }

    /// std HashMap::contains_key: `self.get(k).is_some()`
    #[verifier::external_body]
    pub fn contains_key(&self, k: &K) -> (r: bool)
        ensures r == self@.contains_key(*k),
    { unimplemented!() }

    /// std HashMap::len / is_empty: number of entries
    #[verifier::external_body]
    pub fn len(&self) -> (r: usize)
        ensures r == self@.dom().len(),
    { unimplemented!() }

    #[verifier::external_body]
    pub fn is_empty(&self) -> (r: bool)
        ensures r == (forall|k: K| !self@.contains_key(k)),
    { unimplemented!() }
}

/// R9: tokio::sync::RwLock<T> (reached through Arc).  `read()` gives `&T` to
/// the protected value.  Stated assumption: no other task changes the value
/// while the extracted function runs (two reads in one function see the same
/// value); what happens between two requests is C09 and not covered.
/// Deliberately NO `write()`: an extracted function that asked for a write
/// guard would not compile (exit 2) — the functions under contract in this
/// unit can only read the server state.
#[verifier::external_body]
#[verifier::reject_recursive_types(T)]
pub struct RwLock<T> { _t: core::marker::PhantomData<T> }

impl<T> RwLock<T> {
    pub uninterp spec fn val(&self) -> T;

    #[verifier::external_body]
    pub fn read(&self) -> (r: &T)
        ensures *r == self.val(),
    { unimplemented!() }
}

// ---- base58 -------------------------------------------------------------------
/// bs58-0.4.0 src/decode.rs (`decode(input).into_vec()`, default alphabet, no
/// check): read: decode_into has no reachable panic — `alpha.decode[*c as
/// usize]` is a 128-entry table indexed after the `*c > 127` test, the output
/// buffer is as long as the input and is written through `get_mut(..).ok_or`.
/// So the call is total: Ok(bytes) or Err.  The decoding function itself is
/// uninterpreted.
pub mod bs58 {
    use vstd::prelude::*;
    pub uninterp spec fn decoded(s: Seq<char>) -> Option<Seq<u8>>;

    pub mod decode {
        #[derive(Debug)]
        pub struct Error { pub _p: () }
    }

    pub struct DecodeBuilder<'a> { pub input: &'a str }

    #[verifier::external_body]
    pub fn decode<'a>(input: &'a str) -> (r: DecodeBuilder<'a>)
        ensures r.input@ == input@,
    { unimplemented!() }

    impl<'a> DecodeBuilder<'a> {
        #[verifier::external_body]
        pub fn into_vec(self) -> (r: core::result::Result<Vec<u8>, decode::Error>)
            ensures
                r.is_ok() <==> decoded(self.input@).is_some(),
                r.is_ok() ==> r.unwrap()@ == decoded(self.input@).unwrap(),
        { unimplemented!() }
    }
}

// ---- ed25519 ------------------------------------------------------------------
/// ed25519-2.2.3 src/lib.rs `Signature`: 64 bytes (R ‖ s); `from_bytes` and
/// `From<[u8; 64]>` are infallible copies.
pub struct Signature { pub bytes: [u8; 64] }

impl View for Signature {
    type V = Seq<u8>;
    open spec fn view(&self) -> Seq<u8> { self.bytes@ }
}

impl Signature {
    pub const BYTE_SIZE: usize = 64;

    pub fn from_bytes(bytes: &[u8; 64]) -> (r: Signature)
        ensures r@ == bytes@,
    { Signature { bytes: *bytes } }

    /// ed25519-2.2.3 `Signature::to_bytes`: "Return the inner byte array" (R ‖ s)
    pub fn to_bytes(&self) -> (r: [u8; 64])
        ensures r@ == self@,
    { self.bytes }
}

impl FromSpecImpl<[u8; 64]> for Signature {
    open spec fn obeys_from_spec() -> bool { true }
    open spec fn from_spec(b: [u8; 64]) -> Signature { Signature { bytes: b } }
}
impl From<[u8; 64]> for Signature {
    fn from(b: [u8; 64]) -> (r: Signature) { Signature { bytes: b } }
}

/// `use ed25519_dalek::Signature;` inside BinaryEd25519Signature::decode
pub mod ed25519_dalek {
    pub use super::Signature;
}

/// signature::Error (= ed25519_dalek::SignatureError = k256::ecdsa::Error)
#[derive(Debug)]
pub struct SignatureError { pub _p: () }

/// the 32 bytes decompress to a point of the curve
/// (ed25519-dalek-2.2.0 src/verifying.rs `VerifyingKey::from_bytes`)
pub uninterp spec fn vk_valid(key: Seq<u8>) -> bool;

/// ed25519 verification (`<VerifyingKey as Verifier<Signature>>::verify`):
/// uninterpreted relation between key bytes, message and signature bytes.
pub uninterp spec fn sig_ok(key: Seq<u8>, msg: Seq<u8>, sig: Seq<u8>) -> bool;

#[verifier::external_body]
pub struct VerifyingKey { _p: () }

impl View for VerifyingKey {
    type V = Seq<u8>;
    uninterp spec fn view(&self) -> Seq<u8>;
}

impl VerifyingKey {
    #[verifier::external_body]
    pub fn from_bytes(bytes: &[u8; 32]) -> (r: core::result::Result<VerifyingKey, SignatureError>)
        ensures
            r.is_ok() <==> vk_valid(bytes@),
            r.is_ok() ==> r.unwrap()@ == bytes@,
    { unimplemented!() }

    /// total: Ok or Err, no panic (ed25519-dalek-2.2.0 `verify`: hashing and
    /// curve arithmetic on fixed-size arrays)
    #[verifier::external_body]
    pub fn verify(&self, msg: &[u8], signature: &Signature) -> (r: core::result::Result<(), SignatureError>)
        ensures r.is_ok() <==> sig_ok(self@, msg@, signature@),
    { unimplemented!() }

    /// ed25519-dalek-2.2.0 src/verifying.rs `verify_strict`: the same
    /// `expected_R == signature.R` test as `verify` (raw_verify) after two more
    /// rejections (small-order R, small-order key).  So Ok implies that `verify`
    /// answers Ok; the converse is not claimed.  Total (Ok or Err).
    #[verifier::external_body]
    pub fn verify_strict(&self, msg: &[u8], signature: &Signature) -> (r: core::result::Result<(), SignatureError>)
        ensures r.is_ok() ==> sig_ok(self@, msg@, signature@),
    { unimplemented!() }

    /// `to_bytes` / `as_bytes`: the compressed point the key was built from
    /// (`from_bytes` stores `CompressedEdwardsY(*bytes)` unchanged)
    #[verifier::external_body]
    pub fn to_bytes(&self) -> (r: [u8; 32])
        ensures r@ == self@,
    { unimplemented!() }

    #[verifier::external_body]
    pub fn as_bytes(&self) -> (r: &[u8; 32])
        ensures r@ == self@,
    { unimplemented!() }
}

// ---- sos_core -------------------------------------------------------------------
/// sos_core::Error (opaque)
#[derive(Debug)]
pub struct CoreError { pub _p: () }

/// `sos_core::decode::<T>(buffer)` = binary_stream::futures::decode(buffer,
/// encoding_options()) (binary-stream-10.0.0 src/futures/mod.rs, read:
/// `T::default()`, `BinaryReader` over a cursor at 0, `decoded.decode(&mut
/// reader)?`, `Ok(decoded)`; bytes left unread are ignored).  Its contract is
/// the contract of `T::decode` on a fresh reader.  Usable for types whose
/// `dec_ready` is trivial (no receiver precondition on the default value).
#[verifier::external_body]
pub fn decode<T: Decodable + Default>(buffer: &[u8]) -> (r: core::result::Result<T, CoreError>)
    requires forall|t: T| t.dec_ready(),
    ensures
        r.is_ok() <==> T::dec_of(buffer@).is_some(),
        r.is_ok() ==> r.unwrap().dview() == T::dec_of(buffer@).unwrap().0,
{ unimplemented!() }

/// sos_core::Paths, sos_backend::BackendTarget: fields of `Backend` that the
/// code under contract never touches.
#[verifier::external_body]
pub struct Paths { _p: () }
#[verifier::external_body]
pub struct BackendTarget { _p: () }

/// sos_server_storage::ServerStorage (crates/storage/server/src/storage.rs):
/// `list_device_keys` = `self.devices.iter().map(|d| d.public_key()).collect()`
/// in both back ends; `devices` is the trusted-device set the server last
/// reduced from the account's device log (`set_devices`).  ASSUMED here:
/// `devices()` is the set of devices currently trusted by the account (the
/// reducer and the two merge paths are not part of this unit).
#[verifier::external_body]
pub struct ServerStorage { _p: () }

impl ServerStorage {
    pub uninterp spec fn devices(&self) -> Set<DevicePublicKey>;

    #[verifier::external_body]
    pub fn list_device_keys(&self) -> (r: HashSet<&DevicePublicKey>)
        ensures forall|k: DevicePublicKey| #[trigger] r@.contains(&k) <==> self.devices().contains(k),
    { unimplemented!() }
}

// ---- server crate: error, state --------------------------------------------------
/// crates/server/src/error.rs `Error`: the variants the code under contract
/// constructs, plus the `#[from]` conversions its `?` sites use; every other
/// variant is `Other`.
pub enum ServerError {
    Status(StatusCode),
    BadRequest,
    Forbidden,
    Conflict,
    NoAccount(AccountId),
    Core(CoreError),
    TryFromSlice(TryFromSliceError),
    Ecdsa(SignatureError),
    Base58(bs58::decode::Error),
    Other,
}
pub type ServerResult<T> = core::result::Result<T, ServerError>;
/// (Debug is what `Result::unwrap` in specifications asks of the error type)
#[verifier::external]
impl core::fmt::Debug for ServerError {
    fn fmt(&self, f: &mut core::fmt::Formatter<'_>) -> core::fmt::Result { f.write_str("ServerError") }
}

impl FromSpecImpl<CoreError> for ServerError {
    open spec fn obeys_from_spec() -> bool { true }
    open spec fn from_spec(e: CoreError) -> ServerError { ServerError::Core(e) }
}
impl From<CoreError> for ServerError { fn from(e: CoreError) -> (r: ServerError) { ServerError::Core(e) } }
impl FromSpecImpl<TryFromSliceError> for ServerError {
    open spec fn obeys_from_spec() -> bool { true }
    open spec fn from_spec(e: TryFromSliceError) -> ServerError { ServerError::TryFromSlice(e) }
}
impl From<TryFromSliceError> for ServerError { fn from(e: TryFromSliceError) -> (r: ServerError) { ServerError::TryFromSlice(e) } }
impl FromSpecImpl<SignatureError> for ServerError {
    open spec fn obeys_from_spec() -> bool { true }
    open spec fn from_spec(e: SignatureError) -> ServerError { ServerError::Ecdsa(e) }
}
impl From<SignatureError> for ServerError { fn from(e: SignatureError) -> (r: ServerError) { ServerError::Ecdsa(e) } }
impl FromSpecImpl<bs58::decode::Error> for ServerError {
    open spec fn obeys_from_spec() -> bool { true }
    open spec fn from_spec(e: bs58::decode::Error) -> ServerError { ServerError::Base58(e) }
}
impl From<bs58::decode::Error> for ServerError { fn from(e: bs58::decode::Error) -> (r: ServerError) { ServerError::Base58(e) } }

/// crates/server/src/config.rs `ServerConfig` and src/server.rs `State`: only
/// the field path `state.config.access` that authenticate_endpoint reads; the
/// other fields (storage, log, net, file; sockets) are omitted.
pub struct ServerConfig { pub access: Option<AccessControlConfig> }
pub struct State { pub config: ServerConfig }

// ---- http / axum (R10) -------------------------------------------------------------
/// headers-0.4.1 `Authorization<Bearer>`: `token()` is the text after
/// "Bearer " (src/common/authorization.rs).
pub struct Bearer { pub _p: () }
#[verifier::external_body]
#[verifier::reject_recursive_types(C)]
pub struct Authorization<C> { _c: core::marker::PhantomData<C> }

impl Authorization<Bearer> {
    pub uninterp spec fn token_spec(&self) -> Seq<char>;

    #[verifier::external_body]
    pub fn token(&self) -> (r: &str)
        ensures r@ == self.token_spec(),
    { unimplemented!() }
}

#[verifier::external_body]
pub struct HeaderMap { _p: () }

/// http-1.3.1 `Uri::path` (axum `OriginalUri(uri)`)
#[verifier::external_body]
pub struct Uri { _p: () }
impl Uri {
    pub uninterp spec fn path_spec(&self) -> Seq<char>;

    #[verifier::external_body]
    pub fn path(&self) -> (r: &str)
        ensures r@ == self.path_spec(),
    { unimplemented!() }
}

/// bytes-1.11.0 `Bytes`: an immutable byte string; `Deref<Target = [u8]>`.
#[verifier::external_body]
pub struct Bytes { _p: () }
impl View for Bytes {
    type V = Seq<u8>;
    uninterp spec fn view(&self) -> Seq<u8>;
}
impl core::ops::Deref for Bytes {
    type Target = [u8];
    #[verifier::external_body]
    fn deref(&self) -> (r: &[u8])
        ensures r@ == self@,
    { unimplemented!() }
}

/// axum::body::Body — the request body; its view is the complete byte
/// content the client sent.
#[verifier::external_body]
pub struct Body { _p: () }
impl View for Body {
    type V = Seq<u8>;
    uninterp spec fn view(&self) -> Seq<u8>;
}

#[derive(Debug)]
pub struct AxumError { pub _p: () }

/// axum-0.8.7 src/body/mod.rs `to_bytes(body, limit)` =
/// `Limited::new(body, limit).collect().await.map(|c| c.to_bytes())`: Ok holds
/// the whole body, which is then at most `limit` bytes long; Err otherwise
/// (too long, or a transport error).
#[verifier::external_body]
pub fn to_bytes(body: Body, limit: usize) -> (r: core::result::Result<Bytes, AxumError>)
    ensures r.is_ok() ==> r.unwrap()@ == body@ && body@.len() <= limit,
{ unimplemented!() }

/// http::StatusCode
#[derive(Debug)]
pub struct StatusCode(pub u16);
impl StatusCode {
    pub const OK: StatusCode = StatusCode(200);
    pub const NOT_MODIFIED: StatusCode = StatusCode(304);
    pub const BAD_REQUEST: StatusCode = StatusCode(400);
    pub const NOT_FOUND: StatusCode = StatusCode(404);
    pub const CONFLICT: StatusCode = StatusCode(409);
}

/// axum::response::Response / IntoResponse: pure conversions of a value into a
/// response; no access to the server state.
#[verifier::external_body]
pub struct Response { _p: () }
pub trait IntoResponse: Sized {
    fn into_response(self) -> Response;
}
impl IntoResponse for Response { #[verifier::external_body] fn into_response(self) -> Response { unimplemented!() } }
impl IntoResponse for StatusCode { #[verifier::external_body] fn into_response(self) -> Response { unimplemented!() } }
impl IntoResponse for ServerError { #[verifier::external_body] fn into_response(self) -> Response { unimplemented!() } }
impl IntoResponse for () { #[verifier::external_body] fn into_response(self) -> Response { unimplemented!() } }
impl IntoResponse for (HeaderMap, Vec<u8>) { #[verifier::external_body] fn into_response(self) -> Response { unimplemented!() } }

/// crates/server/src/handlers/mod.rs `parse_account_id(&HeaderMap)`: an
/// `and_then` chain over header lookup, `to_str` and `str::parse` — out of
/// Verus' reach; NO contract: every `Option<AccountId>` is a possible result,
/// and the contracts below hold for each.
#[verifier::external_body]
pub fn parse_account_id(headers: &HeaderMap) -> (r: Option<AccountId>)
{ unimplemented!() }
