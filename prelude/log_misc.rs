// ===========================================================================
// prelude/log_misc.rs — remaining dependency stand-ins of unit `log`.
// Included at TOP LEVEL of the unit.  Every `external_body` /
// `assume_specification` here is an ASSUMPTION.
// ===========================================================================

/// `sos_core::encode` (crates/core/src/encoding/mod.rs:36) =
/// `binary_stream::futures::encode(x, encoding_options())` (binary-stream 10.0.0
/// src/futures/mod.rs): a fresh `Cursor<Vec<u8>>`, `x.encode(&mut writer)`, the
/// buffer.  By the contract of `Encodable::encode` (prelude/binary_stream.rs)
/// the buffer is exactly `enc_of(x)` and `x` is valid for the codec.
#[verifier::external_body]
pub fn encode<T: Encodable>(encodable: &T) -> (r: CoreResult<Vec<u8>>)
    ensures r.is_ok() ==> r.unwrap()@ == T::enc_of(encodable.eview()) && T::enc_valid(encodable.eview()),
{ unimplemented!() }

/// `impl Encodable for EventRecord` (crates/core/src/encoding/v1/event_record.rs)
/// — STAND-IN; PROVED in units/codec.vrs against `enc_EventRecord`
/// ([encode_writes_exactly_enc_fn] [encode_ok_only_for_valid]).
impl Encodable for EventRecord {
    type EV = EventRecordV;
    open spec fn eview(&self) -> EventRecordV { self@ }
    open spec fn enc_of(v: EventRecordV) -> Seq<u8> { enc_EventRecord(v) }
    open spec fn enc_valid(v: EventRecordV) -> bool { valid_EventRecord(v) }
    #[verifier::external_body]
    fn encode<W: AsyncWrite + AsyncSeek + Unpin + Send>(&self, writer: &mut BinaryWriter<W>) -> (r: pre::Result<()>) { unimplemented!() }
}

/// `#[derive(Default)]` on `pub struct CommitHash(pub TreeHash)`: 32 zero bytes.
/// ASSUMPTION (derive expansion is not verified text).
pub assume_specification [<CommitHash as Default>::default] () -> (r: CommitHash)
    ensures r.0@ == zero32();

/// sos_core::AccountId (crates/core/src/account.rs:14): 20 opaque bytes, Copy
#[derive(Clone, Copy)]
pub struct AccountId(pub [u8; 20]);

/// `sos_core::events::changes_feed()` (crates/core/src/events/change.rs:39): a
/// process-wide `tokio::sync::watch::Sender<LocalChangeEvent>`; `send_replace`
/// stores the value for subscribers.  No effect on any log or file.
#[verifier::external_body]
pub struct ChangesFeed { _p: () }
#[verifier::external_body]
pub fn changes_feed() -> (r: ChangesFeed) { unimplemented!() }
impl ChangesFeed {
    #[verifier::external_body]
    pub fn send_replace(&self, value: LocalChangeEvent) { unimplemented!() }
}

/// R12: `$xs.iter().map($f).collect::<Vec<_>>()` on a `Vec<T>` — std meaning
/// (iter/adapters/map.rs, Vec: FromIterator): `$f` is called once per element, in
/// order, and the results are collected in that order.  The closure stays
/// extracted code (`|c| $body` re-inserted verbatim by the rewrite in
/// units/log.vrs); this contract only quantifies over ITS post-condition.
/// The closure comes first and the vector last so that the rewritten statement
/// ends in `, &$xs);` (a hint of apply_records is anchored on that tail).
#[verifier::external_body]
pub fn vmap_collect<T, U, F: Fn(&T) -> U>(f: F, xs: &Vec<T>) -> (r: Vec<U>)
    requires forall|x: &T| #[trigger] f.requires((x,)),
    ensures r@.len() == xs@.len(), forall|i: int| 0 <= i < xs@.len() ==> f.ensures((&xs@[i],), #[trigger] r@[i]),
{ xs.iter().map(f).collect::<Vec<_>>() }

/// R12: `$s.to_vec()` on `&[EventRecord]` (alloc::slice::to_vec: clones every element)
#[verifier::external_body]
pub fn vto_vec_records(s: &[EventRecord]) -> (r: Vec<EventRecord>)
    ensures r@.len() == s@.len(), forall|i: int| 0 <= i < s@.len() ==> (#[trigger] r@[i])@ == s@[i]@,
{ unimplemented!() }

/// R12: `u16::to_le_bytes` (Verus: "not supported")
#[verifier::external_body]
pub fn u16_to_le_bytes(v: u16) -> (r: [u8; 2])
    ensures r@ == le16(v),
{ v.to_le_bytes() }

/// R12: `a == b` on `&[u8; 32]` (core: `impl PartialEq for [T; N]`, element-wise;
/// Verus gives array `==` no specification)
#[verifier::external_body]
pub fn hash_eq(a: &[u8; 32], b: &[u8; 32]) -> (r: bool)
    ensures r == (a@ == b@),
{ a == b }

/// R12: `$v.reverse()` on `Vec<EventRecord>` (core::slice::reverse, "not supported"
/// by Verus): the same elements in the opposite order
#[verifier::external_body]
pub fn vreverse_records(v: &mut Vec<EventRecord>)
    ensures final(v)@.len() == old(v)@.len(), forall|i: int| 0 <= i < old(v)@.len() ==> #[trigger] final(v)@[i] == old(v)@[old(v)@.len() - 1 - i],
{ v.reverse() }

/// sos_core::events::WriteEvent (crates/core/src/events/write.rs) — used by this unit as a TYPE PARAMETER only
/// (`FileSystemEventLog<WriteEvent, E>`); its codec is PROVED in units/codec.vrs, here it is opaque.
#[verifier::external_body]
pub struct WriteEvent { _p: () }
pub uninterp spec fn writeevent_view(x: WriteEvent) -> int;
pub uninterp spec fn writeevent_enc(v: int) -> Seq<u8>;
pub uninterp spec fn writeevent_valid(v: int) -> bool;
pub uninterp spec fn writeevent_dec(s: Seq<u8>) -> Option<(int, Seq<u8>)>;
impl Default for WriteEvent {
    #[verifier::external_body]
    fn default() -> Self { unimplemented!() }
}
impl Encodable for WriteEvent {
    type EV = int;
    open spec fn eview(&self) -> int { writeevent_view(*self) }
    open spec fn enc_of(v: int) -> Seq<u8> { writeevent_enc(v) }
    open spec fn enc_valid(v: int) -> bool { writeevent_valid(v) }
    #[verifier::external_body]
    fn encode<W: AsyncWrite + AsyncSeek + Unpin + Send>(&self, writer: &mut BinaryWriter<W>) -> (r: pre::Result<()>) { unimplemented!() }
}
impl Decodable for WriteEvent {
    type DV = int;
    open spec fn dview(&self) -> int { writeevent_view(*self) }
    open spec fn dec_of(s: Seq<u8>) -> Option<(int, Seq<u8>)> { writeevent_dec(s) }
    open spec fn dec_ready(&self) -> bool { true }
    #[verifier::external_body]
    fn decode<R: AsyncRead + AsyncSeek + Unpin + Send>(&mut self, reader: &mut BinaryReader<R>) -> (r: pre::Result<()>) { unimplemented!() }
}

/// sos_core::events::AccountEvent (crates/core/src/events/account.rs) — used by this unit as a TYPE PARAMETER only
/// (`FileSystemEventLog<AccountEvent, E>`); its codec is PROVED in units/codec.vrs, here it is opaque.
#[verifier::external_body]
pub struct AccountEvent { _p: () }
pub uninterp spec fn accountevent_view(x: AccountEvent) -> int;
pub uninterp spec fn accountevent_enc(v: int) -> Seq<u8>;
pub uninterp spec fn accountevent_valid(v: int) -> bool;
pub uninterp spec fn accountevent_dec(s: Seq<u8>) -> Option<(int, Seq<u8>)>;
impl Default for AccountEvent {
    #[verifier::external_body]
    fn default() -> Self { unimplemented!() }
}
impl Encodable for AccountEvent {
    type EV = int;
    open spec fn eview(&self) -> int { accountevent_view(*self) }
    open spec fn enc_of(v: int) -> Seq<u8> { accountevent_enc(v) }
    open spec fn enc_valid(v: int) -> bool { accountevent_valid(v) }
    #[verifier::external_body]
    fn encode<W: AsyncWrite + AsyncSeek + Unpin + Send>(&self, writer: &mut BinaryWriter<W>) -> (r: pre::Result<()>) { unimplemented!() }
}
impl Decodable for AccountEvent {
    type DV = int;
    open spec fn dview(&self) -> int { accountevent_view(*self) }
    open spec fn dec_of(s: Seq<u8>) -> Option<(int, Seq<u8>)> { accountevent_dec(s) }
    open spec fn dec_ready(&self) -> bool { true }
    #[verifier::external_body]
    fn decode<R: AsyncRead + AsyncSeek + Unpin + Send>(&mut self, reader: &mut BinaryReader<R>) -> (r: pre::Result<()>) { unimplemented!() }
}

/// sos_core::events::DeviceEvent (crates/core/src/events/device.rs) — used by this unit as a TYPE PARAMETER only
/// (`FileSystemEventLog<DeviceEvent, E>`); its codec is PROVED in units/codec.vrs, here it is opaque.
#[verifier::external_body]
pub struct DeviceEvent { _p: () }
pub uninterp spec fn deviceevent_view(x: DeviceEvent) -> int;
pub uninterp spec fn deviceevent_enc(v: int) -> Seq<u8>;
pub uninterp spec fn deviceevent_valid(v: int) -> bool;
pub uninterp spec fn deviceevent_dec(s: Seq<u8>) -> Option<(int, Seq<u8>)>;
impl Default for DeviceEvent {
    #[verifier::external_body]
    fn default() -> Self { unimplemented!() }
}
impl Encodable for DeviceEvent {
    type EV = int;
    open spec fn eview(&self) -> int { deviceevent_view(*self) }
    open spec fn enc_of(v: int) -> Seq<u8> { deviceevent_enc(v) }
    open spec fn enc_valid(v: int) -> bool { deviceevent_valid(v) }
    #[verifier::external_body]
    fn encode<W: AsyncWrite + AsyncSeek + Unpin + Send>(&self, writer: &mut BinaryWriter<W>) -> (r: pre::Result<()>) { unimplemented!() }
}
impl Decodable for DeviceEvent {
    type DV = int;
    open spec fn dview(&self) -> int { deviceevent_view(*self) }
    open spec fn dec_of(s: Seq<u8>) -> Option<(int, Seq<u8>)> { deviceevent_dec(s) }
    open spec fn dec_ready(&self) -> bool { true }
    #[verifier::external_body]
    fn decode<R: AsyncRead + AsyncSeek + Unpin + Send>(&mut self, reader: &mut BinaryReader<R>) -> (r: pre::Result<()>) { unimplemented!() }
}

/// sos_core::events::FileEvent (crates/core/src/events/file.rs) — used by this unit as a TYPE PARAMETER only
/// (`FileSystemEventLog<FileEvent, E>`); its codec is PROVED in units/codec.vrs, here it is opaque.
#[verifier::external_body]
pub struct FileEvent { _p: () }
pub uninterp spec fn fileevent_view(x: FileEvent) -> int;
pub uninterp spec fn fileevent_enc(v: int) -> Seq<u8>;
pub uninterp spec fn fileevent_valid(v: int) -> bool;
pub uninterp spec fn fileevent_dec(s: Seq<u8>) -> Option<(int, Seq<u8>)>;
impl Default for FileEvent {
    #[verifier::external_body]
    fn default() -> Self { unimplemented!() }
}
impl Encodable for FileEvent {
    type EV = int;
    open spec fn eview(&self) -> int { fileevent_view(*self) }
    open spec fn enc_of(v: int) -> Seq<u8> { fileevent_enc(v) }
    open spec fn enc_valid(v: int) -> bool { fileevent_valid(v) }
    #[verifier::external_body]
    fn encode<W: AsyncWrite + AsyncSeek + Unpin + Send>(&self, writer: &mut BinaryWriter<W>) -> (r: pre::Result<()>) { unimplemented!() }
}
impl Decodable for FileEvent {
    type DV = int;
    open spec fn dview(&self) -> int { fileevent_view(*self) }
    open spec fn dec_of(s: Seq<u8>) -> Option<(int, Seq<u8>)> { fileevent_dec(s) }
    open spec fn dec_ready(&self) -> bool { true }
    #[verifier::external_body]
    fn decode<R: AsyncRead + AsyncSeek + Unpin + Send>(&mut self, reader: &mut BinaryReader<R>) -> (r: pre::Result<()>) { unimplemented!() }
}

/// `#[derive(Default)]` on CommitTree (crates/core/src/commit/tree.rs:8): every
/// field default — MerkleTree::default() = new() (prelude/tree_merkle.rs), both
/// options None — i.e. the value `CommitTree::new()` builds.  ASSUMPTION (derive
/// expansion is not verified text).
impl Default for CommitTree {
    #[verifier::external_body]
    fn default() -> (r: CommitTree)
        ensures
            r.lv() == Seq::<Seq<u8>>::empty() && r.pending() == Seq::<Seq<u8>>::empty() && r.history() == Seq::<Seq<Seq<u8>>>::empty(),
            r.inv(),
    { unimplemented!() }
}

/// R12: `$s.to_vec()` on `&[u8]`
#[verifier::external_body]
pub fn vto_vec_u8(s: &[u8]) -> (r: Vec<u8>)
    ensures r@ == s@,
{ s.to_vec() }

/// Named C15 obligation [alloc_proportional] (DESIGN C15): a buffer whose size
/// is taken from file content is no larger than the file it is read from
/// (allocation <= file length).  `P ==> P` lemma (proved); the name is what is
/// reported.
pub proof fn c15_alloc(n: u64, file_len: u64)
    requires n <= file_len, /*@PL:alloc_proportional*/
    ensures n <= file_len,
{}
/// the same at the call sites that pass a record of a well-formed log (FS_INV)
pub proof fn c15_alloc_on_wf_log(n: int)
    requires n <= 16777216, /*@PL:alloc_proportional_on_wf_log*/
{}

/// `sos_core::file_identity::format_identity_bytes` (crates/core/src/file_identity.rs:8):
/// error-message text only.  (It `expect`s the identity to be UTF-8; the four
/// identities it is called with are ASCII constants.)
#[verifier::external_body]
pub fn format_identity_bytes(identity: &[u8]) -> String { unimplemented!() }
