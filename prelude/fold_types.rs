// ===========================================================================
// prelude/fold_types.rs — stand-ins used by the `fold` unit (reducers):
// indexmap 2.12.0 (IndexMap / IndexSet), the boxed event stream (R8), the
// std::error::Error marker trait and the two error types that are only
// constructed / converted.  Everything `external_body` / `axiom` here is an
// ASSUMPTION.  Included inside `mod pre` (no dependency on extracted items).
// ===========================================================================

/// `std::error::Error` used as a bound only (`E: std::error::Error + Debug + From<..>`);
/// declared so that the bound can stay verbatim in the extracted signatures.
#[verifier::external_trait_specification]
pub trait ExStdError: core::fmt::Debug + core::fmt::Display {
    type ExternalTraitSpecificationFor: std::error::Error;
}

/// `sos_core::Error` (crates/core/src/error.rs, a thiserror enum): only the
/// two variants constructed by the extracted code plus a catch-all.
#[derive(Debug)]
pub enum CoreError { CreateEventMustBeFirst, CreateEventOnlyFirst, Other }

/// `sos_vault::Error` (crates/vault/src/error.rs): opaque, only converted into.
#[derive(Debug)]
pub struct VaultError { pub _p: () }

/// `#[from] sos_core::Error` variant of sos_vault::Error (thiserror generated).
impl From<CoreError> for VaultError {
    #[verifier::external_body]
    fn from(_e: CoreError) -> VaultError { VaultError { _p: () } }
}

/// name resolution only: the extracted text says `sos_core::Error`, `sos_vault::Error`
pub mod sos_core { pub use super::CoreError as Error; }
pub mod sos_vault { pub use super::VaultError as Error; }

// ---- ordered map semantics over a sequence of (key, value) -------------------
pub open spec fn m_has<K, V>(s: Seq<(K, V)>, k: K) -> bool {
    exists|i: int| 0 <= i < s.len() && (#[trigger] s[i]).0 == k
}
pub open spec fn m_idx<K, V>(s: Seq<(K, V)>, k: K) -> int {
    choose|i: int| 0 <= i < s.len() && (#[trigger] s[i]).0 == k
}
/// insert-or-replace keeping the position of an existing key, new keys last
pub open spec fn m_insert<K, V>(s: Seq<(K, V)>, k: K, v: V) -> Seq<(K, V)> {
    if m_has(s, k) { s.update(m_idx(s, k), (k, v)) } else { s.push((k, v)) }
}
/// remove, the entries behind it move up (relative order kept)
pub open spec fn m_remove<K, V>(s: Seq<(K, V)>, k: K) -> Seq<(K, V)> {
    if m_has(s, k) { s.remove(m_idx(s, k)) } else { s }
}
pub open spec fn m_get<K, V>(s: Seq<(K, V)>, k: K) -> Option<V> {
    if m_has(s, k) { Some(s[m_idx(s, k)].1) } else { None }
}
/// `swap_remove`: the entry is replaced by the last one, which is popped
pub open spec fn m_swap_remove<K, V>(s: Seq<(K, V)>, k: K) -> Seq<(K, V)> {
    if m_has(s, k) { let i = m_idx(s, k); if i == s.len() - 1 { s.drop_last() } else { s.update(i, s.last()).drop_last() } } else { s }
}
pub open spec fn m_distinct<K, V>(s: Seq<(K, V)>) -> bool {
    forall|i: int, j: int| 0 <= i < j < s.len() ==> (#[trigger] s[i]).0 != (#[trigger] s[j]).0
}

/// indexmap-2.12.0 `IndexMap<K, V, RandomState>` (src/map.rs, src/map/core.rs).
/// View: the entries in iteration order, as (key view, value view).
/// Assumed of K: `K: Eq + Hash` agree with equality of the key's view (true
/// for the one key type used here, `Uuid` = derived Eq/Hash on `[u8; 16]`).
#[verifier::external_body]
#[verifier::reject_recursive_types(K)]
#[verifier::reject_recursive_types(V)]
pub struct IndexMap<K, V> { _p: core::marker::PhantomData<(K, V)> }

impl<K: View, V: View> View for IndexMap<K, V> {
    type V = Seq<(K::V, V::V)>;
    uninterp spec fn view(&self) -> Seq<(K::V, V::V)>;
}

/// structural invariant of IndexMap: one entry per key
pub broadcast axiom fn axiom_indexmap_distinct<K: View, V: View>(m: IndexMap<K, V>)
    ensures m_distinct(#[trigger] m@);

impl<K: View, V: View> Default for IndexMap<K, V> {
    /// map.rs `impl Default`: empty map
    #[verifier::external_body]
    fn default() -> (r: Self)
        ensures r@.len() == 0,
    { unimplemented!() }
}

impl<K: View, V: View> IndexMap<K, V> {
    /// map.rs:446 `insert` -> core.rs:335 `insert_full`: "If an equivalent key
    /// already exists in the map: the key remains and retains in its place in
    /// the order, its corresponding value is updated with `value`, and the
    /// older value is returned inside `Some(_)`.  If no equivalent key existed
    /// in the map: the new key-value pair is inserted, last in order, and
    /// `None` is returned."
    #[verifier::external_body]
    pub fn insert(&mut self, key: K, value: V) -> (r: Option<V>)
        ensures
            final(self)@ == m_insert(old(self)@, key@, value@),
            r is Some <==> m_has(old(self)@, key@),
            r is Some ==> Some(r->Some_0@) == m_get(old(self)@, key@),
    { unimplemented!() }

    /// map.rs:1073 `shift_remove` -> core.rs:396 `shift_remove_full`: "Like
    /// Vec::remove, the pair is removed by shifting all of the elements that
    /// follow it, preserving their relative order. Return None if key is not
    /// in map."
    #[verifier::external_body]
    pub fn shift_remove(&mut self, key: &K) -> (r: Option<V>)
        ensures
            final(self)@ == m_remove(old(self)@, key@),
            r is Some <==> m_has(old(self)@, key@),
            r is Some ==> Some(r->Some_0@) == m_get(old(self)@, key@),
    { unimplemented!() }

    /// number of entries; `entries: Vec<Bucket<K, V>>` cannot reach usize::MAX
    /// elements (allocation limit isize::MAX bytes, a bucket is > 1 byte)
    #[verifier::external_body]
    pub fn len(&self) -> (r: usize)
        ensures r == self@.len(), r < usize::MAX,
    { unimplemented!() }

    // The rest of the commonly used map API (same source), so that an edit of
    // the extracted code that switches to another method still composes.
    /// map.rs `is_empty`
    #[verifier::external_body]
    pub fn is_empty(&self) -> (r: bool)
        ensures r <==> self@.len() == 0,
    { unimplemented!() }

    /// map.rs `contains_key`
    #[verifier::external_body]
    pub fn contains_key(&self, key: &K) -> (r: bool)
        ensures r <==> m_has(self@, key@),
    { unimplemented!() }

    /// map.rs `get`: a reference to the value stored for the key
    #[verifier::external_body]
    pub fn get(&self, key: &K) -> (r: Option<&V>)
        ensures
            r is Some <==> m_has(self@, key@),
            r is Some ==> Some(r->Some_0@) == m_get(self@, key@),
    { unimplemented!() }

    /// map.rs `swap_remove` -> core.rs `swap_remove_full`: "Like Vec::swap_remove,
    /// the pair is removed by swapping it with the last element of the map and
    /// popping it off. This perturbs the position of what used to be the last
    /// element! Return None if key is not in map."
    #[verifier::external_body]
    pub fn swap_remove(&mut self, key: &K) -> (r: Option<V>)
        ensures
            final(self)@ == m_swap_remove(old(self)@, key@),
            r is Some <==> m_has(old(self)@, key@),
            r is Some ==> Some(r->Some_0@) == m_get(old(self)@, key@),
    { unimplemented!() }

    /// map.rs `clear`
    #[verifier::external_body]
    pub fn clear(&mut self)
        ensures final(self)@.len() == 0,
    { unimplemented!() }
}

/// views of a sequence of owned (key, value) pairs
pub open spec fn kv_views<K: View, V: View>(s: Seq<(K, V)>) -> Seq<(K::V, V::V)> {
    Seq::new(s.len(), |i: int| (s[i].0@, s[i].1@))
}

/// `indexmap::map::IntoIter<K, V>`: owning iterator in entry order.
#[verifier::external_body]
#[verifier::reject_recursive_types(K)]
#[verifier::reject_recursive_types(V)]
pub struct IndexMapIntoIter<K, V> { _p: core::marker::PhantomData<(K, V)> }

impl<K, V> IndexMapIntoIter<K, V> {
    /// entries not yet yielded
    pub uninterp spec fn rest(&self) -> Seq<(K, V)>;
}

impl<K, V> Iterator for IndexMapIntoIter<K, V> {
    type Item = (K, V);
    /// contract inherited from vstd's Iterator specification (`IteratorSpec`):
    /// yields `rest()[0]` and drops it, `None` when `rest()` is empty
    #[verifier::external_body]
    fn next(&mut self) -> (r: Option<(K, V)>)
    { unimplemented!() }
}

impl<K, V> vstd::std_specs::iter::IteratorSpecImpl for IndexMapIntoIter<K, V> {
    open spec fn obeys_prophetic_iter_laws(&self) -> bool { true }
    #[verifier::prophetic]
    open spec fn remaining(&self) -> Seq<(K, V)> { self.rest() }
    #[verifier::prophetic]
    open spec fn will_return_none(&self) -> bool { true }
    open spec fn decrease(&self) -> Option<nat> { Some(self.rest().len()) }
    open spec fn peek(&self, i: int) -> Option<(K, V)> {
        if 0 <= i < self.rest().len() { Some(self.rest()[i]) } else { None }
    }
}

impl<K: View, V: View> IntoIterator for IndexMap<K, V> {
    type Item = (K, V);
    type IntoIter = IndexMapIntoIter<K, V>;
    /// map/iter.rs `impl IntoIterator for IndexMap`: `IntoIter::new(self.into_entries())`,
    /// every entry once, in order
    #[verifier::external_body]
    fn into_iter(self) -> (r: IndexMapIntoIter<K, V>)
        ensures kv_views(r.rest()) == self@,
    { unimplemented!() }
}

// ---- ordered set semantics: elements compared by a key --------------------
/// Element type of an IndexSet.  `skey` is what the element type's `Eq`/`Hash`
/// compare: an implementation of this trait ASSERTS that two elements are
/// `==` (and hash alike) exactly when their `skey` agree.
pub trait SetElem: View {
    type K;
    spec fn skey(v: Self::V) -> Self::K;
}
pub open spec fn s_has<T: SetElem>(s: Seq<T::V>, k: T::K) -> bool {
    exists|i: int| 0 <= i < s.len() && T::skey(#[trigger] s[i]) == k
}
pub open spec fn s_idx<T: SetElem>(s: Seq<T::V>, k: T::K) -> int {
    choose|i: int| 0 <= i < s.len() && T::skey(#[trigger] s[i]) == k
}
/// insert keeps the element already present, a new element goes last
pub open spec fn s_insert<T: SetElem>(s: Seq<T::V>, x: T::V) -> Seq<T::V> {
    if s_has::<T>(s, T::skey(x)) { s } else { s.push(x) }
}
pub open spec fn s_remove<T: SetElem>(s: Seq<T::V>, k: T::K) -> Seq<T::V> {
    if s_has::<T>(s, k) { s.remove(s_idx::<T>(s, k)) } else { s }
}
/// `swap_remove`: the element is replaced by the last one, which is popped
pub open spec fn s_swap_remove<T: SetElem>(s: Seq<T::V>, k: T::K) -> Seq<T::V> {
    if s_has::<T>(s, k) { let i = s_idx::<T>(s, k); if i == s.len() - 1 { s.drop_last() } else { s.update(i, s.last()).drop_last() } } else { s }
}
pub open spec fn s_distinct<T: SetElem>(s: Seq<T::V>) -> bool {
    forall|i: int, j: int| 0 <= i < j < s.len() ==> T::skey(#[trigger] s[i]) != T::skey(#[trigger] s[j])
}

/// indexmap-2.12.0 `IndexSet<T, RandomState>` (src/set.rs; a map to `()`).
#[verifier::external_body]
#[verifier::reject_recursive_types(T)]
pub struct IndexSet<T> { _p: core::marker::PhantomData<T> }

impl<T: SetElem> View for IndexSet<T> {
    type V = Seq<T::V>;
    uninterp spec fn view(&self) -> Seq<T::V>;
}

/// structural invariant of IndexSet: one element per key
pub broadcast axiom fn axiom_indexset_distinct<T: SetElem>(m: IndexSet<T>)
    ensures s_distinct::<T>(#[trigger] m@);

impl<T: SetElem> IndexSet<T> {
    /// set.rs `new`: empty set
    #[verifier::external_body]
    pub fn new() -> (r: Self)
        ensures r@.len() == 0,
    { unimplemented!() }

    /// set.rs:381 `insert`: "If an equivalent item already exists in the set,
    /// it returns false leaving the original value in the set and without
    /// altering its insertion order. Otherwise, it inserts the new item and
    /// returns true."
    #[verifier::external_body]
    pub fn insert(&mut self, value: T) -> (r: bool)
        ensures
            final(self)@ == s_insert::<T>(old(self)@, value@),
            r <==> !s_has::<T>(old(self)@, T::skey(value@)),
    { unimplemented!() }

    /// set.rs:810 `shift_remove`: "Like Vec::remove, the value is removed by
    /// shifting all of the elements that follow it, preserving their relative
    /// order. Return false if value was not in the set."
    #[verifier::external_body]
    pub fn shift_remove(&mut self, value: &T) -> (r: bool)
        ensures
            final(self)@ == s_remove::<T>(old(self)@, T::skey(value@)),
            r <==> s_has::<T>(old(self)@, T::skey(value@)),
    { unimplemented!() }

    // The rest of the commonly used set API (same source), so that an edit of
    // the extracted code that switches to another method still composes.
    /// set.rs `swap_remove`: "Like Vec::swap_remove, the value is removed by
    /// swapping it with the last element of the set and popping it off. This
    /// perturbs the position of what used to be the last element! Return false
    /// if value was not in the set."
    #[verifier::external_body]
    pub fn swap_remove(&mut self, value: &T) -> (r: bool)
        ensures
            final(self)@ == s_swap_remove::<T>(old(self)@, T::skey(value@)),
            r <==> s_has::<T>(old(self)@, T::skey(value@)),
    { unimplemented!() }

    /// set.rs `contains`
    #[verifier::external_body]
    pub fn contains(&self, value: &T) -> (r: bool)
        ensures r <==> s_has::<T>(self@, T::skey(value@)),
    { unimplemented!() }

    /// set.rs `len` (bound as for IndexMap::len)
    #[verifier::external_body]
    pub fn len(&self) -> (r: usize)
        ensures r == self@.len(), r < usize::MAX,
    { unimplemented!() }

    /// set.rs `is_empty`
    #[verifier::external_body]
    pub fn is_empty(&self) -> (r: bool)
        ensures r <==> self@.len() == 0,
    { unimplemented!() }
}

// ---- R8: the boxed event stream as a ghost sequence with a cursor -----------
/// `BoxStream<'_, T>` (futures-core 0.3.31) after `pin_mut!`: `items()` is
/// everything the stream will yield, `pos()` how much has been taken.
#[verifier::external_body]
#[verifier::reject_recursive_types(T)]
pub struct VStream<T> { _p: core::marker::PhantomData<T> }

impl<T> VStream<T> {
    pub uninterp spec fn items(&self) -> Seq<T>;
    pub uninterp spec fn pos(&self) -> nat;

    /// `StreamExt::next().await`: the next element, `None` at the end
    #[verifier::external_body]
    pub fn next(&mut self) -> (r: Option<T>)
        ensures
            final(self).items() == old(self).items(),
            old(self).pos() < old(self).items().len() ==>
                r == Some(old(self).items()[old(self).pos() as int]) && final(self).pos() == old(self).pos() + 1,
            old(self).pos() >= old(self).items().len() ==> r is None && final(self).pos() == old(self).pos(),
    { unimplemented!() }
}

/// `sos_core::device::DeviceMetaData` (crates/core/src/device.rs:85): a
/// `BTreeMap<String, serde_json::Value>`; carried along, never inspected.
#[verifier::external_body]
pub struct DeviceMetaData { _p: () }
impl Clone for DeviceMetaData {
    /// `#[derive(Clone)]`
    #[verifier::external_body]
    fn clone(&self) -> (r: DeviceMetaData)
        ensures r == *self,
    { unimplemented!() }
}
