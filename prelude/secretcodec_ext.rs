// ===========================================================================
// prelude/secretcodec_ext.rs — stand-ins for the third-party value types met
// in the payloads of `Secret` (crates/vault/src/secret.rs).  Included inside
// `mod pre` after secretcodec_types.rs.  Every `external_body` / `axiom` /
// `uninterp` here is an ASSUMPTION.  The text formats (URL, JSON, PEM, vCard,
// age identity) are uninterpreted functions; what is assumed of them is that
// the crate's own printer and parser are inverse on the crate's own values.
// ===========================================================================

impl StrLike for String { open spec fn chars(&self) -> Seq<char> { self@ } }
impl BytesLike for Vec<u8> { open spec fn bytes(&self) -> Seq<u8> { self@ } }

/// `str::to_string` / `to_owned` (alloc): the same characters
#[verifier::external_body]
pub fn str_to_owned(s: &str) -> (r: String)
    ensures r@ == s@,
{ s.to_owned() }

// ---- secrecy::SecretString = SecretBox<str> (secrecy-0.10.3 src/lib.rs:214) -------------
/// a boxed str that is zeroized on drop; `From<String>` is `into_boxed_str`,
/// `expose_secret` is `as_ref`.  Stand-in: a wrapper of the String.
pub struct SecretString { pub s: String }
impl View for SecretString {
    type V = Seq<char>;
    open spec fn view(&self) -> Seq<char> { self.s@ }
}
impl SecretString {
    pub fn expose_secret(&self) -> (r: &str)
        ensures r@ == self.s@,
    { self.s.as_str() }
}
impl From<String> for SecretString {
    fn from(s: String) -> (r: SecretString)
        ensures r.s == s,
    { SecretString { s } }
}
impl vstd::std_specs::convert::FromSpecImpl<String> for SecretString {
    open spec fn obeys_from_spec() -> bool { true }
    open spec fn from_spec(s: String) -> SecretString { SecretString { s } }
}

// ---- url::Url (url-2.5) -------------------------------------------------------------------
/// View: the serialisation of the URL (`Url::as_str`).
#[verifier::external_body]
pub struct Url { _p: () }
impl View for Url {
    type V = Seq<char>;
    uninterp spec fn view(&self) -> Seq<char>;
}
pub open spec fn urls_view(v: Seq<Url>) -> Seq<Seq<char>> { Seq::new(v.len(), |i: int| v[i]@) }
pub uninterp spec fn url_parse(s: Seq<char>) -> Option<Seq<char>>;
#[derive(Debug)]
pub struct UrlParseError { pub _p: () }
/// R12: `$s.parse::<Url>()`
#[verifier::external_body]
pub fn parse_url(s: &String) -> (r: core::result::Result<Url, UrlParseError>)
    ensures r.is_ok() <==> url_parse(s@).is_some(), r.is_ok() ==> Some(r.unwrap()@) == url_parse(s@),
{ unimplemented!() }
/// R12: `$v.clone()` on Vec<Url> (element-wise clone; vstd has no element-wise spec)
#[verifier::external_body]
pub fn clone_urls(v: &Vec<Url>) -> (r: Vec<Url>)
    ensures urls_view(r@) == urls_view(v@),
{ unimplemented!() }
/// serde_json text of `WebsiteUrl` (untagged: one URL string, or an array of URL strings)
pub uninterp spec fn websites_json(u: Seq<Seq<char>>) -> Seq<char>;
pub uninterp spec fn websites_parse(s: Seq<char>) -> Option<Seq<Seq<char>>>;
/// Assumption WEBSITES: the JSON of a non-empty URL list (`["..",".."]`) parses
/// back to the same list and is not itself a URL (it starts with `[`).
pub broadcast axiom fn axiom_websites_roundtrip(u: Seq<Seq<char>>)
    requires u.len() > 0,
    ensures (#[trigger] websites_parse(websites_json(u))) == Some(u), url_parse(websites_json(u)) is None;

// ---- std::collections::HashMap<K, V> ---------------------------------------------------------
/// std HashMap<K, V, RandomState>.  View: the map of key views to value
/// views.  The ITERATION ORDER (`order`) is a further uninterpreted attribute
/// of the exec value (random hasher keys, insertion history).
#[verifier::external_body]
#[verifier::reject_recursive_types(K)]
#[verifier::reject_recursive_types(V)]
pub struct HashMap<K, V> { _p: core::marker::PhantomData<(K, V)> }
impl<K: View, V: View> View for HashMap<K, V> {
    type V = Map<K::V, V::V>;
    uninterp spec fn view(&self) -> Map<K::V, V::V>;
}
impl<K: View, V: View> HashMap<K, V> {
    /// the (key view, value view) pairs in the order `iter()` yields them
    pub uninterp spec fn order(&self) -> Seq<(K::V, V::V)>;
}
/// the map a list of pairs denotes when inserted front to back (later wins)
pub open spec fn map_of<A, B>(xs: Seq<(A, B)>) -> Map<A, B>
    decreases xs.len(),
{
    if xs.len() == 0 { Map::empty() } else { map_of(xs.drop_last()).insert(xs.last().0, xs.last().1) }
}
pub open spec fn keys_distinct<A, B>(xs: Seq<(A, B)>) -> bool {
    forall|i: int, j: int| 0 <= i < j < xs.len() ==> (#[trigger] xs[i]).0 != (#[trigger] xs[j]).0
}
/// every entry exactly once
pub broadcast axiom fn axiom_hashmap_order<K: View, V: View>(m: HashMap<K, V>)
    ensures keys_distinct(#[trigger] m.order()), map_of(m.order()) == m@;
impl<K: View, V: View> HashMap<K, V> {
    /// std `HashMap::new`: empty, allocates nothing
    #[verifier::external_body]
    pub fn new() -> (r: Self)
        ensures r@ == Map::<K::V, V::V>::empty(),
    { unimplemented!() }
    /// std `HashMap::contains_key`
    #[verifier::external_body]
    pub fn contains_key(&self, key: &K) -> (r: bool)
        ensures r == self@.dom().contains(key@),
    { unimplemented!() }
    /// std `HashMap::get`
    #[verifier::external_body]
    pub fn get(&self, key: &K) -> (r: Option<&V>)
        ensures r is Some <==> self@.dom().contains(key@), r is Some ==> (*r->Some_0)@ == self@[key@],
    { unimplemented!() }
    /// std `HashMap::is_empty`
    #[verifier::external_body]
    pub fn is_empty(&self) -> (r: bool)
        ensures r == (self.order().len() == 0),
    { unimplemented!() }
    /// std `HashMap::insert`: insert or replace
    #[verifier::external_body]
    pub fn insert(&mut self, key: K, value: V) -> (r: Option<V>)
        ensures final(self)@ == old(self)@.insert(key@, value@),
    { unimplemented!() }
    #[verifier::external_body]
    pub fn len(&self) -> (r: usize)
        ensures r == self.order().len(),
    { unimplemented!() }
}
/// R12c: `HashMap::with_capacity(n)`.  Same result as std (an empty map); the
/// precondition is the C15 obligation [alloc_proportional]: a capacity taken
/// from input must be bounded (16 MiB, the codec's max_buffer_size).
#[verifier::external_body]
pub fn hashmap_with_capacity_checked<K: View, V: View>(n: usize) -> (r: HashMap<K, V>)
    requires n <= 16777216, /*@PL:alloc_proportional*/
    ensures r@ == Map::<K::V, V::V>::empty(),
{ unimplemented!() }
pub open spec fn kv_ref_views<'a, K: View, V: View>(s: Seq<(&'a K, &'a V)>) -> Seq<(K::V, V::V)> {
    Seq::new(s.len(), |i: int| ((*s[i].0)@, (*s[i].1)@))
}
/// `std::collections::hash_map::Iter<'a, K, V>`
#[verifier::external_body]
#[verifier::reject_recursive_types(K)]
#[verifier::reject_recursive_types(V)]
pub struct HashMapIter<'a, K, V> { _p: core::marker::PhantomData<&'a (K, V)> }
impl<'a, K, V> HashMapIter<'a, K, V> {
    pub uninterp spec fn rest(&self) -> Seq<(&'a K, &'a V)>;
}
impl<'a, K, V> Iterator for HashMapIter<'a, K, V> {
    type Item = (&'a K, &'a V);
    #[verifier::external_body]
    fn next(&mut self) -> (r: Option<(&'a K, &'a V)>)
    { unimplemented!() }
}
impl<'a, K, V> vstd::std_specs::iter::IteratorSpecImpl for HashMapIter<'a, K, V> {
    open spec fn obeys_prophetic_iter_laws(&self) -> bool { true }
    #[verifier::prophetic]
    open spec fn remaining(&self) -> Seq<(&'a K, &'a V)> { self.rest() }
    #[verifier::prophetic]
    open spec fn will_return_none(&self) -> bool { true }
    open spec fn decrease(&self) -> Option<nat> { Some(self.rest().len()) }
    open spec fn peek(&self, i: int) -> Option<(&'a K, &'a V)> {
        if 0 <= i < self.rest().len() { Some(self.rest()[i]) } else { None }
    }
}
impl<'a, K: View, V: View> IntoIterator for &'a HashMap<K, V> {
    type Item = (&'a K, &'a V);
    type IntoIter = HashMapIter<'a, K, V>;
    #[verifier::external_body]
    fn into_iter(self) -> (r: HashMapIter<'a, K, V>)
        ensures kv_ref_views(r.rest()) == self.order(),
    { unimplemented!() }
}

// ---- pem::Pem (pem-3.0.6 src/lib.rs) -------------------------------------------------------------
/// View: the PEM text of the one item (`pem::encode`).
#[verifier::external_body]
pub struct Pem { _p: () }
impl View for Pem {
    type V = Seq<char>;
    uninterp spec fn view(&self) -> Seq<char>;
}
pub open spec fn pems_view(v: Seq<Pem>) -> Seq<Seq<char>> { Seq::new(v.len(), |i: int| v[i]@) }
pub uninterp spec fn is_pem(s: Seq<char>) -> bool;
/// `encode_many`: the items joined with "\r\n" (lib.rs:550)
pub uninterp spec fn pem_join(v: Seq<Seq<char>>) -> Seq<char>;
/// `parse_many`: every PEM section found in the text (lib.rs:479)
pub uninterp spec fn pem_split(s: Seq<char>) -> Option<Seq<Seq<char>>>;
pub open spec fn all_pem(v: Seq<Seq<char>>) -> bool { forall|i: int| 0 <= i < v.len() ==> is_pem(#[trigger] v[i]) }
/// Assumption PEM: parse_many(encode_many(v)) == v for lists of Pem values.
pub broadcast axiom fn axiom_pem_roundtrip(v: Seq<Seq<char>>)
    requires all_pem(v),
    ensures #[trigger] pem_split(pem_join(v)) == Some(v);
pub broadcast axiom fn axiom_pem_value(p: Pem)
    ensures is_pem(#[trigger] p@);
#[derive(Debug)]
pub struct PemError { pub _p: () }
#[verifier::external_body]
pub fn encode_many(pems: &Vec<Pem>) -> (r: String)
    ensures r@ == pem_join(pems_view(pems@)),
{ unimplemented!() }
#[verifier::external_body]
pub fn parse_many(input: String) -> (r: core::result::Result<Vec<Pem>, PemError>)
    ensures r.is_ok() <==> pem_split(input@).is_some(), r.is_ok() ==> Some(pems_view(r.unwrap()@)) == pem_split(input@),
{ unimplemented!() }

// ---- vcard4::Vcard (vcard4-0.7.2) --------------------------------------------------------------------
/// View: the vCard text (`Display`).
#[verifier::external_body]
pub struct Vcard { _p: () }
impl View for Vcard {
    type V = Seq<char>;
    uninterp spec fn view(&self) -> Seq<char>;
}
pub open spec fn vcards_view(v: Seq<Vcard>) -> Seq<Seq<char>> { Seq::new(v.len(), |i: int| v[i]@) }
/// `vcard4::parse` (src/parser.rs:101): all cards of the text; an input without
/// any card is an ERROR (parser.rs:117 `if cards.is_empty() { return Err(..) }`)
pub uninterp spec fn vcard_parse(s: Seq<char>) -> Option<Seq<Seq<char>>>;
pub broadcast axiom fn axiom_vcard_parse_nonempty(s: Seq<char>)
    ensures (#[trigger] vcard_parse(s)) matches Some(v) ==> v.len() > 0;
/// Assumption VCARD: the text of a Vcard value parses back to that one card.
pub broadcast axiom fn axiom_vcard_roundtrip(c: Vcard)
    ensures #[trigger] vcard_parse(c@) == Some(seq![c@]);
impl Vcard {
    /// `ToString` through `Display`
    #[verifier::external_body]
    pub fn to_string(&self) -> (r: String)
        ensures r@ == self@,
    { unimplemented!() }
}
#[derive(Debug)]
pub struct VcardError { pub _p: () }
/// `vcard4::parse`
#[verifier::external_body]
pub fn parse(input: String) -> (r: core::result::Result<Vec<Vcard>, VcardError>)
    ensures r.is_ok() <==> vcard_parse(input@).is_some(), r.is_ok() ==> Some(vcards_view(r.unwrap()@)) == vcard_parse(input@),
{ unimplemented!() }

// ---- totp_rs::TOTP (serde_json form) -------------------------------------------------------------------
#[verifier::external_body]
pub struct TOTP { _p: () }
pub ghost struct TotpV { pub json: Seq<u8> }
impl View for TOTP {
    type V = TotpV;
    uninterp spec fn view(&self) -> TotpV;
}
pub uninterp spec fn totp_parse(b: Seq<u8>) -> Option<TotpV>;
/// Assumption JSON-TOTP: from_slice(to_vec(t)) == t.
pub broadcast axiom fn axiom_totp_roundtrip(t: TotpV)
    ensures #[trigger] totp_parse(t.json) == Some(t);
#[verifier::external_body]
pub fn json_totp_to_vec(t: &TOTP) -> (r: core::result::Result<Vec<u8>, JsonError>)
    ensures r.is_ok() ==> r.unwrap()@ == t@.json,
{ unimplemented!() }
#[verifier::external_body]
pub fn json_totp_from_slice(b: &[u8]) -> (r: core::result::Result<TOTP, JsonError>)
    ensures r.is_ok() <==> totp_parse(b@).is_some(), r.is_ok() ==> Some(r.unwrap()@) == totp_parse(b@),
{ unimplemented!() }

// ---- age::x25519::Identity ---------------------------------------------------------------------------------
pub struct AgeIdentity { pub _p: () }
pub uninterp spec fn is_age_identity(s: Seq<char>) -> bool;
/// R12: `$s.parse()` with target `age::x25519::Identity` (age-0.11.1 src/x25519.rs, Err = &'static str)
#[verifier::external_body]
pub fn parse_age_identity(s: &String) -> (r: core::result::Result<AgeIdentity, &'static str>)
    ensures r.is_ok() <==> is_age_identity(s@),
{ unimplemented!() }
