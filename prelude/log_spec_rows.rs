// ===========================================================================
// prelude/log_spec_rows.rs — SPECIFICATION vocabulary of the row files that
// `FormatStream` iterates (crates/filesystem/src/formats/stream.rs), shared by
// units `stream` (where the contracts of the two traits below are PROVED for
// the real code) and `log` (where the iterator is used through them).
// No assumption in this file: spec fns, proved lemmas and two trait
// DECLARATIONS carrying contracts.  Included at top level of the unit.
// ===========================================================================

// ---- a file is  header (h bytes) ++ row_0 ++ row_1 ++ ...  ----------------------
pub open spec fn concat(rows: Seq<Seq<u8>>) -> Seq<u8>
    decreases rows.len(),
{
    if rows.len() == 0 { Seq::<u8>::empty() } else { concat(rows.drop_last()) + rows.last() }
}
/// byte offset, relative to the first row, at which row `k` starts
pub open spec fn off(rows: Seq<Seq<u8>>, k: int) -> int { concat(rows.take(k)).len() as int }

/// a row is framed by its body length, as a little-endian u32, in front and behind
pub open spec fn framed(row: Seq<u8>) -> bool {
    &&& row.len() >= 8 && row.len() - 8 <= u32::MAX
    &&& row.subrange(0, 4) == le32((row.len() - 8) as u32)
    &&& row.subrange(row.len() - 4, row.len() as int) == le32((row.len() - 8) as u32)
}
/// file_wf: the stream `b` is a header of `h` bytes followed by exactly the framed rows `rows`
pub open spec fn file_rows(b: Seq<u8>, h: int, rows: Seq<Seq<u8>>) -> bool {
    &&& 0 <= h <= b.len()
    &&& b.subrange(h, b.len() as int) == concat(rows)
    &&& forall|k: int| 0 <= k < rows.len() ==> framed(#[trigger] rows[k])
}

pub proof fn lemma_concat_push(rows: Seq<Seq<u8>>, r: Seq<u8>)
    ensures concat(rows.push(r)) == concat(rows) + r,
{
    assert(rows.push(r).drop_last() =~= rows);
}
pub proof fn lemma_concat_add(a: Seq<Seq<u8>>, b: Seq<Seq<u8>>)
    ensures concat(a + b) == concat(a) + concat(b),
    decreases b.len(),
{
    if b.len() == 0 {
        assert(a + b =~= a);
        assert(concat(a) + concat(b) =~= concat(a));
    } else {
        lemma_concat_add(a, b.drop_last());
        assert((a + b).drop_last() =~= a + b.drop_last());
        assert((a + b).last() == b.last());
        assert(concat(a) + (concat(b.drop_last()) + b.last()) =~= (concat(a) + concat(b.drop_last())) + b.last());
    }
}
pub proof fn lemma_off_step(rows: Seq<Seq<u8>>, k: int)
    requires 0 <= k < rows.len(),
    ensures off(rows, k + 1) == off(rows, k) + rows[k].len(), off(rows, 0) == 0,
{
    assert(rows.take(k + 1) =~= rows.take(k).push(rows[k]));
    lemma_concat_push(rows.take(k), rows[k]);
    assert(rows.take(0) =~= Seq::<Seq<u8>>::empty());
}
/// row k occupies [off(k), off(k+1)) of the concatenation
pub proof fn lemma_row_at(rows: Seq<Seq<u8>>, k: int)
    requires 0 <= k < rows.len(),
    ensures
        off(rows, k + 1) == off(rows, k) + rows[k].len(),
        off(rows, k + 1) <= concat(rows).len(),
        off(rows, rows.len() as int) == concat(rows).len(),
        concat(rows).subrange(off(rows, k), off(rows, k + 1)) == rows[k],
    decreases rows.len(),
{
    lemma_off_step(rows, k);
    assert(rows.take(rows.len() as int) =~= rows);
    let n = rows.len() as int;
    if k == n - 1 {
        assert(rows.take(k) =~= rows.drop_last());
        assert(concat(rows).subrange(off(rows, k), off(rows, k + 1)) =~= rows[k]);
    } else {
        let dl = rows.drop_last();
        lemma_row_at(dl, k);
        assert(dl.take(k) =~= rows.take(k));
        assert(dl.take(k + 1) =~= rows.take(k + 1));
        assert(dl.take(dl.len() as int) =~= dl);
        assert(concat(rows).subrange(off(rows, k), off(rows, k + 1)) =~= concat(dl).subrange(off(dl, k), off(dl, k + 1)));
    }
}
/// offsets are monotone; every row has at least its 8 framing bytes
pub proof fn lemma_off_mono(rows: Seq<Seq<u8>>, i: int, j: int)
    requires 0 <= i <= j <= rows.len(), forall|k: int| 0 <= k < rows.len() ==> framed(#[trigger] rows[k]),
    ensures off(rows, i) + 8 * (j - i) <= off(rows, j),
    decreases j - i,
{
    if i < j {
        lemma_off_mono(rows, i, j - 1);
        lemma_off_step(rows, j - 1);
    }
}
/// what a well-formed file looks like around row k
pub proof fn lemma_file_row(b: Seq<u8>, h: int, rows: Seq<Seq<u8>>, k: int)
    requires file_rows(b, h, rows), 0 <= k < rows.len(),
    ensures
        0 <= off(rows, k) && h + off(rows, k + 1) <= b.len(),
        off(rows, k + 1) == off(rows, k) + rows[k].len(),
        h + off(rows, rows.len() as int) == b.len(),
        b.subrange(h + off(rows, k), h + off(rows, k + 1)) == rows[k],
        b.subrange(h + off(rows, k), h + off(rows, k) + 4) == le32((rows[k].len() - 8) as u32),
        b.subrange(h + off(rows, k + 1) - 4, h + off(rows, k + 1)) == le32((rows[k].len() - 8) as u32),
{
    lemma_row_at(rows, k);
    let c = concat(rows);
    assert(c.len() == b.len() - h);
    assert(b.subrange(h + off(rows, k), h + off(rows, k + 1)) =~= c.subrange(off(rows, k), off(rows, k + 1)));
    let r = rows[k];
    assert(framed(r));
    assert(b.subrange(h + off(rows, k), h + off(rows, k) + 4) =~= r.subrange(0, 4));
    assert(b.subrange(h + off(rows, k + 1) - 4, h + off(rows, k + 1)) =~= r.subrange(r.len() - 4, r.len() as int));
}
pub proof fn lemma_file_len(b: Seq<u8>, h: int, rows: Seq<Seq<u8>>)
    requires file_rows(b, h, rows),
    ensures h + off(rows, rows.len() as int) == b.len(), off(rows, 0) == 0,
{
    assert(rows.take(rows.len() as int) =~= rows);
    assert(rows.take(0) =~= Seq::<Seq<u8>>::empty());
}

// ---- what the iterator yields -------------------------------------------------------
/// view of a `FileItem`: decoded record fields, byte range of the row, byte range of its value
pub ghost struct ItemV<D> { pub d: D, pub off: (int, int), pub val: (int, int) }

/// Code-level meaning of `FormatStream::read_row` for a row occupying
/// `[start, end)` of the stream `b`: the record is decoded from `start + 4`
/// (behind the leading length word) against THE REST OF THE STREAM; with
/// `prefix` a u32 value length follows and the value is the range behind it,
/// otherwise the value is the row without its two length words.
pub open spec fn parse_row<T: Decodable>(b: Seq<u8>, start: int, end: int, prefix: bool) -> Option<ItemV<T::DV>> {
    if !(0 <= start && start + 4 <= b.len()) { None } else {
        match T::dec_of(b.subrange(start + 4, b.len() as int)) {
            None => None,
            Some((d, rest)) =>
                if prefix {
                    match r_u32(rest) {
                        None => None,
                        Some((vl, rest2)) => Some(ItemV { d: d, off: (start, end), val: (b.len() - rest2.len(), b.len() - rest2.len() + vl) }),
                    }
                } else {
                    Some(ItemV { d: d, off: (start, end), val: (start + 4, end - 4) })
                },
        }
    }
}
/// forward step at cursor `pos`: the LEADING length word decides where the row ends
pub open spec fn fwd_row<T: Decodable>(b: Seq<u8>, pos: int, prefix: bool) -> Option<ItemV<T::DV>> {
    if !(0 <= pos && pos + 4 <= b.len()) { None } else {
        parse_row::<T>(b, pos, pos + de32(b.subrange(pos, pos + 4)) + 8, prefix)
    }
}
/// backward step at cursor `pos`: the TRAILING length word decides where the row starts
pub open spec fn back_row<T: Decodable>(b: Seq<u8>, pos: int, prefix: bool) -> Option<ItemV<T::DV>> {
    if !(4 <= pos && pos <= b.len()) { None } else {
        parse_row::<T>(b, pos - (de32(b.subrange(pos - 4, pos)) + 8), pos, prefix)
    }
}

pub open spec fn cur(c: Option<u64>, dflt: int) -> int { match c { Some(p) => p as int, None => dflt } }

/// forward-only iteration over the well-formed file `rows` has yielded `k` rows
pub open spec fn fwd_at(b: Seq<u8>, h: int, fwd: Option<u64>, bwd: Option<u64>, rows: Seq<Seq<u8>>, k: int) -> bool {
    &&& file_rows(b, h, rows)
    &&& bwd is None
    &&& 0 <= k <= rows.len()
    &&& cur(fwd, h) == h + off(rows, k)
    &&& (fwd is None ==> k == 0)
}
/// backward-only iteration over the well-formed file `rows` has yielded `k` rows
pub open spec fn back_at(b: Seq<u8>, h: int, fwd: Option<u64>, bwd: Option<u64>, rows: Seq<Seq<u8>>, k: int) -> bool {
    &&& file_rows(b, h, rows)
    &&& fwd is None
    &&& 0 <= k <= rows.len()
    &&& cur(bwd, b.len() as int) == h + off(rows, rows.len() - k)
    &&& (bwd is None ==> k == 0)
}

// ---- the two traits of crates/filesystem/src/formats (interfaces with contracts) ------
/// `pub trait FileItem: Default + std::fmt::Debug + Decodable` (records.rs:7).
/// `Debug` dropped (R6).  The spec accessors are the abstract state the four
/// methods read and write.
pub trait FileItem: Default + Decodable {
    spec fn offset_v(&self) -> (int, int);
    spec fn value_v(&self) -> (int, int);

    fn offset(&self) -> (r: &Range<u64>)
        ensures (r.start as int, r.end as int) == self.offset_v(); /*@TL:FileItem::offset:offset_is_field*/
    fn value(&self) -> (r: &Range<u64>)
        ensures (r.start as int, r.end as int) == self.value_v(); /*@TL:FileItem::value:value_is_field*/
    fn set_offset(&mut self, offset: Range<u64>)
        ensures
            final(self).offset_v() == (offset.start as int, offset.end as int) /*@TL:FileItem::set_offset:set_offset_sets_only_offset*/
                && final(self).value_v() == old(self).value_v() && final(self).dview() == old(self).dview();
    fn set_value(&mut self, value: Range<u64>)
        ensures
            final(self).value_v() == (value.start as int, value.end as int) /*@TL:FileItem::set_value:set_value_sets_only_value*/
                && final(self).offset_v() == old(self).offset_v() && final(self).dview() == old(self).dview();

    /// `FormatStream::read_row` decodes into `Default::default()`: decoding must
    /// not need anything of the receiver
    proof fn lemma_dec_ready(&self)
        ensures self.dec_ready();
}
pub open spec fn item_v<T: FileItem>(x: T) -> ItemV<T::DV> {
    ItemV { d: x.dview(), off: x.offset_v(), val: x.value_v() }
}
/// the value handed out is row `i` of the file, or the end of iteration when there is no such row
pub open spec fn next_is_row<T: FileItem>(r: Option<T>, b: Seq<u8>, h: int, prefix: bool, rows: Seq<Seq<u8>>, i: int) -> bool {
    if 0 <= i < rows.len() {
        r is Some && Some(item_v(r.unwrap())) == parse_row::<T>(b, h + off(rows, i), h + off(rows, i + 1), prefix)
    } else { r is None }
}

/// `pub trait FormatStreamIterator<T>` (stream.rs:12).  Abstract state: the
/// bytes of the underlying stream, where the rows start, the two cursors.
pub trait FormatStreamIterator<T: FileItem + Send> {
    spec fn it_bytes(&self) -> Seq<u8>;
    spec fn it_hdr(&self) -> int;
    spec fn it_prefix(&self) -> bool;
    spec fn it_rev(&self) -> bool;
    spec fn it_fwd(&self) -> Option<u64>;
    spec fn it_bwd(&self) -> Option<u64>;

    fn next(&mut self) -> (r: FsResult<Option<T>>)
        ensures
            final(self).it_bytes() == old(self).it_bytes() && final(self).it_hdr() == old(self).it_hdr() /*@TL:FormatStreamIterator::next:next_keeps_stream*/
                && final(self).it_prefix() == old(self).it_prefix() && final(self).it_rev() == old(self).it_rev(),
            // C06: the k-th forward item is row k, then the end
            forall|rows: Seq<Seq<u8>>, k: int| #![trigger fwd_at(old(self).it_bytes(), old(self).it_hdr(), old(self).it_fwd(), old(self).it_bwd(), rows, k)] /*@TL:FormatStreamIterator::next:forward_is_row_k*/
                !old(self).it_rev() && r is Ok && fwd_at(old(self).it_bytes(), old(self).it_hdr(), old(self).it_fwd(), old(self).it_bwd(), rows, k) ==>
                    next_is_row::<T>(r->Ok_0, old(self).it_bytes(), old(self).it_hdr(), old(self).it_prefix(), rows, k)
                    && fwd_at(final(self).it_bytes(), final(self).it_hdr(), final(self).it_fwd(), final(self).it_bwd(), rows, if k < rows.len() { k + 1 } else { k }),
            // C06: the k-th backward item is row n-1-k, then the end
            forall|rows: Seq<Seq<u8>>, k: int| #![trigger back_at(old(self).it_bytes(), old(self).it_hdr(), old(self).it_fwd(), old(self).it_bwd(), rows, k)] /*@TL:FormatStreamIterator::next:back_is_mirror*/
                old(self).it_rev() && r is Ok && back_at(old(self).it_bytes(), old(self).it_hdr(), old(self).it_fwd(), old(self).it_bwd(), rows, k) ==>
                    next_is_row::<T>(r->Ok_0, old(self).it_bytes(), old(self).it_hdr(), old(self).it_prefix(), rows, rows.len() - 1 - k)
                    && back_at(final(self).it_bytes(), final(self).it_hdr(), final(self).it_fwd(), final(self).it_bwd(), rows, if k < rows.len() { k + 1 } else { k });
}
