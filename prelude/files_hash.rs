// ===========================================================================
// prelude/files_hash.rs — SHA-256, hex and byte-string comparison stand-ins of
// the units `files` (C17) and `integrity` (C16).  Included inside `mod pre`
// after base.rs / binary_stream.rs (uses `BytesLike`).
// Every `external_body`, `uninterp spec fn` and `axiom` below is an ASSUMPTION.
// ===========================================================================

// ---- SHA-256 -----------------------------------------------------------------
/// SHA-256 as an uninterpreted function on byte strings (sha2-0.10.9
/// src/sha256.rs is not read by the verifier).
pub uninterp spec fn H(s: Seq<u8>) -> Seq<u8>;

/// **Axiom CR** — collision resistance idealised as injectivity.  NOT
/// broadcast: only the lemmas that call it (and say so) depend on it.
pub axiom fn axiom_CR(a: Seq<u8>, b: Seq<u8>)
    requires H(a) == H(b),
    ensures a == b;

/// **Axiom LEN** — a SHA-256 output has 32 bytes.  NOT broadcast.
pub axiom fn axiom_H_len(a: Seq<u8>)
    ensures H(a).len() == 32;

/// sha2::Sha256 through the `digest::Digest` trait (digest-0.10.7 src/digest.rs:
/// `new`, `update(impl AsRef<[u8]>)`, `finalize`).  View: the concatenation
/// of everything absorbed so far (incremental hashing == hashing the
/// concatenation is the defining property of the Merkle–Damgård interface).
#[verifier::external_body]
pub struct Sha256 { _p: () }
impl View for Sha256 {
    type V = Seq<u8>;
    uninterp spec fn view(&self) -> Seq<u8>;
}
/// `digest::Output<Sha256>` = `GenericArray<u8, U32>` (generic-array-0.14.7):
/// `Copy`, `as_slice`, `to_vec`, `AsRef<[u8]>`.
#[verifier::external_body]
#[derive(Clone, Copy)]
pub struct Sha256Output { _b: [u8; 32] }
impl View for Sha256Output {
    type V = Seq<u8>;
    uninterp spec fn view(&self) -> Seq<u8>;
}
impl Sha256 {
    #[verifier::external_body]
    pub fn new() -> (r: Sha256)
        ensures r@ == Seq::<u8>::empty(),
    { unimplemented!() }

    #[verifier::external_body]
    pub fn update<B: BytesLike>(&mut self, data: B)
        ensures final(self)@ == old(self)@ + data.bytes(),
    { unimplemented!() }

    #[verifier::external_body]
    pub fn finalize(self) -> (r: Sha256Output)
        ensures r@ == H(self@), r@.len() == 32,
    { unimplemented!() }

    /// `Digest::chain_update(data)` (digest-0.10.7 src/digest.rs: "Process input
    /// data in a chained manner" = `update` returning the hasher).
    #[verifier::external_body]
    pub fn chain_update<B: BytesLike>(self, data: B) -> (r: Sha256)
        ensures r@ == self@ + data.bytes(),
    { unimplemented!() }

    /// `Digest::digest(data)` (digest-0.10.7 src/digest.rs: "Compute hash of
    /// `data`" = `new`, `update(data)`, `finalize`).
    #[verifier::external_body]
    pub fn digest<B: BytesLike>(data: B) -> (r: Sha256Output)
        ensures r@ == H(data.bytes()), r@.len() == 32,
    { unimplemented!() }
}
impl Sha256Output {
    #[verifier::external_body]
    pub fn as_slice(&self) -> (r: &[u8])
        ensures r@ == self@,
    { unimplemented!() }

    #[verifier::external_body]
    pub fn to_vec(&self) -> (r: Vec<u8>)
        ensures r@ == self@,
    { unimplemented!() }
}
impl BytesLike for Sha256Output { open spec fn bytes(&self) -> Seq<u8> { self@ } }
/// `Vec<u8>` passed by value where `impl AsRef<[u8]>` is expected
impl BytesLike for Vec<u8> { open spec fn bytes(&self) -> Seq<u8> { self@ } }

/// `sos_core::commit::CommitTree::hash(data)` = rs_merkle `Sha256::hash(data)`
/// (crates/core/src/commit/tree.rs:26, rs_merkle-1.5.0 src/algorithms/sha256.rs:
/// `Sha256::new(); update(data); finalize().into()`).
pub type TreeHash = [u8; 32];
pub struct CommitTree { pub _p: () }
impl CommitTree {
    #[verifier::external_body]
    pub fn hash(data: &[u8]) -> (r: TreeHash)
        ensures r@ == H(data@),
    { unimplemented!() }
}

// ---- hex (hex-0.4.3 src/lib.rs) ----------------------------------------------
pub mod hex {
    use vstd::prelude::*;
    use super::BytesLike;

    /// lower-case hexadecimal text of a byte string (`encode`), uninterpreted
    pub uninterp spec fn hex_enc(b: Seq<u8>) -> Seq<char>;
    /// `decode`: None for odd length / a non-hex character, uninterpreted
    pub uninterp spec fn hex_dec(s: Seq<char>) -> Option<Seq<u8>>;

    /// Assumption HEX: decode inverts encode (hex-0.4.3: `encode` emits two
    /// characters of `0-9a-f` per byte, `decode` accepts them).
    pub broadcast axiom fn axiom_hex_roundtrip(b: Seq<u8>)
        ensures #[trigger] hex_dec(hex_enc(b)) == Some(b);

    /// Assumption HEX-ALPHABET: the encoder's alphabet is `0-9a-f`; in
    /// particular the text contains neither `.` nor a path separator and has
    /// two characters per byte.
    pub broadcast axiom fn axiom_hex_alphabet(b: Seq<u8>)
        ensures
            !(#[trigger] hex_enc(b)).contains('.'),
            !hex_enc(b).contains('/'),
            !hex_enc(b).contains('\\'),
            hex_enc(b).len() == 2 * b.len();

    #[derive(Debug)]
    pub struct FromHexError { pub _p: () }

    #[verifier::external_body]
    pub fn encode<T: BytesLike>(data: T) -> (r: String)
        ensures r@ == hex_enc(data.bytes()),
    { unimplemented!() }

    /// upper-case hexadecimal text (`encode_upper`), uninterpreted: a different
    /// text from `hex_enc` in general (no relation is assumed)
    pub uninterp spec fn hex_enc_upper(b: Seq<u8>) -> Seq<char>;
    #[verifier::external_body]
    pub fn encode_upper<T: BytesLike>(data: T) -> (r: String)
        ensures r@ == hex_enc_upper(data.bytes()),
    { unimplemented!() }

    #[verifier::external_body]
    pub fn decode(data: &str) -> (r: core::result::Result<Vec<u8>, FromHexError>)
        ensures
            r.is_ok() <==> hex_dec(data@).is_some(),
            r.is_ok() ==> r.unwrap()@ == hex_dec(data@).unwrap(),
    { unimplemented!() }
}
pub use hex::{hex_enc, hex_dec, FromHexError, axiom_hex_roundtrip, axiom_hex_alphabet};

// ---- R12: `==` / `!=` on byte slices and arrays ---------------------------------
/// R12: `$a != $b` for `$a, $b: &[u8]` (core::slice::cmp PartialEq: element-wise).
#[verifier::external_body]
pub fn slice_ne(a: &[u8], b: &[u8]) -> (r: bool)
    ensures r == (a@ != b@),
{ a != b }

/// R12: `$a == $b` for `$a, $b: &[u8]` (core::slice::cmp PartialEq: element-wise).
#[verifier::external_body]
pub fn slice_eq(a: &[u8], b: &[u8]) -> (r: bool)
    ensures r == (a@ == b@),
{ a == b }

/// R12: `$a == $b` for `$a, $b: &[u8; 32]` (core::array::equality: element-wise).
#[verifier::external_body]
pub fn arr32_eq(a: &[u8; 32], b: &[u8; 32]) -> (r: bool)
    ensures r == (a@ == b@),
{ a == b }

/// concatenation of a sequence of chunks
pub open spec fn concat(c: Seq<Seq<u8>>) -> Seq<u8>
    decreases c.len(),
{
    if c.len() == 0 { Seq::<u8>::empty() } else { concat(c.drop_last()) + c.last() }
}
pub proof fn lemma_concat_push(c: Seq<Seq<u8>>, x: Seq<u8>)
    ensures concat(c.push(x)) == concat(c) + x,
{
    assert(c.push(x).drop_last() =~= c);
}
pub proof fn lemma_concat_take_next(c: Seq<Seq<u8>>, k: int)
    requires 0 <= k < c.len(),
    ensures concat(c.take(k + 1)) == concat(c.take(k)) + c[k],
{
    assert(c.take(k + 1) =~= c.take(k).push(c[k]));
    lemma_concat_push(c.take(k), c[k]);
}
/// the concatenation of the first k chunks is a prefix of the whole
pub proof fn lemma_concat_take_prefix(c: Seq<Seq<u8>>, k: int)
    requires 0 <= k <= c.len(),
    ensures
        concat(c.take(k)).len() <= concat(c).len(),
        concat(c).subrange(0, concat(c.take(k)).len() as int) == concat(c.take(k)),
    decreases c.len() - k,
{
    if k == c.len() {
        assert(c.take(k) =~= c);
        assert(concat(c).subrange(0, concat(c).len() as int) =~= concat(c));
    } else {
        lemma_concat_take_prefix(c, k + 1);
        lemma_concat_take_next(c, k);
        let a = concat(c.take(k));
        let b = concat(c.take(k + 1));
        assert(b == a + c[k]);
        assert(concat(c).subrange(0, a.len() as int) =~= concat(c).subrange(0, b.len() as int).subrange(0, a.len() as int));
        assert((a + c[k]).subrange(0, a.len() as int) =~= a);
    }
}
