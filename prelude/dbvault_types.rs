// ===========================================================================
// prelude/dbvault_types.rs — stand-ins of unit `dbvault` for everything the
// database vault writer (crates/database/src/vault_writer.rs) and
// `FolderEntity::replace_all_secrets` call but that lives outside the unit.
// Every `external_body` below is an ASSUMPTION (trusted base); each names the
// source that was read.  Included inside `mod dbw` after the database `Error`
// enum and the extracted row / record structs (`SecretRow`, `FolderRow`, ...;
// their `cols()` / `is_row()` ghost views are defined next to them in the unit).
//
// PINNED SQL.  No verifier here interprets SQL.  The contracts of the
// `FolderEntity` functions are READ OFF THE SQL TEXT the functions build with
// `sql_query_builder` (quoted next to each contract) and the table definitions
// of crates/database/sql_migrations/V1__base.sql; they are stated over the
// ghost relation `VDbV` of prelude/dbvault_spec.rs.  Every such function is
// named by a `//@pin` line of units/dbvault.vrs: if its text changes, the unit
// answers UNDECIDED instead of verifying against an outdated contract.
//
// SQLite facts used (sqlite.org/lang_*.html, rusqlite 0.37.0):
//   * a statement that fails changes nothing (statement-level atomicity, autocommit);
//   * `Statement::execute` returns the number of rows changed;
//   * `query_row` gives `Err(QueryReturnedNoRows)` when no row matches, `.optional()` turns
//     exactly that error into `Ok(None)`;
//   * UPDATE / DELETE touch exactly the rows the WHERE clause selects and, of those, exactly
//     the columns the SET clause names; an UPDATE that selects no row succeeds.
// ===========================================================================

/// async_sqlite::rusqlite::Error (rusqlite 0.37.0) — opaque
#[derive(Debug)]
pub struct SqlError { pub _p: () }
/// async_sqlite::Error (async-sqlite 0.5.3 src/error.rs) — opaque
#[derive(Debug)]
pub struct AsyncSqliteError { pub _p: () }
/// uuid::Error (uuid-1.18.1) — opaque
#[derive(Debug)]
pub struct UuidError { pub _p: () }

// ---- connection / transaction ------------------------------------------------------
/// rusqlite::Connection (0.37.0).  Ghost state: the committed content of `folders`,
/// `folder_secrets` and (abstractly) every other table.  R19: the connection that
/// `async_sqlite::Client` owns on its worker thread is threaded through the methods of the
/// writer as `db`.
#[verifier::external_body]
pub struct Connection { _p: () }
impl View for Connection {
    type V = VDbV;
    uninterp spec fn view(&self) -> VDbV;
}
/// rusqlite::Transaction (0.37.0 src/transaction.rs): `Connection::transaction` executes
/// BEGIN DEFERRED; statements run through the transaction see and change its working state
/// `cur()`; `commit` makes the working state the connection's state; dropping the value
/// without `commit` rolls back (`DropBehavior::Rollback`), i.e. the connection keeps the state
/// it had.  R19: the stand-in does not borrow the connection; `commit` is handed the
/// connection it was started on.
#[verifier::external_body]
pub struct Transaction<'conn> { _p: core::marker::PhantomData<&'conn ()> }
impl<'conn> Transaction<'conn> {
    pub uninterp spec fn cur(&self) -> VDbV;
    /// `Transaction::commit` (COMMIT).  On failure the transaction is dropped: rollback.
    #[verifier::external_body]
    pub fn commit(self, conn: &mut Connection) -> (r: core::result::Result<(), SqlError>)
        ensures
            r is Ok ==> final(conn)@ == self.cur(),
            r is Err ==> final(conn)@ == old(conn)@,
    { unimplemented!() }
}
impl Connection {
    /// `Connection::transaction(&mut self)`
    #[verifier::external_body]
    pub fn transaction<'conn>(&mut self) -> (r: core::result::Result<Transaction<'conn>, SqlError>)
        ensures
            final(self)@ == old(self)@,
            r matches Ok(tx) ==> tx.cur() == old(self)@,
    { unimplemented!() }
}
/// the state the statements issued through a handle see and change: a connection in autocommit
/// mode (the closures of vault_writer.rs) or an open transaction (`replace_all_secrets`)
pub trait DbHandle {
    spec fn dbs(&self) -> VDbV;
}
impl<'conn> DbHandle for Transaction<'conn> { open spec fn dbs(&self) -> VDbV { self.cur() } }
impl DbHandle for Connection { open spec fn dbs(&self) -> VDbV { self@ } }

/// async_sqlite::Client (0.5.3 src/client.rs:197-260): `conn(func)` / `conn_mut(func)` send
/// `func` to the connection thread, run it ONCE on the connection and hand its result back
/// (`Error::Rusqlite(e)` for `Err(e)`); when the channel is closed `func` does not run.
/// `conn_and_then` is the same with the closure's own error type.  R19: rusqlite changes the
/// database through `&Connection`; the ghost state needs `&mut`, so all three hand the closure
/// `&mut Connection` (the closures under contract never use the difference).
#[verifier::external_body]
pub struct Client { _p: () }
impl Clone for Client {
    /// `#[derive(Clone)]` (client.rs:115): another sender for the same connection thread
    #[verifier::external_body]
    fn clone(&self) -> (r: Client) { unimplemented!() }
}
impl Client {
    #[verifier::external_body]
    pub fn conn<F, T>(&self, db: &mut Connection, func: F) -> (r: core::result::Result<T, AsyncSqliteError>)
        where F: FnOnce(&mut Connection) -> core::result::Result<T, SqlError>,
        requires func.requires((old(db),)),
        ensures
            r matches Ok(t) ==> func.ensures((old(db),), Ok(t)),
            r is Err ==> final(db)@ == old(db)@ || exists|e: SqlError| #![auto] func.ensures((old(db),), Err(e)),
    { unimplemented!() }
    #[verifier::external_body]
    pub fn conn_mut<F, T>(&self, db: &mut Connection, func: F) -> (r: core::result::Result<T, AsyncSqliteError>)
        where F: FnOnce(&mut Connection) -> core::result::Result<T, SqlError>,
        requires func.requires((old(db),)),
        ensures
            r matches Ok(t) ==> func.ensures((old(db),), Ok(t)),
            r is Err ==> final(db)@ == old(db)@ || exists|e: SqlError| #![auto] func.ensures((old(db),), Err(e)),
    { unimplemented!() }
    #[verifier::external_body]
    pub fn conn_and_then<F, T, E2>(&self, db: &mut Connection, func: F) -> (r: core::result::Result<T, E2>)
        where F: FnOnce(&mut Connection) -> core::result::Result<T, E2>,
        requires func.requires((old(db),)),
        ensures
            r matches Ok(t) ==> func.ensures((old(db),), Ok(t)),
            r is Err ==> final(db)@ == old(db)@ || exists|e: E2| #![auto] func.ensures((old(db),), Err(e)),
    { unimplemented!() }
}

// ---- time text ---------------------------------------------------------------------------------
/// RFC 3339 text -> instant (`UtcDateTime::parse_rfc3339`), uninterpreted
pub uninterp spec fn parse_time(s: Seq<char>) -> Option<Instant>;
impl UtcDateTime {
    /// crates/core/src/date_time.rs `to_rfc3339` = `OffsetDateTime::format(&Rfc3339)` (PINNED)
    #[verifier::external_body]
    pub fn to_rfc3339(&self) -> (r: CResult<String>)
        ensures r matches Ok(s) ==> parse_time(s@) == Some(self.0@),
    { unimplemented!() }
    /// crates/core/src/date_time.rs `parse_rfc3339` = `OffsetDateTime::parse(value, &Rfc3339)` (PINNED)
    #[verifier::external_body]
    pub fn parse_rfc3339(value: &str) -> (r: CResult<UtcDateTime>)
        ensures
            r is Ok <==> parse_time(value@) is Some,
            r matches Ok(t) ==> Some(t.0@) == parse_time(value@),
    { unimplemented!() }
}

// ---- small std / uuid helpers (exact std meaning) ---------------------------------------------------
impl Uuid {
    /// `ToString` through `impl Display for Uuid` (uuid-1.18.1 src/fmt.rs): hyphenated lower-case hex
    #[verifier::external_body]
    pub fn to_string(&self) -> (r: String)
        ensures r@ == uuid_text(self.0@),
    { unimplemented!() }
}
/// R12: `$s.parse()` with target `SecretId` = `<Uuid as FromStr>::from_str($s)` (uuid-1.18.1 src/parser.rs)
#[verifier::external_body]
pub fn uuid_from_str(s: &str) -> (r: core::result::Result<Uuid, UuidError>)
    ensures
        r is Ok <==> uuid_parse(s@) is Some,
        r matches Ok(u) ==> Some(u.0@) == uuid_parse(s@),
{ unimplemented!() }
/// R12: `$s.to_vec()` on `&[u8; 32]`
#[verifier::external_body]
pub fn varr_to_vec(s: &[u8; 32]) -> (r: Vec<u8>)
    ensures r@ == s@,
{ s.to_vec() }
/// R12: `$s.to_string()` for `$s: &str` (alloc `impl ToString for str`): the same characters
#[verifier::external_body]
pub fn str_to_string(s: &str) -> (r: String)
    ensures r@ == s@,
{ s.to_string() }
/// R12: `$b.then_some($v)` (core/src/bool.rs): "Returns Some(t) if the bool is true, or None otherwise."
pub fn then_some<T>(b: bool, v: T) -> (r: Option<T>)
    ensures r == (if b { Some(v) } else { None::<T> }),
{ if b { Some(v) } else { None } }
/// `std::borrow::Cow<'a, str>` (alloc/src/borrow.rs; `<str as ToOwned>::Owned = String`)
pub enum CowStr<'a> { Borrowed(&'a str), Owned(String) }

// ---- helpers of `FolderRow::new_update` / `FolderRecord::from_row` ------------------------------------
/// `std::num::TryFromIntError` — opaque
#[derive(Debug)]
pub struct TryFromIntError { pub _p: () }
/// R12: `$x.try_into()` with source `i64`, target `u16` (core/src/convert/num.rs `try_from`: Err unless 0 <= x <= u16::MAX)
pub fn i64_to_u16(x: i64) -> (r: core::result::Result<u16, TryFromIntError>)
    ensures r is Ok <==> 0 <= x <= u16::MAX, r matches Ok(v) ==> v as int == x as int,
{ if 0 <= x && x <= 65535 { Ok(x as u16) } else { Err(TryFromIntError { _p: () }) } }
/// R12: `$s.parse()` with target `Cipher` = `<Cipher as FromStr>::from_str` (crates/core/src/crypto/cipher/mod.rs:129,
/// PINNED together with `impl fmt::Display for Cipher` :117: the three texts `Display` writes, nothing else)
#[verifier::external_body]
pub fn cipher_from_str(s: &str) -> (r: CResult<Cipher>)
    ensures r matches Ok(c) ==> s@ == cipher_text(c),
{ unimplemented!() }
/// R12: `$s.parse()` with target `KeyDerivation` (crates/core/src/crypto/key_derivation.rs:89, PINNED together with `Display` :78)
#[verifier::external_body]
pub fn kdf_from_str(s: &str) -> (r: CResult<KeyDerivation>)
    ensures r matches Ok(k) ==> s@ == kdf_text(k),
{ unimplemented!() }
/// R12: `u64::from_le_bytes($b)` (core: the inverse of `to_le_bytes`)
#[verifier::external_body]
pub fn u64_from_le(b: [u8; 8]) -> (r: u64)
    ensures le64(r) == b@,
{ u64::from_le_bytes(b) }
impl Cipher {
    /// `ToString` through `impl fmt::Display for Cipher` (crates/core/src/crypto/cipher/mod.rs:117, PINNED)
    #[verifier::external_body]
    pub fn to_string(&self) -> (r: String)
        ensures r@ == cipher_text(*self),
    { unimplemented!() }
}
impl KeyDerivation {
    /// `ToString` through `impl fmt::Display for KeyDerivation` (crates/core/src/crypto/key_derivation.rs:78, PINNED)
    #[verifier::external_body]
    pub fn to_string(&self) -> (r: String)
        ensures r@ == kdf_text(*self),
    { unimplemented!() }
}
/// R12: `$o.cloned()` on `Option<&String>` (core/src/option.rs: "Maps an Option<&T> to an Option<T> by cloning the contents")
#[verifier::external_body]
pub fn opt_string_cloned(o: Option<&String>) -> (r: Option<String>)
    ensures (r is Some <==> o is Some), r is Some ==> r->Some_0@ == o->Some_0@,
{ o.cloned() }
/// R12: `$o.map($f)` on `Option<&Seed>` (core/src/option.rs: `Some(x) => Some(f(x))`, `None => None`); the closure
/// stays the repository's text and is checked against the `ensures` the rewrite gives it
pub fn opt_map_seed<F: FnOnce(&Seed) -> Vec<u8>>(o: Option<&Seed>, f: F) -> (r: Option<Vec<u8>>)
    requires o matches Some(s) ==> f.requires((s,)),
    ensures (r is Some <==> o is Some), o matches Some(s) ==> f.ensures((s,), r->Some_0),
{ match o { Some(s) => Some(f(s)), None => None } }
/// R12: `$s.to_vec()` on `&[u8]`
#[verifier::external_body]
pub fn vbytes_to_vec(s: &[u8]) -> (r: Vec<u8>)
    ensures r@ == s@,
{ s.to_vec() }
/// R12: `$x.to_le_bytes().to_vec()` on a `u64` (core: "Returns the memory representation of this integer as a
/// byte array in little-endian byte order")
#[verifier::external_body]
pub fn u64_le_vec(x: u64) -> (r: Vec<u8>)
    ensures r@ == le64(x),
{ x.to_le_bytes().to_vec() }

// ---- FolderEntity: PINNED SQL ---------------------------------------------------------
/// crates/database/src/entity/folder.rs:326 `FolderEntity<'conn, C>` (`conn: &'conn C`).  R19:
/// the stand-in does not keep the borrow; every function is handed the handle `h` whose state
/// it reads (`&H`) or changes (`&mut H`) as FIRST argument (the threading rewrite
/// `folder.f($args)` -> `folder.f(conn, $args)` quotes no argument).
#[verifier::external_body]
#[verifier::reject_recursive_types(C)]
pub struct FolderEntity<'conn, C> { _p: core::marker::PhantomData<&'conn C> }
impl<'conn, C> FolderEntity<'conn, C> {
    /// entity/folder.rs:465 `new`: stores the reference
    #[verifier::external_body]
    pub fn new(conn: &C) -> (r: FolderEntity<'conn, C>)
    { unimplemented!() }

    /// PINNED SQL (entity/folder.rs:484 `find_one` -> :469 `select_folder(true)` -> :18 `folder_select_columns`):
    ///   "SELECT folders.folder_id, folders.created_at, folders.modified_at, folders.identifier, folders.name,
    ///    folders.salt, folders.meta, folders.seed, folders.version, folders.cipher, folders.kdf, folders.flags
    ///    FROM folders WHERE identifier = ?1"          bound: [folder_id.to_string()]
    /// `query_row`: Err(QueryReturnedNoRows) when no row; the row -> `FolderRow` (:131 `TryFrom<&Row>`,
    /// column k -> k-th field, same order as the SELECT list)
    #[verifier::external_body]
    pub fn find_one<H: DbHandle>(&self, h: &H, folder_id: &VaultId) -> (r: StdResult<FolderRow, SqlError>)
        ensures
            r matches Ok(row) ==> has_folder(h.dbs(), uuid_text(folder_id.0@))
                && row.is_row(uuid_text(folder_id.0@), h.dbs().folders[uuid_text(folder_id.0@)]),
            !has_folder(h.dbs(), uuid_text(folder_id.0@)) ==> r is Err,
    { unimplemented!() }

    /// PINNED SQL (entity/folder.rs:494 `find_optional`): the query of `find_one`, `.optional()`:
    /// `Ok(None)` when no row matches
    #[verifier::external_body]
    pub fn find_optional<H: DbHandle>(&self, h: &H, folder_id: &VaultId) -> (r: StdResult<Option<FolderRow>, SqlError>)
        ensures
            r matches Ok(o) ==> (o is Some <==> has_folder(h.dbs(), uuid_text(folder_id.0@))),
            r matches Ok(Some(row)) ==> row.is_row(uuid_text(folder_id.0@), h.dbs().folders[uuid_text(folder_id.0@)]),
    { unimplemented!() }

    /// PINNED SQL (entity/folder.rs:592 `update_name`):
    ///   "UPDATE folders SET name = ?1, modified_at = ?2 WHERE identifier = ?3"
    ///   bound: (name, now as RFC 3339, folder_id.to_string());  the row count is NOT looked at
    #[verifier::external_body]
    pub fn update_name<H: DbHandle>(&self, h: &mut H, folder_id: &VaultId, name: &str) -> (r: Result<()>)
        ensures
            r is Ok ==> final(h).dbs() == sql_update_name(old(h).dbs(), uuid_text(folder_id.0@), name@, final(h).dbs().folders[uuid_text(folder_id.0@)].modified_at),
            r is Err ==> final(h).dbs() == old(h).dbs(),
    { unimplemented!() }

    /// PINNED SQL (entity/folder.rs:604 `update_flags`):
    ///   "UPDATE folders SET flags = ?1, modified_at = ?2 WHERE identifier = ?3"
    ///   bound: (flags.bits().to_le_bytes(), now, folder_id.to_string())
    #[verifier::external_body]
    pub fn update_flags<H: DbHandle>(&self, h: &mut H, folder_id: &VaultId, flags: &VaultFlags) -> (r: Result<()>)
        ensures
            r is Ok ==> final(h).dbs() == sql_update_flags(old(h).dbs(), uuid_text(folder_id.0@), le64(flags.b), final(h).dbs().folders[uuid_text(folder_id.0@)].modified_at),
            r is Err ==> final(h).dbs() == old(h).dbs(),
    { unimplemented!() }

    /// PINNED SQL (entity/folder.rs:621 `update_meta`):
    ///   "UPDATE folders SET meta = ?1, modified_at = ?2 WHERE identifier = ?3"
    ///   bound: (meta, now, folder_id.to_string())
    #[verifier::external_body]
    pub fn update_meta<H: DbHandle>(&self, h: &mut H, folder_id: &VaultId, meta: &[u8]) -> (r: Result<()>)
        ensures
            r is Ok ==> final(h).dbs() == sql_update_meta(old(h).dbs(), uuid_text(folder_id.0@), meta@, final(h).dbs().folders[uuid_text(folder_id.0@)].modified_at),
            r is Err ==> final(h).dbs() == old(h).dbs(),
    { unimplemented!() }

    /// PINNED SQL (entity/folder.rs:684 `update_folder`):
    ///   "UPDATE folders SET modified_at = ?1, identifier = ?2, name = ?3, salt = ?4, meta = ?5, seed = ?6,
    ///    version = ?7, cipher = ?8, kdf = ?9, flags = ?10 WHERE identifier=?11"
    ///   bound: the ten fields of `folder_row` in that order, folder_id.to_string().
    /// `identifier UNIQUE`: the statement fails when it would give the row the identifier of another row.
    #[verifier::external_body]
    pub fn update_folder<H: DbHandle>(&self, h: &mut H, folder_id: &VaultId, folder_row: &FolderRow) -> (r: StdResult<(), SqlError>)
        ensures
            r is Ok ==> !update_folder_conflict(old(h).dbs(), uuid_text(folder_id.0@), folder_row.cols())
                && final(h).dbs() == sql_update_folder(old(h).dbs(), uuid_text(folder_id.0@), folder_row.cols()),
            r is Err ==> final(h).dbs() == old(h).dbs(),
    { unimplemented!() }

    /// PINNED SQL (entity/folder.rs:751 `insert_secret_by_row_id`):
    ///   "INSERT INTO folder_secrets (folder_id, identifier, commit_hash, meta, secret, created_at, modified_at)
    ///    VALUES (?1, ?2, ?3, ?4, ?5, ?6, ?7)
    ///    ON CONFLICT (identifier) DO UPDATE SET folder_id=excluded.folder_id, commit_hash=excluded.commit_hash,
    ///    meta=excluded.meta, secret=excluded.secret, modified_at=excluded.modified_at"
    ///   bound: (folder_id, identifier, commit, meta, secret, created_at, modified_at) of `secret_row`.
    /// `folder_secrets.identifier` is UNIQUE over the WHOLE table (V1__base.sql:126), not per folder.
    #[verifier::external_body]
    pub fn insert_secret_by_row_id<H: DbHandle>(&self, h: &mut H, folder_id: i64, secret_row: &SecretRow) -> (r: StdResult<i64, SqlError>)
        ensures
            r is Ok ==> final(h).dbs() == sql_upsert_secret(old(h).dbs(), folder_id as int, secret_row.cols()),
            r is Err ==> final(h).dbs() == old(h).dbs(),
    { unimplemented!() }

    /// PINNED SQL (entity/folder.rs:786 `find_secret`): `find_one(folder_id)?` then
    ///   "SELECT secret_id, created_at, modified_at, identifier, commit_hash, meta, secret
    ///    FROM folder_secrets WHERE folder_id=?1 AND identifier=?2"      bound: (row.row_id, secret_id.to_string())
    /// `.optional()`; the row -> `SecretRow` (:278 `TryFrom<&Row>`, column k -> k-th field, same order as
    /// :37 `secret_select_columns`)
    #[verifier::external_body]
    pub fn find_secret<H: DbHandle>(&self, h: &H, folder_id: &VaultId, secret_id: &SecretId) -> (r: StdResult<Option<SecretRow>, SqlError>)
        ensures
            r is Ok ==> has_folder(h.dbs(), uuid_text(folder_id.0@)),
            r matches Ok(o) ==> (o is Some <==> secret_in(h.dbs(), rid_of(h.dbs(), uuid_text(folder_id.0@)), uuid_text(secret_id.0@))),
            r matches Ok(Some(row)) ==> ({ let s = h.dbs().secrets[uuid_text(secret_id.0@)];
                row.cols() == (SecretColsV { identifier: uuid_text(secret_id.0@), created_at: s.created_at, modified_at: s.modified_at, commit: s.commit, meta: s.meta, secret: s.secret }) }),
    { unimplemented!() }

    /// PINNED SQL (entity/folder.rs:806 `update_secret`): `find_one(folder_id)?` then
    ///   "UPDATE folder_secrets SET modified_at=?1, commit_hash=?2, meta=?3, secret=?4 WHERE folder_id=?5 AND identifier = ?6"
    ///   bound: (now, secret_row.commit, secret_row.meta, secret_row.secret, row.row_id, secret_row.identifier)
    /// `Ok(affected_rows > 0)`
    #[verifier::external_body]
    pub fn update_secret<H: DbHandle>(&self, h: &mut H, folder_id: &VaultId, secret_row: &SecretRow) -> (r: Result<bool>)
        ensures
            r is Ok ==> has_folder(old(h).dbs(), uuid_text(folder_id.0@)),
            r matches Ok(b) ==> ({ let db = old(h).dbs(); let rid = rid_of(db, uuid_text(folder_id.0@)); let c = secret_row.cols();
                b == secret_in(db, rid, c.identifier)
                && final(h).dbs() == sql_update_secret(db, rid, c.identifier, c.commit, c.meta, c.secret, final(h).dbs().secrets[c.identifier].modified_at) }),
            r is Err ==> final(h).dbs() == old(h).dbs(),
    { unimplemented!() }

    /// PINNED SQL (entity/folder.rs:898 `delete_secret`): `find_one(folder_id)?` then
    ///   "DELETE FROM folder_secrets WHERE folder_id = ?1 AND identifier = ?2"   bound: (row.row_id, secret_id.to_string())
    /// `Ok(affected_rows > 0)`
    #[verifier::external_body]
    pub fn delete_secret<H: DbHandle>(&self, h: &mut H, folder_id: &VaultId, secret_id: &SecretId) -> (r: StdResult<bool, SqlError>)
        ensures
            r is Ok ==> has_folder(old(h).dbs(), uuid_text(folder_id.0@)),
            r matches Ok(b) ==> ({ let db = old(h).dbs(); let rid = rid_of(db, uuid_text(folder_id.0@));
                b == secret_in(db, rid, uuid_text(secret_id.0@))
                && final(h).dbs() == sql_delete_secret(db, rid, uuid_text(secret_id.0@)) }),
            r is Err ==> final(h).dbs() == old(h).dbs(),
    { unimplemented!() }

    /// PINNED SQL (entity/folder.rs:915 `delete_all_secrets`):
    ///   "DELETE FROM folder_secrets WHERE folder_id = ?1"       bound: [folder_id]
    #[verifier::external_body]
    pub fn delete_all_secrets<H: DbHandle>(&self, h: &mut H, folder_id: i64) -> (r: StdResult<usize, SqlError>)
        ensures
            r is Ok ==> final(h).dbs() == sql_delete_all_secrets(old(h).dbs(), folder_id as int),
            r is Err ==> final(h).dbs() == old(h).dbs(),
    { unimplemented!() }
}

/// R12: `vault.iter()` (crates/vault/src/vault.rs:800 = `self.contents.data.iter()`, indexmap 2.12.0
/// `IndexMap::iter`: "Return an iterator over the key-value pairs of the map, in their order")
#[verifier::external_body]
pub fn vault_entries(vault: &Vault) -> (r: Vec<(&Uuid, &VaultCommit)>)
    ensures r@.len() == vault@.secrets.len(),
        forall|i: int| 0 <= i < r@.len() ==> (#[trigger] r@[i]).0.0@ == vault@.secrets[i].0 && (*r@[i].1)@ == vault@.secrets[i].1,
        // a key is a `Uuid`: 16 bytes
        forall|i: int| 0 <= i < vault@.secrets.len() ==> (#[trigger] vault@.secrets[i]).0.len() == 16,
{ unimplemented!() }
