// ===========================================================================
// prelude/archive_dbtop.rs — database archive stand-ins that name extracted
// types (CommitHash, ManifestVersion3, AccountId); included at the TOP LEVEL of
// units/archive.vrs.  Every `external_body` / `uninterp` below is an ASSUMPTION.
// ===========================================================================

impl ManifestJson for ManifestVersion3 {
    uninterp spec fn from_json(b: Seq<u8>) -> Option<ManifestVersion3>;
}

/// R12: `$a != $b` for `$a, $b: CommitHash` — the derived `PartialEq`
/// (crates/core/src/commit/proof.rs:12): equality of the 32 bytes.
#[verifier::external_body]
pub fn commit_hash_ne(a: &CommitHash, b: &CommitHash) -> (r: bool)
    ensures r == (a.0@ != b.0@),
{ unimplemented!() }
#[verifier::external_body]
pub fn commit_hash_eq(a: &CommitHash, b: &CommitHash) -> (r: bool)
    ensures r == (a.0@ == b.0@),
{ unimplemented!() }

/// sos_core::ExternalFile (crates/core/src/file.rs): opaque here
#[verifier::external_body]
pub struct ExternalFile { _p: () }

impl Clone for Paths {
    #[verifier::external_body]
    fn clone(&self) -> (r: Self)
        ensures r == *self,
    { unimplemented!() }
}

/// crates/database/src/archive/error.rs `Error`: the variants `start` constructs and the `#[from]`
/// conversions its `?` sites use.
pub enum DbArchiveError {
    ArchiveFileExists(PathBuf),
    ArchiveFileNotExists(PathBuf),
    InvalidArchiveManifest(PathBuf),
    NoDatabaseFile(PathBuf, String),
    ImportSourceNotExists(AccountId),
    ImportTargetExists(AccountId),
    DatabaseChecksum(CommitHash, CommitHash),
    Json(JsonError),
    Core(CoreError),
    Vault(VaultError),
    TryFromSlice(TryFromSliceError),
    Io(Error),
    ZipArchive(ZipError),
    Rusqlite(SqliteError),
}
pub type DbArchiveResult<T> = core::result::Result<T, DbArchiveError>;
#[verifier::external]
impl core::fmt::Debug for DbArchiveError {
    fn fmt(&self, f: &mut core::fmt::Formatter<'_>) -> core::fmt::Result { f.write_str("DbArchiveError") }
}
impl FromSpecImpl<TryFromSliceError> for DbArchiveError {
    open spec fn obeys_from_spec() -> bool { true }
    open spec fn from_spec(e: TryFromSliceError) -> DbArchiveError { DbArchiveError::TryFromSlice(e) }
}
impl From<TryFromSliceError> for DbArchiveError { fn from(e: TryFromSliceError) -> (r: DbArchiveError) { DbArchiveError::TryFromSlice(e) } }
impl FromSpecImpl<Error> for DbArchiveError {
    open spec fn obeys_from_spec() -> bool { true }
    open spec fn from_spec(e: Error) -> DbArchiveError { DbArchiveError::Io(e) }
}
impl From<Error> for DbArchiveError { fn from(e: Error) -> (r: DbArchiveError) { DbArchiveError::Io(e) } }
impl FromSpecImpl<ZipError> for DbArchiveError {
    open spec fn obeys_from_spec() -> bool { true }
    open spec fn from_spec(e: ZipError) -> DbArchiveError { DbArchiveError::ZipArchive(e) }
}
impl From<ZipError> for DbArchiveError { fn from(e: ZipError) -> (r: DbArchiveError) { DbArchiveError::ZipArchive(e) } }
impl FromSpecImpl<SqliteError> for DbArchiveError {
    open spec fn obeys_from_spec() -> bool { true }
    open spec fn from_spec(e: SqliteError) -> DbArchiveError { DbArchiveError::Rusqlite(e) }
}
impl From<SqliteError> for DbArchiveError { fn from(e: SqliteError) -> (r: DbArchiveError) { DbArchiveError::Rusqlite(e) } }

/// crates/database/src/archive/import.rs:410 `find_blobs` — NOT under contract (zip entry
/// iteration, `sanitize_file_path`, OsStr components).  Read-only on the archive (`&ZipReader`);
/// nothing is assumed about its result.
#[verifier::external_body]
pub fn find_blobs(reader: &ZipReader<BufReader<File>>) -> (r: DbArchiveResult<HashMap<AccountId, Vec<ExternalFile>>>)
{ unimplemented!() }
