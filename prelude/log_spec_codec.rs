// ===========================================================================
// prelude/log_spec_codec.rs — SPECIFICATION text shared by units `stream` and
// `log` (no assumption in this file: spec fns and proved lemmas only).
// The encoding functions of UtcDateTime and EventRecord are COPIED from
// units/codec.vrs, where the real encoders/decoders are proved equal to them
// (labels encode_writes_exactly_enc_fn / decode_accepts_exactly_dec_fn of
// `impl Encodable/Decodable for UtcDateTime / EventRecord`).  Included at top
// level of the unit (after `use pre::*`).
// ===========================================================================

// ---- copied from units/codec.vrs (UtcDateTime) ---------------------------------
pub open spec fn valid_UtcDateTime(t: Instant) -> bool { instant_wf(t) }
pub open spec fn enc_UtcDateTime(t: Instant) -> Seq<u8> { le64((t.secs as i64) as u64) + le32(t.nanos as u32) }
/// the decoder accepts any u32 of nanoseconds and folds whole seconds into the result
pub open spec fn dec_UtcDateTime(s: Seq<u8>) -> Option<(Instant, Seq<u8>)> {
    match r_i64(s) {
        None => None,
        Some((secs, t)) => match r_u32(t) {
            None => None,
            Some((nanos, u)) => if TS_MIN <= secs <= TS_MAX && instant_wf(instant_add(Instant { secs: secs as int, nanos: 0 }, nanos as int)) {
                Some((instant_add(Instant { secs: secs as int, nanos: 0 }, nanos as int), u))
            } else { None },
        },
    }
}
pub proof fn lemma_roundtrip_UtcDateTime(t: Instant, rest: Seq<u8>)
    requires valid_UtcDateTime(t),
    ensures dec_UtcDateTime(enc_UtcDateTime(t) + rest) == Some((t, rest)),
{
    lemma_le64((t.secs as i64) as u64);
    lemma_le32(t.nanos as u32);
    assert(enc_UtcDateTime(t) + rest =~= le64((t.secs as i64) as u64) + (le32(t.nanos as u32) + rest));
    let x: i64 = t.secs as i64;
    assert((x as u64) as i64 == x) by(bit_vector);
}

// ---- copied from units/codec.vrs (length-prefixed bytes, EventRecord) ------------
pub open spec fn enc_bytes32(b: Seq<u8>) -> Seq<u8> { le32(b.len() as u32) + b }
pub open spec fn r_bytes32(s: Seq<u8>) -> Option<(Seq<u8>, Seq<u8>)> {
    match r_u32(s) { None => None, Some((n, t)) => r_bytes(t, n as nat) }
}
pub proof fn lemma_roundtrip_bytes32(b: Seq<u8>, rest: Seq<u8>)
    requires b.len() <= MAX_BUFFER_SIZE,
    ensures r_bytes32(enc_bytes32(b) + rest) == Some((b, rest)),
{
    lemma_le32(b.len() as u32);
    assert(enc_bytes32(b) + rest =~= le32(b.len() as u32) + (b + rest));
}
pub ghost struct EventRecordV { pub time: Instant, pub last_commit: Seq<u8>, pub commit: Seq<u8>, pub event: Seq<u8> }
pub open spec fn valid_EventRecord(v: EventRecordV) -> bool {
    valid_UtcDateTime(v.time) && v.last_commit.len() == 32 && v.commit.len() == 32 && v.event.len() <= MAX_BUFFER_SIZE
}
/// row body: time, previous commit, commit, u32 length, event bytes
pub open spec fn enc_EventRecord_body(v: EventRecordV) -> Seq<u8> {
    enc_UtcDateTime(v.time) + v.last_commit + v.commit + le32(v.event.len() as u32) + v.event
}
/// a row is  u32 body length | body | u32 body length  (double-ended iteration)
pub open spec fn enc_EventRecord(v: EventRecordV) -> Seq<u8> {
    le32(enc_EventRecord_body(v).len() as u32) + enc_EventRecord_body(v) + le32(enc_EventRecord_body(v).len() as u32)
}
pub open spec fn dec_EventRecord(s: Seq<u8>) -> Option<(EventRecordV, Seq<u8>)> {
    match r_u32(s) { None => None, Some((_l1, t0)) =>
    match dec_UtcDateTime(t0) { None => None, Some((time, t1)) =>
    match r_bytes(t1, 32) { None => None, Some((prev, t2)) =>
    match r_bytes(t2, 32) { None => None, Some((commit, t3)) =>
    match r_bytes32(t3) { None => None, Some((ev, t4)) =>
    match r_u32(t4) { None => None, Some((_l2, t5)) =>
        Some((EventRecordV { time: time, last_commit: prev, commit: commit, event: ev }, t5))
    }}}}}}
}
pub proof fn lemma_roundtrip_EventRecord(v: EventRecordV, rest: Seq<u8>)
    requires valid_EventRecord(v),
    ensures dec_EventRecord(enc_EventRecord(v) + rest) == Some((v, rest)),
{
    let n = enc_EventRecord_body(v).len() as u32;
    lemma_le32(n);
    let tail = le32(n) + rest;
    let b4 = enc_bytes32(v.event) + tail;
    let b3 = v.commit + b4;
    let b2 = v.last_commit + b3;
    let b1 = enc_UtcDateTime(v.time) + b2;
    assert(enc_EventRecord(v) + rest =~= le32(n) + b1);
    lemma_roundtrip_UtcDateTime(v.time, b2);
    lemma_roundtrip_bytes32(v.event, tail);
}

// ---- the part of a row that `EventLogRecord::decode` reads: time, last commit, commit
pub ghost struct ElrV { pub time: Instant, pub last_commit: Seq<u8>, pub commit: Seq<u8> }
pub open spec fn dec_EventLogRecord(s: Seq<u8>) -> Option<(ElrV, Seq<u8>)> {
    match dec_UtcDateTime(s) { None => None, Some((time, t1)) =>
    match r_bytes(t1, 32) { None => None, Some((prev, t2)) =>
    match r_bytes(t2, 32) { None => None, Some((commit, t3)) =>
        Some((ElrV { time: time, last_commit: prev, commit: commit }, t3))
    }}}
}
