// ===========================================================================
// prelude/archive_restore.rs — stand-ins for the restore half of the file-system
// archive import (unit `archive`); included at the TOP LEVEL of units/archive.vrs
// after the extraction of PublicIdentity / RestoreTargets.
// Every `external_body` and `uninterp spec fn` below is an ASSUMPTION.
// ===========================================================================

// ---- restoring an account from verified targets (import_archive_reader and its helpers) ---------------
impl Paths {
    pub uninterp spec fn identity_vault_spec(&self) -> Seq<char>;
    pub uninterp spec fn identity_events_spec(&self) -> Seq<char>;
    pub uninterp spec fn vaults_dir_spec(&self) -> Seq<char>;
    pub uninterp spec fn vault_path_spec(&self, id: VaultId) -> Seq<char>;
    pub uninterp spec fn event_log_path_spec(&self, id: VaultId) -> Seq<char>;
    pub uninterp spec fn account_events_spec(&self) -> Seq<char>;
    pub uninterp spec fn device_file_spec(&self) -> Seq<char>;
    pub uninterp spec fn device_events_spec(&self) -> Seq<char>;
    pub uninterp spec fn file_events_spec(&self) -> Seq<char>;
    pub uninterp spec fn preferences_file_spec(&self) -> Seq<char>;
    pub uninterp spec fn remote_origins_spec(&self) -> Seq<char>;

    // crates/core/src/paths.rs:402-512 — each of these starts with `assert!(!self.is_global(), ..)`
    #[verifier::external_body]
    pub fn identity_vault(&self) -> (r: PathBuf)
        requires !self.is_global_spec(), /*@PL:paths_not_global*/
        ensures r@ == self.identity_vault_spec(),
    { unimplemented!() }
    #[verifier::external_body]
    pub fn identity_events(&self) -> (r: PathBuf)
        requires !self.is_global_spec(), /*@PL:paths_not_global*/
        ensures r@ == self.identity_events_spec(),
    { unimplemented!() }
    #[verifier::external_body]
    pub fn vaults_dir(&self) -> (r: &PathBuf)
        requires !self.is_global_spec(), /*@PL:paths_not_global*/
        ensures r@ == self.vaults_dir_spec(),
    { unimplemented!() }
    #[verifier::external_body]
    pub fn vault_path(&self, id: &VaultId) -> (r: PathBuf)
        requires !self.is_global_spec(), /*@PL:paths_not_global*/
        ensures r@ == self.vault_path_spec(*id),
    { unimplemented!() }
    #[verifier::external_body]
    pub fn event_log_path(&self, id: &VaultId) -> (r: PathBuf)
        requires !self.is_global_spec(), /*@PL:paths_not_global*/
        ensures r@ == self.event_log_path_spec(*id),
    { unimplemented!() }
    #[verifier::external_body]
    pub fn account_events(&self) -> (r: PathBuf)
        requires !self.is_global_spec(), /*@PL:paths_not_global*/
        ensures r@ == self.account_events_spec(),
    { unimplemented!() }
    #[verifier::external_body]
    pub fn device_file(&self) -> (r: &PathBuf)
        requires !self.is_global_spec(), /*@PL:paths_not_global*/
        ensures r@ == self.device_file_spec(),
    { unimplemented!() }
    #[verifier::external_body]
    pub fn device_events(&self) -> (r: PathBuf)
        requires !self.is_global_spec(), /*@PL:paths_not_global*/
        ensures r@ == self.device_events_spec(),
    { unimplemented!() }
    #[verifier::external_body]
    pub fn file_events(&self) -> (r: PathBuf)
        requires !self.is_global_spec(), /*@PL:paths_not_global*/
        ensures r@ == self.file_events_spec(),
    { unimplemented!() }
    /// paths.rs:331 `preferences_file`: no assertion (handles the global case)
    #[verifier::external_body]
    pub fn preferences_file(&self) -> (r: PathBuf)
        ensures r@ == self.preferences_file_spec(),
    { unimplemented!() }
    #[verifier::external_body]
    pub fn remote_origins(&self) -> (r: PathBuf)
        requires !self.is_global_spec(), /*@PL:paths_not_global*/
        ensures r@ == self.remote_origins_spec(),
    { unimplemented!() }
}

/// the derived `PartialEq` of AccountId (crates/core/src/account.rs:10): the 20 bytes
impl EqStd for &AccountId { open spec fn eq_std_spec(self, other: &AccountId) -> bool { self.0@ == other.0@ } }
#[verifier::external]
impl PartialEq for AccountId { fn eq(&self, other: &Self) -> bool { self.0 == other.0 } }

impl Summary {
    /// crates/vault/src/vault.rs `Summary::name`
    #[verifier::external_body]
    pub fn name(&self) -> (r: &str) { unimplemented!() }
}
impl Vault {
    /// crates/vault/src/vault.rs `Vault::id` (= `self.header.summary.id`)
    pub uninterp spec fn id_spec(&self) -> VaultId;
    #[verifier::external_body]
    pub fn id(&self) -> (r: &VaultId)
        ensures *r == self.id_spec(),
    { unimplemented!() }
}
impl Clone for Vault {
    #[verifier::external_body]
    fn clone(&self) -> (r: Self)
        ensures r == *self,
    { unimplemented!() }
}

/// sos_vault::list_accounts (crates/vault/src/lib.rs:33): lists the identity directory and reads
/// the public identity out of every identity vault; READ-ONLY on the file system (`&Fs`).
#[verifier::external_body]
pub fn list_accounts(fs: &Fs, paths: Option<&Paths>) -> (r: VaultResult<Vec<PublicIdentity>>)
{ unimplemented!() }

/// sos_core::events::WriteEvent / EventLogType: only passed through here
#[verifier::external_body]
pub struct WriteEvent { _p: () }
pub enum EventLogType { Identity, Account, Device, Files, Folder(VaultId) }

/// sos_reducers::FolderReducer::split (crates/reducers/src/folder.rs; under contract in unit fold, C02):
/// a pure function of the vault
pub struct FolderReducer { pub _p: () }
impl FolderReducer {
    #[verifier::external_body]
    pub fn split<E>(vault: Vault) -> (r: core::result::Result<(Vault, Vec<WriteEvent>), E>)
    { unimplemented!() }
}

/// sos_filesystem::FolderEventLog<E> (crates/filesystem/src/event_log.rs; under contract in unit log, C06):
/// `new_folder(path, ..)` creates / opens the log file at `path`, `apply` appends records to THAT file.
/// Assumed here: both touch no regular file other than the log's own path (frame only).
#[verifier::external_body]
#[verifier::reject_recursive_types(E)]
pub struct FolderEventLog<E> { _e: core::marker::PhantomData<E> }
impl<E> FolderEventLog<E> {
    pub uninterp spec fn path_spec(&self) -> Seq<char>;
    #[verifier::external_body]
    pub fn new_folder(fs: &mut Fs, path: PathBuf, account_id: AccountId, log_type: EventLogType) -> (r: core::result::Result<Self, E>)
        ensures
            files_same_except(old(fs)@, final(fs)@, path@), final(fs)@.dirs == old(fs)@.dirs,
            r matches Ok(l) ==> l.path_spec() == path@,
    { unimplemented!() }
    #[verifier::external_body]
    pub fn apply(&mut self, fs: &mut Fs, events: &[WriteEvent]) -> (r: core::result::Result<(), E>)
        ensures
            files_same_except(old(fs)@, final(fs)@, old(self).path_spec()), final(fs)@.dirs == old(fs)@.dirs,
            final(self).path_spec() == old(self).path_spec(),
    { unimplemented!() }
}
/// sos_filesystem::VaultFileWriter<E> (crates/filesystem/src/vault_writer.rs; under contract in unit
/// vaultfile): `set_vault_name` rewrites the header of the vault file it was created for.  Frame only.
#[verifier::external_body]
#[verifier::reject_recursive_types(E)]
pub struct VaultFileWriter<E> { _e: core::marker::PhantomData<E> }
impl<E> VaultFileWriter<E> {
    pub uninterp spec fn path_spec(&self) -> Seq<char>;
    #[verifier::external_body]
    pub fn new(path: PathBuf) -> (r: Self)
        ensures r.path_spec() == path@,
    { unimplemented!() }
    #[verifier::external_body]
    pub fn set_vault_name(&mut self, fs: &mut Fs, name: String) -> (r: core::result::Result<WriteEvent, E>)
        ensures
            files_same_except(old(fs)@, final(fs)@, old(self).path_spec()), final(fs)@.dirs == old(fs)@.dirs,
            final(self).path_spec() == old(self).path_spec(),
    { unimplemented!() }
}
