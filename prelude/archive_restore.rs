// ===========================================================================
// prelude/archive_restore.rs — stand-ins for the restore half of the file-system
// archive import (unit `archive`); included at the TOP LEVEL of units/archive.vrs
// after the extraction of PublicIdentity / RestoreTargets.
// Every `external_body` and `uninterp spec fn` below is an ASSUMPTION.
// ===========================================================================

// ---- restoring an account from verified targets (import_archive_reader and its helpers) ---------------
impl Paths {
    pub uninterp spec fn identity_vault_spec(&self) -> Seq<char>;
    pub uninterp spec fn identity_events_spec(&self) -> Seq<char>;
    pub uninterp spec fn vaults_dir_spec(&self) -> Seq<char>;
    pub uninterp spec fn vault_path_spec(&self, id: VaultId) -> Seq<char>;
    pub uninterp spec fn event_log_path_spec(&self, id: VaultId) -> Seq<char>;
    pub uninterp spec fn account_events_spec(&self) -> Seq<char>;
    pub uninterp spec fn device_file_spec(&self) -> Seq<char>;
    pub uninterp spec fn device_events_spec(&self) -> Seq<char>;
    pub uninterp spec fn file_events_spec(&self) -> Seq<char>;
    pub uninterp spec fn preferences_file_spec(&self) -> Seq<char>;
    pub uninterp spec fn remote_origins_spec(&self) -> Seq<char>;

    // crates/core/src/paths.rs:402-512 — each of these starts with `assert!(!self.is_global(), ..)`
    #[verifier::external_body]
    pub fn identity_vault(&self) -> (r: PathBuf)
        requires !self.is_global_spec(), /*@PL:paths_not_global*/
        ensures r@ == self.identity_vault_spec(),
    { unimplemented!() }
    #[verifier::external_body]
    pub fn identity_events(&self) -> (r: PathBuf)
        requires !self.is_global_spec(), /*@PL:paths_not_global*/
        ensures r@ == self.identity_events_spec(),
    { unimplemented!() }
    #[verifier::external_body]
    pub fn vaults_dir(&self) -> (r: &PathBuf)
        requires !self.is_global_spec(), /*@PL:paths_not_global*/
        ensures r@ == self.vaults_dir_spec(),
    { unimplemented!() }
    #[verifier::external_body]
    pub fn vault_path(&self, id: &VaultId) -> (r: PathBuf)
        requires !self.is_global_spec(), /*@PL:paths_not_global*/
        ensures r@ == self.vault_path_spec(*id),
    { unimplemented!() }
    #[verifier::external_body]
    pub fn event_log_path(&self, id: &VaultId) -> (r: PathBuf)
        requires !self.is_global_spec(), /*@PL:paths_not_global*/
        ensures r@ == self.event_log_path_spec(*id),
    { unimplemented!() }
    #[verifier::external_body]
    pub fn account_events(&self) -> (r: PathBuf)
        requires !self.is_global_spec(), /*@PL:paths_not_global*/
        ensures r@ == self.account_events_spec(),
    { unimplemented!() }
    #[verifier::external_body]
    pub fn device_file(&self) -> (r: &PathBuf)
        requires !self.is_global_spec(), /*@PL:paths_not_global*/
        ensures r@ == self.device_file_spec(),
    { unimplemented!() }
    #[verifier::external_body]
    pub fn device_events(&self) -> (r: PathBuf)
        requires !self.is_global_spec(), /*@PL:paths_not_global*/
        ensures r@ == self.device_events_spec(),
    { unimplemented!() }
    #[verifier::external_body]
    pub fn file_events(&self) -> (r: PathBuf)
        requires !self.is_global_spec(), /*@PL:paths_not_global*/
        ensures r@ == self.file_events_spec(),
    { unimplemented!() }
    /// paths.rs:331 `preferences_file`: no assertion (handles the global case)
    #[verifier::external_body]
    pub fn preferences_file(&self) -> (r: PathBuf)
        ensures r@ == self.preferences_file_spec(),
    { unimplemented!() }
    #[verifier::external_body]
    pub fn remote_origins(&self) -> (r: PathBuf)
        requires !self.is_global_spec(), /*@PL:paths_not_global*/
        ensures r@ == self.remote_origins_spec(),
    { unimplemented!() }
}

/// Assumption PATHS-LAYOUT (crates/core/src/paths.rs:85-125 `new_with_prefix`, 331-515 the accessors;
/// crates/core/src/constants.rs, read).  For a non-global `Paths` with documents directory D, prefix L
/// ("local" / "remote") and account id text A ("0x" + 40 hex digits):
///   identity_vault   = D/identity/A.vault          identity_events = D/identity/A.events
///   account_events   = D/L/A/account.events        device_file     = D/L/A/device.vault
///   device_events    = D/L/A/devices.events        file_events     = D/L/A/files.events
///   preferences_file = D/L/A/preferences.json      remote_origins  = D/L/A/servers.json
///   vault_path(id)   = D/L/A/vaults/<id>.vault     event_log_path(id) = D/L/A/vaults/<id>.events
/// (<id> = hyphenated lower-case hex of the Uuid: injective).  These are pairwise different paths, and
/// `vault_path` / `event_log_path` are injective in the folder id.  Stated as one classification
/// function: every one of these paths has exactly one slot.
pub enum PathSlot { IdentityVault, IdentityEvents, AccountEvents, DeviceFile, DeviceEvents, FileEvents, Preferences, Remotes, FolderVault(VaultId), FolderLog(VaultId), Other }
pub uninterp spec fn slot_of(p: &Paths, q: Seq<char>) -> PathSlot;
pub axiom fn axiom_paths_layout(p: &Paths)
    requires !p.is_global_spec(),
    ensures
        slot_of(p, p.identity_vault_spec()) == PathSlot::IdentityVault,
        slot_of(p, p.identity_events_spec()) == PathSlot::IdentityEvents,
        slot_of(p, p.account_events_spec()) == PathSlot::AccountEvents,
        slot_of(p, p.device_file_spec()) == PathSlot::DeviceFile,
        slot_of(p, p.device_events_spec()) == PathSlot::DeviceEvents,
        slot_of(p, p.file_events_spec()) == PathSlot::FileEvents,
        slot_of(p, p.preferences_file_spec()) == PathSlot::Preferences,
        slot_of(p, p.remote_origins_spec()) == PathSlot::Remotes,
        forall|id: VaultId| slot_of(p, #[trigger] p.vault_path_spec(id)) == PathSlot::FolderVault(id),
        forall|id: VaultId| slot_of(p, #[trigger] p.event_log_path_spec(id)) == PathSlot::FolderLog(id);

/// the derived `PartialEq` of AccountId (crates/core/src/account.rs:10): the 20 bytes
impl EqStd for &AccountId { open spec fn eq_std_spec(self, other: &AccountId) -> bool { self.0@ == other.0@ } }
#[verifier::external]
impl PartialEq for AccountId { fn eq(&self, other: &Self) -> bool { self.0 == other.0 } }

impl Summary {
    /// crates/vault/src/vault.rs `Summary::name` (= `&self.name`)
    pub uninterp spec fn name_spec(&self) -> Seq<char>;
    #[verifier::external_body]
    pub fn name(&self) -> (r: &str)
        ensures r@ == self.name_spec(),
    { unimplemented!() }
}
impl Vault {
    /// crates/vault/src/vault.rs `Vault::id` (= `self.header.summary.id`)
    pub uninterp spec fn id_spec(&self) -> VaultId;
    #[verifier::external_body]
    pub fn id(&self) -> (r: &VaultId)
        ensures *r == self.id_spec(),
    { unimplemented!() }
}
impl Clone for Vault {
    #[verifier::external_body]
    fn clone(&self) -> (r: Self)
        ensures r == *self,
    { unimplemented!() }
}

/// sos_vault::list_accounts (crates/vault/src/lib.rs:33): lists the identity directory and reads
/// the public identity out of every identity vault; READ-ONLY on the file system (`&Fs`).
#[verifier::external_body]
pub fn list_accounts(fs: &Fs, paths: Option<&Paths>) -> (r: VaultResult<Vec<PublicIdentity>>)
{ unimplemented!() }

/// sos_core::events::WriteEvent / EventLogType: only passed through here
#[verifier::external_body]
pub struct WriteEvent { _p: () }
pub enum EventLogType { Identity, Account, Device, Files, Folder(VaultId) }

/// sos_reducers::FolderReducer::split (crates/reducers/src/folder.rs; under contract in unit fold, C02):
/// a pure function of the vault
/// crates/reducers/src/folder.rs:47-61 (read): `events = [CreateVault(header-only vault)] ++ [CreateSecret(id, entry)
/// for (id, entry) in vault]` — a function of the vault (`split_spec`, None: `into_event` fails), never empty.
pub struct FolderReducer { pub _p: () }
impl FolderReducer {
    pub uninterp spec fn split_spec(vault: Vault) -> Option<Seq<WriteEvent>>;
    #[verifier::external_body]
    pub fn split<E>(vault: Vault) -> (r: core::result::Result<(Vault, Vec<WriteEvent>), E>)
        ensures r matches Ok(p) ==> Self::split_spec(vault) == Some(p.1@) && p.1@.len() > 0,
    { unimplemented!() }
}

/// sos_filesystem::FolderEventLog<E> (crates/filesystem/src/event_log.rs, read; under contract in unit log, C06).
/// `new_folder(path, ..)` (event_log.rs:708-736 + `initialize_event_log` 625-649): opens `path` with
///   create + write, no truncate; if the file is then EMPTY writes FOLDER_EVENT_LOG_IDENTITY (no version
///   bytes); checks the identity bytes; the handle starts with an EMPTY commit tree (`tree: Default::default()`,
///   the file is not scanned).  So after Ok the file holds `log_initialized(before, path)`.
/// `apply(events)` (event_log.rs:304-376): no events: Ok, nothing happens.  Otherwise every event is encoded to
///   a record (`EventRecord::encode_event`: time = the clock, commit = hash of the encoded event), the records
///   are chained from the handle's last commit (`tip_spec`, None for a fresh handle) and APPENDED to the file
///   (OpenOptions append, no create).  The clock makes the bytes a relation, not a function:
///   `log_appended(tip, before, events, after)` = "`after` is `before` followed by the record encodings of
///   `events` chained from `tip`, with some timestamps".  Err: only the log's own path may have changed.
/// Both touch no regular file other than the log's own path and no directory.
pub type LogTip = Option<Seq<u8>>;
pub uninterp spec fn folder_log_identity() -> Seq<u8>;
pub uninterp spec fn log_appended(tip: LogTip, before: Seq<u8>, events: Seq<WriteEvent>, after: Seq<u8>) -> bool;
/// the content of the log file at `p` after `initialize_event_log`
pub open spec fn log_initialized(f: FsV, p: Seq<char>) -> Seq<u8> {
    if f.files.contains_key(p) && f.files[p].len() > 0 { f.files[p] } else { folder_log_identity() }
}
#[verifier::external_body]
#[verifier::reject_recursive_types(E)]
pub struct FolderEventLog<E> { _e: core::marker::PhantomData<E> }
impl<E> FolderEventLog<E> {
    pub uninterp spec fn path_spec(&self) -> Seq<char>;
    /// last commit of the handle's in-memory tree
    pub uninterp spec fn tip_spec(&self) -> LogTip;
    #[verifier::external_body]
    pub fn new_folder(fs: &mut Fs, path: PathBuf, account_id: AccountId, log_type: EventLogType) -> (r: core::result::Result<Self, E>)
        ensures
            files_same_except(old(fs)@, final(fs)@, path@), final(fs)@.dirs == old(fs)@.dirs,
            r matches Ok(l) ==> l.path_spec() == path@ && l.tip_spec() is None
                && final(fs)@.files.contains_key(path@) && final(fs)@.files[path@] == log_initialized(old(fs)@, path@),
    { unimplemented!() }
    #[verifier::external_body]
    pub fn apply(&mut self, fs: &mut Fs, events: &[WriteEvent]) -> (r: core::result::Result<(), E>)
        ensures
            files_same_except(old(fs)@, final(fs)@, old(self).path_spec()), final(fs)@.dirs == old(fs)@.dirs,
            final(self).path_spec() == old(self).path_spec(),
            r is Ok && events@.len() == 0 ==> final(fs)@ == old(fs)@ && final(self).tip_spec() == old(self).tip_spec(),
            r is Ok && events@.len() > 0 ==> old(fs)@.files.contains_key(old(self).path_spec()) && final(fs)@.files.contains_key(old(self).path_spec())
                && log_appended(old(self).tip_spec(), old(fs)@.files[old(self).path_spec()], events@, final(fs)@.files[old(self).path_spec()]),
    { unimplemented!() }
}
/// sos_filesystem::VaultFileWriter<E> (crates/filesystem/src/vault_writer.rs, read; under contract in unit
/// vaultfile): `set_vault_name` (vault_writer.rs:214-223) checks the identity bytes, reads the header of the
/// vault file it was created for, sets the name and writes the header back in front of the unchanged content:
/// the new file is a function (`vault_renamed`) of the old file and the name.  Err: only that path may change.
#[verifier::external_body]
#[verifier::reject_recursive_types(E)]
pub struct VaultFileWriter<E> { _e: core::marker::PhantomData<E> }
impl<E> VaultFileWriter<E> {
    pub uninterp spec fn path_spec(&self) -> Seq<char>;
    #[verifier::external_body]
    pub fn new(path: PathBuf) -> (r: Self)
        ensures r.path_spec() == path@,
    { unimplemented!() }
    #[verifier::external_body]
    pub fn set_vault_name(&mut self, fs: &mut Fs, name: String) -> (r: core::result::Result<WriteEvent, E>)
        ensures
            files_same_except(old(fs)@, final(fs)@, old(self).path_spec()), final(fs)@.dirs == old(fs)@.dirs,
            final(self).path_spec() == old(self).path_spec(),
            r is Ok ==> old(fs)@.files.contains_key(old(self).path_spec()) && final(fs)@.files.contains_key(old(self).path_spec())
                && final(fs)@.files[old(self).path_spec()] == vault_renamed(old(fs)@.files[old(self).path_spec()], name@),
    { unimplemented!() }
}
pub uninterp spec fn vault_renamed(before: Seq<u8>, name: Seq<char>) -> Seq<u8>;
