// ===========================================================================
// prelude/files_server.rs — stand-ins for the server-side glue around the
// inner `handlers::receive_file` (crates/server/src/handlers/files.rs) and for
// `sos_core::Paths`.  Included at the TOP LEVEL of units/files.vrs after the
// extraction of `ExternalFileName` (it names that type).
// The account lookup (`backend.read() .. accounts.get(..)`) and the `Caller`
// typestate are under contract in unit `auth` (C11); here they carry just
// enough specification to NAME the account's `Paths` in the contract.
// Every `external_body` and `uninterp spec fn` below is an ASSUMPTION.
// ===========================================================================

/// R9: tokio::sync::RwLock<T> reached through Arc: `read()` gives `&T`
/// (no other task changes the value while the function runs).
#[verifier::external_body]
#[verifier::reject_recursive_types(T)]
pub struct RwLock<T> { _t: core::marker::PhantomData<T> }
impl<T> RwLock<T> {
    pub uninterp spec fn val(&self) -> T;
    #[verifier::external_body]
    pub fn read(&self) -> (r: &T)
        ensures *r == self.val(),
    { unimplemented!() }
}

/// std::collections::HashMap<K, V> — `get` / `contains_key` (std meaning: lookup)
#[verifier::external_body]
#[verifier::reject_recursive_types(K)]
#[verifier::reject_recursive_types(V)]
pub struct HashMap<K, V> { _k: Vec<K>, _v: Vec<V> }
impl<K, V> View for HashMap<K, V> {
    type V = Map<K, V>;
    uninterp spec fn view(&self) -> Map<K, V>;
}
impl<K, V> HashMap<K, V> {
    #[verifier::external_body]
    pub fn get(&self, k: &K) -> (r: Option<&V>)
        ensures
            r.is_some() <==> self@.contains_key(*k),
            r.is_some() ==> *r.unwrap() == self@[*k],
    { unimplemented!() }
    #[verifier::external_body]
    pub fn contains_key(&self, k: &K) -> (r: bool)
        ensures r == self@.contains_key(*k),
    { unimplemented!() }
}

/// sos_core::Paths (crates/core/src/paths.rs:184-244, read):
///   into_file_folder_path(f)      = into_files_dir().join(f.to_string())
///   into_file_secret_path(f, s)   = into_file_folder_path(f).join(s.to_string())
///   into_file_path_parts(f, s, n) = into_file_secret_path(f, s).join(n.to_string())
/// and `ExternalFileName::to_string()` is `hex::encode(self.0)` (Display, under
/// contract below).  The directory of a secret is uninterpreted.
#[verifier::external_body]
pub struct Paths { _p: () }
impl Paths {
    pub uninterp spec fn secret_dir(&self, folder_id: VaultId, secret_id: SecretId) -> Seq<char>;

    #[verifier::external_body]
    pub fn into_file_secret_path(&self, folder_id: &VaultId, secret_id: &SecretId) -> (r: PathBuf)
        ensures r@ == self.secret_dir(*folder_id, *secret_id),
    { unimplemented!() }

    #[verifier::external_body]
    pub fn into_file_path_parts(&self, folder_id: &VaultId, secret_id: &SecretId, file_name: &ExternalFileName) -> (r: PathBuf)
        ensures r@ == path_join(self.secret_dir(*folder_id, *secret_id), file_name.display_spec()),
    { unimplemented!() }
}

/// sos_core::AccountId (crates/core/src/account.rs:14): 20 bytes, Copy
#[derive(Clone, Copy)]
pub struct AccountId(pub [u8; 20]);

/// sos_server_storage::ServerStorage: only `paths()` (traits.rs:27)
#[verifier::external_body]
pub struct ServerStorage { _p: () }
impl ServerStorage {
    pub uninterp spec fn paths_spec(&self) -> Paths;
    #[verifier::external_body]
    pub fn paths(&self) -> (r: Arc<Paths>)
        ensures *r == self.paths_spec(),
    { unimplemented!() }
}
pub type ServerAccount = Arc<RwLock<ServerStorage>>;
pub type Accounts = Arc<RwLock<HashMap<AccountId, ServerAccount>>>;

/// crates/server/src/backend.rs `Backend`: only `accounts()`
#[verifier::external_body]
pub struct Backend { _p: () }
impl Backend {
    pub uninterp spec fn accounts_spec(&self) -> Accounts;
    /// `Arc::clone(&self.accounts)` (backend.rs:48)
    #[verifier::external_body]
    pub fn accounts(&self) -> (r: Accounts)
        ensures r == self.accounts_spec(),
    { unimplemented!() }
}
pub type ServerBackend = Arc<RwLock<Backend>>;
#[verifier::external_body]
pub struct State { _p: () }
pub type ServerState = Arc<RwLock<State>>;

/// crates/server/src/handlers/mod.rs `Caller` (under contract in unit auth)
#[verifier::external_body]
pub struct Caller { _p: () }
impl Caller {
    pub uninterp spec fn account_id_spec(&self) -> AccountId;
    #[verifier::external_body]
    pub fn account_id(&self) -> (r: &AccountId)
        ensures *r == self.account_id_spec(),
    { unimplemented!() }
}

/// http::StatusCode
#[derive(Debug, PartialEq, Eq)]
pub struct StatusCode(pub u16);
/// http-1.x src/status.rs: the associated constants (canonical codes)
impl StatusCode {
    pub const OK: StatusCode = StatusCode(200);
    pub const CREATED: StatusCode = StatusCode(201);
    pub const ACCEPTED: StatusCode = StatusCode(202);
    pub const NO_CONTENT: StatusCode = StatusCode(204);
    pub const NOT_MODIFIED: StatusCode = StatusCode(304);
    pub const BAD_REQUEST: StatusCode = StatusCode(400);
    pub const UNAUTHORIZED: StatusCode = StatusCode(401);
    pub const FORBIDDEN: StatusCode = StatusCode(403);
    pub const NOT_FOUND: StatusCode = StatusCode(404);
    pub const CONFLICT: StatusCode = StatusCode(409);
    pub const INTERNAL_SERVER_ERROR: StatusCode = StatusCode(500);
}

#[derive(Debug)]
pub struct AxumError { pub _p: () }

/// crates/server/src/error.rs `Error`: the variants `receive_file` constructs
/// and the `#[from]` conversions its `?` sites use.
pub enum ServerError {
    Status(StatusCode),
    Unauthorized,
    BadRequest,
    Forbidden,
    Conflict,
    NotFile(PathBuf),
    FileExists(PathBuf),
    NoAccount(AccountId),
    AccountExists(AccountId),
    FileChecksumMismatch(String, String),
    WebServer(AxumError),
    Io(Error),
}
pub type ServerResult<T> = core::result::Result<T, ServerError>;
#[verifier::external]
impl core::fmt::Debug for ServerError {
    fn fmt(&self, f: &mut core::fmt::Formatter<'_>) -> core::fmt::Result { f.write_str("ServerError") }
}
impl FromSpecImpl<Error> for ServerError {
    open spec fn obeys_from_spec() -> bool { true }
    open spec fn from_spec(e: Error) -> ServerError { ServerError::Io(e) }
}
impl From<Error> for ServerError { fn from(e: Error) -> (r: ServerError) { ServerError::Io(e) } }
impl FromSpecImpl<AxumError> for ServerError {
    open spec fn obeys_from_spec() -> bool { true }
    open spec fn from_spec(e: AxumError) -> ServerError { ServerError::WebServer(e) }
}
impl From<AxumError> for ServerError { fn from(e: AxumError) -> (r: ServerError) { ServerError::WebServer(e) } }

/// axum::body::Body (axum-core-0.5.5 src/body.rs): the request body.  Its view
/// is the complete byte content the client sent; `into_data_stream()` yields
/// it as a sequence of data frames (chunks), an uninterpreted chunking whose
/// concatenation is the body.
#[verifier::external_body]
pub struct Body { _p: () }
impl View for Body {
    type V = Seq<u8>;
    uninterp spec fn view(&self) -> Seq<u8>;
}
/// axum BodyDataStream with futures `TryStreamExt::try_next`: a ghost sequence
/// of chunks with a cursor.  Err (transport error, body limit) may occur at
/// any time.
#[verifier::external_body]
pub struct BodyDataStream { _p: () }
impl View for BodyDataStream {
    type V = ChunksV;
    uninterp spec fn view(&self) -> ChunksV;
}
impl Body {
    #[verifier::external_body]
    pub fn into_data_stream(self) -> (r: BodyDataStream)
        ensures r@.pos == 0, concat(r@.chunks) == self@,
    { unimplemented!() }
}
impl BodyDataStream {
    #[verifier::external_body]
    pub fn try_next(&mut self) -> (r: core::result::Result<Option<Bytes>, AxumError>)
        requires old(self)@.pos <= old(self)@.chunks.len(),
        ensures
            final(self)@.chunks == old(self)@.chunks,
            final(self)@.pos <= final(self)@.chunks.len(),
            r matches Ok(None) ==> old(self)@.pos == old(self)@.chunks.len() && final(self)@.pos == old(self)@.pos,
            r matches Ok(Some(c)) ==> old(self)@.pos < old(self)@.chunks.len()
                && c@ == old(self)@.chunks[old(self)@.pos as int]
                && final(self)@.pos == old(self)@.pos + 1,
    { unimplemented!() }
}
